//! Schedule-controlled rayon stand-in (see Cargo.toml description).
//!
//! Model of a rayon schedule: a parallel iterator over n items is split into at most
//! `blocks()` contiguous blocks (rayon splits index ranges recursively; leaves run
//! sequentially in index order); the blocks are executed in an arbitrary order, which
//! is a legal rayon schedule (one worker stealing the leaves in that order) and -
//! because the closures only get disjoint `&mut` data or shared `&` data (Rust's
//! `Send`/`Sync` rules; the checked crates contain no interior mutability in these
//! paths, which the C14 check re-scans) - represents every concurrent execution with
//! the same leaf set.  Reductions combine the per-block partial results in index order
//! with an arbitrary bracketing (rayon guarantees order but not tree shape).  Every
//! such decision goes through `sched::choose`, so an explorer can enumerate them.
#![allow(clippy::all)]

pub mod sched {
    use std::cell::RefCell;
    #[derive(Default)]
    pub struct State {
        pub enabled: bool,
        pub prefix: Vec<u32>,
        pub trace: Vec<(u32, u32)>, // (chosen, number of options)
        pub threads: usize,
        pub blocks: usize,
        pub diverged: bool,
    }
    thread_local! {
        pub static ST: RefCell<State> = RefCell::new(State { enabled: false, prefix: vec![], trace: vec![], threads: 1, blocks: 4, diverged: false });
    }
    /// pick one of `n` options (0 = the default, in-order / left-to-right schedule)
    pub fn choose(n: usize) -> usize {
        if n <= 1 {
            return 0;
        }
        ST.with(|s| {
            let mut s = s.borrow_mut();
            if !s.enabled {
                return 0;
            }
            let pos = s.trace.len();
            let c = if pos < s.prefix.len() {
                let c = s.prefix[pos] as usize;
                if c >= n {
                    // replaying a prefix must see the same choice points: hard error
                    s.diverged = true;
                    0
                } else {
                    c
                }
            } else {
                0
            };
            s.trace.push((c as u32, n as u32));
            c
        })
    }
    /// start one controlled execution that replays `prefix` and then takes defaults
    pub fn begin(prefix: &[u32], threads: usize, blocks: usize) {
        ST.with(|s| {
            let mut s = s.borrow_mut();
            s.enabled = true;
            s.prefix = prefix.to_vec();
            s.trace.clear();
            s.threads = threads;
            s.blocks = blocks.max(1);
            s.diverged = false;
        })
    }
    /// end the execution; returns (trace, diverged)
    pub fn end() -> (Vec<(u32, u32)>, bool) {
        ST.with(|s| {
            let mut s = s.borrow_mut();
            s.enabled = false;
            (std::mem::take(&mut s.trace), s.diverged)
        })
    }
    pub fn threads() -> usize {
        ST.with(|s| s.borrow().threads.max(1))
    }
    pub fn set_threads(t: usize) {
        ST.with(|s| s.borrow_mut().threads = t.max(1))
    }
    pub fn blocks() -> usize {
        ST.with(|s| s.borrow().blocks.max(1))
    }
    /// a permutation of 0..n chosen item by item (default: identity)
    pub fn permutation(n: usize) -> Vec<usize> {
        let mut rest: Vec<usize> = (0..n).collect();
        let mut out = Vec::with_capacity(n);
        while !rest.is_empty() {
            let k = choose(rest.len());
            out.push(rest.remove(k));
        }
        out
    }
    /// contiguous block boundaries for n items: at most blocks() blocks of (almost) equal size
    pub fn partition(n: usize, min_len: usize) -> Vec<(usize, usize)> {
        if n == 0 {
            return vec![];
        }
        let mut b = blocks().min(n);
        if min_len > 1 {
            b = b.min((n / min_len).max(1));
        }
        let base = n / b;
        let extra = n % b;
        let mut out = Vec::with_capacity(b);
        let mut lo = 0;
        for i in 0..b {
            let len = base + usize::from(i < extra);
            out.push((lo, lo + len));
            lo += len;
        }
        out
    }
}

pub fn current_num_threads() -> usize {
    sched::threads()
}

pub fn join<A, B, RA, RB>(a: A, b: B) -> (RA, RB)
where
    A: FnOnce() -> RA,
    B: FnOnce() -> RB,
{
    if sched::choose(2) == 0 {
        let ra = a();
        let rb = b();
        (ra, rb)
    } else {
        let rb = b();
        let ra = a();
        (ra, rb)
    }
}

#[derive(Debug)]
pub struct ThreadPoolBuildError;
impl std::fmt::Display for ThreadPoolBuildError {
    fn fmt(&self, f: &mut std::fmt::Formatter<'_>) -> std::fmt::Result {
        write!(f, "thread pool build error")
    }
}
impl std::error::Error for ThreadPoolBuildError {}
#[derive(Default)]
pub struct ThreadPoolBuilder {
    n: usize,
}
impl ThreadPoolBuilder {
    pub fn new() -> Self {
        ThreadPoolBuilder { n: 0 }
    }
    pub fn num_threads(mut self, n: usize) -> Self {
        self.n = n;
        self
    }
    pub fn build(self) -> Result<ThreadPool, ThreadPoolBuildError> {
        Ok(ThreadPool { n: if self.n == 0 { 1 } else { self.n } })
    }
    pub fn build_global(self) -> Result<(), ThreadPoolBuildError> {
        sched::set_threads(if self.n == 0 { 1 } else { self.n });
        Ok(())
    }
}
pub struct ThreadPool {
    n: usize,
}
impl ThreadPool {
    pub fn install<R>(&self, f: impl FnOnce() -> R) -> R {
        let old = sched::threads();
        sched::set_threads(self.n);
        let r = f();
        sched::set_threads(old);
        r
    }
    pub fn current_num_threads(&self) -> usize {
        self.n
    }
}

pub mod iter {
    use super::sched;

    /// The one concrete parallel iterator: materialised items, executed under the scheduler.
    pub struct Par<T> {
        pub(crate) items: Vec<T>,
        pub(crate) min_len: usize,
    }

    /// marker traits so that `use rayon::prelude::*` / explicit imports keep compiling
    pub trait ParallelIterator {}
    pub trait IndexedParallelIterator {}
    impl<T> ParallelIterator for Par<T> {}
    impl<T> IndexedParallelIterator for Par<T> {}

    pub trait IntoParallelIterator {
        type Item;
        fn into_par_iter(self) -> Par<Self::Item>;
    }
    impl<T> IntoParallelIterator for Par<T> {
        type Item = T;
        fn into_par_iter(self) -> Par<T> {
            self
        }
    }
    impl<T> IntoParallelIterator for Vec<T> {
        type Item = T;
        fn into_par_iter(self) -> Par<T> {
            Par::new(self)
        }
    }
    impl<'a, T> IntoParallelIterator for &'a Vec<T> {
        type Item = &'a T;
        fn into_par_iter(self) -> Par<&'a T> {
            Par::new(self.iter().collect())
        }
    }
    impl<'a, T> IntoParallelIterator for &'a mut Vec<T> {
        type Item = &'a mut T;
        fn into_par_iter(self) -> Par<&'a mut T> {
            Par::new(self.iter_mut().collect())
        }
    }
    impl<'a, T> IntoParallelIterator for &'a [T] {
        type Item = &'a T;
        fn into_par_iter(self) -> Par<&'a T> {
            Par::new(self.iter().collect())
        }
    }
    impl<'a, T> IntoParallelIterator for &'a mut [T] {
        type Item = &'a mut T;
        fn into_par_iter(self) -> Par<&'a mut T> {
            Par::new(self.iter_mut().collect())
        }
    }
    impl<'a, T, const N: usize> IntoParallelIterator for &'a [T; N] {
        type Item = &'a T;
        fn into_par_iter(self) -> Par<&'a T> {
            Par::new(self.iter().collect())
        }
    }
    macro_rules! range_impl {
        ($($t:ty),*) => {$(
            impl IntoParallelIterator for std::ops::Range<$t> {
                type Item = $t;
                fn into_par_iter(self) -> Par<$t> { Par::new(self.collect()) }
            }
            impl IntoParallelIterator for std::ops::RangeInclusive<$t> {
                type Item = $t;
                fn into_par_iter(self) -> Par<$t> { Par::new(self.collect()) }
            }
        )*};
    }
    range_impl!(usize, u64, u32, u16, u8, i64, i32, isize);

    pub trait IntoParallelRefIterator<'a> {
        type Item: 'a;
        fn par_iter(&'a self) -> Par<Self::Item>;
    }
    impl<'a, T: 'a> IntoParallelRefIterator<'a> for [T] {
        type Item = &'a T;
        fn par_iter(&'a self) -> Par<&'a T> {
            Par::new(self.iter().collect())
        }
    }
    impl<'a, T: 'a> IntoParallelRefIterator<'a> for Vec<T> {
        type Item = &'a T;
        fn par_iter(&'a self) -> Par<&'a T> {
            Par::new(self.iter().collect())
        }
    }
    impl<'a, T: 'a, const N: usize> IntoParallelRefIterator<'a> for [T; N] {
        type Item = &'a T;
        fn par_iter(&'a self) -> Par<&'a T> {
            Par::new(self.iter().collect())
        }
    }
    impl<'a, K: 'a, V: 'a> IntoParallelRefIterator<'a> for std::collections::BTreeMap<K, V> {
        type Item = (&'a K, &'a V);
        fn par_iter(&'a self) -> Par<(&'a K, &'a V)> {
            Par::new(self.iter().collect())
        }
    }
    pub trait IntoParallelRefMutIterator<'a> {
        type Item: 'a;
        fn par_iter_mut(&'a mut self) -> Par<Self::Item>;
    }
    impl<'a, T: 'a> IntoParallelRefMutIterator<'a> for [T] {
        type Item = &'a mut T;
        fn par_iter_mut(&'a mut self) -> Par<&'a mut T> {
            Par::new(self.iter_mut().collect())
        }
    }
    impl<'a, T: 'a> IntoParallelRefMutIterator<'a> for Vec<T> {
        type Item = &'a mut T;
        fn par_iter_mut(&'a mut self) -> Par<&'a mut T> {
            Par::new(self.iter_mut().collect())
        }
    }
    impl<'a, T: 'a, const N: usize> IntoParallelRefMutIterator<'a> for [T; N] {
        type Item = &'a mut T;
        fn par_iter_mut(&'a mut self) -> Par<&'a mut T> {
            Par::new(self.iter_mut().collect())
        }
    }
    impl<'a, K: 'a, V: 'a> IntoParallelRefMutIterator<'a> for std::collections::BTreeMap<K, V> {
        type Item = (&'a K, &'a mut V);
        fn par_iter_mut(&'a mut self) -> Par<(&'a K, &'a mut V)> {
            Par::new(self.iter_mut().collect())
        }
    }

    /// `iterator.par_bridge()`: rayon gives NO order guarantee here; modelled as a parallel
    /// iterator over the collected items (block order is then explored like everywhere else).
    pub trait ParallelBridge: Sized {
        type Item;
        fn par_bridge(self) -> Par<Self::Item>;
    }
    impl<I: Iterator> ParallelBridge for I {
        type Item = I::Item;
        fn par_bridge(self) -> Par<I::Item> {
            // rayon hands the items of a bridged iterator to whichever worker asks next and keeps NO
            // order: downstream `collect()` sees them in pick-up order.  Modelled by delivering the
            // blocks of the item sequence in a scheduler-chosen order (default: the original order).
            let items: Vec<I::Item> = self.collect();
            let parts = sched::partition(items.len(), 1);
            let order = sched::permutation(parts.len());
            let mut slots: Vec<Option<I::Item>> = items.into_iter().map(Some).collect();
            let mut out = Vec::with_capacity(slots.len());
            for b in order {
                let (lo, hi) = parts[b];
                for i in lo..hi {
                    out.push(slots[i].take().unwrap());
                }
            }
            Par::new(out)
        }
    }

    impl<T> Par<T> {
        pub fn new(items: Vec<T>) -> Self {
            Par { items, min_len: 1 }
        }
        pub fn with_min_len(mut self, m: usize) -> Self {
            self.min_len = m.max(1);
            self
        }
        pub fn with_max_len(self, _m: usize) -> Self {
            self
        }
        pub fn len(&self) -> usize {
            self.items.len()
        }
        /// run `f` on every item: blocks in scheduled order, items of a block in index order;
        /// results land in index order
        fn run<U>(self, mut f: impl FnMut(T) -> U) -> Vec<U> {
            let n = self.items.len();
            let parts = sched::partition(n, self.min_len);
            let order = sched::permutation(parts.len());
            let mut slots: Vec<Option<T>> = self.items.into_iter().map(Some).collect();
            let mut out: Vec<Option<U>> = (0..n).map(|_| None).collect();
            for b in order {
                let (lo, hi) = parts[b];
                for i in lo..hi {
                    out[i] = Some(f(slots[i].take().unwrap()));
                }
            }
            out.into_iter().map(|x| x.unwrap()).collect()
        }
        pub fn map<U, F: Fn(T) -> U>(self, f: F) -> Par<U> {
            let min_len = self.min_len;
            let items = self.run(|x| f(x));
            Par { items, min_len }
        }
        pub fn for_each<F: Fn(T)>(self, f: F) {
            self.run(|x| f(x));
        }
        pub fn try_for_each<E, F: Fn(T) -> Result<(), E>>(self, f: F) -> Result<(), E> {
            // one worker executing the blocks in the scheduled order and stopping at the first error
            let n = self.items.len();
            let parts = sched::partition(n, self.min_len);
            let order = sched::permutation(parts.len());
            let mut slots: Vec<Option<T>> = self.items.into_iter().map(Some).collect();
            for b in order {
                let (lo, hi) = parts[b];
                for i in lo..hi {
                    f(slots[i].take().unwrap())?;
                }
            }
            Ok(())
        }
        pub fn filter<F: Fn(&T) -> bool>(self, f: F) -> Par<T> {
            let min_len = self.min_len;
            let keep: Vec<Option<T>> = self.run(|x| if f(&x) { Some(x) } else { None });
            Par { items: keep.into_iter().flatten().collect(), min_len }
        }
        pub fn filter_map<U, F: Fn(T) -> Option<U>>(self, f: F) -> Par<U> {
            let min_len = self.min_len;
            let keep: Vec<Option<U>> = self.run(|x| f(x));
            Par { items: keep.into_iter().flatten().collect(), min_len }
        }
        pub fn flat_map<PI: IntoParallelIterator, F: Fn(T) -> PI>(self, f: F) -> Par<PI::Item> {
            let min_len = self.min_len;
            let parts: Vec<Vec<PI::Item>> = self.run(|x| f(x).into_par_iter().items);
            Par { items: parts.into_iter().flatten().collect(), min_len }
        }
        pub fn flat_map_iter<I: IntoIterator, F: Fn(T) -> I>(self, f: F) -> Par<I::Item> {
            let min_len = self.min_len;
            let parts: Vec<Vec<I::Item>> = self.run(|x| f(x).into_iter().collect());
            Par { items: parts.into_iter().flatten().collect(), min_len }
        }
        pub fn enumerate(self) -> Par<(usize, T)> {
            Par { items: self.items.into_iter().enumerate().collect(), min_len: self.min_len }
        }
        pub fn zip<Z: IntoParallelIterator>(self, other: Z) -> Par<(T, Z::Item)> {
            Par { items: self.items.into_iter().zip(other.into_par_iter().items).collect(), min_len: self.min_len }
        }
        pub fn zip_eq<Z: IntoParallelIterator>(self, other: Z) -> Par<(T, Z::Item)> {
            let o = other.into_par_iter().items;
            assert_eq!(self.items.len(), o.len(), "zip_eq: lengths differ");
            Par { items: self.items.into_iter().zip(o).collect(), min_len: self.min_len }
        }
        pub fn chain<Z: IntoParallelIterator<Item = T>>(self, other: Z) -> Par<T> {
            let mut items = self.items;
            items.extend(other.into_par_iter().items);
            Par { items, min_len: self.min_len }
        }
        pub fn skip(self, n: usize) -> Par<T> {
            Par { items: self.items.into_iter().skip(n).collect(), min_len: self.min_len }
        }
        pub fn take(self, n: usize) -> Par<T> {
            Par { items: self.items.into_iter().take(n).collect(), min_len: self.min_len }
        }
        pub fn rev(self) -> Par<T> {
            Par { items: self.items.into_iter().rev().collect(), min_len: self.min_len }
        }
        pub fn step_by(self, s: usize) -> Par<T> {
            Par { items: self.items.into_iter().step_by(s).collect(), min_len: self.min_len }
        }
        pub fn chunks(self, size: usize) -> Par<Vec<T>> {
            let mut out = Vec::new();
            let mut cur = Vec::new();
            for x in self.items {
                cur.push(x);
                if cur.len() == size {
                    out.push(std::mem::take(&mut cur));
                }
            }
            if !cur.is_empty() {
                out.push(cur);
            }
            Par { items: out, min_len: 1 }
        }
        pub fn cloned<'a, U: 'a + Clone>(self) -> Par<U>
        where
            T: std::ops::Deref<Target = U>,
        {
            Par { items: self.items.into_iter().map(|x| (*x).clone()).collect(), min_len: self.min_len }
        }
        pub fn copied<'a, U: 'a + Copy>(self) -> Par<U>
        where
            T: std::ops::Deref<Target = U>,
        {
            Par { items: self.items.into_iter().map(|x| *x).collect(), min_len: self.min_len }
        }
        pub fn collect<C: FromIterator<T>>(self) -> C {
            self.items.into_iter().collect()
        }
        pub fn collect_into_vec(self, target: &mut Vec<T>) {
            target.clear();
            target.extend(self.items);
        }
        pub fn count(self) -> usize {
            self.items.len()
        }
        /// combine per-block partial results (in index order) with a scheduled bracketing
        fn combine(mut partials: Vec<T>, op: &impl Fn(T, T) -> T) -> Option<T> {
            while partials.len() > 1 {
                let k = sched::choose(partials.len() - 1);
                let b = partials.remove(k + 1);
                let a = partials.remove(k);
                partials.insert(k, op(a, b));
            }
            partials.pop()
        }
        /// per-block sequential folds (blocks evaluated in scheduled order)
        fn block_folds<A>(self, init: &impl Fn() -> A, step: &impl Fn(A, T) -> A) -> Vec<A> {
            let n = self.items.len();
            let parts = sched::partition(n, self.min_len);
            let order = sched::permutation(parts.len());
            let mut slots: Vec<Option<T>> = self.items.into_iter().map(Some).collect();
            let mut out: Vec<Option<A>> = (0..parts.len()).map(|_| None).collect();
            for b in order {
                let (lo, hi) = parts[b];
                let mut acc = init();
                for i in lo..hi {
                    acc = step(acc, slots[i].take().unwrap());
                }
                out[b] = Some(acc);
            }
            out.into_iter().map(|x| x.unwrap()).collect()
        }
        pub fn reduce<ID: Fn() -> T, OP: Fn(T, T) -> T>(self, identity: ID, op: OP) -> T {
            let partials = self.block_folds(&identity, &|a, x| op(a, x));
            Self::combine(partials, &op).unwrap_or_else(identity)
        }
        pub fn reduce_with<OP: Fn(T, T) -> T>(self, op: OP) -> Option<T> {
            let partials: Vec<Option<T>> = self.block_folds(&|| None, &|a: Option<T>, x| match a {
                None => Some(x),
                Some(a) => Some(op(a, x)),
            });
            let partials: Vec<T> = partials.into_iter().flatten().collect();
            Self::combine(partials, &op)
        }
        pub fn fold<A, ID: Fn() -> A, F: Fn(A, T) -> A>(self, identity: ID, fold_op: F) -> Par<A> {
            let items = self.block_folds(&identity, &fold_op);
            Par { items, min_len: 1 }
        }
        pub fn sum<S: std::iter::Sum<T> + std::iter::Sum<S>>(self) -> S {
            // per-block sums, then the partial sums combined pairwise with a scheduled bracketing
            let n = self.items.len();
            let parts = sched::partition(n, self.min_len);
            let order = sched::permutation(parts.len());
            let mut slots: Vec<Option<T>> = self.items.into_iter().map(Some).collect();
            let mut out: Vec<Option<S>> = (0..parts.len()).map(|_| None).collect();
            for b in order {
                let (lo, hi) = parts[b];
                let v: Vec<T> = (lo..hi).map(|i| slots[i].take().unwrap()).collect();
                out[b] = Some(v.into_iter().sum());
            }
            let partials: Vec<S> = out.into_iter().map(|x| x.unwrap()).collect();
            if partials.is_empty() {
                return std::iter::empty::<T>().sum();
            }
            Par::<S>::combine(partials, &|a, b| [a, b].into_iter().sum()).unwrap()
        }
        pub fn product<S: std::iter::Product<T> + std::iter::Product<S>>(self) -> S {
            let n = self.items.len();
            let parts = sched::partition(n, self.min_len);
            let order = sched::permutation(parts.len());
            let mut slots: Vec<Option<T>> = self.items.into_iter().map(Some).collect();
            let mut out: Vec<Option<S>> = (0..parts.len()).map(|_| None).collect();
            for b in order {
                let (lo, hi) = parts[b];
                let v: Vec<T> = (lo..hi).map(|i| slots[i].take().unwrap()).collect();
                out[b] = Some(v.into_iter().product());
            }
            let partials: Vec<S> = out.into_iter().map(|x| x.unwrap()).collect();
            if partials.is_empty() {
                return std::iter::empty::<T>().product();
            }
            Par::<S>::combine(partials, &|a, b| [a, b].into_iter().product()).unwrap()
        }
        pub fn min_by_key<K: Ord, F: Fn(&T) -> K>(self, f: F) -> Option<T> {
            self.items.into_iter().min_by_key(|x| f(x))
        }
        pub fn max_by_key<K: Ord, F: Fn(&T) -> K>(self, f: F) -> Option<T> {
            self.items.into_iter().max_by_key(|x| f(x))
        }
        pub fn any<F: Fn(T) -> bool>(self, f: F) -> bool {
            self.run(|x| f(x)).into_iter().any(|b| b)
        }
        pub fn all<F: Fn(T) -> bool>(self, f: F) -> bool {
            self.run(|x| f(x)).into_iter().all(|b| b)
        }
    }
    impl<A, B> Par<(A, B)> {
        pub fn unzip<FA: Default + Extend<A>, FB: Default + Extend<B>>(self) -> (FA, FB) {
            let mut fa = FA::default();
            let mut fb = FB::default();
            for (a, b) in self.items {
                fa.extend(std::iter::once(a));
                fb.extend(std::iter::once(b));
            }
            (fa, fb)
        }
    }
}

pub mod slice {
    use super::iter::Par;
    pub trait ParallelSlice<T> {
        fn par_chunks(&self, size: usize) -> Par<&[T]>;
        fn par_chunks_exact(&self, size: usize) -> Par<&[T]>;
        fn par_windows(&self, size: usize) -> Par<&[T]>;
    }
    impl<T> ParallelSlice<T> for [T] {
        fn par_chunks(&self, size: usize) -> Par<&[T]> {
            Par::new(self.chunks(size).collect())
        }
        fn par_chunks_exact(&self, size: usize) -> Par<&[T]> {
            Par::new(self.chunks_exact(size).collect())
        }
        fn par_windows(&self, size: usize) -> Par<&[T]> {
            Par::new(self.windows(size).collect())
        }
    }
    pub trait ParallelSliceMut<T> {
        fn par_chunks_mut(&mut self, size: usize) -> Par<&mut [T]>;
        fn par_chunks_exact_mut(&mut self, size: usize) -> Par<&mut [T]>;
    }
    impl<T> ParallelSliceMut<T> for [T] {
        fn par_chunks_mut(&mut self, size: usize) -> Par<&mut [T]> {
            Par::new(self.chunks_mut(size).collect())
        }
        fn par_chunks_exact_mut(&mut self, size: usize) -> Par<&mut [T]> {
            Par::new(self.chunks_exact_mut(size).collect())
        }
    }
}

pub mod prelude {
    pub use crate::iter::{
        IndexedParallelIterator, IntoParallelIterator, IntoParallelRefIterator, IntoParallelRefMutIterator, ParallelBridge, ParallelIterator,
    };
    pub use crate::slice::{ParallelSlice, ParallelSliceMut};
}
