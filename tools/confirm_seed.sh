#!/bin/bash
# usage: confirm_seed.sh <name> <patch.diff> <demo.rs> <crate-dir (e.g. ff)> [extra cargo test args for the demo]
# Confirms a seeded change in its own scratch worktree of /repo: (1) it applies and compiles, (2) the demo FAILS
# with it, (3) the repository's whole pinned test suite still passes with it, (4) the demo PASSES without it.
# Prints one line "CONFIRM <name> ..." and removes the worktree with its build output.
NAME=$1; DIFF=$2; DEMO=$3; CRATE=$4; shift 4; EXTRA="$@"
WT=/var/tmp/confirm-$NAME
rm -rf "$WT"; git -C /repo worktree prune; git -C /repo worktree add -q --detach "$WT" main || exit 3
cd "$WT" || exit 3
PKG=$(grep -m1 '^name' $CRATE/Cargo.toml | cut -d'"' -f2)
mkdir -p $CRATE/tests; TEST=seed_demo_$(echo $NAME | tr -c 'A-Za-z0-9\n' '_'); cp "$DEMO" $CRATE/tests/$TEST.rs
cargo test --offline -p $PKG --test $TEST $EXTRA > demo_clean.log 2>&1; clean_rc=$?
git apply "$DIFF" || { echo "CONFIRM $NAME APPLY-FAILED"; cd /; git -C /repo worktree remove --force "$WT"; exit 3; }
cargo test --offline -p $PKG --test $TEST $EXTRA > demo_mut.log 2>&1; mut_rc=$?
rm $CRATE/tests/$TEST.rs
cargo nextest run --workspace --no-fail-fast --offline --test-threads 6 > suite.log 2>&1; suite_rc=$?
summary=$(grep -E "Summary|tests run" suite.log | tail -1 | tr -s ' ')
echo "CONFIRM $NAME demo_without=$([ $clean_rc -eq 0 ] && echo PASS || echo FAIL) demo_with=$([ $mut_rc -eq 0 ] && echo PASS || echo FAIL) suite_with=$([ $suite_rc -eq 0 ] && echo PASS || echo FAIL) [$summary]"
mkdir -p /var/tmp/confirm-logs; cp demo_clean.log /var/tmp/confirm-logs/$NAME.demo_clean.log; cp demo_mut.log /var/tmp/confirm-logs/$NAME.demo_mut.log; tail -30 suite.log > /var/tmp/confirm-logs/$NAME.suite_tail.log
cd /; git -C /repo worktree remove --force "$WT"
