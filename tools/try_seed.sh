#!/bin/bash
# usage: try_seed.sh <PROP> <patch.diff> [scratch-worktree]   (development aid)
# Applies a seeded change to a scratch worktree of /repo (never to /repo itself), runs the property's
# quick check against it through VERIF_REPO_OVERRIDE and prints DETECTED / MISSED.
PROP=$1; DIFF=$2; WT=${3:-/var/tmp/mut}
[ -d "$WT" ] || git -C /repo worktree add -q "$WT" HEAD
git -C "$WT" checkout -q -- . && git -C "$WT" checkout -q --detach main
git -C "$WT" apply "$DIFF" || { echo "RESULT $PROP $DIFF APPLY-FAILED"; exit 3; }
cd /verif && VERIF_REPO_OVERRIDE="$WT" ./check "$PROP" --tier quick > /var/tmp/try_seed_$$.log 2>&1; rc=$?
grep -E "^VIOLATION|^KNOWN|MACHINERY|^\[C" /var/tmp/try_seed_$$.log | cut -c1-260 | head -8
if [ $rc -eq 1 ]; then echo "RESULT $PROP $DIFF DETECTED"; elif [ $rc -eq 0 ]; then echo "RESULT $PROP $DIFF MISSED"; else echo "RESULT $PROP $DIFF MACHINERY-ERROR rc=$rc"; tail -20 /var/tmp/try_seed_$$.log; fi
git -C "$WT" checkout -q -- .
rm -f /var/tmp/try_seed_$$.log
