#!/bin/bash
# usage: confirm_seed_curves.sh <name> <patch.diff> <demo.rs>
# Variant of confirm_seed.sh for seeded changes whose demonstration needs a crate of the separate curves/
# workspace (which does not resolve offline on its own): the demo is compiled as an integration test of the
# harness package (which depends on every curve crate by path) against a scratch worktree of /repo, once
# with and once without the change (cargo `paths` override); the pinned suite is run on the worktree too.
NAME=$1; DIFF=$2; DEMO=$3
WT=/var/tmp/confirm-$NAME
rm -rf "$WT"; git -C /repo worktree prune; git -C /repo worktree add -q --detach "$WT" main || exit 3
H=/var/tmp/confirm-h-$NAME; rm -rf $H; mkdir -p $H/tests $H/src $H/.cargo
sed -e 's|^name = "algebra-mc"|name = "seed-demo"|' -e '/^\[lib\]/,/^$/d' /verif/harness/Cargo.toml > $H/Cargo.toml
cp /verif/harness/Cargo.lock $H/; cp /verif/harness/.cargo/config.toml $H/.cargo/; echo "" > $H/src/lib.rs
cp "$DEMO" $H/tests/demo.rs
# demos written for a curve crate's tests/ directory may reach num-bigint / num-integer / num-traits through that
# crate's dev-dependency ark-algebra-test-templates (re-exports); the scratch package depends on them directly
sed -i 's|^use ark_algebra_test_templates::{$|use {|' $H/tests/demo.rs
CFG=$(python3 - "$WT" <<'PY'
import os,sys
ov=sys.argv[1]; d=[]
for root in [ov, ov+'/curves']:
    for x in sorted(os.listdir(root)):
        if os.path.isfile(os.path.join(root,x,'Cargo.toml')) and x!='curve-constraint-tests': d.append(os.path.join(root,x))
print("paths=["+",".join('"%s"'%x for x in d)+"]")
PY
)
cd $H && CARGO_TARGET_DIR=$H/target cargo test --offline --config "$CFG" --test demo > $H/demo_clean.log 2>&1; clean_rc=$?
git -C "$WT" apply "$DIFF" || { echo "CONFIRM $NAME APPLY-FAILED"; git -C /repo worktree remove --force "$WT"; exit 3; }
cd $H && CARGO_TARGET_DIR=$H/target cargo test --offline --config "$CFG" --test demo > $H/demo_mut.log 2>&1; mut_rc=$?
cd "$WT" && cargo nextest run --workspace --no-fail-fast --offline --test-threads 6 > suite.log 2>&1; suite_rc=$?
summary=$(grep -E "Summary|tests run" suite.log | tail -1 | tr -s ' ')
echo "CONFIRM $NAME demo_without=$([ $clean_rc -eq 0 ] && echo PASS || echo FAIL) demo_with=$([ $mut_rc -eq 0 ] && echo PASS || echo FAIL) suite_with=$([ $suite_rc -eq 0 ] && echo PASS || echo FAIL) [$summary]"
mkdir -p /var/tmp/confirm-logs; cp $H/demo_clean.log /var/tmp/confirm-logs/$NAME.demo_clean.log; cp $H/demo_mut.log /var/tmp/confirm-logs/$NAME.demo_mut.log
cd /; git -C /repo worktree remove --force "$WT"; rm -rf $H
