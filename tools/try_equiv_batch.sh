#!/bin/bash
# usage: try_equiv_batch.sh <lane> "<props>" <diff> [<diff> ...]   (development aid)
# Applies property-PRESERVING changes to a scratch worktree of /repo and runs the quick checks of the
# listed properties against it (VERIF_REPO_OVERRIDE): every check must still exit 0 (no false alarm).
L=$1; PROPS=$2; shift 2
WT=/var/tmp/mut-eq$L
[ -d "$WT" ] || git -C /repo worktree add -q --detach "$WT" main
git -C "$WT" checkout -q -- . && git -C "$WT" checkout -q --detach main
for d in "$@"; do git -C "$WT" apply "$d" || { echo "EQUIV $d APPLY-FAILED"; }; done
for p in $PROPS; do
  cd /verif && VERIF_REPO_OVERRIDE="$WT" VERIF_OVERRIDE_TARGET=/var/tmp/ovt-eq$L ./check $p --tier quick > /var/tmp/try_equiv_$L.log 2>&1; rc=$?
  if [ $rc -eq 0 ]; then echo "EQUIV [$*] $p NO-ALARM"; else echo "EQUIV [$*] $p ALARM rc=$rc"; grep -E "^VIOLATION|violation:|MACHINERY" /var/tmp/try_equiv_$L.log | cut -c1-300 | head -6; fi
done
git -C "$WT" checkout -q -- .
