#!/usr/bin/env python3
"""Collects the seeded changes (made by isolated agents in scratch worktrees, see DESIGN.md 8.5) into
/verif/seeded/<prop>-m<i>/{patch.diff, demo.rs, notes.md, meta.json} from the working directories of this
session: /var/tmp/seeds/<prop>/, the trial logs (tools/try_seed.sh) and the confirmation logs
(tools/confirm_seed.sh).  Only seeds that were confirmed AND tried are registered."""
import glob, json, os, re, shutil, sys
SEEDS = "/var/tmp/seeds"
OUT = "/verif/seeded"
# a seed is identified by the property it was made for (its directory) and its index; it may have been tried against
# the check of another property too (e.g. a change in `parallel`-only code is C14's subject): results per check,
# later trials override earlier ones (checks were extended after a miss and the change re-tried)
trials, sites, history = {}, {}, {}
for f in sorted(glob.glob("/var/tmp/seed_round*.log"), key=os.path.getmtime):
    buf = []
    for line in open(f, errors="replace"):
        m = re.match(r"RESULT (C\d+) \S*/(C\d+)/m(\d+)\.diff (\S+)", line)
        if m:
            key = f"{m.group(2)}-m{m.group(3)}"
            trials.setdefault(key, {})[m.group(1)] = m.group(4)
            history.setdefault(key, []).append(f"{m.group(1)}:{m.group(4)}")
            if m.group(4) == "DETECTED":
                sites[key] = sorted(set(re.findall(r"replay=/verif/replays/(C\d+-[^ ]+?)-\d+\.json", "".join(buf))))[:12]
            buf = []
        else:
            buf.append(line)
trial = {}
for key, per in trials.items():
    own = key.split("-")[0]
    det = [c for c, r in per.items() if r == "DETECTED"]
    trial[key] = "DETECTED" if det else per.get(own, list(per.values())[-1])
confirm = {}
for f in sorted(glob.glob("/var/tmp/confirm_lane*.log"), key=os.path.getmtime):
    for line in open(f, errors="replace"):
        m = re.match(r"CONFIRM (\S+) demo_without=(\S+) demo_with=(\S+) suite_with=(\S+) \[(.*)\]", line)
        if m:
            confirm[m.group(1)] = dict(demo_without_change=m.group(2), demo_with_change=m.group(3), pinned_suite_with_change=m.group(4), suite_summary=m.group(5).strip())
extra = json.load(open("/var/tmp/seed_extra.json")) if os.path.exists("/var/tmp/seed_extra.json") else {}
n = 0
for d in sorted(glob.glob(f"{SEEDS}/C*")):
    prop = os.path.basename(d)
    for i in range(1, 12):
        key = f"{prop}-m{i}"
        diff, demo, md = f"{d}/m{i}.diff", f"{d}/m{i}_demo.rs", f"{d}/m{i}.md"
        if not (os.path.exists(diff) and key in trial and (key in confirm or key in extra)):
            continue
        c = confirm.get(key) or extra[key]
        if c.get("demo_without_change") != "PASS" or c.get("demo_with_change") != "FAIL" or c.get("pinned_suite_with_change") != "PASS":
            print("skip (not confirmed):", key, c); continue
        o = f"{OUT}/{key}"; os.makedirs(o, exist_ok=True)
        shutil.copy(diff, f"{o}/patch.diff")
        if os.path.exists(demo): shutil.copy(demo, f"{o}/demo.rs")
        notes = open(md, errors="replace").read() if os.path.exists(md) else ""
        open(f"{o}/notes.md", "w").write(notes)
        title = notes.strip().split("\n")[0].lstrip("# ").strip() if notes else key
        needs = ""
        m = re.search(r"^##[^\n]*(needed|manifest|breakage|trigger)[^\n]*\n(.*?)(?=^## |\Z)", notes, flags=re.S | re.M | re.I)
        if m: needs = " ".join(m.group(2).split())[:900]
        files = re.findall(r"^\+\+\+ b/(\S+)", open(diff).read(), flags=re.M)
        meta = {
            "name": key, "property": prop, "title": title, "files_changed": files,
            "needs_to_manifest": needs,
            "made_by": "isolated sub-agent given only the property text and its own git worktree of /repo (nothing from /verif)",
            "confirmed_in_scratch_worktree": dict(c, how="tools/confirm_seed.sh: demo dropped into the crate's tests/ (cargo test --test), whole pinned suite with `cargo nextest run --workspace --no-fail-fast --offline`, each on a fresh worktree of /repo main"),
            "detection": {"command": "./check <property> --tier quick (against a scratch copy with the patch applied, via VERIF_REPO_OVERRIDE; tools/try_seed.sh)",
                          "result": trial[key], "per_check": trials[key], "trial_history": history.get(key, []), "first_violation_sites": sites.get(key, [])},
        }
        json.dump(meta, open(f"{o}/meta.json", "w"), indent=1)
        n += 1
print("registered", n, "seeds;", "untried/unconfirmed:", sorted(set(list(trial)+list(confirm)) - set(os.listdir(OUT)) if os.path.isdir(OUT) else []))
