#!/usr/bin/env python3
"""Prints the markdown table of seeded changes for DESIGN.md section 8.5 from /verif/seeded/*/meta.json."""
import glob, json, os, re
rows = []
for f in sorted(glob.glob("/verif/seeded/*/meta.json")):
    m = json.load(open(f))
    title = re.sub(r"^m\d\s*[-–—]+\s*", "", m.get("title", "")).replace("|", "/")
    det = m.get("detection", {})
    sites = det.get("first_violation_sites", [])
    site = sites[0] if sites else ""
    site = re.sub(r"^C\d+-", "", site)[:70]
    conf = m.get("confirmed_in_scratch_worktree", {})
    ok = "yes" if conf.get("pinned_suite_with_change") == "PASS" and conf.get("demo_with_change") == "FAIL" else conf.get("note", "n/a")[:40]
    per = det.get("per_check") or {m["property"]: det.get("result", "?")}
    hist = det.get("trial_history", [])
    first = {}
    for h in hist:
        c, r = h.split(":")
        first.setdefault(c, r)
    res = "; ".join(f"{c}: {r}" + (" (first trial: " + first[c] + ")" if first.get(c, r) != r else "") for c, r in sorted(per.items()))
    rows.append((m["name"], m["property"], title[:150], ok, det.get("result", "?"), site, res))
print("| seed | changed behaviour | suite passes / demo fails | check result | first reporting site |")
print("|---|---|---|---|---|")
for r in rows:
    print(f"| {r[0]} | {r[2]} | {r[3]} | {r[6]} | `{r[5]}` |")
print()
print(f"{len(rows)} seeded changes; detected: {sum(1 for r in rows if r[4]=='DETECTED')}")
