#!/usr/bin/env python3
"""Toy Barreto-Naehrig pairing universe for C06: x = -2, p = 373, r = 349.
Derives the tower F_373^2 / ^6 / ^12 (Frobenius tables), G1, the sextic twist
G2 (twist type found by point counting), the untwist-Frobenius-twist constants
and the loop count, and emits harness/src/toy/gen_toybn.rs with a `BnConfig`
for the generic ec/src/models/bn code.  stdlib only.  Everything emitted here is
re-validated by the harness at start-up with its own u64 models."""
import os, sys

X = -2
P = 36*X**4 + 36*X**3 + 24*X**2 + 6*X + 1
R = 36*X**4 + 36*X**3 + 18*X**2 + 6*X + 1
T = 6*X**2 + 1
BETA = 2

def is_prime(n):
    if n < 2: return False
    d = 2
    while d*d <= n:
        if n % d == 0: return False
        d += 1
    return True

assert P == 373 and R == 349 and is_prime(P) and is_prime(R) and P + 1 - T == R
assert pow(BETA, (P-1)//2, P) == P-1, "beta must be a non-residue"

# ---- F_p^2 = F_p[u]/(u^2 - BETA), elements (c0, c1)
def f2(a, b=0): return (a % P, b % P)
def f2add(a, b): return ((a[0]+b[0]) % P, (a[1]+b[1]) % P)
def f2sub(a, b): return ((a[0]-b[0]) % P, (a[1]-b[1]) % P)
def f2neg(a): return ((-a[0]) % P, (-a[1]) % P)
def f2mul(a, b): return ((a[0]*b[0] + BETA*a[1]*b[1]) % P, (a[0]*b[1] + a[1]*b[0]) % P)
def f2inv(a):
    n = (a[0]*a[0] - BETA*a[1]*a[1]) % P
    ni = pow(n, P-2, P)
    return (a[0]*ni % P, (-a[1])*ni % P)
def f2pow(a, e):
    r = (1, 0)
    while e:
        if e & 1: r = f2mul(r, a)
        a = f2mul(a, a); e >>= 1
    return r
def f2frob(a): return (a[0], (-a[1]) % P)
def f2is_square(a):
    if a == (0, 0): return True
    n = (a[0]*a[0] - BETA*a[1]*a[1]) % P
    return pow(n, (P-1)//2, P) == 1
def f2sqrt(a):
    for c0 in range(P):
        for c1 in range(P):
            if f2mul((c0, c1), (c0, c1)) == a: return (c0, c1)
    return None
ONE2 = (1, 0); ZERO2 = (0, 0)

# ---- sextic non-residue xi in F_p^2 (neither a square nor a cube)
def find_xi():
    for c1 in range(1, P):
        for c0 in range(1, P):      # both coordinates non-zero: exercises the generic mul-by-nonresidue
            xi = (c0, c1)
            if f2pow(xi, (P*P-1)//2) != ONE2 and f2pow(xi, (P*P-1)//3) != ONE2:
                return xi
XI = find_xi()

# ---- curves y^2 = x^3 + b over F_p and F_p^2
def count_fp(b):
    n = 1
    for x in range(P):
        z = (x*x*x + b) % P
        n += 1 if z == 0 else (2 if pow(z, (P-1)//2, P) == 1 else 0)
    return n
def find_b():
    for b in range(1, P):
        if count_fp(b) == R: return b
B = find_b()
def g1_generator():
    for x in range(P):
        z = (x*x*x + B) % P
        for y in range(P):
            if y*y % P == z: return (x, y)
G1 = g1_generator()

def count_fp2(b2):
    n = 1
    for c0 in range(P):
        for c1 in range(P):
            x = (c0, c1)
            z = f2add(f2mul(f2mul(x, x), x), b2)
            n += 1 if z == ZERO2 else (2 if f2is_square(z) else 0)
    return n

def ec2_add(A, Bp):
    if A is None: return Bp
    if Bp is None: return A
    (x1, y1), (x2, y2) = A, Bp
    if x1 == x2:
        if f2add(y1, y2) == ZERO2: return None
        lam = f2mul(f2mul(f2(3), f2mul(x1, x1)), f2inv(f2mul(f2(2), y1)))
    else:
        lam = f2mul(f2sub(y2, y1), f2inv(f2sub(x2, x1)))
    x3 = f2sub(f2sub(f2mul(lam, lam), x1), x2)
    y3 = f2sub(f2mul(lam, f2sub(x1, x3)), y1)
    return (x3, y3)
def ec2_mul(k, A):
    Rr = None
    while k:
        if k & 1: Rr = ec2_add(Rr, A)
        A = ec2_add(A, A); k >>= 1
    return Rr

def derive():
    want = R * (2*P - R)            # order of the correct sextic twist over F_p^2
    cands = []
    for name, b2 in (("D", f2mul(f2(B), f2inv(XI))), ("M", f2mul(f2(B), XI))):
        n = count_fp2(b2)
        cands.append((name, b2, n))
    good = [c for c in cands if c[2] == want]
    assert len(good) >= 1, ("no sextic twist with order r(2p-r)", cands)
    twist, b2, n2 = good[0]
    h2 = n2 // R
    assert n2 % R == 0 and h2 % R != 0
    # generator of the order-r subgroup: first curve point (scan c1, c0) times the cofactor
    gen = None
    for c0 in range(P):
        for c1 in range(P):
            x = (c0, c1)
            z = f2add(f2mul(f2mul(x, x), x), b2)
            if z != ZERO2 and f2is_square(z):
                y = f2sqrt(z)
                Q = ec2_mul(h2, (x, y))
                if Q is not None:
                    gen = Q; break
        if gen: break
    assert ec2_mul(R, gen) is None
    # untwist-Frobenius-twist: psi(x, y) = (x^p * cx, y^p * cy); must act as [p] on the order-r subgroup
    ex, ey = (P-1)//3, (P-1)//2
    if twist == "D":
        cx, cy = f2pow(XI, ex), f2pow(XI, ey)
    else:
        cx, cy = f2inv(f2pow(XI, ex)), f2inv(f2pow(XI, ey))
    psi = (f2mul(f2frob(gen[0]), cx), f2mul(f2frob(gen[1]), cy))
    assert psi == ec2_mul(P % R, gen), "psi is not multiplication by p on G2"
    return dict(twist=twist, b2=b2, n2=n2, h2=h2, gen=gen, cx=cx, cy=cy, cands=cands)

def naf(n):
    out = []
    while n:
        if n & 1:
            d = 2 - (n % 4); n -= d
        else:
            d = 0
        out.append(d); n >>= 1
    return out

def emit():
    d = derive()
    loop = abs(6*X + 2)
    digits = naf(loop)
    assert sum(di << i for i, di in enumerate(digits)) == loop
    frob6_c1 = [f2pow(XI, (P**i - 1)//3) for i in range(6)]
    frob6_c2 = [f2pow(XI, (2*P**i - 2)//3) for i in range(6)]
    frob12_c1 = [f2pow(XI, (P**i - 1)//6) for i in range(12)]
    def m(v): return f'MontFp!("{v}")'
    def m2(v): return f'Fq2::new({m(v[0])}, {m(v[1])})'
    w = []
    w.append("// @generated by /verif/gen/toybn.py - do not edit")
    w.append("//! Toy BN pairing universe: x = -2, p = 373, r = 349 (C06, thorough tier).")
    w.append("#![allow(non_camel_case_types, dead_code)]")
    w.append("use super::gen_fields::{D349, D373};")
    w.append("use ark_ec::{")
    w.append("    bn::{Bn, BnConfig, TwistType},")
    w.append("    models::CurveConfig,")
    w.append("    short_weierstrass as sw,")
    w.append("};")
    w.append("use ark_ff::{fields::*, MontFp};")
    w.append("")
    w.append("pub type Fq = D373;")
    w.append("pub type Fr = D349;")
    w.append("pub type Fq2 = Fp2<Fq2Config>;")
    w.append("pub type Fq6 = Fp6<Fq6Config>;")
    w.append("pub type Fq12 = Fp12<Fq12Config>;")
    w.append("")
    w.append(f"pub const X: i64 = {X};")
    w.append(f"pub const P: u64 = {P};")
    w.append(f"pub const R: u64 = {R};")
    w.append(f"pub const BETA: u64 = {BETA};")
    w.append(f"pub const XI: (u64, u64) = ({XI[0]}, {XI[1]});")
    w.append(f"pub const B1: u64 = {B};")
    w.append(f"pub const B2: (u64, u64) = ({d['b2'][0]}, {d['b2'][1]});")
    w.append(f"pub const TWIST_IS_D: bool = {'true' if d['twist']=='D' else 'false'};")
    w.append(f"pub const G2_ORDER: u64 = {d['n2']};")
    w.append(f"pub const G2_COFACTOR: u64 = {d['h2']};")
    w.append(f"pub const G1_GEN: (u64, u64) = ({G1[0]}, {G1[1]});")
    w.append(f"pub const G2_GEN: ((u64, u64), (u64, u64)) = (({d['gen'][0][0]}, {d['gen'][0][1]}), ({d['gen'][1][0]}, {d['gen'][1][1]}));")
    w.append(f"/// point counts of the two sextic twist candidates over F_p^2: {[(c[0], c[2]) for c in d['cands']]}")
    w.append(f"pub const LOOP_COUNT_ABS: u64 = {loop};")
    w.append("")
    w.append("#[derive(Clone, Copy)]")
    w.append("pub struct Fq2Config;")
    w.append("impl Fp2Config for Fq2Config {")
    w.append("    type Fp = Fq;")
    w.append(f"    const NONRESIDUE: Fq = {m(BETA)};")
    w.append(f"    const FROBENIUS_COEFF_FP2_C1: &'static [Fq] = &[{m(1)}, {m(pow(BETA,(P-1)//2,P))}];")
    w.append("}")
    w.append("")
    w.append("#[derive(Clone, Copy)]")
    w.append("pub struct Fq6Config;")
    w.append("impl Fp6Config for Fq6Config {")
    w.append("    type Fp2Config = Fq2Config;")
    w.append(f"    const NONRESIDUE: Fq2 = {m2(XI)};")
    w.append("    const FROBENIUS_COEFF_FP6_C1: &'static [Fq2] = &[")
    for v in frob6_c1: w.append(f"        {m2(v)},")
    w.append("    ];")
    w.append("    const FROBENIUS_COEFF_FP6_C2: &'static [Fq2] = &[")
    for v in frob6_c2: w.append(f"        {m2(v)},")
    w.append("    ];")
    w.append("}")
    w.append("")
    w.append("#[derive(Clone, Copy)]")
    w.append("pub struct Fq12Config;")
    w.append("impl Fp12Config for Fq12Config {")
    w.append("    type Fp6Config = Fq6Config;")
    w.append("    const NONRESIDUE: Fq6 = Fq6::new(Fq2::ZERO, Fq2::ONE, Fq2::ZERO);")
    w.append("    const FROBENIUS_COEFF_FP12_C1: &'static [Fq2] = &[")
    for v in frob12_c1: w.append(f"        {m2(v)},")
    w.append("    ];")
    w.append("}")
    w.append("")
    w.append("#[derive(Clone, Copy, Debug, Default, PartialEq, Eq)]")
    w.append("pub struct G1Config;")
    w.append("impl CurveConfig for G1Config {")
    w.append("    type BaseField = Fq;")
    w.append("    type ScalarField = Fr;")
    w.append("    const COFACTOR: &'static [u64] = &[1];")
    w.append(f"    const COFACTOR_INV: Fr = {m(1)};")
    w.append("}")
    w.append("impl sw::SWCurveConfig for G1Config {")
    w.append(f"    const COEFF_A: Fq = {m(0)};")
    w.append(f"    const COEFF_B: Fq = {m(B)};")
    w.append(f"    const GENERATOR: sw::Affine<Self> = sw::Affine::new_unchecked({m(G1[0])}, {m(G1[1])});")
    w.append("}")
    w.append("")
    w.append("#[derive(Clone, Copy, Debug, Default, PartialEq, Eq)]")
    w.append("pub struct G2Config;")
    w.append("impl CurveConfig for G2Config {")
    w.append("    type BaseField = Fq2;")
    w.append("    type ScalarField = Fr;")
    w.append(f"    const COFACTOR: &'static [u64] = &[{d['h2']}];")
    w.append(f"    const COFACTOR_INV: Fr = {m(pow(d['h2'] % R, R-2, R))};")
    w.append("}")
    w.append("impl sw::SWCurveConfig for G2Config {")
    w.append(f"    const COEFF_A: Fq2 = {m2(ZERO2)};")
    w.append(f"    const COEFF_B: Fq2 = {m2(d['b2'])};")
    w.append(f"    const GENERATOR: sw::Affine<Self> = sw::Affine::new_unchecked({m2(d['gen'][0])}, {m2(d['gen'][1])});")
    w.append("}")
    w.append("")
    w.append("#[derive(Clone, Copy, Debug, Default, PartialEq, Eq)]")
    w.append("pub struct Config;")
    w.append("impl BnConfig for Config {")
    w.append(f"    const X: &'static [u64] = &[{abs(X)}];")
    w.append(f"    const X_IS_NEGATIVE: bool = {'true' if X < 0 else 'false'};")
    w.append(f"    /// NAF of |6x + 2| = {loop}, least significant digit first")
    w.append(f"    const ATE_LOOP_COUNT: &'static [i8] = &{digits};")
    w.append(f"    const TWIST_TYPE: TwistType = TwistType::{d['twist']};")
    w.append(f"    const TWIST_MUL_BY_Q_X: Fq2 = {m2(d['cx'])};")
    w.append(f"    const TWIST_MUL_BY_Q_Y: Fq2 = {m2(d['cy'])};")
    w.append("    type Fp = Fq;")
    w.append("    type Fp2Config = Fq2Config;")
    w.append("    type Fp6Config = Fq6Config;")
    w.append("    type Fp12Config = Fq12Config;")
    w.append("    type G1Config = G1Config;")
    w.append("    type G2Config = G2Config;")
    w.append("}")
    w.append("pub type ToyBn = Bn<Config>;")
    return "\n".join(w) + "\n", d

if __name__ == "__main__":
    dst = os.path.join(os.path.dirname(os.path.abspath(__file__)), "..", "harness", "src", "toy", "gen_toybn.rs")
    txt, d = emit()
    if "--check" in sys.argv:
        if open(dst).read() != txt: print("gen_toybn.rs is stale"); sys.exit(2)
    else:
        open(dst, "w").write(txt)
        print("p", P, "r", R, "xi", XI, "b", B, "G1", G1, "twist", d["twist"], "b2", d["b2"], "#E'(Fp2)", d["n2"], "h2", d["h2"],
              "G2", d["gen"], "candidates", [(c[0], c[2]) for c in d["cands"]])
