#!/usr/bin/env python3
"""C20 literal grid.  Generates

  harness/src/gen_literals_c20.rs   compile-time constants (MontFp!, BigInt!, Fp::new,
                                    Fp::from_sign_and_limbs, BigInt::new/one/zero,
                                    to_sign_and_limbs!) next to the value python assigns to
                                    the literal text, and the attribute strings of every
                                    derived MontConfig (toy + shipped) for the derive check
  harness-neg/                      a tiny cargo package with one bin per literal that must
                                    FAIL to compile (plus one control bin that must build)
  gen/out/neg_literals.json         the list of those bins

stdlib only.  `--check` regenerates everything in memory and diffs against the committed
copies (exit 2 if stale)."""
import json, os, re, sys

HERE = os.path.dirname(os.path.abspath(__file__))
VERIF = os.path.normpath(os.path.join(HERE, ".."))
REPO = "/repo"
GEN_FIELDS = os.path.join(VERIF, "harness", "src", "toy", "gen_fields.rs")
SHIPPED_RS = os.path.join(VERIF, "harness", "src", "shipped.rs")
GENERIC = 0x9e3779b97f4a7c15
M64 = (1 << 64) - 1

# ------------------------------------------------------------------ helpers
def nlimbs(p):
    n = 1
    while (1 << (64 * n)) < p: n += 1
    return n

def limbs(x, n):
    assert 0 <= x < (1 << (64 * n)), (x, n)
    return [(x >> (64 * i)) & M64 for i in range(n)]

def min_limbs(x):
    """limbs of x without leading zero limbs (at least one limb)"""
    n = 1
    while x >= (1 << (64 * n)): n += 1
    return limbs(x, n)

def rs_limbs(l):
    return "[" + ", ".join("0x%x" % x for x in l) + "]"

def gen_n(n):
    """generic-looking value with a different odd multiple of GENERIC in every limb"""
    return sum((((2 * i + 1) * GENERIC) & M64) << (64 * i) for i in range(n))

PREFIX = {10: "", 16: "0x", 8: "0o", 2: "0b"}
def digits(v, radix, upper=False):
    s = {10: "%d", 16: "%x", 8: "%o", 2: None}[radix]
    s = bin(v)[2:] if radix == 2 else s % v
    return s.upper() if upper else s

def literal(v, neg, radix, lz, upper=False):
    pre = PREFIX[radix].upper() if upper else PREFIX[radix]
    return ("-" if neg else "") + pre + "0" * lz + digits(v, radix, upper)

def pyint(s):
    """the integer that the literal text denotes, by python's own int() parser"""
    neg = s.startswith("-")
    t = s[1:] if neg else s
    base = {"0x": 16, "0o": 8, "0b": 2}.get(t[:2].lower())
    v = int(t[2:], base) if base else int(t, 10)
    return -v if neg else v

# forms = (radix, upper-case prefix+digits, leading zeros)
FORMS_FULL = [(r, False, z) for r in (10, 16, 8, 2) for z in (0, 1, 5)] + [(16, True, 1), (8, True, 0), (2, True, 5)]
FORMS_LZ0 = [(r, False, 0) for r in (10, 16, 8, 2)]
FORMS_SMALL = [(10, False, 0), (16, False, 0)]

# ------------------------------------------------------------------ moduli
def parse_gen_fields():
    txt = open(GEN_FIELDS).read()
    pat = re.compile(
        r'#\[derive\(ark_ff::MontConfig\)\]\n#\[modulus = "(\d+)"\]\n#\[generator = "(\d+)"\]\n'
        r'(?:#\[small_subgroup_base = "(\d+)"\]\n#\[small_subgroup_power = "(\d+)"\]\n)?'
        r'pub struct D(\w+)Cfg;\npub type D\w+ = Fp<MontBackend<D\w+Cfg, (\d+)>, (\d+)>;')
    out = {}
    order = []
    for m in pat.finditer(txt):
        p, g, sb, sp, name, n, n2 = m.groups()
        assert n == n2
        out[name] = dict(p=int(p), g=int(g), sub=(int(sb), int(sp)) if sb else None, n=int(n))
        order.append(name)
    assert txt.count("#[derive(ark_ff::MontConfig)]") == len(order), "gen_fields.rs: unparsed derive block"
    return out, order

ATTR_PAT = re.compile(
    r'#\[derive\((?:ark_ff::)?MontConfig\)\]\s*((?:#\[[^\]]*\]\s*)+)pub struct (\w+);', re.S)

def parse_derive_file(path, struct):
    """attribute strings of `#[derive(MontConfig)] ... pub struct <struct>;` in a source file"""
    txt = open(path).read()
    for m in ATTR_PAT.finditer(txt):
        if m.group(2) != struct: continue
        attrs = dict(re.findall(r'#\[(\w+)\s*=\s*"([^"]*)"\]', m.group(1)))
        if "modulus" not in attrs or "generator" not in attrs: return None
        sub = None
        if "small_subgroup_base" in attrs and "small_subgroup_power" in attrs:
            sub = (int(attrs["small_subgroup_base"]), int(attrs["small_subgroup_power"]))
        return dict(p=int(attrs["modulus"]), g=int(attrs["generator"]), sub=sub, src=path)
    return None

CRATE_DIR = {"bandersnatch": "ed_on_bls12_381_bandersnatch"}
TEST_DIR = {"bn384": "bn384_small_two_adicity"}

def field_file(crate, which):
    """source file that defines (or re-exports) field `which` (Fq/Fr) of an `ark_<crate>` crate"""
    if crate.startswith("test::"):
        c = crate[6:]
        if c == "fp128": return os.path.join(REPO, "test-curves", "src", "fp128.rs")
        return os.path.join(REPO, "test-curves", "src", TEST_DIR.get(c, c), which.lower() + ".rs")
    return os.path.join(REPO, "curves", CRATE_DIR.get(crate, crate), "src", "fields", which.lower() + ".rs")

def resolve_shipped(crate, which, depth=0):
    """follow `pub use ark_x::{Fq as Fr, ..}` re-exports down to the derive site"""
    if depth > 4: return None
    path = field_file(crate, which)
    if not os.path.exists(path): return None
    got = parse_derive_file(path, which + "Config")
    if got: return got
    txt = open(path).read()
    # pub use ark_bls12_381::{Fr as Fq, FrConfig as FqConfig};   /   pub use crate::bls12_381::{Fr as Fq, ..}
    for m in re.finditer(r'pub use\s+(ark_\w+|crate::\w+)::\{([^}]*)\}', txt):
        origin, items = m.group(1), m.group(2)
        for it in items.split(","):
            it = it.strip()
            mm = re.fullmatch(r'(F[qr])(?:\s+as\s+(F[qr]))?', it)
            if not mm: continue
            src_name, alias = mm.group(1), mm.group(2) or mm.group(1)
            if alias != which: continue
            if origin.startswith("ark_"):
                c = origin[4:]
                c = {"ed_on_bls12_381_bandersnatch": "bandersnatch"}.get(c, c)
            else:
                c = "test::" + origin[len("crate::"):]
                c = {"test::bn384_small_two_adicity": "test::bn384"}.get(c, c)
            return resolve_shipped(c, src_name, depth + 1)
    return None

def shipped_names():
    txt = open(SHIPPED_RS).read()
    body = txt[txt.index("macro_rules! shipped_prime_fields"):]
    body = body[:body.index("};")]
    return re.findall(r'\$m!\((\S+), "([^"]+)"', body)

# ------------------------------------------------------------------ value alphabets
def field_values(p, n, small=False):
    R = (1 << (64 * n))
    if small:   # N = 13: const evaluation of 13-limb multiplications is slow
        v = [0, 1, p - 1, p, p + 1, 2 * p - 1, 1 << 64, (1 << (64 * (n - 1))) - 1, (1 << (64 * (n - 1))) + 1,
             R - 1, R % p, GENERIC, gen_n(n)]
    else:
        v = [0, 1, 2, p - 1, p, p + 1, 2 * p - 1, M64, 1 << 64]
        for k in range(1, n):
            v += [(1 << (64 * k)) - 1, (1 << (64 * k)) + 1]
        v += [R - 1, R % p, GENERIC, gen_n(n)]
    out = []
    for x in v:
        if 0 <= x < R and x not in out: out.append(x)
    return out

def bigint_values(n):
    R = 1 << (64 * n)
    v = [0, 1, 2, 1 << 63, M64, 1 << 64]
    for k in range(1, n):
        v += [(1 << (64 * k)) - 1, (1 << (64 * k)) + 1]
    v += [R >> 1, R - 1, GENERIC, gen_n(n), 10 ** 19, 10 ** (len(str(R - 1)) - 1)]
    out = []
    for x in v:
        if 0 <= x < R and x not in out: out.append(x)
    return out

# ------------------------------------------------------------------ emit
class Out:
    def __init__(self): self.l = []
    def w(self, s=""): self.l.append(s)
    def text(self): return "\n".join(self.l) + "\n"

def rs_str(s): return '"' + s + '"'

def emit_field_module(o, mod, ty, tyname, p, n, grid, stats):
    """grid = 'full' | 'twin' | 'n13' | 'n13twin' | 'mini'"""
    o.w(f"pub mod {mod} {{")
    o.w("    use super::*;")
    o.w(f"    pub type F = {ty};")
    o.w(f"    pub const N: usize = {n};")
    o.w(f'    pub const P: &str = "{p}";')
    consts = []   # (kind, text, positive, limbs, want, expr)
    seen_text = set()
    def montfp(v, neg, radix, lz, upper=False):
        s = literal(v, neg, radix, lz, upper)
        if s in seen_text: return
        seen_text.add(s)
        val = pyint(s)
        assert val == (-v if neg else v), s
        assert abs(val) < (1 << (64 * n))
        consts.append((0, s, True, [], val % p, f"MontFp!({rs_str(s)})"))
    if grid in ("full", "twin"):
        vals = field_values(p, n)
        forms = FORMS_FULL if grid == "full" else FORMS_SMALL
    elif grid in ("n13", "n13twin"):
        vals = field_values(p, n, small=True)
        forms = FORMS_LZ0 if grid == "n13" else FORMS_SMALL
    else:
        R = 1 << (64 * n)
        vals = [p - 1, p, R - 1, gen_n(n)]
        forms = FORMS_SMALL
    for v in vals:
        for neg in (False, True):
            for (radix, upper, lz) in forms:
                montfp(v, neg, radix, lz, upper)
    if grid == "n13":   # leading zeros / upper-case prefixes on one value only
        for (radix, upper, lz) in FORMS_FULL:
            montfp(p - 1, False, radix, lz, upper)
            montfp(p + 1, True, radix, lz, upper)
    # Fp::new / from_sign_and_limbs
    if grid != "mini":
        fvals = vals
    else:
        fvals = vals[:3]
    for v in fvals:
        l = limbs(v, n)
        consts.append((1, f"Fp::new(BigInt::new({rs_limbs(l)}))", True, l, v % p, f"Fp::new(BigInt::new({rs_limbs(l)}))"))
    consts.append((1, "Fp::new(BigInt::one())", True, limbs(1, n), 1 % p, "Fp::new(BigInt::one())"))
    consts.append((1, "Fp::new(BigInt::zero())", True, limbs(0, n), 0, "Fp::new(BigInt::zero())"))
    s = literal(p - 1, False, 16, 0)
    consts.append((1, f"Fp::new(BigInt!({rs_str(s)}))", True, limbs(p - 1, n), p - 1, f"Fp::new(BigInt!({rs_str(s)}))"))
    seen_fsl = set()
    def fsl(pos, l):
        key = (pos, tuple(l))
        if key in seen_fsl: return
        seen_fsl.add(key)
        v = sum(x << (64 * i) for i, x in enumerate(l))
        want = (v if pos else -v) % p
        e = f"Fp::from_sign_and_limbs({'true' if pos else 'false'}, &{rs_limbs(l)})"
        consts.append((2, e, pos, l, want, e))
    for v in fvals:
        for pos in (True, False):
            fsl(pos, limbs(v, n))
            fsl(pos, min_limbs(v))
    if grid != "mini":
        for pos in (True, False):
            fsl(pos, [])
            # zero-padded but still shorter than N
            if n >= 3:
                fsl(pos, [GENERIC, 0])
                fsl(pos, [0, 1])
    for i, c in enumerate(consts):
        o.w(f"    pub const C{i}: F = {c[5]};")
    o.w("    pub static TABLE: &[FLit<F>] = &[")
    for i, (kind, text, pos, l, want, expr) in enumerate(consts):
        t = text.replace('"', '\\"')
        o.w(f'        FLit {{ kind: {kind}, text: "{t}", positive: {"true" if pos else "false"}, limbs: &{rs_limbs(l)}, want: "{want}", val: C{i} }},')
        stats["f%d" % kind] = stats.get("f%d" % kind, 0) + 1
    o.w("    ];")
    o.w("}")

def emit_bigint_module(o, n, stats):
    o.w(f"pub mod b_n{n} {{")
    o.w("    use super::*;")
    o.w(f"    pub const N: usize = {n};")
    consts = []
    seen = set()
    for v in bigint_values(n):
        for (radix, upper, lz) in FORMS_FULL + [(16, True, 0), (10, False, 2)]:
            s = literal(v, False, radix, lz, upper)
            if s in seen: continue
            seen.add(s)
            assert pyint(s) == v
            consts.append((0, s, limbs(v, n), f"BigInt!({rs_str(s)})"))
        l = limbs(v, n)
        consts.append((1, f"BigInt::new({rs_limbs(l)})", l, f"BigInt::new({rs_limbs(l)})"))
    # "-0" is the one literal with a minus sign that BigInt! takes: it denotes 0
    for s in ("-0", "-0x0", "-000"):
        consts.append((0, s, limbs(0, n), f"BigInt!({rs_str(s)})"))
    consts.append((2, "BigInt::one()", limbs(1, n), "BigInt::one()"))
    consts.append((3, "BigInt::zero()", limbs(0, n), "BigInt::zero()"))
    for i, c in enumerate(consts):
        o.w(f"    pub const C{i}: BigInt<{n}> = {c[3]};")
    o.w(f"    pub static TABLE: &[BLit<{n}>] = &[")
    for i, (kind, text, l, expr) in enumerate(consts):
        o.w(f'        BLit {{ kind: {kind}, text: "{text}", want: {rs_limbs(l)}, val: C{i} }},')
        stats["b%d" % kind] = stats.get("b%d" % kind, 0) + 1
    o.w("    ];")
    o.w("}")

def emit_tsl(o, stats):
    vals = []
    for n in (1, 2, 3, 4, 6, 13):
        R = 1 << (64 * n)
        for x in (0, 1, 2, 15, 16, M64, 1 << 64, (1 << 64) + 1, R - 1, R >> 1, gen_n(n), GENERIC,
                  (1 << (64 * (n - 1))) + 1, 10 ** 19, 1 << 60, (1 << 60) - 1):
            if x not in vals: vals.append(x)
    o.w("pub static TSL_TABLE: &[TLit] = &[")
    seen = set()
    for v in vals:
        big = v >= (1 << 256)
        forms = (FORMS_LZ0 + [(16, True, 1)]) if big else FORMS_FULL
        for neg in (False, True):
            for (radix, upper, lz) in forms:
                s = literal(v, neg, radix, lz, upper)
                if s in seen: continue
                seen.add(s)
                val = pyint(s)
                assert abs(val) == v
                o.w(f'    TLit {{ text: "{s}", want_positive: {"true" if val >= 0 else "false"}, want_limbs: &{rs_limbs(min_limbs(v))}, '
                    f'got_positive: tsl!("{s}").0, got_limbs: &tsl!("{s}").1 }},')
                stats["tsl"] = stats.get("tsl", 0) + 1
    o.w("];")

def shipped_json(root):
    """run-time mode: scrape the derive attributes of every shipped prime field of the registry from the source tree
    `root` and print them as JSON (the C20 binary calls this; nothing is baked into the harness at generation time)"""
    global REPO
    REPO = root
    import json
    rows, unresolved = [], []
    for (ty, name) in shipped_names():
        crate, which = name.rsplit("::", 1)
        got = resolve_shipped(crate, which)
        if not got:
            unresolved.append(name)
            continue
        rows.append(dict(name=name, src=got["src"], p=str(got["p"]), g=str(got["g"]),
                         base=got["sub"][0] if got["sub"] else None, power=got["sub"][1] if got["sub"] else None))
    print(json.dumps(dict(attrs=rows, unresolved=unresolved)))
    return 0

def main():
    if "--shipped-json" in sys.argv:
        return shipped_json(sys.argv[sys.argv.index("--shipped-json") + 1])
    toy, toy_order = parse_gen_fields()
    stats = {}
    o = Out()
    o.w("// @generated by /verif/gen/literals.py - do not edit")
    o.w("//! C20: compile-time literal grid.  Every constant sits next to the value that python's")
    o.w("//! int() assigns to the literal text (reduced mod p for field constants).")
    o.w("#![allow(non_camel_case_types, non_upper_case_globals, non_snake_case, dead_code, unused_imports, clippy::all)]")
    o.w("use algebra_mc::toy::gen_fields::*;")
    o.w("use ark_ff::{BigInt, Fp, MontFp};")
    o.w("")
    o.w("/// `to_sign_and_limbs!` only parses its argument when it arrives as a macro_rules `$e:expr`")
    o.w("/// fragment (a None-delimited group) - exactly how `MontFp!` / `BigInt!` call it.")
    o.w("macro_rules! tsl {")
    o.w("    ($e:expr) => {")
    o.w("        ark_ff_macros::to_sign_and_limbs!($e)")
    o.w("    };")
    o.w("}")
    o.w("")
    o.w("/// field constant.  kind 0 = `MontFp!(text)`, 1 = `Fp::new(..)` (limbs = the integer), 2 =")
    o.w("/// `Fp::from_sign_and_limbs(positive, &limbs)`; `want` = denoted integer mod p (decimal, from python)")
    o.w("pub struct FLit<F: 'static> {")
    o.w("    pub kind: u8,")
    o.w("    pub text: &'static str,")
    o.w("    pub positive: bool,")
    o.w("    pub limbs: &'static [u64],")
    o.w("    pub want: &'static str,")
    o.w("    pub val: F,")
    o.w("}")
    o.w("/// big-integer constant.  kind 0 = `BigInt!(text)`, 1 = `BigInt::new`, 2 = `BigInt::one()`, 3 = `BigInt::zero()`")
    o.w("pub struct BLit<const N: usize> {")
    o.w("    pub kind: u8,")
    o.w("    pub text: &'static str,")
    o.w("    pub want: [u64; N],")
    o.w("    pub val: BigInt<N>,")
    o.w("}")
    o.w("/// direct use of the proc macro `ark_ff_macros::to_sign_and_limbs!`")
    o.w("pub struct TLit {")
    o.w("    pub text: &'static str,")
    o.w("    pub want_positive: bool,")
    o.w("    pub want_limbs: &'static [u64],")
    o.w("    pub got_positive: bool,")
    o.w("    pub got_limbs: &'static [u64],")
    o.w("}")
    o.w("")

    # the two shipped moduli of the literal grids are written here, not read from /repo: generation must not depend on
    # the tree being checked (a changed attribute in /repo is the check's business at run time, see --shipped-json)
    P_SECP = (1 << 256) - (1 << 32) - 977
    P_BLS381 = 0x1a0111ea397fe69a4b1ba7b6434bacd764774b84f38512bf6730d2a0f6b0f6241eabfffeb153ffffb9feffffffffaaab
    secp = dict(p=P_SECP)
    bls = dict(p=P_BLS381)
    assert bls["p"].bit_length() == 381

    mods = []   # (module, type path, type name, p, n, grid)
    def toy_mod(name, grid, hand):
        t = toy[name]
        pre = "H" if hand else "D"
        mods.append((f"f_{pre}{name}", f"{pre}{name}", f"{pre}{name}", t["p"], t["n"], grid))
    for nm in ("7", "17", "97", "65537", "P64", "M127", "T127", "P128", "C25519", "X4"):
        toy_mod(nm, "full", False)
    mods.append(("f_secp256k1_Fq", "ark_secp256k1::Fq", "secp256k1::Fq", secp["p"], 4, "full"))
    mods.append(("f_bls12_381_Fq", "ark_bls12_381::Fq", "bls12_381::Fq", bls["p"], 6, "full"))
    for nm in ("X13", "S13"):
        toy_mod(nm, "n13", False)
    for nm in ("7", "17", "97", "65537", "P64", "M127", "T127", "P128", "C25519", "X4"):
        toy_mod(nm, "twin", True)
    for nm in ("X13", "S13"):
        toy_mod(nm, "n13twin", True)
    for k in range(3, 13):
        for sx in ("S", "X"):
            nm = f"{sx}{k}"
            if nm == "X4": continue
            toy_mod(nm, "mini", False)
            toy_mod(nm, "mini", True)
    # sanity of the shapes the brief names
    assert toy["P64"]["p"] == 2**64 - 59 and toy["P64"]["n"] == 1
    assert toy["P128"]["p"] >> 127 == 1 and toy["P128"]["n"] == 2
    assert toy["X13"]["n"] == 13 and toy["X13"]["p"] >> (64 * 13 - 1) == 1
    assert toy["S13"]["n"] == 13 and toy["S13"]["p"] >> (64 * 13 - 1) == 0
    for (mod, ty, tyname, p, n, grid) in mods:
        assert nlimbs(p) == n
        emit_field_module(o, mod, ty, tyname, p, n, grid, stats)
        o.w("")
    for n in (1, 2, 4, 13):
        emit_bigint_module(o, n, stats)
        o.w("")
    emit_tsl(o, stats)
    o.w("")
    # iteration macros
    o.w("/// calls `$m!(FieldType, \"name\", module)` for every field table")
    o.w("#[macro_export]")
    o.w("macro_rules! literal_field_tables {")
    o.w("    ($m:ident $(, $a:expr)*) => {")
    for (mod, ty, tyname, p, n, grid) in mods:
        path = ty if ty.startswith("ark_") else f"algebra_mc::toy::gen_fields::{ty}"
        o.w(f'        $m!({path}, "{tyname}", crate::gen_literals::{mod} $(, $a)*);')
    o.w("    };")
    o.w("}")
    o.w("/// calls `$m!(N, module)` for every big-integer table")
    o.w("#[macro_export]")
    o.w("macro_rules! literal_bigint_tables {")
    o.w("    ($m:ident $(, $a:expr)*) => {")
    for n in (1, 2, 4, 13):
        o.w(f"        $m!({n}, crate::gen_literals::b_n{n} $(, $a)*);")
    o.w("    };")
    o.w("}")
    o.w("")
    # attribute strings for the derive check
    o.w("/// attribute strings of the toy derived configurations (parsed from gen_fields.rs):")
    o.w("/// (name without D/H prefix, modulus, generator, small_subgroup_base, small_subgroup_power)")
    o.w("pub const TOY_ATTRS: &[(&str, &str, &str, Option<u32>, Option<u32>)] = &[")
    for nm in toy_order:
        t = toy[nm]
        sb = f"Some({t['sub'][0]})" if t["sub"] else "None"
        sp = f"Some({t['sub'][1]})" if t["sub"] else "None"
        o.w(f'    ("{nm}", "{t["p"]}", "{t["g"]}", {sb}, {sp}),')
    o.w("];")
    files = {os.path.join(VERIF, "harness", "src", "gen_literals_c20.rs"): o.text()}
    files.update(neg_package(toy))
    stale = []
    for path, txt in sorted(files.items()):
        if "--check" in sys.argv:
            cur = open(path).read() if os.path.exists(path) else None
            if cur != txt: stale.append(path)
        else:
            os.makedirs(os.path.dirname(path), exist_ok=True)
            open(path, "w").write(txt)
    if "--check" in sys.argv:
        if stale:
            print("literals.py: stale generated files:", *stale, sep="\n  ")
            sys.exit(2)
    else:
        print("wrote", len(files), "files;", "constants:", json.dumps(stats, sort_keys=True))

# ------------------------------------------------------------------ negative literals
def neg_package(toy):
    """/verif/harness-neg: one bin per literal that must fail to compile"""
    NEG = os.path.join(VERIF, "harness-neg")
    files = {}
    files[os.path.join(NEG, "Cargo.toml")] = """# @generated by /verif/gen/literals.py - do not edit
[package]
name = "algebra-mc-neg"
version = "0.1.0"
edition = "2021"
publish = false
autobins = true

[workspace]

[lib]
name = "algebra_mc_neg"
path = "src/lib.rs"

[dependencies]
ark-ff = { path = "/repo/ff", default-features = false }
ark-ff-macros = { path = "/repo/ff-macros" }
"""
    files[os.path.join(NEG, ".cargo", "config.toml")] = "[net]\noffline = true\n"
    files[os.path.join(NEG, ".gitignore")] = "target\n"
    p17, p64, p128 = 17, toy["P64"]["p"], toy["P128"]["p"]
    files[os.path.join(NEG, "src", "lib.rs")] = f"""// @generated by /verif/gen/literals.py - do not edit
//! Field types for the must-fail-to-compile literals of C20.
use ark_ff::fields::{{Fp, MontBackend}};

#[derive(ark_ff::MontConfig)]
#[modulus = "{p17}"]
#[generator = "3"]
pub struct F17Cfg;
pub type F17 = Fp<MontBackend<F17Cfg, 1>, 1>;

#[derive(ark_ff::MontConfig)]
#[modulus = "{p64}"]
#[generator = "{toy['P64']['g']}"]
pub struct FP64Cfg;
pub type FP64 = Fp<MontBackend<FP64Cfg, 1>, 1>;

#[derive(ark_ff::MontConfig)]
#[modulus = "{p128}"]
#[generator = "{toy['P128']['g']}"]
pub struct FP128Cfg;
pub type FP128 = Fp<MontBackend<FP128Cfg, 2>, 2>;

pub fn show_fp<const N: usize, P: ark_ff::FpConfig<N>>(x: &Fp<P, N>) {{
    println!("{{:?}}", (x.0).0);
}}
pub fn show_big<const N: usize>(x: &ark_ff::BigInt<N>) {{
    println!("{{:?}}", x.0);
}}
"""
    FT = {"F17": (p17, 1), "FP64": (p64, 1), "FP128": (p128, 2)}
    cases = []   # (macro, type, literal, reason, value if it compiles (python int) or None)
    def add(macro, ty, lit, reason, val):
        cases.append((macro, ty, lit, reason, val))
    # the positive control: must build, and must print the right limbs
    add("MontFp", "F17", "-0x10", "control: must compile (-16 mod 17 = 1)", -16)
    add("BigInt", "BigInt<2>", "0x10000000000000001", "control: must compile", (1 << 64) + 1)
    # negative big integers
    add("BigInt", "BigInt<1>", "-1", "negative literal for an unsigned big integer", None)
    add("BigInt", "BigInt<4>", "-0x1f", "negative literal for an unsigned big integer", None)
    # literals that do not fit the limb count
    add("BigInt", "BigInt<1>", str(1 << 64), "value 2^64 does not fit 1 limb", None)
    add("BigInt", "BigInt<2>", hex(1 << 128), "value 2^128 does not fit 2 limbs", None)
    add("BigInt", "BigInt<4>", str((1 << 256) + 1), "value 2^256+1 does not fit 4 limbs", None)
    add("MontFp", "F17", str(1 << 64), "value 2^64 does not fit 1 limb", None)
    add("MontFp", "FP64", "-" + hex(1 << 64), "value -2^64 does not fit 1 limb", None)
    add("MontFp", "FP128", "0b1" + "0" * 128, "value 2^128 does not fit 2 limbs", None)
    add("MontFp", "FP128", str((1 << 128) + 5), "value 2^128+5 does not fit 2 limbs", None)
    # text that is not a number
    add("MontFp", "F17", "", "empty string", None)
    add("BigInt", "BigInt<1>", "", "empty string", None)
    add("MontFp", "F17", "-", "sign only", None)
    add("MontFp", "F17", "0x", "prefix without digits", None)
    add("BigInt", "BigInt<2>", "0b", "prefix without digits", None)
    add("MontFp", "F17", "12a", "hex digit in a decimal literal", None)
    add("MontFp", "F17", "0o8", "digit 8 in an octal literal", None)
    add("MontFp", "F17", "0b2", "digit 2 in a binary literal", None)
    add("MontFp", "F17", "0xg", "digit g in a hexadecimal literal", None)
    add("MontFp", "F17", "1e3", "exponent notation", None)
    add("MontFp", "F17", " 1", "leading blank", None)
    add("MontFp", "F17", "1 ", "trailing blank", None)
    add("MontFp", "F17", "00x1", "zeros before the prefix", None)
    add("MontFp", "F17", "1.0", "decimal point", None)
    # text that is not a number in the documented syntax but has an obvious reading if accepted
    add("MontFp", "F17", "--1", "double minus sign (reading if accepted: -(-1) = 1)", 1)
    add("MontFp", "F17", "+5", "explicit plus sign (reading if accepted: 5)", 5)
    add("MontFp", "F17", "0x-5", "sign after the prefix (reading if accepted: -5)", -5)
    add("MontFp", "F17", "-+3", "minus plus (reading if accepted: -3)", -3)
    add("MontFp", "F17", "1_0", "digit separator (reading if accepted: 10)", 10)
    add("BigInt", "BigInt<1>", "--1", "double minus sign (reading if accepted: 1)", 1)
    listing = []
    for i, (macro, ty, lit, reason, val) in enumerate(cases):
        control = reason.startswith("control")
        name = ("ctl_%02d" if control else "neg_%02d") % i
        if macro == "MontFp":
            p, n = FT[ty]
            decl = f'const X: {ty} = ark_ff::MontFp!("{lit}");'
            show = "show_fp(&X);"
            want = None if val is None else limbs(((val % p) << (64 * n)) % p, n)   # raw Montgomery limbs
            wantv = None if val is None else str(val % p)
        else:
            n = int(ty[len("BigInt<"):-1]); p = None
            decl = f'const X: ark_ff::{ty} = ark_ff::BigInt!("{lit}");'
            show = "show_big(&X);"
            want = None if val is None or val < 0 or val >= (1 << (64 * n)) else limbs(val, n)
            wantv = None if val is None else str(val)
        files[os.path.join(NEG, "src", "bin", name + ".rs")] = (
            "// @generated by /verif/gen/literals.py - do not edit\n"
            f"// {reason}\n"
            "#![allow(unused_imports)]\nuse algebra_mc_neg::*;\n"
            f"{decl}\nfn main() {{\n    {show}\n}}\n")
        listing.append(dict(name=name, macro=macro, type=ty, literal=lit, reason=reason, control=control,
                            n=n, modulus=None if p is None else str(p),
                            value_if_compiles=wantv, limbs_if_compiles=want))
    files[os.path.join(VERIF, "gen", "out", "neg_literals.json")] = json.dumps(listing, indent=1) + "\n"
    # lock file: the repository's own lock, copied once if missing (cargo prunes it on the first build; not diffed)
    lockpath = os.path.join(NEG, "Cargo.lock")
    if not os.path.exists(lockpath) and "--check" not in sys.argv:
        os.makedirs(NEG, exist_ok=True)
        open(lockpath, "w").write(open(os.path.join(REPO, "Cargo.lock")).read())
    return files

if __name__ == "__main__":
    sys.exit(main())
