#!/usr/bin/env python3
"""Generates gen/out/h2c_vectors.json: RFC 9380 reference vectors for property C13, computed with the
independent pure-python model pyref/rfc9380.py (hashlib + int).  stdlib only, deterministic.

    python3 gen/h2c_vectors.py            rewrite gen/out/h2c_vectors.json
    python3 gen/h2c_vectors.py --check    regenerate in memory and compare with the committed file
                                          (exit 0 = identical, exit 2 = different / self-test failed)

Sections of the output (every section is replayed completely by harness/src/bin/c13.rs):
  xmd      hash_to_field vectors for (field, hash, k) where L == input block size of the hash, i.e. where the
           library's ExpanderXmd pads as the RFC does; the expander is observed through hash_to_field.
  xmd_m3   hash_to_field vectors for a field of extension degree 3 (mnt6_298 Fq3, SHA-256, k = 128): the element
           offset arithmetic L * (j + i * m) with m = 3, counts 1..4 (uniform_bytes included for the harness's own
           OS2IP cross-check).
  xmd_pad  hash_to_field vectors for (field, hash, k) where L != block size (latent hazard `expand_xmd_block_pad`):
           `e` is the RFC value, `e_lpad` the value of a model that pads with L zero bytes (triage aid only).
  h2c      hash_to_curve vectors (u, Q0, Q1, P) for the BLS12-381 RFC suites and the library's BLS12-377 suites.
  map      map_to_curve vectors: u alphabet incl. the exceptional inputs of simplified SWU, the inputs whose SWU
           image has y = 0, and the inputs whose SWU image lies in the kernel of the isogeny (RFC result: identity).
  ell2     Elligator 2 (+ D.1 rational map) vectors for the bandersnatch parameters.
"""
import json
import os
import sys

HERE = os.path.dirname(os.path.abspath(__file__))
sys.path.insert(0, os.path.join(HERE, "..", "pyref"))
import rfc9380 as R  # noqa: E402

OUT = os.path.join(HERE, "out", "h2c_vectors.json")


# ------------------------------------------------------------------------------------------------
# alphabets
# ------------------------------------------------------------------------------------------------
def patt(n, a, b):
    return bytes((a * i + b) % 256 for i in range(n))


def messages():
    out = [b""]
    alpha = [0x00, 0x61, 0xFF]
    for a in alpha:
        out.append(bytes([a]))
    for a in alpha:
        for b in alpha:
            out.append(bytes([a, b]))
    for n in (31, 32, 33, 63, 64, 65, 255, 256):
        out.append(patt(n, 31, 7))
    return out


RFC_MSGS = [
    b"",
    b"abc",
    b"abcdef0123456789",
    b"q128_" + b"q" * 128,
    b"a512_" + b"a" * 512,
]

BLS_SIG_DST = b"BLS_SIG_BLS12381G2_XMD:SHA-256_SSWU_RO_NUL_"  # 43 bytes


def tag(n):
    if n == 43:
        return BLS_SIG_DST
    return (b"QUUX-V01-CS02-with-" + bytes(range(256)) * 2)[:n]


TAG_LENS = [0, 1, 16, 43, 255, 256, 257, 300]

# ------------------------------------------------------------------------------------------------
# fields known to the harness (id -> (p, m)); the Rust side maps the id to the ark type
# ------------------------------------------------------------------------------------------------
P_BLS381_FR = R.R381
P_SECP256K1 = 2**256 - 2**32 - 977
P_MNT4_753 = 41898490967918953402344214791240637128170709919953949071783502921025352812571106773058893763790338921418070971888253786114353726529584385201591605722013126468931404347949840543007986327743462853720628051692141265303114721689601
P_MNT6_298 = 475922286169261325753349249653048451545124878552823515553267735739164647307408490559963137
FIELDS = {
    "mnt6_298_fq3": (P_MNT6_298, 3),
    "bls12_381_fq": (R.P381, 1),
    "bls12_381_fq2": (R.P381, 2),
    "bls12_377_fq": (R.P377, 1),
    "bls12_381_fr": (P_BLS381_FR, 1),
    "secp256k1_fq": (P_SECP256K1, 1),
    "mnt4_753_fq": (P_MNT4_753, 1),
    "d101": (101, 1),
}


def hx(x):
    return format(x, "x")


def el_hex(F, e):
    return [hx(c) for c in F.coords(e)]


def pt_hex(F, P):
    return None if P is None else [el_hex(F, P[0]), el_hex(F, P[1])]


# ------------------------------------------------------------------------------------------------
# polynomial root finding over F (for the exceptional inputs of the isogenies); no randomness
# ------------------------------------------------------------------------------------------------
def ptrim(F, a):
    a = list(a)
    while a and F.is_zero(a[-1]):
        a.pop()
    return a


def pdivmod(F, a, f):
    a = ptrim(F, a)
    f = ptrim(F, f)
    d = len(f) - 1
    li = F.inv0(f[-1])
    q = [F.zero] * max(len(a) - d, 0)
    while a and len(a) - 1 >= d:
        c = F.mul(a[-1], li)
        s = len(a) - 1 - d
        q[s] = c
        for i, y in enumerate(f):
            a[s + i] = F.sub(a[s + i], F.mul(c, y))
        a = ptrim(F, a)
    return q, a


def pmulmod(F, a, b, f):
    if not a or not b:
        return []
    res = [F.zero] * (len(a) + len(b) - 1)
    for i, x in enumerate(a):
        for j, y in enumerate(b):
            res[i + j] = F.add(res[i + j], F.mul(x, y))
    return pdivmod(F, res, f)[1]


def psub(F, a, b):
    n = max(len(a), len(b))
    a = list(a) + [F.zero] * (n - len(a))
    b = list(b) + [F.zero] * (n - len(b))
    return ptrim(F, [F.sub(x, y) for x, y in zip(a, b)])


def pgcd(F, a, b):
    a, b = ptrim(F, a), ptrim(F, b)
    while b:
        a, b = b, pdivmod(F, a, b)[1]
    return a


def ppow(F, base, e, f):
    res = [F.one]
    for bit in bin(e)[2:]:
        res = pmulmod(F, res, res, f)
        if bit == "1":
            res = pmulmod(F, res, base, f)
    return res


def roots(F, f):
    """all distinct roots in F of the polynomial f (coefficients low -> high)"""
    q = F.p ** F.m
    f = ptrim(F, [F.el(c) for c in f])
    g = pgcd(F, psub(F, ppow(F, [F.zero, F.one], q, f), [F.zero, F.one]), f)
    out = []

    def split(g, shift):
        g = ptrim(F, g)
        if len(g) <= 1:
            return
        if len(g) == 2:
            out.append(F.mul(F.neg(g[0]), F.inv0(g[1])))
            return
        while True:
            s = F.el(shift) if F.m == 1 else F.el((shift, 7 * shift + 1))
            h = pgcd(F, psub(F, ppow(F, [s, F.one], (q - 1) // 2, g), [F.one]), g)
            shift += 1
            if 0 < len(h) - 1 < len(g) - 1:
                split(h, shift)
                split(pdivmod(F, g, h)[0], shift)
                return

    split(g, 1)
    for x in out:
        acc = F.zero
        for c in reversed(f):
            acc = F.add(F.mul(acc, x), c)
        assert F.is_zero(acc)
    return sorted(out, key=lambda e: F.coords(e))


def swu_preimages(S, x):
    """all u whose simplified-SWU image on E' has x-coordinate x"""
    F, A, B, Z = S.F, S.Eiso.A, S.Eiso.B, S.Z
    c = F.mul(F.neg(A), F.mul(x, F.inv0(B)))  # c = -A x / B
    inv2 = F.inv0(F.el(2))
    ws = []
    cm1 = F.sub(c, F.one)
    if not F.is_zero(cm1):  # x = x1:  t = 1/(c - 1),  w^2 + w - t = 0,  w = Z u^2
        t = F.inv0(cm1)
        s = F.sqrt(F.add(F.one, F.mul(F.el(4), t)))
        if s is not None:
            ws += [F.mul(F.sub(sg, F.one), inv2) for sg in (s, F.neg(s))]
    b = F.sub(F.one, c)  # x = x2:  w^2 + (1 - c) w + (1 - c) = 0
    s = F.sqrt(F.sub(F.mul(b, b), F.mul(F.el(4), b)))
    if s is not None:
        ws += [F.mul(F.sub(sg, b), inv2) for sg in (s, F.neg(s))]
    out = []
    for w in ws:
        uu = F.sqrt(F.mul(w, F.inv0(Z)))
        if uu is None:
            continue
        for u in (uu, F.neg(uu)):
            (px, _), _ = S.map_to_curve_iso(u)
            if px == x and u not in out:
                out.append(u)
    return sorted(out, key=lambda e: F.coords(e))


# ------------------------------------------------------------------------------------------------
# sections
# ------------------------------------------------------------------------------------------------
def h2f_entry(fid, hash_name, k, msg, dst, count, s_in_bytes=None):
    p, m = FIELDS[fid]
    ub, ints = R.hash_to_field_ints(msg, count, dst, p, m, k, hash_name, s_in_bytes)
    return ub, [[hx(c) for c in e] for e in ints]


def gen_xmd():
    out = []
    msgs = messages()
    tags = [tag(n) for n in TAG_LENS]
    # the two fields of the RFC's BLS12-381 suites: full product
    for fid in ("bls12_381_fq", "bls12_381_fq2"):
        for dst in tags:
            for msg in msgs:
                for count in (1, 2, 3, 4):
                    ub, e = h2f_entry(fid, "sha256", 128, msg, dst, count)
                    ent = {"f": fid, "h": "sha256", "k": 128, "msg": msg.hex(), "dst": dst.hex(), "n": count, "e": e}
                    if len(ub) <= 128:
                        ent["ub"] = ub.hex()
                    out.append(ent)
    # other (field, hash, k) with L == block size of the hash
    few_msgs = [b"", b"abc", patt(64, 31, 7)]
    for fid, hn, k in (("bls12_377_fq", "sha256", 128), ("bls12_381_fr", "sha256", 256),
                       ("mnt4_753_fq", "sha512", 270), ("mnt4_753_fq", "sha384", 270),
                       ("bls12_381_fq", "sha224", 128), ("bls12_381_fq2", "sha224", 128)):
        p, m = FIELDS[fid]
        assert R.L_of(p, k) == R.HASHES[hn][2]
        for dst in tags:
            for msg in few_msgs:
                for count in (1, 2):
                    ub, e = h2f_entry(fid, hn, k, msg, dst, count)
                    out.append({"f": fid, "h": hn, "k": k, "msg": msg.hex(), "dst": dst.hex(), "n": count, "e": e})
    return out


def gen_xmd_m3():
    """extension degree 3: every coordinate offset L * (j + i * m), j in 0..3, for counts 1..4"""
    out = []
    few_msgs = [b"", b"abc", patt(64, 31, 7)]
    fid, hn, k = "mnt6_298_fq3", "sha256", 128
    p, m = FIELDS[fid]
    assert m == 3
    L = R.L_of(p, k)
    for dst in [tag(n) for n in TAG_LENS]:
        for msg in few_msgs:
            for count in (1, 2, 3, 4):
                ub, e = h2f_entry(fid, hn, k, msg, dst, count)
                assert len(ub) == count * m * L and all(len(x) == m for x in e)
                out.append({"f": fid, "h": hn, "k": k, "L": L, "msg": msg.hex(), "dst": dst.hex(), "n": count, "e": e, "ub": ub.hex()})
    return out


def gen_xmd_pad():
    out = []
    for fid, hn, k in (("bls12_381_fr", "sha256", 128), ("bls12_381_fr", "sha512", 128), ("bls12_381_fq", "sha512", 128),
                       ("secp256k1_fq", "sha256", 128), ("mnt4_753_fq", "sha256", 128), ("d101", "sha256", 128)):
        p, m = FIELDS[fid]
        L = R.L_of(p, k)
        assert L != R.HASHES[hn][2]
        for dst in (tag(43), tag(256)):
            for msg in (b"", b"abc"):
                for count in (1, 2):
                    _, e = h2f_entry(fid, hn, k, msg, dst, count)
                    _, e2 = h2f_entry(fid, hn, k, msg, dst, count, s_in_bytes=L)
                    out.append({"f": fid, "h": hn, "k": k, "L": L, "block": R.HASHES[hn][2], "msg": msg.hex(),
                                "dst": dst.hex(), "n": count, "e": e, "e_lpad": e2})
    return out


def gen_xmd_len():
    """requested lengths at the RFC's limit ell = ceil(len_in_bytes / b_in_bytes) <= 255 (5.3.1 step 2): the largest
    legal request (an exact multiple of the digest size), its neighbours below, and far-from-the-limit multiples"""
    out = []
    cases = (("bls12_381_fr", "sha256", 128, (169, 170)),     # L=48: 8112 (ell 254), 8160 = 255*32
             ("secp256k1_fq", "sha256", 128, (170,)),          # L=48
             ("bls12_381_fq", "sha256", 128, (127,)),          # L=64: 8128 = 254*32 (exact multiple below the limit)
             ("bls12_381_fq", "sha512", 128, (254, 255)),      # L=64: 254*64, 255*64 = the limit
             ("d101", "sha256", 128, (479, 480)))              # L=17: 8143 (ell 255, not a multiple), 8160 = 255*32
    for fid, hn, k, counts in cases:
        p, m = FIELDS[fid]
        L = R.L_of(p, k)
        b = R.HASHES[hn][1]
        for count in counts:
            n = count * m * L
            assert (n + b - 1) // b <= 255
            for dst, msg in ((tag(43), b"abc"), (tag(256), b"")):
                _, e = h2f_entry(fid, hn, k, msg, dst, count)
                out.append({"f": fid, "h": hn, "k": k, "L": L, "msg": msg.hex(), "dst": dst.hex(), "n": count, "e": e})
    return out


def gen_h2c():
    out = []
    msgs = messages()
    for name, S in R.SUITES.items():
        F = S.F
        default_dst = b"QUUX-V01-CS02-with-" + name.encode()
        cases = [(default_dst, m, True) for m in RFC_MSGS]
        lens = TAG_LENS if "381" in name else [0, 43, 256]
        for n in lens:
            for m in msgs:
                cases.append((tag(n), m, False))
        for dst, msg, rfc in cases:
            r = S.hash_to_curve(msg, dst)
            assert S.E.on_curve(r["P"]) and S.E.mul(S.r, r["P"]) is None
            out.append({"suite": name, "rfc_msg": rfc, "msg": msg.hex(), "dst": dst.hex(),
                        "u": [el_hex(F, u) for u in r["u"]], "Q0": pt_hex(F, r["Q0"]), "Q1": pt_hex(F, r["Q1"]),
                        "P": pt_hex(F, r["P"])})
    return out


def u_alphabet(S):
    F = S.F
    p = F.p
    base = [0, 1, p - 1, 2, p - 2, 3, (p - 1) // 2, (p + 1) // 2, 0x9E3779B97F4A7C15]
    if F.m == 1:
        return [F.el(v) for v in base]
    co = [0, 1, p - 1, 2, (p - 1) // 2]
    return [F.el((a, b)) for a in co for b in co] + [F.el((0x9E3779B97F4A7C15, 3))]


def gen_map():
    out = []
    for name, S in R.SUITES.items():
        F = S.F
        us = [(u, "alphabet") for u in u_alphabet(S)]
        # exceptional inputs of SWU: Z^2 u^4 + Z u^2 = 0, u != 0  <=>  u^2 = -1/Z
        s = F.sqrt(F.neg(F.inv0(S.Z)))
        if s is not None:
            us += [(s, "swu_exceptional"), (F.neg(s), "swu_exceptional")]
        # inputs mapped by SWU into the kernel of the isogeny (iso_map's exceptional case)
        for x in roots(F, S.iso["x_map_denominator"]) :
            for u in swu_preimages(S, x):
                us.append((u, "iso_kernel"))
        # inputs whose SWU image has y = 0 (gx1 = 0; is_square(0) is true in the RFC)
        for x in roots(F, [S.Eiso.B, S.Eiso.A, F.zero, F.one]):
            for u in swu_preimages(S, x):
                us.append((u, "swu_gx1_zero"))
        seen = set()
        for u, why in us:
            key = tuple(F.coords(u))
            if key in seen:
                continue
            seen.add(key)
            Pp, info = S.map_to_curve_iso(u)
            assert S.Eiso.on_curve(Pp)
            Q = R.iso_map(F, S.iso, Pp)
            assert S.E.on_curve(Q)
            out.append({"suite": name, "why": why, "u": el_hex(F, u), "Qiso": pt_hex(F, Pp), "Q": pt_hex(F, Q),
                        "gx1_square": info["branch"] == "gx1_square", "exceptional": info["exceptional"],
                        "gx1_zero": info["gx1_zero"], "kernel": Q is None})
    return out


# bandersnatch: Montgomery form K t^2 = s^3 + J s^2 + s and Z are data of /repo/curves/ed_on_bls12_381_bandersnatch
BANDER_J = 29978822694968839326280996386011761570173833766074948509196803838190355340952
BANDER_K = 25465760566081946422412445027709227188579564747101592991722834452325077642517
BANDER_Z = 5
BANDER_A = -5
BANDER_D = 45022363124591815672509500913686876175488063829319466900776701791074614335719


def gen_ell2():
    out = []
    F = R.Fp(P_BLS381_FR)
    p = F.p
    us = [0, 1, p - 1, 2, p - 2, 3, (p - 1) // 2, (p + 1) // 2, 7, 0x9E3779B97F4A7C15]
    s = F.sqrt(F.neg(F.inv0(BANDER_Z)))  # 1 + Z u^2 = 0
    if s is not None:
        us += [s, F.neg(s)]
    for u in us:
        (s_, t_), info = R.map_to_curve_elligator2(F, BANDER_J, BANDER_K, BANDER_Z, u)
        assert F.mul(F.el(BANDER_K), F.mul(t_, t_)) == F.add(F.add(F.mul(F.mul(s_, s_), s_), F.mul(F.el(BANDER_J), F.mul(s_, s_))), s_)
        v, w = R.monty_to_edwards(F, s_, t_)
        v2, w2 = F.mul(v, v), F.mul(w, w)
        on_te = F.add(F.mul(F.el(BANDER_A), v2), w2) == F.add(F.one, F.mul(F.el(BANDER_D), F.mul(v2, w2)))
        out.append({"curve": "bandersnatch", "u": hx(u), "s": hx(s_), "t": hx(t_), "v": hx(v), "w": hx(w),
                    "gx1_square": info["branch"] == "gx1_square", "exceptional": info["exceptional"], "model_on_te_curve": on_te})
    return out


def render():
    sections = [("xmd", gen_xmd()), ("xmd_m3", gen_xmd_m3()), ("xmd_pad", gen_xmd_pad()), ("xmd_len", gen_xmd_len()), ("h2c", gen_h2c()), ("map", gen_map()), ("ell2", gen_ell2())]
    lines = ["{"]
    lines.append('"generator": "gen/h2c_vectors.py + pyref/rfc9380.py (pure python: hashlib + int)",')
    lines.append('"fields": ' + json.dumps({k: {"p": hx(v[0]), "m": v[1]} for k, v in sorted(FIELDS.items())}, sort_keys=True) + ",")
    lines.append('"suites": ' + json.dumps({n: {"p": hx(S.F.p), "m": S.F.m, "L": S.L, "k": S.k, "hash": S.hash_name,
                                                 "h_eff": hx(S.h_eff), "r": hx(S.r)} for n, S in sorted(R.SUITES.items())}, sort_keys=True) + ",")
    for si, (name, ents) in enumerate(sections):
        lines.append('"%s": [' % name)
        for i, e in enumerate(ents):
            lines.append(json.dumps(e, sort_keys=True, separators=(",", ":")) + ("," if i + 1 < len(ents) else ""))
        lines.append("]" + ("," if si + 1 < len(sections) else ""))
    lines.append("}")
    return "\n".join(lines) + "\n"


def main():
    check = "--check" in sys.argv[1:]
    if not R.selftest(verbose=True):
        print("h2c_vectors: reference model self-test failed", file=sys.stderr)
        return 2
    text = render()
    json.loads(text)
    if check:
        try:
            old = open(OUT).read()
        except OSError as e:
            print("h2c_vectors --check: cannot read %s: %s" % (OUT, e), file=sys.stderr)
            return 2
        if old != text:
            a, b = old.splitlines(), text.splitlines()
            n = sum(1 for x, y in zip(a, b) if x != y) + abs(len(a) - len(b))
            print("h2c_vectors --check: committed %s differs from regenerated output (%d lines)" % (OUT, n), file=sys.stderr)
            return 2
        print("h2c_vectors --check: %s is up to date (%d bytes)" % (OUT, len(text)))
        return 0
    os.makedirs(os.path.dirname(OUT), exist_ok=True)
    with open(OUT, "w") as f:
        f.write(text)
    d = json.loads(text)
    print("wrote %s: %s" % (OUT, ", ".join("%s=%d" % (k, len(d[k])) for k in ("xmd", "xmd_m3", "xmd_pad", "xmd_len", "h2c", "map", "ell2"))))
    return 0


if __name__ == "__main__":
    sys.exit(main())
