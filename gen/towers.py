#!/usr/bin/env python3
"""Generates harness/src/toy/gen_towers.rs: toy extension-tower configurations
(Fp2Config, Fp3Config, Fp4Config, both Fp6Config flavours, Fp12Config) over the
toy prime fields of gen_fields.rs.  stdlib only.

Every constant is computed here with plain python ints in the ABSOLUTE
representation F_p[X]/(f(X)) of the top field (one variable, one modulus
polynomial), which is deliberately not the nested representation used by the
library and by the Rust oracle of c02.rs:

    Fp2          f = X^2 - beta                              u = X
    Fp3          f = X^3 - beta                              u = X
    Fp4          f = X^4 - beta                              v = X, u = X^2
    Fp6 (2o3)    f = X^6 - beta                              v = X, u = X^2   (u^3 = beta, v^2 = u)
    Fp6 (3o2)    f = X^6 - 2a X^3 + (a^2 - beta b^2)         v = X, u = (X^3 - a)/b   (xi = a + b u, v^3 = xi)
    Fp12         f = X^12 - 2a X^6 + (a^2 - beta b^2)        w = X, v = X^2, u = (X^6 - a)/b

f is proved irreducible by Rabin's test (polynomial gcds).  A Frobenius
coefficient is DEFINED by  gen^(p^k) = coeff * gen  (gen = the adjoined root of
the top level, or its square for the C2 tables); X^(p^k) mod f is computed by
square-and-multiply and the coefficient is read off the resulting polynomial
(every coefficient that has to vanish is asserted to vanish).

Structural facts (why the list differs from a naive one): the library's model
stores Frobenius coefficients of Fp4 / Fp6(2o3) in F_p and those of
Fp6(3o2)/Fp12 in Fp2 and multiplies c1 (c2) by them, which only describes the
Frobenius map when v^(p^k) is a multiple of v.  That forces p = 1 mod 4 for Fp4
and p = 1 mod 3 for every tower with a cubic step (a binomial X^3 - beta is
reducible over F_p for p = 2 mod 3).  Hence no Fp3/Fp6/Fp12 over F_5 and no Fp4
over F_7 exist in this model; 7 and 13 are the smallest usable primes."""
import sys, os

# ----------------------------------------------------------------- polynomials over F_p (lists, low degree first)
def trim(a):
    while a and a[-1] == 0: a.pop()
    return a

def padd(a, b, p):
    n = max(len(a), len(b))
    return trim([((a[i] if i < len(a) else 0) + (b[i] if i < len(b) else 0)) % p for i in range(n)])

def psub(a, b, p):
    n = max(len(a), len(b))
    return trim([((a[i] if i < len(a) else 0) - (b[i] if i < len(b) else 0)) % p for i in range(n)])

def pmul(a, b, p):
    if not a or not b: return []
    r = [0]*(len(a)+len(b)-1)
    for i, x in enumerate(a):
        if x:
            for j, y in enumerate(b):
                r[i+j] = (r[i+j] + x*y) % p
    return trim(r)

def pdivmod(a, b, p):
    a = a[:]; q = [0]*max(1, len(a)-len(b)+1)
    inv = pow(b[-1], -1, p)
    while len(a) >= len(b) and a:
        c = a[-1]*inv % p; d = len(a)-len(b)
        q[d] = c
        for i, y in enumerate(b):
            a[d+i] = (a[d+i] - c*y) % p
        trim(a)
    return trim(q), a

def pmod(a, f, p): return pdivmod(a, f, p)[1]

def pgcd(a, b, p):
    a, b = a[:], b[:]
    while b:
        a, b = b, pmod(a, b, p)
    if a:
        inv = pow(a[-1], -1, p)
        a = [x*inv % p for x in a]
    return a

def ppow(a, e, f, p):
    r = [1]; a = pmod(a, f, p)
    while e:
        if e & 1: r = pmod(pmul(r, a, p), f, p)
        a = pmod(pmul(a, a, p), f, p)
        e >>= 1
    return r

def prime_factors(n):
    out = []; d = 2
    while d*d <= n:
        if n % d == 0:
            out.append(d)
            while n % d == 0: n //= d
        d += 1
    if n > 1: out.append(n)
    return out

def irreducible(f, p):
    """Rabin's test for a monic f over F_p."""
    n = len(f)-1
    X = [0, 1]
    if psub(ppow(X, p**n, f, p), X, p): return False
    for q in prime_factors(n):
        h = psub(ppow(X, p**(n//q), f, p), X, p)
        if pgcd(f, h, p) != [1]: return False
    return True

def coeffs(a, n):
    return [(a[i] if i < len(a) else 0) for i in range(n)]

def is_qr(x, p): return pow(x, (p-1)//2, p) == 1
def is_cube(x, p): return (p-1) % 3 != 0 or pow(x, (p-1)//3, p) == 1

# ----------------------------------------------------------------- parameter choice
def smallest_qnr(p):
    b = 2
    while is_qr(b, p): b += 1
    return b

def beta_fp2(p, minus_one):
    if minus_one:
        assert p % 4 == 3
        return p-1
    b = smallest_qnr(p)
    assert b != p-1
    return b

def beta_fp3(p, also_qnr):
    assert p % 3 == 1, "X^3 - beta is reducible over F_p unless p = 1 mod 3"
    b = 2
    while is_cube(b, p) or (also_qnr and is_qr(b, p)) or ((not also_qnr) and not is_qr(b, p)): b += 1
    return b

def xi_fp2(p, beta):
    """smallest (b, a) with b != 0 such that xi = a + b u is neither a square nor a cube in Fp2,
    i.e. X^12 - 2a X^6 + (a^2 - beta b^2) is irreducible"""
    for b in range(1, p):
        for a in range(1, p):      # a != 0: a generic-looking xi
            if irreducible(f12(p, beta, a, b), p):
                return a, b
    raise Exception("no xi")

def f6_32(p, beta, a, b): return [(a*a - beta*b*b) % p, 0, 0, (-2*a) % p, 0, 0, 1]
def f12(p, beta, a, b): return [(a*a - beta*b*b) % p] + [0]*5 + [(-2*a) % p] + [0]*5 + [1]

def frob_scalar(f, p, g_exp, k, pos):
    """coefficient c in F_p with (X^g_exp)^(p^k) = c X^g_exp; asserts that shape"""
    n = len(f)-1
    W = coeffs(ppow([0]*g_exp + [1], p**k, f, p), n)
    for i, c in enumerate(W):
        assert c == 0 or i == pos, ("frobenius image is not a scalar multiple", f, p, k, W)
    return W[pos]

def frob_fp2coeff(f, p, a, b, g_exp, k, step):
    """coefficient (c0, c1) in Fp2 with (X^g_exp)^(p^k) = (c0 + c1 u) X^g_exp where u = (X^step - a)/b:
       (c0 + c1 u) X^g = (c0 - c1 a/b) X^g + (c1/b) X^(g+step)"""
    n = len(f)-1
    W = coeffs(ppow([0]*g_exp + [1], p**k, f, p), n)
    for i, c in enumerate(W):
        assert c == 0 or i in (g_exp, g_exp+step), ("frobenius image has the wrong shape", f, p, k, W)
    c1 = b * W[g_exp+step] % p
    c0 = (W[g_exp] + a * W[g_exp+step]) % p
    return (c0, c1)

# ----------------------------------------------------------------- the list
FP2 = [(7, True), (11, True), (19, True), (31, True), (43, True), (5, False), (13, False), (17, False), (29, False)]
FP3 = [(7, True, ""), (13, True, ""), (19, True, ""), (7, False, "b")]      # (p, beta also a quadratic non-residue, name suffix)
FP4 = [5, 13, 17]            # over the general-beta Fp2 of the same p (p = 1 mod 4 is forced)
FP6_23 = [7, 13]             # over the Fp3 whose beta is also a quadratic non-residue
FP6_32 = [7, 13]             # over Fp2 of the same p (7: beta = -1, 13: general)
FP12 = [7, 13]               # over the Fp6_32 of the same p

out = []
w = out.append
w("// @generated by /verif/gen/towers.py - do not edit")
w("#![allow(non_camel_case_types, dead_code)]")
w("use super::gen_fields::*;")
w("use ark_ff::fields::models::{fp12_2over3over2 as m12, fp2 as m2, fp3 as m3, fp4 as m4, fp6_2over3 as m623, fp6_3over2 as m632};")
w("use ark_ff::MontFp;")
w("")

table = []   # (name, kind, p, beta, xi_a, xi_b, base tower name)
mac = {k: [] for k in ("fp2", "fp3", "fp4", "fp6_2over3", "fp6_3over2", "fp12")}

def fp(x): return f'MontFp!("{x}")'
def fp2c(name2, c): return f"m2::Fp2::<{name2}Config>::new({fp(c[0])}, {fp(c[1])})"

fp2_beta = {}
for p, m1 in FP2:
    beta = beta_fp2(p, m1)
    f = [(-beta) % p, 0, 1]
    assert irreducible(f, p)
    fp2_beta[p] = beta
    c1 = [frob_scalar(f, p, 1, k, 1) for k in range(2)]
    name = f"T{p}Fq2"
    w(f"/// Fp2 = F_{p}[u]/(u^2 - {beta}){'   (beta = -1)' if m1 else ''}")
    w(f"pub struct {name}Config;")
    w(f"impl m2::Fp2Config for {name}Config {{")
    w(f"    type Fp = D{p};")
    w(f"    const NONRESIDUE: D{p} = {fp(beta)};")
    w(f"    const FROBENIUS_COEFF_FP2_C1: &'static [D{p}] = &[{', '.join(fp(c) for c in c1)}];")
    w("}")
    w(f"pub type {name} = m2::Fp2<{name}Config>;")
    w("")
    table.append((name, "fp2", p, beta, 0, 0, ""))
    mac["fp2"].append((name, p))

fp3_beta = {}
for p, also_qnr, suf in FP3:
    beta = beta_fp3(p, also_qnr)
    f = [(-beta) % p, 0, 0, 1]
    assert irreducible(f, p)
    if suf == "": fp3_beta[p] = beta
    c1 = [frob_scalar(f, p, 1, k, 1) for k in range(3)]
    c2 = [frob_scalar(f, p, 2, k, 2) for k in range(3)]
    q = p**3
    s = 0; t = q-1
    while t % 2 == 0: t //= 2; s += 1
    # first quadratic non-residue of Fp3 among u, 1+u, 2+u, ... , then 0 + u^2 ...
    qnr = None
    for c2_ in range(p):
        for c1_ in range(p):
            for c0_ in range(p):
                e = trim([c0_, c1_, c2_])
                if len(e) < 2: continue          # skip elements of F_p
                if ppow(e, (q-1)//2, f, p) == [p-1]:
                    qnr = e; break
            if qnr: break
        if qnr: break
    nt = coeffs(ppow(qnr, t, f, p), 3)
    assert ppow(nt, 2**(s-1), f, p) == [p-1] and ppow(nt, 2**s, f, p) == [1]
    tm = (t-1)//2
    assert tm < 2**64
    name = f"T{p}{suf}Fq3"
    w(f"/// Fp3 = F_{p}[u]/(u^3 - {beta}); beta is {'also' if also_qnr else 'not'} a quadratic non-residue; p^3 - 1 = 2^{s} * {t}; qnr = {coeffs(qnr,3)}")
    w(f"pub struct {name}Config;")
    w(f"impl m3::Fp3Config for {name}Config {{")
    w(f"    type Fp = D{p};")
    w(f"    const NONRESIDUE: D{p} = {fp(beta)};")
    w(f"    const TWO_ADICITY: u32 = {s};")
    w(f"    const TRACE_MINUS_ONE_DIV_TWO: &'static [u64] = &[{tm}];")
    w(f"    const QUADRATIC_NONRESIDUE_TO_T: m3::Fp3<Self> = m3::Fp3::<Self>::new({fp(nt[0])}, {fp(nt[1])}, {fp(nt[2])});")
    w(f"    const FROBENIUS_COEFF_FP3_C1: &'static [D{p}] = &[{', '.join(fp(c) for c in c1)}];")
    w(f"    const FROBENIUS_COEFF_FP3_C2: &'static [D{p}] = &[{', '.join(fp(c) for c in c2)}];")
    w("}")
    w(f"pub type {name} = m3::Fp3<{name}Config>;")
    w("")
    table.append((name, "fp3", p, beta, 0, 0, ""))
    mac["fp3"].append((name, p))

for p in FP4:
    assert p % 4 == 1
    beta = fp2_beta[p]
    f = [(-beta) % p, 0, 0, 0, 1]
    assert irreducible(f, p)
    c1 = [frob_scalar(f, p, 1, k, 1) for k in range(4)]
    name = f"T{p}Fq4"; b2 = f"T{p}Fq2"
    w(f"/// Fp4 = Fp2[v]/(v^2 - u) over {b2}")
    w(f"pub struct {name}Config;")
    w(f"impl m4::Fp4Config for {name}Config {{")
    w(f"    type Fp2Config = {b2}Config;")
    w(f"    const NONRESIDUE: {b2} = {fp2c(b2, (0, 1))};")
    w(f"    const FROBENIUS_COEFF_FP4_C1: &'static [D{p}] = &[{', '.join(fp(c) for c in c1)}];")
    w("}")
    w(f"pub type {name} = m4::Fp4<{name}Config>;")
    w("")
    table.append((name, "fp4", p, beta, 0, 0, b2))
    mac["fp4"].append((name, p))

for p in FP6_23:
    beta = fp3_beta[p]
    f = [(-beta) % p] + [0]*5 + [1]
    assert irreducible(f, p)
    c1 = [frob_scalar(f, p, 1, k, 1) for k in range(6)]
    name = f"T{p}Fq6x23"; b3 = f"T{p}Fq3"
    w(f"/// Fp6 = Fp3[v]/(v^2 - u) over {b3}")
    w(f"pub struct {name}Config;")
    w(f"impl m623::Fp6Config for {name}Config {{")
    w(f"    type Fp3Config = {b3}Config;")
    w(f"    const NONRESIDUE: {b3} = m3::Fp3::<{b3}Config>::new({fp(0)}, {fp(1)}, {fp(0)});")
    w(f"    const FROBENIUS_COEFF_FP6_C1: &'static [D{p}] = &[{', '.join(fp(c) for c in c1)}];")
    w("}")
    w(f"pub type {name} = m623::Fp6<{name}Config>;")
    w("")
    table.append((name, "fp6_2over3", p, beta, 0, 0, b3))
    mac["fp6_2over3"].append((name, p))

xi = {}
for p in FP6_32:
    assert p % 3 == 1
    beta = fp2_beta[p]
    a, b = xi_fp2(p, beta)
    xi[p] = (a, b)
    f = f6_32(p, beta, a, b)
    assert irreducible(f, p)
    c1 = [frob_fp2coeff(f, p, a, b, 1, k, 3) for k in range(6)]
    c2 = [frob_fp2coeff(f, p, a, b, 2, k, 3) for k in range(6)]
    name = f"T{p}Fq6x32"; b2 = f"T{p}Fq2"
    w(f"/// Fp6 = Fp2[v]/(v^3 - ({a} + {b} u)) over {b2}")
    w("#[derive(Clone, Copy)]")
    w(f"pub struct {name}Config;")
    w(f"impl m632::Fp6Config for {name}Config {{")
    w(f"    type Fp2Config = {b2}Config;")
    w(f"    const NONRESIDUE: {b2} = {fp2c(b2, (a, b))};")
    w(f"    const FROBENIUS_COEFF_FP6_C1: &'static [{b2}] = &[")
    for c in c1: w(f"        {fp2c(b2, c)},")
    w("    ];")
    w(f"    const FROBENIUS_COEFF_FP6_C2: &'static [{b2}] = &[")
    for c in c2: w(f"        {fp2c(b2, c)},")
    w("    ];")
    w("}")
    w(f"pub type {name} = m632::Fp6<{name}Config>;")
    w("")
    table.append((name, "fp6_3over2", p, beta, a, b, b2))
    mac["fp6_3over2"].append((name, p))

for p in FP12:
    beta = fp2_beta[p]
    a, b = xi[p]
    f = f12(p, beta, a, b)
    assert irreducible(f, p)
    c1 = [frob_fp2coeff(f, p, a, b, 1, k, 6) for k in range(12)]
    name = f"T{p}Fq12"; b6 = f"T{p}Fq6x32"; b2 = f"T{p}Fq2"
    w(f"/// Fp12 = Fp6[w]/(w^2 - v) over {b6}; cyclotomic subgroup order Phi_12({p}) = {p**4 - p**2 + 1}")
    w("#[derive(Clone, Copy)]")
    w(f"pub struct {name}Config;")
    w(f"impl m12::Fp12Config for {name}Config {{")
    w(f"    type Fp6Config = {b6}Config;")
    w(f"    const NONRESIDUE: {b6} = m632::Fp6::<{b6}Config>::new({fp2c(b2, (0, 0))}, {fp2c(b2, (1, 0))}, {fp2c(b2, (0, 0))});")
    w(f"    const FROBENIUS_COEFF_FP12_C1: &'static [{b2}] = &[")
    for c in c1: w(f"        {fp2c(b2, c)},")
    w("    ];")
    w("}")
    w(f"pub type {name} = m12::Fp12<{name}Config>;")
    w("")
    table.append((name, "fp12", p, beta, a, b, b6))
    mac["fp12"].append((name, p))

w("/// (name, kind, p, beta = nonresidue of the F_p-level binomial, xi = (a, b) = a + b u nonresidue of the cubic step over Fp2 (0, 0 if none), base tower)")
w("pub const TOWER_TABLE: &[(&str, &str, u64, u64, u64, u64, &str)] = &[")
for (name, kind, p, beta, a, b, base) in table:
    w(f'    ("{name}", "{kind}", {p}, {beta}, {a}, {b}, "{base}"),')
w("];")
for kind, entries in mac.items():
    w("#[macro_export]")
    w(f"macro_rules! toy_{kind}_towers {{")
    w("    ($m:ident $(, $a:expr)*) => {")
    for (name, p) in entries:
        w(f'        $m!($crate::toy::gen_towers::{name}Config, "{name}", {p}u64 $(, $a)*);')
    w("    };")
    w("}")

dst = os.path.join(os.path.dirname(os.path.abspath(__file__)), "..", "harness", "src", "toy", "gen_towers.rs")
txt = "\n".join(out) + "\n"
if "--check" in sys.argv:
    cur = open(dst).read() if os.path.exists(dst) else ""
    if cur != txt:
        print("gen_towers.rs is stale"); sys.exit(2)
else:
    open(dst, "w").write(txt)
    print("wrote", dst, len(table), "towers")
    for t in table: print("  ", t)
