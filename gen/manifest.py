#!/usr/bin/env python3
"""Writes /verif/MANIFEST.json from the table below (kept valid at all times)."""
import json, os
ROOT = os.path.dirname(os.path.dirname(os.path.abspath(__file__)))
props = [json.loads(l) for l in open(os.path.join(ROOT, "properties.jsonl"))]

# id -> (design section, technique, level text, level note)
CLAIMED = {
 "C15": ("DESIGN.md §3 C15",
   "bounded-exhaustive enumeration of per-limb boundary alphabets (deviation bound 2, all tuples for N<=3), every shift amount, every wNAF window, against a num-bigint reference model",
   "Every BigInt<N> operation for N=1..13 is executed on every operand tuple of a stated finite space (all L10^N tuples for N<=3, deviation balls of radius 2 around 0..0 and f..f otherwise, every shift 0..64N+2, every window 0..66) and compared with arbitrary-precision arithmetic; recodings are checked on all integers 0..4096 and every value within 2^(w-1)+1 of each limb boundary. Exhaustive within those bounds, silent outside them.",
   "Trusts num-bigint as the integer oracle; limbs are 64-bit so the space is an alphabet product, not the full universe."),
}
NOT_YET = "check not built yet in this session (design in DESIGN.md §3); will be claimed once its harness binary exists and has been shown to detect a planted change"

checks, na = [], []
for p in props:
    i = p["id"]
    if i in CLAIMED:
        sec, tech, text, note = CLAIMED[i]
        checks.append({
            "property_id": i,
            "quick_cmd": f"./check {i} --tier quick",
            "thorough_cmd": f"./check {i} --tier thorough",
            "evidence_file": f"/verif/evidence/{i}.json",
            "replay_cmd_template": f"./check {i} --replay {{path}}",
            "engine": "algebra-mc",
            "level_claimed": {"category": "model_checking", "text": text, "design_ref": sec},
            "level_note": note,
            "technique": tech,
        })
    else:
        na.append({"property_id": i, "reason": NOT_YET})
m = {
 "version": 1,
 "setup_cmd": "cd /verif/harness && CARGO_NET_OFFLINE=true cargo build --release --offline --bins",
 "hooks": {
   "guard": "--cfg arkworks_rs_algebra_verif",
   "enable": "RUSTFLAGS='--cfg arkworks_rs_algebra_verif' (set in /verif/harness/.cargo/config.toml [build] rustflags; the harness depends on /repo's crates by path, so every check rebuilds from the working tree with the hooks on)",
   "baseline_off_cmd": "cd /repo && env -u RUSTFLAGS CARGO_NET_OFFLINE=true cargo test --workspace --no-fail-fast --offline",
   "source_commits": [],
   "add_only": True,
 },
 "engines": [
   {"name": "algebra-mc", "path": "/verif/harness", "serves_properties": sorted(CLAIMED),
    "kind_free_text": "Rust harness crate (path deps on /repo): bounded-exhaustive sweeps over indexable finite spaces (toy-instance universes, boundary-alphabet products with deviation bounds) and stateright BFS over operation sequences, each transition calling the real code next to a reference model"},
 ],
 "checks": checks,
 "not_applicable": na,
 "notes": "See DESIGN.md. exit 2 from a check = machinery error (build failure, vacuous run, violation that does not reproduce on replay), never a verdict.",
}
json.dump(m, open(os.path.join(ROOT, "MANIFEST.json"), "w"), indent=1)
print("claimed", sorted(CLAIMED), "not yet", [x["property_id"] for x in na])
