#!/usr/bin/env python3
"""Toy elliptic curves for the harness: brute-force point counts, prime-order
subgroup generators, cofactor inverses.  Emits harness/src/toy/gen_curves.rs.
stdlib only.  (Imported by fields.py for the list of scalar-field primes.)"""
import os, sys

def is_prime(n):
    if n < 2: return False
    d = 2
    while d*d <= n:
        if n % d == 0: return False
        d += 1
    return True

def factor(n):
    f = {}; d = 2
    while d*d <= n:
        while n % d == 0: f[d] = f.get(d,0)+1; n //= d
        d += 1
    if n > 1: f[n] = f.get(n,0)+1
    return f

# ---- prime-field arithmetic helpers
def is_square(x,p): return x % p == 0 or pow(x,(p-1)//2,p) == 1
def inv(x,p): return pow(x,p-2,p)

# ---- short Weierstrass over F_p: y^2 = x^3 + a x + b
def sw_points(p,a,b):
    sq = {}
    for y in range(p): sq.setdefault(y*y%p, []).append(y)
    pts = [None]
    for x in range(p):
        for y in sq.get((x*x*x + a*x + b) % p, []): pts.append((x,y))
    return pts
def sw_add(P,Q,p,a):
    if P is None: return Q
    if Q is None: return P
    x1,y1 = P; x2,y2 = Q
    if x1 == x2:
        if (y1 + y2) % p == 0: return None
        l = (3*x1*x1 + a) * inv(2*y1 % p, p) % p
    else:
        l = (y2-y1) * inv((x2-x1) % p, p) % p
    x3 = (l*l - x1 - x2) % p
    return (x3, (l*(x1-x3) - y1) % p)
# ---- twisted Edwards over F_p: a x^2 + y^2 = 1 + d x^2 y^2
def te_points(p,a,d):
    pts = []
    for x in range(p):
        for y in range(p):
            if (a*x*x + y*y - 1 - d*x*x*y*y) % p == 0: pts.append((x,y))
    return pts
def te_add(P,Q,p,a,d):
    x1,y1 = P; x2,y2 = Q
    t = d*x1*x2*y1*y2 % p
    dx = (1+t) % p; dy = (1-t) % p
    if dx == 0 or dy == 0: raise ZeroDivisionError("incomplete addition")
    return ((x1*y2 + y1*x2) * inv(dx,p) % p, (y1*y2 - a*x1*x2) * inv(dy,p) % p)

def te_points_at_infinity(p,a,d):
    # F_p-rational points at infinity of the TE curve (in P1 x P1): two iff a/d is a
    # square, two more iff d is a square; none for a complete curve.
    n = 0
    if is_square(a*inv(d,p) % p, p): n += 2
    if is_square(d, p): n += 2
    return n

def mul(k,P,add,zero):
    R = zero; Q = P
    while k:
        if k & 1: R = add(R,Q)
        Q = add(Q,Q); k >>= 1
    return R


# name, kind, p, a, b|d, note
CURVES = [
 ("SwA0P103B5",  "sw", 103, 0, 5,  "a=0, prime order 97"),
 ("SwA0P211B2",  "sw", 211, 0, 2,  "a=0, prime order 199"),
 ("SwA0P103B4",  "sw", 103, 0, 4,  "a=0, cofactor 3"),
 ("SwA0P103B3",  "sw", 103, 0, 3,  "a=0, cofactor 4, 2-torsion"),
 ("SwA0P103B2",  "sw", 103, 0, 2,  "a=0, cofactor 9"),
 ("SwP223A1B1",  "sw", 223, 1, 1,  "a!=0, cofactor 4"),
 ("SwP1009A3B2", "sw", 1009, 3, 2, "a!=0, cofactor 3"),
 ("SwP61A0B2",   "sw", 61, 0, 2,   "6-bit field: 1-byte compressed encoding; prime order"),
 ("SwP61A0B8",   "sw", 61, 0, 8,   "6-bit field, cofactor 4"),
 ("SwP59A1B3",   "sw", 59, 1, 3,   "6-bit field, a != 0, cofactor 5"),
 ("SwP59A1B8",   "sw", 59, 1, 8,   "6-bit field, a != 0, cofactor 8"),
 ("SwP251A1B6",  "sw", 251, 1, 6,  "8-bit field: flags spill into an extra byte; cofactor 16"),
 ("SwP127A1B2",  "sw", 127, 1, 2,  "7-bit field, cofactor 8"),
 ("SwP13A0B2",   "sw", 13, 0, 2,   "tiny (19 points): all projective rescalings"),
 ("SwP13A0B4",   "sw", 13, 0, 4,   "tiny, cofactor 3"),
 ("SwP31A2B2",   "sw", 31, 2, 2,   "tiny, a != 0, cofactor 2"),
 ("TeP101",      "te", 101, None, None, "complete (a square, d non-square)"),
 ("TeP241",      "te", 241, None, None, "complete"),
 ("TeP103",      "te", 103, None, None, "incomplete (a non-square): prime-order subgroup only"),
 ("TeP127",      "te", 127, None, None, "complete, 7-bit field: 1-byte encoding"),
 ("TeP13",       "te", 13,  None, None, "complete, tiny"),
]

def analyse():
    out = []
    for (name, kind, p, a, b, note) in CURVES:
        assert is_prime(p)
        if kind == "sw":
            assert (4*a*a*a + 27*b*b) % p != 0
            pts = sw_points(p,a,b); n = len(pts)
            add = lambda P,Q: sw_add(P,Q,p,a); zero = None
            complete = True
        else:
            # choose parameters deterministically
            want_complete = "incomplete" not in note
            found = None
            for aa in range(1,p):
                if is_square(aa,p) != want_complete: continue
                if not want_complete and aa == p-1 and p % 4 == 1: continue
                for dd in range(2,p):
                    if dd == aa or is_square(dd,p): continue
                    pts = te_points(p,aa,dd); n = len(pts) + te_points_at_infinity(p,aa,dd)
                    f = factor(n); r = max(f)
                    if f[r] != 1 or r < 5: continue
                    if want_complete and n % 4 != 0: continue
                    found = (aa,dd); break
                if found: break
            a, b = found
            pts = te_points(p,a,b); n = len(pts) + te_points_at_infinity(p,a,b)
            add = lambda P,Q: te_add(P,Q,p,a,b); zero = (0,1)
            complete = want_complete
        f = factor(n); r = max(f); assert f[r] == 1, (name, n, f)
        h = n // r
        # generator of the prime-order subgroup
        G = None
        if complete:
            for P in pts:
                if P == zero: continue
                Q = mul(h, P, add, zero)
                if Q != zero: G = Q; break
        else:
            # incomplete TE law: pick G by brute force within points where doubling chain works
            for P in pts:
                if P == zero: continue
                try:
                    if mul(r, P, add, zero) == zero: G = P; break
                except ZeroDivisionError: continue
        assert G is not None and mul(r, G, add, zero) == zero
        hinv = pow(h, -1, r)
        out.append(dict(name=name, kind=kind, p=p, a=a, b=b, n=n, r=r, h=h, hinv=hinv, G=G, note=note))
    return out

def scalar_primes():
    return sorted(set(c["r"] for c in analyse()) | set(c["p"] for c in analyse()))

def emit():
    cs = analyse()
    w = []
    w.append("// @generated by /verif/gen/curves.py - do not edit")
    w.append("#![allow(non_camel_case_types, dead_code)]")
    w.append("use super::gen_fields::*;")
    w.append("use ark_ec::{models::CurveConfig, short_weierstrass as sw, twisted_edwards as te};")
    w.append("use ark_ff::MontFp;")
    w.append("")
    for c in cs:
        n, p, r = c["name"], c["p"], c["r"]
        cof = c["h"]
        w.append(f"/// {c['kind']} over F_{p}: a={c['a']} {'b' if c['kind']=='sw' else 'd'}={c['b']}; #E={c['n']} = {cof} * {r}; {c['note']}")
        w.append(f"#[derive(Clone, Copy, Debug, Default, PartialEq, Eq)]")
        w.append(f"pub struct {n};")
        w.append(f"impl CurveConfig for {n} {{")
        w.append(f"    type BaseField = D{p};")
        w.append(f"    type ScalarField = D{r};")
        w.append(f"    const COFACTOR: &'static [u64] = &[{cof}];")
        w.append(f"    const COFACTOR_INV: D{r} = MontFp!(\"{c['hinv']}\");")
        w.append("}")
        if c["kind"] == "sw":
            w.append(f"impl sw::SWCurveConfig for {n} {{")
            w.append(f"    const COEFF_A: D{p} = MontFp!(\"{c['a']}\");")
            w.append(f"    const COEFF_B: D{p} = MontFp!(\"{c['b']}\");")
            w.append(f"    const GENERATOR: sw::Affine<Self> = sw::Affine::new_unchecked(MontFp!(\"{c['G'][0]}\"), MontFp!(\"{c['G'][1]}\"));")
            w.append("}")
        else:
            w.append(f"impl te::TECurveConfig for {n} {{")
            w.append(f"    const COEFF_A: D{p} = MontFp!(\"{c['a']}\");")
            w.append(f"    const COEFF_D: D{p} = MontFp!(\"{c['b']}\");")
            w.append(f"    const GENERATOR: te::Affine<Self> = te::Affine::new_unchecked(MontFp!(\"{c['G'][0]}\"), MontFp!(\"{c['G'][1]}\"));")
            w.append(f"    type MontCurveConfig = {n};")
            w.append("}")
            # Montgomery form: A = 2(a+d)/(a-d), B = 4/(a-d)
            a, d = c["a"], c["b"]
            iv = pow((a-d) % p, -1, p)
            A = 2*(a+d)*iv % p; B = 4*iv % p
            w.append(f"impl te::MontCurveConfig for {n} {{")
            w.append(f"    const COEFF_A: D{p} = MontFp!(\"{A}\");")
            w.append(f"    const COEFF_B: D{p} = MontFp!(\"{B}\");")
            w.append(f"    type TECurveConfig = {n};")
            w.append("}")
        w.append("")
    w.append("/// (name, kind, p, a, b_or_d, group order, r, cofactor, gx, gy)")
    w.append("pub const CURVE_TABLE: &[(&str, &str, u64, u64, u64, u64, u64, u64, u64, u64)] = &[")
    for c in cs:
        w.append(f"    (\"{c['name']}\", \"{c['kind']}\", {c['p']}, {c['a']}, {c['b']}, {c['n']}, {c['r']}, {c['h']}, {c['G'][0]}, {c['G'][1]}),")
    w.append("];")
    for kind, mac in (("sw","toy_sw_curves"),("te","toy_te_curves")):
        w.append("#[macro_export]")
        w.append(f"macro_rules! {mac} {{")
        w.append("    ($m:ident $(, $a:expr)*) => {")
        for c in cs:
            if c["kind"] == kind:
                w.append(f"        $m!($crate::toy::gen_curves::{c['name']}, \"{c['name']}\" $(, $a)*);")
        w.append("    };")
        w.append("}")
    return "\n".join(w) + "\n"

if __name__ == "__main__":
    dst = os.path.join(os.path.dirname(os.path.abspath(__file__)), "..", "harness", "src", "toy", "gen_curves.rs")
    txt = emit()
    if "--check" in sys.argv:
        if open(dst).read() != txt: print("gen_curves.rs is stale"); sys.exit(2)
    else:
        open(dst,"w").write(txt)
        for c in analyse(): print(c["name"], "p",c["p"],"a",c["a"],"b/d",c["b"],"n",c["n"],"=",c["h"],"*",c["r"],"G",c["G"])
