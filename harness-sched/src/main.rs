//! C14, schedule dimension: the checked crates are built with their `parallel`
//! feature against a schedule-controlled stand-in for rayon (/verif/rayon-shim), and
//! every task schedule of every cell (operation x input x thread count x block count)
//! is enumerated up to a deviation bound: which block of a parallel iterator runs
//! next, which side of a `join` runs first, how partial results of a reduction are
//! bracketed.  Oracle: the result under every schedule equals the result of the
//! default (in-order, single-thread) schedule of the same operation, which in turn is
//! tied to the serial build by the cross-build digests of the main C14 check.
use algebra_mc::core::*;
use algebra_mc::toy::gen_fields::{D3889, DGold};
use ark_ec::pairing::Pairing;
use ark_ec::scalar_mul::BatchMulPreprocessing;
use ark_ec::{AffineRepr, CurveGroup, PrimeGroup, ScalarMul, VariableBaseMSM};
use ark_ff::{batch_inversion, AdditiveGroup, FftField, Field, One, PrimeField, Zero};
use ark_poly::univariate::DensePolynomial;
use ark_poly::{
    DenseMultilinearExtension, DenseUVPolynomial, EvaluationDomain, Evaluations, GeneralEvaluationDomain, MixedRadixEvaluationDomain,
    MultilinearExtension, Polynomial, Radix2EvaluationDomain, SparseMultilinearExtension,
};
use ark_serialize::{CanonicalDeserialize, CanonicalSerialize, Compress, Validate};
use rayon::sched;
use std::panic::{catch_unwind, AssertUnwindSafe};
use std::sync::atomic::{AtomicU64, Ordering};

type Op = Box<dyn Fn() -> Vec<u8> + Send + Sync>;

fn ser<T: CanonicalSerialize>(x: &T) -> Vec<u8> {
    let mut v = Vec::new();
    x.serialize_uncompressed(&mut v).unwrap();
    v
}

/// structured, RNG-free field vectors
fn fvec<F: Field>(n: usize, kind: usize) -> Vec<F> {
    (0..n)
        .map(|i| match kind {
            0 => F::from((i as u64) + 1),
            1 => {
                if i % 5 == 3 {
                    F::zero()
                } else {
                    F::from((i as u64 * 7 + 3) % 1000 + 1)
                }
            }
            _ => -F::one() + F::from(i as u64 % 3),
        })
        .collect()
}

struct Cell {
    name: String,
    op: Op,
    /// deviation bound to use for this cell (heavier cells get 1)
    bound: usize,
}

fn fft_cells<F: FftField + PrimeField>(fname: &str, sizes: &[usize], out: &mut Vec<Cell>) {
    for &n in sizes {
        for kind in 0..2usize {
            for len in [n, n / 2 + 1, n / 4] {
                if len == 0 {
                    continue;
                }
                let bound = if n >= 1024 { 1 } else { 2 };
                let v: Vec<F> = fvec(len, kind);
                let vv = v.clone();
                out.push(Cell {
                    name: format!("{fname}/radix2_fft/n={n}/len={len}/v{kind}"),
                    bound,
                    op: Box::new(move || {
                        let d = Radix2EvaluationDomain::<F>::new(n).unwrap();
                        ser(&d.fft(&vv))
                    }),
                });
                let vv = v.clone();
                out.push(Cell {
                    name: format!("{fname}/radix2_coset_ifft/n={n}/len={len}/v{kind}"),
                    bound,
                    op: Box::new(move || {
                        let d = Radix2EvaluationDomain::<F>::new(n).unwrap().get_coset(F::GENERATOR).unwrap();
                        let mut e = vv.clone();
                        e.resize(n, F::zero());
                        ser(&d.ifft(&e))
                    }),
                });
            }
        }
    }
}

fn mixed_cells(out: &mut Vec<Cell>) {
    type F = D3889;
    for n in [6usize, 48, 144, 432, 1296, 3888] {
        for kind in 0..2usize {
            let v: Vec<F> = fvec(n - n / 3, kind);
            out.push(Cell {
                name: format!("D3889/mixed_fft/n={n}/v{kind}"),
                bound: if n >= 1000 { 1 } else { 2 },
                op: Box::new(move || {
                    let d = MixedRadixEvaluationDomain::<F>::new(n).unwrap();
                    let e = d.fft(&v);
                    let back = d.ifft(&e);
                    let mut b = ser(&e);
                    b.extend(ser(&back));
                    b
                }),
            });
        }
    }
}

fn poly_cells<F: FftField + PrimeField>(fname: &str, out: &mut Vec<Cell>) {
    for n in [1usize, 15, 16, 17, 31, 33, 64, 127, 257, 1025] {
        for kind in 0..2usize {
            let c: Vec<F> = fvec(n, kind);
            let p = DensePolynomial::from_coefficients_vec(c.clone());
            let pp = p.clone();
            out.push(Cell {
                name: format!("{fname}/poly_evaluate/n={n}/v{kind}"),
                bound: 2,
                op: Box::new(move || ser(&pp.evaluate(&F::from(7u64)))),
            });
            let pp = p.clone();
            out.push(Cell {
                name: format!("{fname}/poly_scale_neg/n={n}/v{kind}"),
                bound: 2,
                op: Box::new(move || {
                    let q = &pp * F::from(5u64);
                    let r = -q.clone();
                    let mut b = ser(&q);
                    b.extend(ser(&r));
                    b
                }),
            });
            if n <= 257 {
                let pp = p.clone();
                out.push(Cell {
                    name: format!("{fname}/poly_mul_div_vanishing/n={n}/v{kind}"),
                    bound: if n > 64 { 1 } else { 2 },
                    op: Box::new(move || {
                        let d = GeneralEvaluationDomain::<F>::new(8).unwrap().get_coset(F::GENERATOR).unwrap();
                        let m = pp.mul_by_vanishing_poly(d);
                        let (q, r) = pp.divide_by_vanishing_poly(d);
                        let sq = &pp * &pp;
                        let ev = pp.clone().evaluate_over_domain(d);
                        let e2 = &ev * &ev;
                        let mut b = ser(&m);
                        b.extend(ser(&q));
                        b.extend(ser(&r));
                        b.extend(ser(&sq));
                        b.extend(ser(&e2.evals));
                        b.extend(ser(&Evaluations::from_vec_and_domain(ev.evals.clone(), d).interpolate()));
                        b
                    }),
                });
            }
            if [64usize, 257, 1025].contains(&n) && kind == 0 {
                // sparse polynomial over a domain: per-point evaluation, output must stay in domain order
                let d = if n == 64 { 64 } else if n == 257 { 256 } else { 1024 };
                out.push(Cell {
                    name: format!("{fname}/sparse_evaluate_over_domain/d={d}"),
                    bound: 2,
                    op: Box::new(move || {
                        let terms: Vec<(usize, F)> = (0..5usize).map(|i| (7 * i + 1, F::from(i as u64 + 2))).collect();
                        let sp = ark_poly::univariate::SparsePolynomial::from_coefficients_vec(terms);
                        let dom = GeneralEvaluationDomain::<F>::new(d).unwrap();
                        let mut b = ser(&sp.evaluate_over_domain_by_ref(dom).evals);
                        b.extend(ser(&sp.evaluate_over_domain(dom.get_coset(F::GENERATOR).unwrap()).evals));
                        b
                    }),
                });
            }
            let cc = c.clone();
            out.push(Cell {
                name: format!("{fname}/batch_inversion/n={n}/v{kind}"),
                bound: 2,
                op: Box::new(move || {
                    let mut v = cc.clone();
                    batch_inversion(&mut v);
                    let mut w = cc.clone();
                    ark_ff::batch_inversion_and_mul(&mut w, &F::from(3u64));
                    let mut b = ser(&v);
                    b.extend(ser(&w));
                    b
                }),
            });
            let cc = c.clone();
            out.push(Cell {
                name: format!("{fname}/distribute_powers/n={n}/v{kind}"),
                bound: 2,
                op: Box::new(move || {
                    let mut v = cc.clone();
                    GeneralEvaluationDomain::<F>::distribute_powers(&mut v, F::GENERATOR);
                    let mut w = cc.clone();
                    GeneralEvaluationDomain::<F>::distribute_powers_and_mul_by_const(&mut w, F::GENERATOR, F::from(9u64));
                    let mut b = ser(&v);
                    b.extend(ser(&w));
                    b
                }),
            });
        }
    }
    // multilinear
    for nv in [0usize, 1, 3, 6, 9] {
        let t: Vec<F> = fvec(1 << nv, 1);
        let pt: Vec<F> = (0..nv).map(|i| F::from(i as u64 + 2)).collect();
        out.push(Cell {
            name: format!("{fname}/mle/nv={nv}"),
            bound: 2,
            op: Box::new(move || {
                let d = DenseMultilinearExtension::from_evaluations_vec(nv, t.clone());
                let sp: Vec<(usize, F)> = t.iter().enumerate().filter(|(_, v)| !v.is_zero()).map(|(i, v)| (i, *v)).collect();
                let s = SparseMultilinearExtension::from_evaluations(nv, &sp);
                let mut b = ser(&d.evaluate(&pt));
                b.extend(ser(&s.evaluate(&pt)));
                let half = &pt[..nv / 2];
                b.extend(ser(&d.fix_variables(half).to_evaluations()));
                b.extend(ser(&s.fix_variables(half).to_evaluations()));
                b.extend(ser(&(&d + &d).to_evaluations()));
                b.extend(ser(&(&s + &s).to_evaluations()));
                b.extend(ser(&(-d.clone()).to_evaluations()));
                b
            }),
        });
    }
}

fn group_cells(out: &mut Vec<Cell>) {
    use ark_bls12_381::{Fr, G1Affine, G1Projective};
    let g = G1Projective::generator();
    for n in [0usize, 1, 2, 3, 31, 32, 33, 100, 257] {
        let bases_p: Vec<G1Projective> = (0..n).map(|i| g * Fr::from(i as u64 * 3 + 1)).collect();
        let bases: Vec<G1Affine> = G1Projective::normalize_batch(&bases_p);
        let scalars: Vec<Fr> = (0..n)
            .map(|i| match i % 4 {
                0 => Fr::from(i as u64),
                1 => -Fr::one(),
                2 => Fr::from(u64::MAX) * Fr::from(u64::MAX),
                _ => Fr::zero(),
            })
            .collect();
        let (b1, s1) = (bases.clone(), scalars.clone());
        out.push(Cell {
            name: format!("bls12_381_g1/msm/n={n}"),
            bound: if n > 40 { 1 } else { 2 },
            op: Box::new(move || {
                let r = G1Projective::msm_unchecked(&b1, &s1);
                let bi: Vec<_> = s1.iter().map(|s| s.into_bigint()).collect();
                let r2 = G1Projective::msm_bigint(&b1, &bi);
                let mut b = ser(&r.into_affine());
                b.extend(ser(&r2.into_affine()));
                b
            }),
        });
        let (bp, s2) = (bases_p.clone(), scalars.clone());
        out.push(Cell {
            name: format!("bls12_381_g1/normalize_batch_mul/n={n}"),
            bound: if n > 40 { 1 } else { 2 },
            op: Box::new(move || {
                // non-normalised inputs (doubled), one identity in the middle
                let mut v: Vec<G1Projective> = bp.iter().map(|p| p.double()).collect();
                if v.len() > 2 {
                    let m = v.len() / 2;
                    v[m] = G1Projective::zero();
                }
                let a = G1Projective::normalize_batch(&v);
                let table = BatchMulPreprocessing::new(G1Projective::generator(), s2.len().max(1));
                let bm = table.batch_mul(&s2);
                let bm2 = G1Projective::generator().batch_mul(&s2);
                let mut b = ser(&a);
                b.extend(ser(&bm));
                b.extend(ser(&bm2));
                b
            }),
        });
        if n <= 33 {
            // batched validity check with invalid (out-of-subgroup) elements at two positions
            let bb = bases.clone();
            out.push(Cell {
                name: format!("bls12_381_g1/batch_check/n={n}"),
                bound: 2,
                op: Box::new(move || {
                    let bad = (0u64..).find_map(|x| G1Affine::get_point_from_x_unchecked(ark_bls12_381::Fq::from(x), false).filter(|p| !p.is_in_correct_subgroup_assuming_on_curve())).unwrap();
                    let mut outb = Vec::new();
                    for pos in [None, Some(0usize), Some(bb.len() / 2), Some(bb.len().saturating_sub(1))] {
                        let mut v = bb.clone();
                        if let Some(p) = pos {
                            if p < v.len() {
                                v[p] = bad;
                            } else {
                                continue;
                            }
                        }
                        let bytes = ser(&v);
                        let r = Vec::<G1Affine>::deserialize_with_mode(&bytes[..], Compress::No, Validate::Yes);
                        outb.push(match r {
                            Ok(w) => (w == v) as u8,
                            Err(e) => 100 + std::mem::discriminant(&e).eq(&std::mem::discriminant(&ark_serialize::SerializationError::InvalidData)) as u8,
                        });
                    }
                    outb
                }),
            });
        }
    }
}

/// unequal slice lengths (the library truncates to the shorter one; the per-thread share must be computed from the
/// truncated length on both sides), on a short Weierstrass and on a twisted Edwards group
fn unequal_msm_cells(out: &mut Vec<Cell>) {
    use ark_bls12_381::{Fr, G1Affine, G1Projective};
    use ark_ed_on_bls12_381::{EdwardsAffine, EdwardsProjective, Fr as EdFr};
    let g = G1Projective::generator();
    let ge = EdwardsProjective::generator();
    for (nb, ns) in [(33usize, 20usize), (20, 33), (100, 64), (64, 100), (257, 255)] {
        let bases: Vec<G1Affine> = G1Projective::normalize_batch(&(0..nb).map(|i| g * Fr::from(i as u64 * 5 + 2)).collect::<Vec<_>>());
        let scalars: Vec<Fr> = (0..ns).map(|i| if i % 3 == 0 { -Fr::from(i as u64 + 1) } else { Fr::from(u64::MAX - i as u64) * Fr::from(7u64) }).collect();
        out.push(Cell {
            name: format!("bls12_381_g1/msm_unequal/bases={nb},scalars={ns}"),
            bound: if nb.max(ns) > 40 { 1 } else { 2 },
            op: Box::new(move || {
                let r = G1Projective::msm_unchecked(&bases, &scalars);
                let bi: Vec<_> = scalars.iter().map(|s| s.into_bigint()).collect();
                let r2 = G1Projective::msm_bigint(&bases, &bi);
                let mut b = ser(&r.into_affine());
                b.extend(ser(&r2.into_affine()));
                b.push(G1Projective::msm(&bases, &scalars).is_err() as u8);
                b
            }),
        });
        let eb: Vec<EdwardsAffine> = EdwardsProjective::normalize_batch(&(0..nb).map(|i| ge * EdFr::from(i as u64 * 3 + 1)).collect::<Vec<_>>());
        let es: Vec<EdFr> = (0..ns).map(|i| if i % 4 == 1 { -EdFr::one() } else { EdFr::from(i as u64 * 1_000_003 + 9) }).collect();
        out.push(Cell {
            name: format!("ed_on_bls12_381/msm_unequal/bases={nb},scalars={ns}"),
            bound: if nb.max(ns) > 40 { 1 } else { 2 },
            op: Box::new(move || {
                let r = EdwardsProjective::msm_unchecked(&eb, &es);
                let mut b = ser(&r.into_affine());
                let dbl: Vec<EdwardsProjective> = eb.iter().map(|p| p.into_group().double()).collect();
                b.extend(ser(&EdwardsProjective::normalize_batch(&dbl)));
                b
            }),
        });
    }
}

/// operations of `Evaluations`, pointwise products in a domain, multivariate evaluation (the only `.sum()` / `.product()`
/// reductions over terms), sparse multilinear relabel / fused multiply-add
fn more_poly_cells<F: FftField + PrimeField>(fname: &str, out: &mut Vec<Cell>) {
    use ark_poly::multivariate::{SparsePolynomial as MvPoly, SparseTerm, Term};
    use ark_poly::DenseMVPolynomial;
    for n in [16usize, 64, 1024] {
        let a: Vec<F> = fvec(n, 0);
        let b: Vec<F> = fvec(n, 1);
        out.push(Cell {
            name: format!("{fname}/evaluations_ops/n={n}"),
            bound: if n > 64 { 1 } else { 2 },
            op: Box::new(move || {
                let d = GeneralEvaluationDomain::<F>::new(n).unwrap();
                let ea = Evaluations::from_vec_and_domain(a.clone(), d);
                let eb = Evaluations::from_vec_and_domain(b.iter().map(|x| *x + F::one()).collect(), d);
                let mut o = ser(&(&ea + &eb).evals);
                o.extend(ser(&(&ea - &eb).evals));
                o.extend(ser(&(&ea * &eb).evals));
                o.extend(ser(&(&ea * F::from(11u64)).evals));
                o.extend(ser(&d.mul_polynomials_in_evaluation_domain(&a, &b)));
                o.extend(ser(&ea.interpolate_by_ref()));
                o
            }),
        });
    }
    for nterms in [1usize, 5, 40] {
        out.push(Cell {
            name: format!("{fname}/multivariate_evaluate/terms={nterms}"),
            bound: 2,
            op: Box::new(move || {
                let nv = 4usize;
                let terms: Vec<(F, SparseTerm)> = (0..nterms)
                    .map(|i| (F::from(i as u64 + 2), SparseTerm::new(vec![(i % nv, 1 + i % 3), ((i + 1) % nv, 1 + (i / 4) % 2), ((i + 2) % nv, i % 2)])))
                    .collect();
                let p = MvPoly::from_coefficients_vec(nv, terms);
                let pt: Vec<F> = (0..nv).map(|i| F::from(i as u64 + 3)).collect();
                ser(&p.evaluate(&pt))
            }),
        });
    }
    for nv in [3usize, 7] {
        let t: Vec<F> = fvec(1 << nv, 1);
        out.push(Cell {
            name: format!("{fname}/mle_relabel_fma/nv={nv}"),
            bound: 2,
            op: Box::new(move || {
                let sp: Vec<(usize, F)> = t.iter().enumerate().filter(|(i, _)| i % 3 != 1).map(|(i, v)| (i, *v + F::one())).collect();
                let s = SparseMultilinearExtension::from_evaluations(nv, &sp);
                let mut d = DenseMultilinearExtension::from_evaluations_vec(nv, t.clone());
                let mut o = ser(&s.relabel(0, nv - 1, 1).to_evaluations());
                let mut s2 = s.clone();
                s2 += (F::from(5u64), &s);
                o.extend(ser(&s2.to_evaluations()));
                let d0 = d.clone();
                d += (F::from(7u64), &d0);
                o.extend(ser(&d.to_evaluations()));
                o.extend(ser(&d0.relabel(0, nv - 1, 1).to_evaluations()));
                o
            }),
        });
    }
}

fn pairing_cells<E: Pairing>(ename: &str, lens: &[usize], out: &mut Vec<Cell>) {
    for &n in lens {
        let name = format!("{ename}/multi_pairing/n={n}");
        out.push(Cell {
            name,
            bound: if n > 4 { 1 } else { 2 },
            op: Box::new(move || {
                let g1 = E::G1::generator();
                let g2 = E::G2::generator();
                let a: Vec<E::G1Affine> = (0..n).map(|i| (g1 * E::ScalarField::from(i as u64 + 2)).into_affine()).collect();
                let mut b: Vec<E::G2Affine> = (0..n).map(|i| (g2 * E::ScalarField::from(3 * i as u64 + 1)).into_affine()).collect();
                if n > 2 {
                    b[1] = E::G2Affine::zero();
                }
                ser(&E::multi_pairing(a, b))
            }),
        });
    }
}

struct Outcome {
    runs: u64,
    complete: bool,
    max_choice_points: usize,
    distinct_traces: u64,
    violation: Option<String>,
    machinery: Option<String>,
}

/// deviation-bounded exhaustive exploration of the schedules of one cell
fn explore(cell: &Cell, threads: usize, blocks: usize, bound: usize, max_runs: u64, max_secs: f64) -> Outcome {
    let t0 = std::time::Instant::now();
    // reference: default schedule with one thread and one block (= sequential order through the parallel code path)
    sched::begin(&[], 1, 1);
    let reference = catch_unwind(AssertUnwindSafe(|| (cell.op)()));
    let _ = sched::end();
    let reference = match reference {
        Ok(r) => r,
        Err(_) => {
            return Outcome { runs: 0, complete: false, max_choice_points: 0, distinct_traces: 0, violation: Some("panic under the default schedule".into()), machinery: None }
        }
    };
    let mut stack: Vec<Vec<u32>> = vec![vec![]];
    let mut out = Outcome { runs: 0, complete: true, max_choice_points: 0, distinct_traces: 0, violation: None, machinery: None };
    while let Some(prefix) = stack.pop() {
        if out.runs >= max_runs || t0.elapsed().as_secs_f64() > max_secs {
            out.complete = false;
            break;
        }
        sched::begin(&prefix, threads, blocks);
        let r = catch_unwind(AssertUnwindSafe(|| (cell.op)()));
        let (trace, diverged) = sched::end();
        out.runs += 1;
        out.distinct_traces += 1;
        out.max_choice_points = out.max_choice_points.max(trace.len());
        if diverged || trace.len() < prefix.len() {
            out.machinery = Some(format!("schedule prefix {prefix:?} did not replay (uncontrolled nondeterminism)"));
            break;
        }
        let choices: Vec<u32> = trace.iter().map(|c| c.0).collect();
        match r {
            Err(_) => {
                out.violation = Some(format!("panic under schedule {choices:?} (threads={threads}, blocks={blocks})"));
                break;
            }
            Ok(bytes) => {
                if bytes != reference {
                    out.violation = Some(format!(
                        "result differs from the sequential schedule under schedule {:?} (threads={threads}, blocks={blocks}); first differing byte {}",
                        choices,
                        bytes.iter().zip(&reference).position(|(a, b)| a != b).unwrap_or(bytes.len().min(reference.len()))
                    ));
                    break;
                }
            }
        }
        // children: deviate at one later choice point
        let dev_in_prefix = prefix.iter().filter(|c| **c != 0).count();
        if dev_in_prefix < bound {
            for i in (prefix.len()..trace.len()).rev() {
                for alt in 1..trace[i].1 {
                    let mut p = choices[..i].to_vec();
                    p.push(alt);
                    stack.push(p);
                }
            }
        }
    }
    out
}

fn main() {
    let mut ctx = Ctx::from_args("C14");
    ctx.evidence_name = "c14_sched".to_string();
    ctx.assume("schedule model: a parallel iterator is split into <= `blocks` contiguous blocks executed in any order (items of a block in index order); reductions bracket the per-block partial results arbitrarily but in index order; rayon::join runs either side first. Task-level granularity is sound because the closures only receive disjoint &mut or shared & data (no interior mutability in the parallel paths - premise re-scanned by the main C14 check).");
    ctx.assume("oracle: result under every explored schedule == result of the sequential schedule (1 thread, 1 block) of the same parallel build; the main C14 check ties that to the serial build by digests");
    let mut cells: Vec<Cell> = Vec::new();
    let quick = ctx.quick();
    fft_cells::<ark_bls12_381::Fr>("bls12_381_Fr", if quick { &[2, 8, 64, 1024, 2048] } else { &[1, 2, 4, 8, 16, 64, 256, 1024, 2048, 4096] }, &mut cells);
    fft_cells::<DGold>("DGold", if quick { &[16, 1024] } else { &[4, 16, 128, 1024, 2048, 8192] }, &mut cells);
    mixed_cells(&mut cells);
    poly_cells::<ark_bls12_381::Fr>("bls12_381_Fr", &mut cells);
    poly_cells::<DGold>("DGold", &mut cells);
    group_cells(&mut cells);
    unequal_msm_cells(&mut cells);
    more_poly_cells::<ark_bls12_381::Fr>("bls12_381_Fr", &mut cells);
    more_poly_cells::<DGold>("DGold", &mut cells);
    pairing_cells::<ark_bls12_381::Bls12_381>("bls12_381", if quick { &[0, 1, 4, 5, 9] } else { &[0, 1, 2, 3, 4, 5, 8, 9, 13] }, &mut cells);
    pairing_cells::<ark_mnt4_298::MNT4_298>("mnt4_298", if quick { &[5] } else { &[1, 4, 5, 9] }, &mut cells);
    pairing_cells::<ark_bw6_761::BW6_761>("bw6_761", if quick { &[5] } else { &[1, 4, 5, 9] }, &mut cells);
    pairing_cells::<ark_bn254::Bn254>("bn254", if quick { &[5] } else { &[1, 4, 5, 9] }, &mut cells);
    pairing_cells::<ark_mnt6_298::MNT6_298>("mnt6_298", if quick { &[5] } else { &[1, 4, 5, 9] }, &mut cells);
    // thread counts / block counts
    let grid: Vec<(usize, usize)> = if quick { vec![(2, 2), (3, 3), (16, 4)] } else { vec![(1, 3), (2, 2), (3, 3), (4, 4), (7, 5), (16, 4), (17, 3)] };
    let max_runs: u64 = ctx.t(400, 8_000);
    let max_secs: f64 = ctx.t(8.0, 60.0);
    ctx.bound("thread_x_block_grid", format!("{grid:?}"));
    ctx.bound("deviation_bound", if quick { "1 (every schedule that departs from the in-order schedule at exactly one choice point)" } else { "2 for light cells, 1 for heavy ones (size >= 1024 / > 40 bases / > 4 pairs); a deviation = taking a non-default option at one choice point" });
    ctx.bound("max_schedules_per_cell", max_runs);
    ctx.bound("max_seconds_per_cell", max_secs);
    let total_runs = AtomicU64::new(0);
    let capped = AtomicU64::new(0);
    let max_cp = AtomicU64::new(0);
    let ncells = cells.len() as u64;
    let ng = grid.len() as u64;
    ctx.sweep("schedules", ncells * ng, |i, loc| {
        let [ig, ic] = unrank(i, [ng, ncells]);
        let cell = &cells[ic as usize];
        let (t, b) = grid[ig as usize];
        let o = explore(cell, t, b, if quick { 1 } else { cell.bound }, max_runs, max_secs);
        total_runs.fetch_add(o.runs, Ordering::Relaxed);
        max_cp.fetch_max(o.max_choice_points as u64, Ordering::Relaxed);
        loc.ops(o.runs);
        loc.class_if(o.runs > 1, "sched:more_than_one_schedule");
        loc.class_if(o.max_choice_points >= 8, "sched:>=8_choice_points");
        loc.class_if(t == 1, "t=1");
        loc.class_if(!t.is_power_of_two(), "t_not_power_of_two");
        if !o.complete {
            capped.fetch_add(1, Ordering::Relaxed);
            loc.class("sched:capped_cell");
        }
        if loc.sampling() {
            loc.sample(format!("{} threads={t} blocks={b}: {} schedules, {} choice points", cell.name, o.runs, o.max_choice_points));
        }
        if let Some(m) = o.machinery {
            loc.fail_at("machinery", format!("{}: {m}", cell.name));
        }
        if let Some(v) = o.violation {
            let site = cell.name.split('/').nth(1).unwrap_or("op").to_string();
            loc.fail_at(&site, format!("{}: {v}", cell.name));
        }
    });
    let runs = total_runs.load(Ordering::Relaxed);
    ctx.bound("schedules_explored", runs);
    ctx.bound("cells_capped", capped.load(Ordering::Relaxed));
    ctx.bound("max_choice_points_in_one_execution", max_cp.load(Ordering::Relaxed));
    ctx.add_explored("schedule_executions", runs, 0, 0, capped.load(Ordering::Relaxed) == 0, 0.0);
    ctx.require(&["sched:more_than_one_schedule", "sched:>=8_choice_points", "t_not_power_of_two"]);
    std::process::exit(ctx.finish());
}
