//! start-up validation of every toy curve (also run inside each check that uses them)
use algebra_mc::core::*;
use algebra_mc::toycurve::*;
macro_rules! sw { ($P:ty, $name:expr, $ctx:expr) => {{ let t = SwToy::<$P>::new($name); t.validate($ctx); println!("{} n={} r={} h={}", $name, t.n(), t.r, t.h);
   // library agrees on generator * r = identity via plain additions
   let mut acc = ark_ec::short_weierstrass::Projective::<$P>::default(); let g = t.aff(t.gen);
   for _ in 0..t.r { acc += g; } assert!(t.idx_proj(&acc) == Some(t.g.id)); }}; }
macro_rules! te { ($P:ty, $name:expr, $ctx:expr) => {{ let t = TeToy::<$P>::new($name); t.validate($ctx); println!("{} n={} r={} h={} complete={}", $name, t.n(), t.r, t.h, t.complete); }}; }
fn main() {
    let mut ctx = Ctx::from_args("TOY");
    algebra_mc::toy_sw_curves!(sw, &mut ctx);
    algebra_mc::toy_te_curves!(te, &mut ctx);
    println!("machinery errors: {:?}", ctx.machinery_errors);
}
