//! C06 - pairings are bilinear, non-degenerate and identity-preserving in every
//! model; a multi-pairing is the product of the single pairings; prepared and
//! unprepared inputs agree; every output has order dividing r.
//!
//! Shape A (alphabet products on the shipped engines).  G1 and G2 are cyclic of
//! prime order r, so points are indexed by scalars: P = aG, Q = bH with (a, b)
//! ranging over a boundary alphabet S.  The oracle is RELATIONAL: there is no
//! second pairing implementation, the expected value of e(aG, bH) is
//! e(G, H)^(ab mod r) with ab mod r computed on num-bigint integers and the
//! exponentiation done with plain square-and-multiply `Field::pow` on the raw
//! target-field element (never `cyclotomic_exp`).
use algebra_mc::core::*;
use algebra_mc::refmodel::zmod::*;
use ark_ec::pairing::{prepare_g1, prepare_g2, MillerLoopOutput, Pairing, PairingOutput};
use ark_ec::{AffineRepr, CurveGroup, PrimeGroup};
use ark_ff::{Field, One, PrimeField, Zero};
use ark_serialize::Valid;
use num_bigint::BigUint;
use std::collections::HashMap;
use std::panic::{catch_unwind, AssertUnwindSafe};
use std::sync::Mutex;
use std::time::Instant;

// ---------------------------------------------------------------------------
// per-engine glue: the `From<&T>` conversions and raw projective coordinates
// are not reachable through the `Pairing` trait bounds
// ---------------------------------------------------------------------------
pub trait Eng: Pairing {
    fn g1p_ref_aff(p: &Self::G1Affine) -> Self::G1Prepared;
    fn g1p_ref_proj(p: &Self::G1) -> Self::G1Prepared;
    fn g2p_ref_aff(p: &Self::G2Affine) -> Self::G2Prepared;
    fn g2p_ref_proj(p: &Self::G2) -> Self::G2Prepared;
    /// the same point with Jacobian coordinates (l^2 X, l^3 Y, l Z)
    fn g1_rescale(p: &Self::G1, l: u64) -> Self::G1;
    fn g2_rescale(p: &Self::G2, l: u64) -> Self::G2;
    fn g1_z_is_one(p: &Self::G1) -> bool;
    fn g2_z_is_one(p: &Self::G2) -> bool;
    /// the common downstream call shape `E::multi_pairing(&ps, &qs)`: the items are REFERENCES (`&G1Affine: Into<G1Prepared>`
    /// is provided by every model but is not among the bounds of the `Pairing` trait, hence this glue)
    fn multi_pairing_borrowed(ps: &[Self::G1Affine], qs: &[Self::G2Affine]) -> PairingOutput<Self>;
    fn multi_miller_loop_borrowed(ps: &[Self::G1Affine], qs: &[Self::G2Affine]) -> MillerLoopOutput<Self>;
    /// the same with references to projective points
    fn multi_pairing_borrowed_proj(ps: &[Self::G1], qs: &[Self::G2]) -> PairingOutput<Self>;
}

/// a "generic looking" non-zero element of F with every base-prime-field coordinate non-zero
fn lambda<F: Field>(l: u64) -> F {
    let d = F::extension_degree();
    F::from_base_prime_field_elems((0..d).map(|i| F::BasePrimeField::from(l.wrapping_add(i)))).unwrap()
}

macro_rules! impl_eng {
    ($ty:ty) => {
        impl Eng for $ty {
            fn g1p_ref_aff(p: &Self::G1Affine) -> Self::G1Prepared {
                <Self::G1Prepared as From<&Self::G1Affine>>::from(p)
            }
            fn g1p_ref_proj(p: &Self::G1) -> Self::G1Prepared {
                <Self::G1Prepared as From<&Self::G1>>::from(p)
            }
            fn g2p_ref_aff(p: &Self::G2Affine) -> Self::G2Prepared {
                <Self::G2Prepared as From<&Self::G2Affine>>::from(p)
            }
            fn g2p_ref_proj(p: &Self::G2) -> Self::G2Prepared {
                <Self::G2Prepared as From<&Self::G2>>::from(p)
            }
            fn g1_rescale(p: &Self::G1, l: u64) -> Self::G1 {
                let l: <Self::G1 as CurveGroup>::BaseField = lambda(l);
                let l2 = l * l;
                let mut q = *p;
                q.x *= l2;
                q.y *= l2 * l;
                q.z *= l;
                q
            }
            fn g2_rescale(p: &Self::G2, l: u64) -> Self::G2 {
                let l: <Self::G2 as CurveGroup>::BaseField = lambda(l);
                let l2 = l * l;
                let mut q = *p;
                q.x *= l2;
                q.y *= l2 * l;
                q.z *= l;
                q
            }
            fn g1_z_is_one(p: &Self::G1) -> bool {
                p.z.is_one()
            }
            fn g2_z_is_one(p: &Self::G2) -> bool {
                p.z.is_one()
            }
            fn multi_pairing_borrowed(ps: &[Self::G1Affine], qs: &[Self::G2Affine]) -> PairingOutput<Self> {
                <Self as Pairing>::multi_pairing(ps, qs)
            }
            fn multi_miller_loop_borrowed(ps: &[Self::G1Affine], qs: &[Self::G2Affine]) -> MillerLoopOutput<Self> {
                <Self as Pairing>::multi_miller_loop(ps.iter(), qs.iter())
            }
            fn multi_pairing_borrowed_proj(ps: &[Self::G1], qs: &[Self::G2]) -> PairingOutput<Self> {
                <Self as Pairing>::multi_pairing(ps, qs)
            }
        }
    };
}
impl_eng!(ark_bls12_381::Bls12_381);
impl_eng!(ark_test_curves::bls12_381::Bls12_381);
impl_eng!(ark_bls12_377::Bls12_377);
impl_eng!(ark_bn254::Bn254);
impl_eng!(ark_bw6_761::BW6_761);
impl_eng!(ark_bw6_767::BW6_767);
impl_eng!(ark_mnt4_298::MNT4_298);
impl_eng!(ark_mnt4_753::MNT4_753);
impl_eng!(ark_mnt6_298::MNT6_298);
impl_eng!(ark_mnt6_753::MNT6_753);
impl_eng!(ark_cp6_782::CP6_782);
impl_eng!(toybn::ToyBn);

// ---------------------------------------------------------------------------
// helpers
// ---------------------------------------------------------------------------
fn panic_text(p: Box<dyn std::any::Any + Send>) -> String {
    if let Some(s) = p.downcast_ref::<&str>() {
        s.to_string()
    } else if let Some(s) = p.downcast_ref::<String>() {
        s.clone()
    } else {
        "<non-string panic>".to_string()
    }
}

/// Run a library call; a panic is a violation filed under `site` (with the
/// library file:line taken from the panic hook), not under the generic
/// ".../panic" site of the engine.
fn guard<T>(loc: &mut Loc, site: &str, input: impl FnOnce() -> String, f: impl FnOnce() -> T) -> Option<T> {
    loc.op();
    match catch_unwind(AssertUnwindSafe(f)) {
        Ok(v) => Some(v),
        Err(p) => {
            let at = LAST_PANIC_LOC.with(|c| c.borrow().clone());
            flag(loc, site, format!("library panic at {at}: {}; input: {}", panic_text(p), input()));
            None
        }
    }
}

/// `check_at` / `fail_at` with the site name repeated in the message (so that a known finding can be
/// keyed by engine prefix + site tag, whatever sweep reproduces it)
fn chk(loc: &mut Loc, site: &str, ok: bool, msg: impl FnOnce() -> String) -> bool {
    loc.check_at(site, ok, || format!("[{site}] {}", msg()))
}
fn flag(loc: &mut Loc, site: &str, msg: String) {
    loc.fail_at(site, format!("[{site}] {msg}"));
}

fn short<T: std::fmt::Display>(x: &T) -> String {
    let s = format!("{x}");
    if s.len() > 100 {
        format!("{}..[{} chars]", &s[..100], s.len())
    } else {
        s
    }
}

fn hex(x: &BigUint) -> String {
    format!("0x{x:x}")
}

const C128: u128 = 0xac45a4010001a40200000000ffffffff; // lambda-like 128-bit constant

/// the boundary alphabet S of scalars (names, values)
fn alphabet(r: &BigUint) -> Vec<(&'static str, BigUint)> {
    let one = BigUint::one();
    let mut v = vec![
        ("0", BigUint::zero()),
        ("1", one.clone()),
        ("2", BigUint::from(2u32)),
        ("3", BigUint::from(3u32)),
        ("r-1", r - &one),
        ("r-2", r - BigUint::from(2u32)),
        ("(r-1)/2", (r - &one) >> 1usize),
    ];
    // for the toy universe the big constants are reduced (they then are just three more residues)
    v.push(("2^64", pow2(64) % r));
    v.push(("c128", BigUint::from(C128) % r));
    v.push(("0x9e3779b97f4a7c15", BigUint::from(GENERIC64) % r));
    v
}

pub struct Setup<E: Pairing> {
    name: &'static str,
    class: &'static str,
    family: &'static str,
    r: BigUint,
    r_limbs: Vec<u64>,
    s: Vec<(&'static str, BigUint)>,
    fr: Vec<E::ScalarField>,
    g1: Vec<E::G1Affine>,
    g2: Vec<E::G2Affine>,
    g1p: Vec<E::G1>,
    g2p: Vec<E::G2>,
    base: PairingOutput<E>,
    /// memo of the single pairings e(S[i] G, S[j] H) used as REFERENCE values by several sweeps
    /// (a pure function of (i, j): memoisation changes the cost, not the verdicts)
    memo: Mutex<HashMap<(usize, usize), Result<PairingOutput<E>, String>>>,
}

impl<E: Eng> Setup<E> {
    fn new(ctx: &mut Ctx, name: &'static str, class: &'static str, family: &'static str) -> Option<Self> {
        let r: BigUint = from_limbs(E::ScalarField::MODULUS.as_ref());
        let s = alphabet(&r);
        let built = catch_unwind(AssertUnwindSafe(|| {
            let fr: Vec<E::ScalarField> = s.iter().map(|(_, a)| E::ScalarField::from(a.clone())).collect();
            let g1p: Vec<E::G1> = fr.iter().map(|a| E::G1::generator() * *a).collect();
            let g2p: Vec<E::G2> = fr.iter().map(|a| E::G2::generator() * *a).collect();
            let g1: Vec<E::G1Affine> = g1p.iter().map(|p| p.into_affine()).collect();
            let g2: Vec<E::G2Affine> = g2p.iter().map(|p| p.into_affine()).collect();
            let t0 = Instant::now();
            let base = E::pairing(E::G1::generator(), E::G2::generator());
            let ms = t0.elapsed().as_secs_f64() * 1000.0;
            (fr, g1p, g2p, g1, g2, base, ms)
        }));
        match built {
            Ok((fr, g1p, g2p, g1, g2, base, ms)) => {
                ctx.bound(&format!("observed_ms_per_single_pairing/{name}"), (ms * 100.0).round() / 100.0);
                // sanity of the indexing itself (C03/C04 own the group law; this only guards the harness)
                ctx.validate(g1[0].is_zero() && g2[0].is_zero(), &format!("{name}: 0*G is the identity"));
                ctx.validate(
                    g1[1] == E::G1Affine::generator() && g2[1] == E::G2Affine::generator(),
                    &format!("{name}: 1*G is the generator"),
                );
                ctx.validate(
                    (g1p[4] + g1p[1]).is_zero() && (g2p[4] + g2p[1]).is_zero(),
                    &format!("{name}: (r-1)G + G = O"),
                );
                Some(Setup { name, class, family, r_limbs: r.to_u64_digits(), r, s, fr, g1, g2, g1p, g2p, base, memo: Mutex::new(HashMap::new()) })
            }
            Err(p) => {
                let at = LAST_PANIC_LOC.with(|c| c.borrow().clone());
                ctx.add_violation_in(
                    &format!("{name}/setup"),
                    &format!("{name}/setup/panic"),
                    0,
                    format!("library panic at {at} while computing aG, bH, e(G,H): {}", panic_text(p)),
                );
                None
            }
        }
    }
    /// class of a multi-pairing with at least 5 pairs, per pairing family (required classes are global)
    fn multi_ge5_class(&self) -> &'static str {
        let f = self.family.strip_prefix("family:").unwrap_or(self.family);
        if f.starts_with("bls12") {
            "multi:n>=5/bls12"
        } else if f.starts_with("bn") {
            "multi:n>=5/bn"
        } else if f.starts_with("bw6") {
            "multi:n>=5/bw6"
        } else if f.starts_with("mnt4") {
            "multi:n>=5/mnt4"
        } else if f.starts_with("mnt6") {
            "multi:n>=5/mnt6"
        } else {
            "multi:n>=5/other(cp6)"
        }
    }
    fn sc(&self, i: usize) -> String {
        format!("{}={}", self.s[i].0, hex(&self.s[i].1))
    }
    fn is0(&self, i: usize) -> bool {
        self.s[i].1.is_zero()
    }
    /// e(S[ia] G, S[ib] H) through `E::pairing` on affine inputs, memoised; Err = the library panicked
    fn single(&self, ia: usize, ib: usize) -> Result<PairingOutput<E>, String> {
        if let Some(v) = self.memo.lock().unwrap().get(&(ia, ib)) {
            return v.clone();
        }
        let v = match catch_unwind(AssertUnwindSafe(|| E::pairing(self.g1[ia], self.g2[ib]))) {
            Ok(v) => Ok(v),
            Err(p) => {
                let at = LAST_PANIC_LOC.with(|c| c.borrow().clone());
                Err(format!("library panic at {at}: {}", panic_text(p)))
            }
        };
        self.memo.lock().unwrap().insert((ia, ib), v.clone());
        v
    }
    /// base^(e) by plain square-and-multiply on the raw field element
    fn base_pow(&self, e: &BigUint) -> E::TargetField {
        self.base.0.pow(e.to_u64_digits())
    }
}

/// reference single pairing; a panic is filed under `site`
fn single_ref<E: Eng>(st: &Setup<E>, loc: &mut Loc, site: &str, ia: usize, ib: usize, input: impl FnOnce() -> String) -> Option<PairingOutput<E>> {
    loc.op();
    match st.single(ia, ib) {
        Ok(v) => Some(v),
        Err(m) => {
            flag(loc, site, format!("{m}; in pairing({}*G, {}*H) needed by: {}", st.s[ia].0, st.s[ib].0, input()));
            None
        }
    }
}

fn identity_site(g1_id: bool, g2_id: bool, otherwise: &'static str) -> &'static str {
    if g2_id {
        "pairing_with_g2_identity"
    } else if g1_id {
        "pairing_with_g1_identity"
    } else {
        otherwise
    }
}

// ---------------------------------------------------------------------------
// 1. bilinearity over A x A, identities, non-degeneracy, order of the output
// ---------------------------------------------------------------------------
fn bilinear<E: Eng>(ctx: &mut Ctx, st: &Setup<E>, alpha: &[usize]) {
    let n = alpha.len() as u64;
    ctx.sweep(&format!("{}/bilinear", st.name), n * n, |i, loc| {
        let [xa, xb] = unrank(i, [n, n]);
        let (ia, ib) = (alpha[xa as usize], alpha[xb as usize]);
        let (a, b) = (&st.s[ia].1, &st.s[ib].1);
        let input = || format!("{} e(aG,bH) a:{} b:{}", st.name, st.sc(ia), st.sc(ib));
        loc.class(st.class);
        loc.class(st.family);
        loc.class_if(a.is_zero(), "a=0");
        loc.class_if(b.is_zero(), "b=0");
        loc.class_if(a.is_zero() && b.is_zero(), "e(O,O)");
        loc.class_if(*a == &st.r - 1u32, "a=r-1");
        loc.class_if(*b == &st.r - 1u32, "b=r-1");
        let ab = (a * b) % &st.r;
        loc.class_if(!a.is_zero() && !b.is_zero() && (a * b) >= st.r, "ab_wraps_mod_r");
        if loc.sampling() {
            loc.sample(format!("{} ab mod r = {}", input(), hex(&ab)));
        }
        let site = identity_site(a.is_zero(), b.is_zero(), "bilinear");
        let Some(got) = guard(loc, site, input, || E::pairing(st.g1[ia], st.g2[ib])) else { return };
        let want = st.base_pow(&ab);
        chk(loc, site, got.0 == want, || {
            format!("{}: e(aG,bH) != e(G,H)^(ab mod r); got {} want {}", input(), short(&got.0), short(&want))
        });
        if a.is_zero() || b.is_zero() {
            chk(loc, site, got.is_zero() && got.0.is_one() && got == PairingOutput::<E>::zero(), || {
                format!("{}: pairing with an identity is not the identity of the target group; got {}", input(), short(&got.0))
            });
        }
        if a.is_one() && b.is_one() {
            loc.class("generators");
            chk(loc, "nondegenerate", !got.0.is_one() && !st.base.0.is_one() && got == st.base, || {
                format!("{}: e(G,H) is the identity (or not reproducible)", input())
            });
        }
        // the single-pair entry point Pairing::miller_loop followed by the final exponentiation
        {
            loc.class("miller_loop:single");
            let ml_site = identity_site(a.is_zero(), b.is_zero(), "miller_loop_single");
            match guard(loc, ml_site, input, || E::final_exponentiation(E::miller_loop(st.g1[ia], st.g2[ib]))) {
                None => {}
                Some(None) => flag(loc, ml_site, format!("{}: final_exponentiation(miller_loop(P, Q)) = None", input())),
                Some(Some(v)) => {
                    chk(loc, ml_site, v == got, || format!("{}: final_exponentiation(miller_loop(P, Q)) != pairing(P, Q); got {} want {}", input(), short(&v.0), short(&got.0)));
                }
            }
        }
        // order divides r: plain pow and the library's own validity check
        chk(loc, "output_order", got.0.pow(&st.r_limbs).is_one(), || {
            format!("{}: e(P,Q)^r != 1; got {}", input(), short(&got.0))
        });
        chk(loc, "output_order", got.check().is_ok(), || format!("{}: PairingOutput::check() rejects the output", input()));
        // the target group's own scalar multiplication (cyclotomic_exp) against plain pow
        let k = st.fr[ia] * st.fr[ib];
        let via_mul = guard(loc, "output_scalar_mul", input, || st.base * k);
        if let Some(v) = via_mul {
            chk(loc, "output_scalar_mul", v.0 == want, || {
                format!("{}: e(G,H) * Fr(ab) [cyclotomic_exp] != e(G,H).pow(ab); got {} want {}", input(), short(&v.0), short(&want))
            });
        }
        let via_big = guard(loc, "output_scalar_mul", input, || st.base.mul_bigint(ab.to_u64_digits()));
        if let Some(v) = via_big {
            chk(loc, "output_scalar_mul", v.0 == want, || {
                format!("{}: e(G,H).mul_bigint(ab) != e(G,H).pow(ab); got {} want {}", input(), short(&v.0), short(&want))
            });
        }
        // unreduced integer exponents: e(aP,bQ) = e(P,Q)^(ab) for the INTEGER ab, which has up to twice the
        // limbs of the scalar field; also ab + r*2^64 and ab with leading zero limbs
        let full = a * b;
        let mut padded = ab.to_u64_digits();
        padded.extend_from_slice(&[0, 0]);
        let shifted = &ab + (&st.r << 64usize);
        for (tag, digits) in [("a*b unreduced", full.to_u64_digits()), ("ab + r*2^64", shifted.to_u64_digits()), ("ab with leading zero limbs", padded)] {
            loc.class_if(digits.len() > st.r_limbs.len(), "exponent_longer_than_scalar_field");
            let via = guard(loc, "output_scalar_mul_long", input, || st.base.mul_bigint(&digits));
            if let Some(v) = via {
                chk(loc, "output_scalar_mul_long", v.0 == want, || {
                    format!("{}: e(G,H).mul_bigint({tag} = {:x?}) != e(G,H).pow(ab mod r); got {} want {}", input(), digits, short(&v.0), short(&want))
                });
            }
        }
        // probe only (PairingOutput::mul_bits_be is outside the property text): counted, never a verdict
        let bits: Vec<bool> = ark_ff::BitIteratorBE::new(k.into_bigint()).collect();
        if let Ok(v) = catch_unwind(AssertUnwindSafe(|| st.base.mul_bits_be(bits.into_iter()))) {
            loc.class_if(v.0 != want, "probe:PairingOutput::mul_bits_be!=pow");
        }
    });
}

// ---------------------------------------------------------------------------
// 2. additivity in each argument over S'^3
// ---------------------------------------------------------------------------
fn additive<E: Eng>(ctx: &mut Ctx, st: &Setup<E>, alpha: &[usize]) {
    let n = alpha.len() as u64;
    ctx.sweep(&format!("{}/additive", st.name), n * n * n, |i, loc| {
        let [x1, x2, x3] = unrank(i, [n, n, n]);
        let (ia, ia2, ib) = (alpha[x1 as usize], alpha[x2 as usize], alpha[x3 as usize]);
        let (a, a2, b) = (&st.s[ia].1, &st.s[ia2].1, &st.s[ib].1);
        let sum = (a + a2) % &st.r;
        loc.class(st.class);
        loc.class_if(ia == ia2 && !a.is_zero(), "add:P+P");
        loc.class_if(sum.is_zero() && !a.is_zero(), "add:P+(-P)");
        loc.class_if(a.is_zero() || a2.is_zero(), "add:with_identity");
        loc.class_if(b.is_zero(), "b=0");
        let any_sum_id = a.is_zero() || a2.is_zero() || sum.is_zero();
        if loc.sampling() {
            loc.sample(format!("{} a:{} a':{} b:{}", st.name, st.sc(ia), st.sc(ia2), st.sc(ib)));
        }
        // ---- first argument
        {
            let input = || format!("{} e((a+a')G,bH) a:{} a':{} b:{}", st.name, st.sc(ia), st.sc(ia2), st.sc(ib));
            let site = identity_site(any_sum_id, b.is_zero(), "additive_g1");
            let p: E::G1 = st.g1p[ia] + st.g1p[ia2];
            let lhs = guard(loc, site, input, || E::pairing(p, st.g2[ib]));
            let r1 = single_ref(st, loc, site, ia, ib, input);
            let r2 = single_ref(st, loc, site, ia2, ib, input);
            if let (Some(lhs), Some(r1), Some(r2)) = (lhs, r1, r2) {
                let want = r1.0 * r2.0;
                chk(loc, site, lhs.0 == want, || {
                    format!("{}: e(P+P',Q) != e(P,Q)*e(P',Q); got {} want {}", input(), short(&lhs.0), short(&want))
                });
                // the library's additive notation for the target group
                chk(loc, "output_group_ops", r1 + r2 == PairingOutput(want) && PairingOutput(want) - r2 == r1, || {
                    format!("{}: PairingOutput +/- disagree with field multiplication", input())
                });
            }
        }
        // ---- second argument (roles swapped: scalars a, a' on H, b on G)
        {
            let input = || format!("{} e(bG,(a+a')H) a:{} a':{} b:{}", st.name, st.sc(ia), st.sc(ia2), st.sc(ib));
            let site = identity_site(b.is_zero(), any_sum_id, "additive_g2");
            let q: E::G2 = st.g2p[ia] + st.g2p[ia2];
            let lhs = guard(loc, site, input, || E::pairing(st.g1[ib], q));
            let r1 = single_ref(st, loc, site, ib, ia, input);
            let r2 = single_ref(st, loc, site, ib, ia2, input);
            if let (Some(lhs), Some(r1), Some(r2)) = (lhs, r1, r2) {
                let want = r1.0 * r2.0;
                chk(loc, site, lhs.0 == want, || {
                    format!("{}: e(P,Q+Q') != e(P,Q)*e(P,Q'); got {} want {}", input(), short(&lhs.0), short(&want))
                });
            }
        }
    });
}

// ---------------------------------------------------------------------------
// 3. prepared vs unprepared inputs, every input form on both sides
// ---------------------------------------------------------------------------
const FORMS: [&str; 7] = [
    "affine",
    "projective(Z=1)",
    "projective(Z!=1)",
    "Prepared::from(&affine)",
    "Prepared::from(&projective Z!=1)",
    "Prepared::from(affine)",
    "prepare_g(projective Z!=1)",
];
const NF: u64 = FORMS.len() as u64;

fn g1_form<E: Eng>(st: &Setup<E>, i: usize, form: u64) -> E::G1Prepared {
    let aff = st.g1[i];
    let z1: E::G1 = aff.into_group();
    let zl = E::g1_rescale(&st.g1p[i], GENERIC64);
    match form {
        0 => aff.into(),
        1 => E::G1Prepared::from(z1),
        2 => E::G1Prepared::from(zl),
        3 => E::g1p_ref_aff(&aff),
        4 => E::g1p_ref_proj(&zl),
        5 => E::G1Prepared::from(aff),
        _ => prepare_g1::<E>(zl),
    }
}
fn g2_form<E: Eng>(st: &Setup<E>, i: usize, form: u64) -> E::G2Prepared {
    let aff = st.g2[i];
    let z1: E::G2 = aff.into_group();
    let zl = E::g2_rescale(&st.g2p[i], GENERIC64);
    match form {
        0 => aff.into(),
        1 => E::G2Prepared::from(z1),
        2 => E::G2Prepared::from(zl),
        3 => E::g2p_ref_aff(&aff),
        4 => E::g2p_ref_proj(&zl),
        5 => E::G2Prepared::from(aff),
        _ => prepare_g2::<E>(zl),
    }
}

fn prepared<E: Eng>(ctx: &mut Ctx, st: &Setup<E>, alpha: &[usize], all_form_pairs: bool) {
    let n = alpha.len() as u64;
    // form pairs: the full 7 x 7 product, or (quick tier on the big engines) every form on one side
    // against the affine form on the other plus the diagonal
    let mut fpairs: Vec<(u64, u64)> = Vec::new();
    for f1 in 0..NF {
        for f2 in 0..NF {
            if all_form_pairs || f1 == 0 || f2 == 0 || f1 == f2 {
                fpairs.push((f1, f2));
            }
        }
    }
    let nfp = fpairs.len() as u64;
    // the rescaled representatives really have Z != 1 and denote the same point (harness self-check)
    let mut ok = true;
    for &i in alpha {
        let p = E::g1_rescale(&st.g1p[i], GENERIC64);
        let q = E::g2_rescale(&st.g2p[i], GENERIC64);
        ok &= !E::g1_z_is_one(&p) && !E::g2_z_is_one(&q) && p.into_affine() == st.g1[i] && q.into_affine() == st.g2[i];
        ok &= E::g1_z_is_one(&st.g1[i].into_group()) || st.is0(i);
    }
    ctx.validate(ok, &format!("{}: rescaled projective representatives have Z != 1 and normalise to the same affine point", st.name));
    ctx.sweep(&format!("{}/prepared", st.name), n * n * nfp, |i, loc| {
        let [xf, xa, xb] = unrank(i, [nfp, n, n]);
        let (f1, f2) = fpairs[xf as usize];
        let (ia, ib) = (alpha[xa as usize], alpha[xb as usize]);
        let input = || {
            format!("{} e(aG as {}, bH as {}) a:{} b:{}", st.name, FORMS[f1 as usize], FORMS[f2 as usize], st.sc(ia), st.sc(ib))
        };
        loc.class(st.class);
        loc.class_if(matches!(f1, 2 | 4 | 6) || matches!(f2, 2 | 4 | 6), "prepared_from_projective_Z≠1");
        loc.class_if(matches!(f1, 3 | 4) || matches!(f2, 3 | 4), "prepared_from_reference");
        loc.class_if(f1 >= 3 && f2 >= 3, "both_explicitly_prepared");
        loc.class_if((st.is0(ia) && matches!(f1, 2 | 4 | 6)) || (st.is0(ib) && matches!(f2, 2 | 4 | 6)), "prepared_from_projective_identity_junk_XY");
        if loc.sampling() {
            loc.sample(input());
        }
        let site = identity_site(st.is0(ia), st.is0(ib), "prepared_vs_unprepared");
        // unprepared reference: affine points handed to `pairing` directly
        let Some(want) = single_ref(st, loc, site, ia, ib, input) else { return };
        let Some(got) = guard(loc, site, input, || E::pairing(g1_form(st, ia, f1), g2_form(st, ib, f2))) else { return };
        chk(loc, site, got == want, || format!("{}: differs from pairing(affine, affine); got {} want {}", input(), short(&got.0), short(&want.0)));
    });
}

// ---------------------------------------------------------------------------
// 4. multi-pairings: every length, identities in the lists, Miller loop + final exponentiation
// ---------------------------------------------------------------------------
#[derive(Clone, Debug)]
struct MCase {
    /// per position: (index into S for a, index into S for b); index 0 is the scalar 0, i.e. the identity
    pairs: Vec<(usize, usize)>,
    kind: &'static str,
}

fn multi_cases(variants: usize, with_id_lists: bool) -> Vec<MCase> {
    const NZ: [usize; 9] = [1, 2, 3, 4, 5, 6, 7, 8, 9];
    let pick = |i: usize, v: usize| (NZ[(i + 2 * v) % 9], NZ[(2 * i + 3 * v + 1) % 9]);
    let mut out = Vec::new();
    for v in 0..variants {
        for n in (0..=9).chain([12, 13]) {
            out.push(MCase { pairs: (0..n).map(|i| pick(i, v)).collect(), kind: "lengths" });
        }
    }
    if with_id_lists {
        // n <= 3: every position independently {regular, O1, O2, both}
        for n in 1..=3usize {
            for pat in 0..4u64.pow(n as u32) {
                let d = unrank_vec(pat, &vec![4u64; n]);
                if d.iter().all(|k| *k == 0) {
                    continue; // the all-regular list is a "lengths" case
                }
                let pairs = (0..n)
                    .map(|i| {
                        let (a, b) = pick(i, 1);
                        match d[i] {
                            0 => (a, b),
                            1 => (0, b),
                            2 => (a, 0),
                            _ => (0, 0),
                        }
                    })
                    .collect();
                out.push(MCase { pairs, kind: "id_patterns_n<=3" });
            }
        }
        // one identity at every position of lists that straddle the 4-pair chunk boundary
        for n in [5usize, 9] {
            for pos in 0..n {
                for which in 0..2 {
                    let pairs = (0..n)
                        .map(|i| {
                            let (a, b) = pick(i, 2);
                            if i != pos {
                                (a, b)
                            } else if which == 0 {
                                (0, b)
                            } else {
                                (a, 0)
                            }
                        })
                        .collect();
                    out.push(MCase { pairs, kind: "one_identity_n=5,9" });
                }
            }
        }
    }
    // the same pair twice (product e(P,Q)^2) and a pair together with its negative in either group (product 1):
    // positions first / last / across the 4-pair chunk boundary / first+last.  Negation is by scalar index:
    // S[1] = 1 <-> S[4] = r-1.
    for n in [2usize, 5, 9] {
        let mut pos: Vec<(usize, usize)> = vec![(0, 1)];
        if n >= 5 {
            pos.extend([(3, 4), (0, n - 1)]);
        }
        if n == 9 {
            pos.push((7, 8));
        }
        for (i0, j0) in pos {
            for (kind, second) in [("repeat:same_pair_twice", (1usize, 9usize)), ("repeat:(P,Q),(-P,Q)", (4, 9)), ("repeat:(P,Q),(P,-Q)", (9, 4))] {
                // the pair at i0 is (G, 0x9e37..H) resp. (0x9e37..G, H); the pair at j0 repeats / negates it
                let first = if kind == "repeat:(P,Q),(P,-Q)" { (9, 1) } else { (1, 9) };
                let pairs = (0..n).map(|i| if i == i0 { first } else if i == j0 { second } else { pick(i, 3) }).collect();
                out.push(MCase { pairs, kind });
            }
        }
    }
    out
}

fn multi<E: Eng>(ctx: &mut Ctx, st: &Setup<E>, variants: usize, boundary_identity_cases: bool, all_shapes: bool) {
    let cases: Vec<MCase> = multi_cases(variants, true)
        .into_iter()
        .filter(|c| boundary_identity_cases || (c.kind != "one_identity_n=5,9" && !(c.kind.starts_with("repeat:") && c.pairs.len() == 9)))
        .collect();
    ctx.sweep(&format!("{}/multi", st.name), cases.len() as u64, |i, loc| {
        let c = &cases[i as usize];
        let n = c.pairs.len();
        let desc = || {
            let l: Vec<String> = c.pairs.iter().map(|(a, b)| format!("({},{})", st.s[*a].0, st.s[*b].0)).collect();
            format!("{} n={} [(a_i,b_i)]=[{}]", st.name, n, l.join(","))
        };
        loc.class(st.class);
        let g1_id = c.pairs.iter().any(|(a, _)| *a == 0);
        let g2_id = c.pairs.iter().any(|(_, b)| *b == 0);
        let any_id = g1_id || g2_id;
        let regular: Vec<(usize, usize)> = c.pairs.iter().copied().filter(|(a, b)| *a != 0 && *b != 0).collect();
        let effective = regular.len();
        loc.class_if(any_id, "identity_in_list");
        loc.class_if(g1_id, "identity_in_list:G1");
        loc.class_if(g2_id, "identity_in_list:G2");
        loc.class_if(any_id && effective == 0, "identity_in_list:all_pairs_trivial");
        loc.class_if(any_id && n > 4 && effective % 4 == 0, "identity_in_list:filtered_to_full_chunks");
        match n {
            0 => loc.class("multi:n=0"),
            1 => loc.class("multi:n=1"),
            4 => loc.class("multi:n=4"),
            5 => loc.class("multi:n=5"),
            8 => loc.class("multi:n=8"),
            9 => loc.class("multi:n=9"),
            12 => loc.class("multi:n=12"),
            13 => loc.class("multi:n=13"),
            _ => {}
        }
        loc.class_if(effective > 4, "multi:more_than_one_chunk");
        loc.class_if(n >= 5, st.multi_ge5_class());
        let repeat = c.kind.starts_with("repeat:");
        if repeat {
            loc.class(c.kind);
            loc.class(match n {
                2 => "repeat:n=2",
                5 => "repeat:n=5",
                _ => "repeat:n=9",
            });
        }
        if loc.sampling() {
            loc.sample(desc());
        }
        let id_site = identity_site(g1_id, g2_id, "multi_pairing_product");
        // oracle: product of the single pairings; a pair with an identity contributes 1 (the property)
        let mut want = E::TargetField::one();
        for (a, b) in &regular {
            let Some(e) = single_ref(st, loc, "single_pairing", *a, *b, desc) else { return };
            want *= e.0;
        }
        if repeat {
            // an expected value that does not go through the single pairings of the repeated pairs:
            // prod e(a_i G, b_i H) = e(G,H)^(sum a_i b_i mod r); for a pair and its negative the two factors cancel
            let mut e = BigUint::zero();
            for (a, b) in &c.pairs {
                e = (e + &st.s[*a].1 * &st.s[*b].1) % &st.r;
            }
            let direct = st.base_pow(&e);
            chk(loc, "multi_pairing_repeated_pairs", want == direct, || {
                format!("{}: product of the single pairings != e(G,H)^(sum a_i b_i mod r); got {} want {}", desc(), short(&want), short(&direct))
            });
            if n == 2 && c.kind != "repeat:same_pair_twice" {
                chk(loc, "multi_pairing_repeated_pairs", direct.is_one(), || format!("{}: harness: e(G,H)^(ab - ab) != 1", desc()));
            }
            want = direct;
        }
        let ps: Vec<E::G1Affine> = c.pairs.iter().map(|(a, _)| st.g1[*a]).collect();
        let qs: Vec<E::G2Affine> = c.pairs.iter().map(|(_, b)| st.g2[*b]).collect();
        // (i) multi_pairing on affine inputs.  With identities in the list the verdict is split in two so
        // that a failure is attributed to the right mechanism: the list WITHOUT the identity pairs against
        // the product (site multi_pairing_product), and the full list against the list without them
        // (site pairing_with_g*_identity).
        let got: Option<PairingOutput<E>>;
        if !any_id {
            let site = if repeat { "multi_pairing_repeated_pairs" } else { "multi_pairing_product" };
            got = guard(loc, site, desc, || E::multi_pairing(ps.clone(), qs.clone()));
            if let Some(got) = got {
                chk(loc, site, got.0 == want, || {
                    format!("{}: multi_pairing != product of the single pairings; got {} want {}", desc(), short(&got.0), short(&want))
                });
            }
        } else {
            let pf: Vec<E::G1Affine> = regular.iter().map(|(a, _)| st.g1[*a]).collect();
            let qf: Vec<E::G2Affine> = regular.iter().map(|(_, b)| st.g2[*b]).collect();
            let filtered = guard(loc, "multi_pairing_product", desc, || E::multi_pairing(pf, qf));
            if let Some(f) = filtered {
                chk(loc, "multi_pairing_product", f.0 == want, || {
                    format!("{}: multi_pairing(list without its identity pairs) != product of the single pairings; got {} want {}", desc(), short(&f.0), short(&want))
                });
            }
            got = guard(loc, id_site, desc, || E::multi_pairing(ps.clone(), qs.clone()));
            if let Some(got) = got {
                let reference = filtered.map(|f| f.0).unwrap_or(want);
                chk(loc, id_site, got.0 == reference, || {
                    format!("{}: multi_pairing(list) != multi_pairing(list without its identity pairs): a pair with an identity did not contribute 1; got {} want {}", desc(), short(&got.0), short(&reference))
                });
            }
        }
        if let Some(got) = got {
            chk(loc, "output_order", got.0.pow(&st.r_limbs).is_one(), || format!("{}: multi_pairing output ^ r != 1", desc()));
        }
        let reference = got.map(|g| g.0).unwrap_or(want);
        // (ii) multi_miller_loop on explicitly prepared inputs, then final_exponentiation == multi_pairing
        let site2 = identity_site(g1_id, g2_id, "miller_loop_then_final_exp");
        let fe = guard(loc, site2, desc, || {
            let pp: Vec<E::G1Prepared> = ps.iter().map(|p| E::G1Prepared::from(*p)).collect();
            let qp: Vec<E::G2Prepared> = qs.iter().map(|q| E::G2Prepared::from(*q)).collect();
            let ml: MillerLoopOutput<E> = E::multi_miller_loop(pp, qp);
            E::final_exponentiation(ml)
        });
        match fe {
            None => {}
            Some(None) => flag(loc, site2, format!("{}: final_exponentiation(multi_miller_loop(..)) = None", desc())),
            Some(Some(v)) => {
                chk(loc, "miller_loop_then_final_exp", v.0 == reference, || {
                    format!("{}: final_exponentiation(multi_miller_loop(prepared)) != multi_pairing; got {} want {}", desc(), short(&v.0), short(&reference))
                });
            }
        }
        // (ii') the borrowed call shapes `multi_pairing(&ps, &qs)` / `multi_miller_loop(ps.iter(), qs.iter())` (items are
        // references), n in {2, 5}, compared with the owned call.  (`&G1Prepared` has no `Into<G1Prepared>` in any
        // model, so prepared values can only be passed by value - shape (ii).)
        if (n == 2 || n == 5) && c.kind != "one_identity_n=5,9" {
            loc.class("multi:borrowed_items");
            loc.class_if(n == 5, "multi:borrowed_items,n=5");
            let site_b = identity_site(g1_id, g2_id, "multi_pairing_borrowed_items");
            if let Some(v) = guard(loc, site_b, desc, || E::multi_pairing_borrowed(&ps, &qs)) {
                chk(loc, site_b, v.0 == reference, || {
                    format!("{}: multi_pairing(&ps, &qs) [borrowed affine items] != multi_pairing(ps, qs); got {} want {}", desc(), short(&v.0), short(&reference))
                });
            }
            match guard(loc, site_b, desc, || E::final_exponentiation(E::multi_miller_loop_borrowed(&ps, &qs))) {
                None => {}
                Some(None) => flag(loc, site_b, format!("{}: final_exponentiation(multi_miller_loop(ps.iter(), qs.iter())) = None", desc())),
                Some(Some(v)) => {
                    chk(loc, site_b, v.0 == reference, || {
                        format!("{}: final_exponentiation(multi_miller_loop(ps.iter(), qs.iter())) [borrowed affine items] != multi_pairing(ps, qs); got {} want {}", desc(), short(&v.0), short(&reference))
                    });
                }
            }
            let pj: Vec<E::G1> = c.pairs.iter().map(|(a, _)| E::g1_rescale(&st.g1p[*a], GENERIC64)).collect();
            let qj: Vec<E::G2> = c.pairs.iter().map(|(_, b)| E::g2_rescale(&st.g2p[*b], GENERIC64)).collect();
            if let Some(v) = guard(loc, site_b, desc, || E::multi_pairing_borrowed_proj(&pj, &qj)) {
                chk(loc, site_b, v.0 == reference, || {
                    format!("{}: multi_pairing(&ps, &qs) [borrowed projective items, Z != 1] != multi_pairing(ps, qs); got {} want {}", desc(), short(&v.0), short(&reference))
                });
            }
        }
        // (iii) multi_pairing on projective inputs with Z != 1 (identity: Z = 0 with junk X, Y)
        if all_shapes || (c.kind != "one_identity_n=5,9" && !repeat) {
            let pj: Vec<E::G1> = c.pairs.iter().map(|(a, _)| E::g1_rescale(&st.g1p[*a], GENERIC64)).collect();
            let qj: Vec<E::G2> = c.pairs.iter().map(|(_, b)| E::g2_rescale(&st.g2p[*b], GENERIC64)).collect();
            let site3 = identity_site(g1_id, g2_id, "multi_pairing_projective_inputs");
            if let Some(v) = guard(loc, site3, desc, || E::multi_pairing(pj, qj)) {
                chk(loc, site3, v.0 == reference, || {
                    format!("{}: multi_pairing(projective Z!=1 inputs) != multi_pairing(affine inputs); got {} want {}", desc(), short(&v.0), short(&reference))
                });
            }
        }
    });
}

struct Plan {
    bil: Vec<usize>,
    add: Vec<usize>,
    prep: Vec<usize>,
    all_form_pairs: bool,
    variants: usize,
    boundary_identity_cases: bool,
    all_shapes: bool,
}

/// `heavy`: 753..782-bit engine (30..100 ms per pairing); `chunked`: the model's multi Miller loop works
/// on 4-pair chunks (BLS12, BN, BW6) - MNT4/MNT6/CP6 multiply independent single loops
/// Points with special coordinates (x = 0, x = 1, ... as produced by `from_random_bytes` on structured
/// byte strings, cofactor-cleared into the prime-order groups): a non-identity element of G1 (G2) pairs
/// non-trivially with the generator of the other group (both groups are cyclic of prime order r and the
/// pairing of the generators is not 1), the value has order dividing r, and the pairing is additive
/// around them.  Catches identity filters / shortcuts keyed on a coordinate value instead of the
/// infinity flag.
/// k * P by plain double-and-add through the group's `+` / `double` (never the possibly overridden `mul`)
fn dbl_add<G: CurveGroup>(p: G, k: &BigUint) -> G {
    let mut acc = G::zero();
    for i in (0..k.bits()).rev() {
        acc = acc.double();
        if k.bit(i) {
            acc += p;
        }
    }
    acc
}

fn special_points<E: Eng>(ctx: &mut Ctx, st: &Setup<E>) {
    use ark_ec::AffineRepr;
    let patterns: Vec<Vec<u8>> = {
        let mut v = Vec::new();
        for len in [32usize, 48, 64, 96, 100, 104, 128, 192, 200, 208, 256, 288, 300, 304, 400] {
            for first in [0u8, 1, 2, 3] {
                let mut b = vec![0u8; len];
                b[0] = first;
                v.push(b.clone());
                // the same with the "greatest y" / sign flag bit pattern in the last byte set
                let l = b.len() - 1;
                b[l] = 0x80;
                v.push(b);
            }
        }
        v
    };
    // clear_cofactor is C12's subject: a candidate is used only if the harness's own double-and-add (the group's
    // `+` / `double`, never `mul`) confirms P != O and [r]P = O; otherwise it is skipped (class special_point_rejected)
    let mut rejected = 0u64;
    let g1s: Vec<E::G1Affine> = {
        let mut v: Vec<E::G1Affine> = patterns.iter().filter_map(|b| E::G1Affine::from_random_bytes(b)).map(|p| p.clear_cofactor()).filter(|p| !p.is_zero()).collect();
        v.dedup();
        v.truncate(6);
        let n = v.len();
        v.retain(|p| catch_unwind(AssertUnwindSafe(|| !p.is_zero() && dbl_add(p.into_group(), &st.r).is_zero())).unwrap_or(false));
        rejected += (n - v.len()) as u64;
        v
    };
    let g2s: Vec<E::G2Affine> = {
        let mut v: Vec<E::G2Affine> = patterns.iter().filter_map(|b| E::G2Affine::from_random_bytes(b)).map(|p| p.clear_cofactor()).filter(|p| !p.is_zero()).collect();
        v.dedup();
        v.truncate(4);
        let n = v.len();
        v.retain(|p| catch_unwind(AssertUnwindSafe(|| !p.is_zero() && dbl_add(p.into_group(), &st.r).is_zero())).unwrap_or(false));
        rejected += (n - v.len()) as u64;
        v
    };
    if rejected > 0 {
        ctx.add_class("special_point_rejected", rejected);
    }
    let (n1, n2) = (g1s.len() as u64, g2s.len() as u64);
    ctx.bound(&format!("{}.special_points", st.name), format!("{n1} special G1 points, {n2} special G2 points (from_random_bytes on structured strings, cofactor-cleared)"));
    let g = st.g1[1];
    let h = st.g2[1];
    ctx.sweep(&format!("{}/special", st.name), n1 + n2, |i, loc| {
        loc.class(st.class);
        let input = || format!("{} special point #{i}", st.name);
        if i < n1 {
            let p = g1s[i as usize];
            loc.class("special_point_g1");
            loc.class_if(p.x().map(|x| x.is_zero()).unwrap_or(false), "special_point_x=0");
            let Some(e1) = guard(loc, "special_point", input, || E::pairing(p, h)) else { return };
            chk(loc, "special_point", !e1.0.is_one(), || format!("{}: e(P, H) = 1 for a non-identity P = {p} of G1", input()));
            chk(loc, "special_point", e1.0.pow(&st.r_limbs).is_one(), || format!("{}: e(P,H)^r != 1", input()));
            let sum: E::G1Affine = (p.into_group() + g.into_group()).into_affine();
            let Some(e2) = guard(loc, "special_point", input, || E::pairing(sum, h)) else { return };
            chk(loc, "special_point", e2.0 == e1.0 * st.base.0, || format!("{}: e(P+G, H) != e(P,H) e(G,H) for P = {p}", input()));
            let Some(m) = guard(loc, "special_point", input, || E::multi_pairing([p, g], [h, h])) else { return };
            chk(loc, "special_point", m.0 == e2.0, || format!("{}: multi_pairing([P,G],[H,H]) != e(P+G,H) for P = {p}", input()));
        } else {
            let q = g2s[(i - n1) as usize];
            loc.class("special_point_g2");
            let Some(e1) = guard(loc, "special_point", input, || E::pairing(g, q)) else { return };
            chk(loc, "special_point", !e1.0.is_one(), || format!("{}: e(G, Q) = 1 for a non-identity Q = {q} of G2", input()));
            chk(loc, "special_point", e1.0.pow(&st.r_limbs).is_one(), || format!("{}: e(G,Q)^r != 1", input()));
            let sum: E::G2Affine = (q.into_group() + h.into_group()).into_affine();
            let Some(e2) = guard(loc, "special_point", input, || E::pairing(g, sum)) else { return };
            chk(loc, "special_point", e2.0 == e1.0 * st.base.0, || format!("{}: e(G, Q+H) != e(G,Q) e(G,H) for Q = {q}", input()));
            let Some(m) = guard(loc, "special_point", input, || E::multi_pairing([g, g], [q, h])) else { return };
            chk(loc, "special_point", m.0 == e2.0, || format!("{}: multi_pairing([G,G],[Q,H]) != e(G,Q+H) for Q = {q}", input()));
        }
    });
}

fn run_engine<E: Eng>(ctx: &mut Ctx, name: &'static str, class: &'static str, family: &'static str, heavy: bool, chunked: bool) {
    // skip the set-up cost of engines deselected by --only / --replay
    if let Some(o) = &ctx.only {
        let names = ["bilinear", "additive", "prepared", "multi", "special"].map(|s| format!("{name}/{s}"));
        if !names.iter().any(|n| n.contains(o.as_str())) {
            return;
        }
    }
    if let Some((s, _)) = &ctx.replay {
        if !s.starts_with(&format!("{name}/")) {
            return;
        }
    }
    let Some(st) = Setup::<E>::new(ctx, name, class, family) else { return };
    let full: Vec<usize> = (0..10).collect();
    // S indices: 0:0 1:1 2:2 3:3 4:r-1 5:r-2 6:(r-1)/2 7:2^64 8:c128 9:0x9e37..
    let plan = if ctx.quick() && heavy {
        Plan {
            bil: vec![0, 1, 2, 4, 5, 6, 7, 9],
            add: vec![0, 1, 4, 9],
            prep: vec![0, 9],
            all_form_pairs: false,
            variants: 1,
            boundary_identity_cases: chunked,
            all_shapes: false,
        }
    } else {
        Plan {
            bil: full.clone(),
            add: vec![0, 1, 4, 6, 7, 9],
            prep: vec![0, 1, 4, 9],
            all_form_pairs: true,
            variants: if ctx.quick() { 2 } else if heavy { 3 } else { 9 },
            boundary_identity_cases: true,
            all_shapes: true,
        }
    };
    bilinear(ctx, &st, &plan.bil);
    additive(ctx, &st, &plan.add);
    prepared(ctx, &st, &plan.prep, plan.all_form_pairs);
    multi(ctx, &st, plan.variants, plan.boundary_identity_cases, plan.all_shapes);
    special_points(ctx, &st);
}

fn main() {
    let mut ctx = Ctx::from_args("C06");
    ctx.require(&["exponent_longer_than_scalar_field",
        "engine:bls12_381",
        "engine:test_curves_bls12_381",
        "engine:bls12_377",
        "engine:bn254",
        "engine:bw6_761",
        "engine:bw6_767",
        "engine:mnt4_298",
        "engine:mnt4_753",
        "engine:mnt6_298",
        "engine:mnt6_753",
        "engine:cp6_782(hand-written)",
        "family:bls12/M-twist",
        "family:bls12/D-twist",
        "family:bn",
        "family:bw6",
        "family:mnt4",
        "family:mnt6",
        "a=0",
        "b=0",
        "e(O,O)",
        "a=r-1",
        "generators",
        "ab_wraps_mod_r",
        "add:P+P",
        "add:P+(-P)",
        "multi:n=0",
        "multi:n=4",
        "multi:n=5",
        "multi:n=8",
        "multi:n=9",
        "multi:n=12",
        "multi:n=13",
        "identity_in_list",
        "identity_in_list:G1",
        "identity_in_list:G2",
        "identity_in_list:filtered_to_full_chunks",
        "prepared_from_projective_Z≠1",
        "prepared_from_reference",
        "prepared_from_projective_identity_junk_XY",
        "special_point_g1",
        "special_point_g2",
        "special_point_x=0",
        "multi:n>=5/bls12",
        "multi:n>=5/bn",
        "multi:n>=5/bw6",
        "multi:n>=5/mnt4",
        "multi:n>=5/mnt6",
        "multi:borrowed_items",
        "multi:borrowed_items,n=5",
        "miller_loop:single",
        "repeat:same_pair_twice",
        "repeat:(P,Q),(-P,Q)",
        "repeat:(P,Q),(P,-Q)",
        "repeat:n=2",
        "repeat:n=5",
        "repeat:n=9",
    ]);
    ctx.require(&["engine:toy_bn373", "toybn:all_pairs"]);
    ctx.assume("RELATIONAL oracle: there is no independent pairing implementation. Expected values are the algebraic laws themselves: e(aG,bH) must equal e(G,H)^(ab mod r) with ab mod r computed on num-bigint integers and the power taken by plain square-and-multiply Field::pow on the raw target-field element (C02-checked arithmetic), never cyclotomic_exp; products of single pairings for multi-pairings; pairing(affine, affine) for the prepared forms");
    ctx.assume("points are indexed by scalars: G1 and G2 are cyclic of prime order r, P = aG and Q = bH for the fixed generators; scalar multiplication and point addition themselves are C03/C04's subject");
    ctx.assume("a degenerate e (constant 1) would satisfy every relation: excluded by the non-degeneracy check e(G,H) != 1, which with e(G,H)^r = 1 and r prime gives order exactly r");
    ctx.bound("scalar_alphabet_S", "{0,1,2,3,r-1,r-2,(r-1)/2,2^64,0xac45a4010001a40200000000ffffffff,0x9e3779b97f4a7c15}");
    ctx.bound(
        "bilinear",
        if ctx.quick() { "all (a,b) in S^2 (<=381-bit engines); in {0,1,2,r-1,r-2,(r-1)/2,2^64,0x9e37..}^2 for the 753..782-bit engines" } else { "all (a,b) in S^2, every engine" },
    );
    ctx.bound(
        "additive",
        if ctx.quick() { "all (a,a',b) in S'^3, S'={0,1,r-1,(r-1)/2,2^64,0x9e37..} ({0,1,r-1,0x9e37..} on the 753..782-bit engines), both arguments" } else { "all (a,a',b) in S'^3, S'={0,1,r-1,(r-1)/2,2^64,0x9e37..}, both arguments" },
    );
    ctx.bound("prepared", "7 input forms x 7 input forms x {0,1,r-1,0x9e37..}^2; quick tier on the 753..782-bit engines: {0,0x9e37..}^2 x (every form against affine on either side + the diagonal = 19 form pairs)");
    ctx.bound("multi_lengths", "every n in 0..=9, 12, 13; identity patterns {regular,O1,O2,both}^n for n<=3 (all); one identity (G1 or G2) at every position for n=5,9 (quick: only on the engines with 4-pair chunking for the 753..782-bit ones); three call shapes (affine, prepared+miller_loop+final_exp, projective Z!=1)");
    ctx.bound("multi_repeated_pairs", "the same pair twice / (P,Q) with (-P,Q) / (P,Q) with (P,-Q) in lists of n = 2, 5, 9 at positions (0,1), (3,4) [across the 4-pair chunk boundary], (0,n-1), (7,8); expected value e(G,H)^(sum a_i b_i mod r); quick tier on the 753..782-bit engines without chunking: n = 2, 5 only");
    ctx.bound("multi_borrowed_items", "multi_pairing(&ps, &qs), multi_miller_loop(ps.iter(), qs.iter()) with &G1Affine / &G2Affine items and multi_pairing with &G1 / &G2 (Z != 1) items for every list of length 2 and 5 (all identity patterns of length 2), compared with the owned call; Pairing::miller_loop(P, Q) on every (a, b) of the bilinear sweep");
    ctx.bound("multi_scalar_variants", if ctx.quick() { "2 (1 on the 753..782-bit engines)" } else { "9 (3 on the 753..782-bit engines)" });

    run_engine::<ark_bls12_381::Bls12_381>(&mut ctx, "bls12_381", "engine:bls12_381", "family:bls12/M-twist", false, true);
    run_engine::<ark_test_curves::bls12_381::Bls12_381>(&mut ctx, "test_curves_bls12_381", "engine:test_curves_bls12_381", "family:bls12/M-twist", false, true);
    run_engine::<ark_bls12_377::Bls12_377>(&mut ctx, "bls12_377", "engine:bls12_377", "family:bls12/D-twist", false, true);
    run_engine::<ark_bn254::Bn254>(&mut ctx, "bn254", "engine:bn254", "family:bn", false, true);
    run_engine::<ark_mnt4_298::MNT4_298>(&mut ctx, "mnt4_298", "engine:mnt4_298", "family:mnt4", false, false);
    run_engine::<ark_mnt6_298::MNT6_298>(&mut ctx, "mnt6_298", "engine:mnt6_298", "family:mnt6", false, false);
    run_engine::<ark_bw6_761::BW6_761>(&mut ctx, "bw6_761", "engine:bw6_761", "family:bw6", true, true);
    run_engine::<ark_bw6_767::BW6_767>(&mut ctx, "bw6_767", "engine:bw6_767", "family:bw6", true, true);
    run_engine::<ark_mnt4_753::MNT4_753>(&mut ctx, "mnt4_753", "engine:mnt4_753", "family:mnt4", true, false);
    run_engine::<ark_mnt6_753::MNT6_753>(&mut ctx, "mnt6_753", "engine:mnt6_753", "family:mnt6", true, false);
    run_engine::<ark_cp6_782::CP6_782>(&mut ctx, "cp6_782", "engine:cp6_782(hand-written)", "family:cp6(hand-written)", true, false);
    // BN with an M-type twist and a negative X is only instantiated by the toy universe; it costs a few
    // seconds (1-limb fields), so it runs in both tiers
    toybn::run(&mut ctx);
    std::process::exit(ctx.finish());
}


// ---------------------------------------------------------------------------
// 5. toy BN universe (thorough): x = -2, p = 373, r = 349, whole-universe enumeration of (P, Q)
//    through the generic ec/src/models/bn code
// ---------------------------------------------------------------------------
mod toybn {
    use super::*;
    use algebra_mc::refmodel::curve::{Pt, SwModel};
    use algebra_mc::refmodel::fieldmodel::{prime_to_u64, FieldModel, Fp2Model, PrimeModel};
    use algebra_mc::toy::gen_toybn as tb;
    use ark_ec::bn::{BnConfig, TwistType};
    use ark_ec::short_weierstrass::SWCurveConfig;
    use ark_ff::{AdditiveGroup, Fp12Config, Fp2Config, Fp6Config};
    pub use tb::ToyBn;

    const NAME: &str = "toy_bn373";

    fn mul_model<M: FieldModel>(c: &SwModel<M>, mut k: u64, p: Pt<M::E>) -> Pt<M::E> {
        let mut acc = Pt::O;
        let mut b = p;
        while k > 0 {
            if k & 1 == 1 {
                acc = c.add(acc, b);
            }
            b = c.add(b, b);
            k >>= 1;
        }
        acc
    }

    /// Re-derive every generated constant with the harness' own u64 models.  A failure is a
    /// machinery error (wrong toy parameter), never a verdict.
    pub fn validate(ctx: &mut Ctx) -> bool {
        let before = ctx.machinery_errors.len();
        let (p, r, x) = (tb::P, tb::R, tb::X);
        let poly = |c2: i64| (36 * x.pow(4) + 36 * x.pow(3) + c2 * x.pow(2) + 6 * x + 1) as u64;
        ctx.validate(is_prime_small(p) && is_prime_small(r), "toybn: p and r prime");
        ctx.validate(p == poly(24) && r == poly(18) && p + 1 - (6 * x * x + 1) as u64 == r, "toybn: BN polynomials p(x), r(x), t(x)");
        ctx.validate(from_limbs(tb::Fq::MODULUS.as_ref()) == BigUint::from(p) && from_limbs(tb::Fr::MODULUS.as_ref()) == BigUint::from(r), "toybn: field moduli");
        let fp = PrimeModel { p };
        let f2 = Fp2Model { p, beta: tb::BETA };
        // tower
        ctx.validate(fp.pow(tb::BETA, (p - 1) / 2) == p - 1, "toybn: beta is a quadratic non-residue");
        ctx.validate(prime_to_u64(&tb::Fq2Config::NONRESIDUE) == tb::BETA, "toybn: Fp2 NONRESIDUE");
        let c = tb::Fq2Config::FROBENIUS_COEFF_FP2_C1;
        ctx.validate(c.len() == 2 && prime_to_u64(&c[0]) == 1 && prime_to_u64(&c[1]) == fp.pow(tb::BETA, (p - 1) / 2), "toybn: FROBENIUS_COEFF_FP2_C1");
        let xi = tb::XI;
        let q2 = p * p;
        ctx.validate(f2.pow(xi, (q2 - 1) / 2) != f2.one() && f2.pow(xi, (q2 - 1) / 3) != f2.one(), "toybn: xi is neither a square nor a cube in Fp2");
        ctx.validate(f2.from_lib_ext(&tb::Fq6Config::NONRESIDUE) == xi, "toybn: Fp6 NONRESIDUE");
        let frob = |i: u32, num: u128, den: u128| -> (u64, u64) {
            let e = (num * (p as u128).pow(i) - num) / den;
            f2.pow(xi, (e % (q2 as u128 - 1)) as u64)
        };
        let (c1, c2, c12) = (tb::Fq6Config::FROBENIUS_COEFF_FP6_C1, tb::Fq6Config::FROBENIUS_COEFF_FP6_C2, tb::Fq12Config::FROBENIUS_COEFF_FP12_C1);
        ctx.validate(c1.len() == 6 && (0..6).all(|i| f2.from_lib_ext(&c1[i]) == frob(i as u32, 1, 3)), "toybn: FROBENIUS_COEFF_FP6_C1[i] = xi^((p^i-1)/3)");
        ctx.validate(c2.len() == 6 && (0..6).all(|i| f2.from_lib_ext(&c2[i]) == frob(i as u32, 2, 3)), "toybn: FROBENIUS_COEFF_FP6_C2[i] = xi^((2p^i-2)/3)");
        ctx.validate(c12.len() == 12 && (0..12).all(|i| f2.from_lib_ext(&c12[i]) == frob(i as u32, 1, 6)), "toybn: FROBENIUS_COEFF_FP12_C1[i] = xi^((p^i-1)/6)");
        ctx.validate(tb::Fq12Config::NONRESIDUE == tb::Fq6::new(tb::Fq2::ZERO, tb::Fq2::ONE, tb::Fq2::ZERO), "toybn: Fp12 NONRESIDUE = v");
        // G1
        let e1 = SwModel { f: fp, a: 0, b: tb::B1 };
        let g1 = Pt::A(tb::G1_GEN.0, tb::G1_GEN.1);
        ctx.validate(e1.points().len() as u64 == r, "toybn: #E(F_p) = r by brute force");
        ctx.validate(e1.on_curve(g1), "toybn: G1 generator on the curve");
        let lg = tb::G1Config::GENERATOR;
        ctx.validate(
            prime_to_u64(&tb::G1Config::COEFF_B) == tb::B1 && tb::G1Config::COEFF_A.is_zero() && (prime_to_u64(&lg.x), prime_to_u64(&lg.y)) == tb::G1_GEN,
            "toybn: G1Config constants",
        );
        // G2: the sextic twist over Fp2
        let e2 = SwModel { f: f2, a: (0, 0), b: tb::B2 };
        let want_b2 = if tb::TWIST_IS_D { f2.mul((tb::B1, 0), f2.inv(xi)) } else { f2.mul((tb::B1, 0), xi) };
        ctx.validate(tb::B2 == want_b2, "toybn: twist coefficient b' = b/xi (D) resp. b*xi (M)");
        ctx.validate(matches!(<tb::Config as BnConfig>::TWIST_TYPE, TwistType::D) == tb::TWIST_IS_D, "toybn: TWIST_TYPE");
        ctx.validate(e2.points().len() as u64 == tb::G2_ORDER && tb::G2_ORDER == r * (2 * p - r) && tb::G2_COFACTOR * r == tb::G2_ORDER, "toybn: #E'(F_p^2) = r(2p - r) by brute force");
        let g2 = Pt::A(tb::G2_GEN.0, tb::G2_GEN.1);
        ctx.validate(e2.on_curve(g2) && mul_model(&e2, r, g2) == Pt::O, "toybn: G2 generator on the twist and of order r");
        let lh = tb::G2Config::GENERATOR;
        ctx.validate(
            f2.from_lib_ext(&tb::G2Config::COEFF_B) == tb::B2 && tb::G2Config::COEFF_A.is_zero() && (f2.from_lib_ext(&lh.x), f2.from_lib_ext(&lh.y)) == tb::G2_GEN,
            "toybn: G2Config constants",
        );
        ctx.validate(<tb::G2Config as ark_ec::CurveConfig>::COFACTOR == [tb::G2_COFACTOR].as_slice(), "toybn: G2 cofactor");
        // untwist-Frobenius-twist acts as [p] on G2
        let cx = f2.from_lib_ext(&<tb::Config as BnConfig>::TWIST_MUL_BY_Q_X);
        let cy = f2.from_lib_ext(&<tb::Config as BnConfig>::TWIST_MUL_BY_Q_Y);
        let conj = |a: (u64, u64)| (a.0, (p - a.1) % p);
        let psi = Pt::A(f2.mul(conj(tb::G2_GEN.0), cx), f2.mul(conj(tb::G2_GEN.1), cy));
        ctx.validate(e2.on_curve(psi) && psi == mul_model(&e2, p % r, g2), "toybn: psi(H) = [p mod r]H with TWIST_MUL_BY_Q_X/Y");
        // loop count
        let d = <tb::Config as BnConfig>::ATE_LOOP_COUNT;
        let val: i64 = d.iter().enumerate().map(|(i, di)| (*di as i64) << i).sum();
        ctx.validate(val == (6 * x + 2).abs() && d.windows(2).all(|w| w[0] == 0 || w[1] == 0) && *d.last().unwrap() == 1, "toybn: ATE_LOOP_COUNT is the NAF of |6x+2|");
        ctx.validate(<tb::Config as BnConfig>::X == [x.unsigned_abs()].as_slice() && <tb::Config as BnConfig>::X_IS_NEGATIVE == (x < 0), "toybn: X, X_IS_NEGATIVE");
        ctx.machinery_errors.len() == before
    }

    type E = ToyBn;

    /// every (a, b) in [0, r)^2: e(aG, bH) = e(G, H)^(ab mod r); every (a, a') in [0, r)^2: additivity in
    /// both arguments against a fixed generic partner
    pub fn all_pairs(ctx: &mut Ctx) {
        let r = tb::R;
        if ctx.only.as_deref().map(|o| !format!("{NAME}/all_pairs_bilinear {NAME}/all_pairs_additive").contains(o)).unwrap_or(false) {
            return;
        }
        // aG, bH by repeated addition of the generator (not by scalar multiplication)
        let mut g1p = vec![<E as Pairing>::G1::zero()];
        let mut g2p = vec![<E as Pairing>::G2::zero()];
        for i in 1..r as usize {
            let (a, b) = (g1p[i - 1] + <E as Pairing>::G1Affine::generator(), g2p[i - 1] + <E as Pairing>::G2Affine::generator());
            g1p.push(a);
            g2p.push(b);
        }
        let g1: Vec<_> = g1p.iter().map(|p| p.into_affine()).collect();
        let g2: Vec<_> = g2p.iter().map(|p| p.into_affine()).collect();
        ctx.validate(
            (g1p[r as usize - 1] + g1[1]).is_zero() && (g2p[r as usize - 1] + g2[1]).is_zero() && g1.iter().skip(1).all(|p| !p.is_zero()) && g2.iter().skip(1).all(|p| !p.is_zero()),
            "toybn: the tables aG, bH enumerate two groups of order r",
        );
        let base = match catch_unwind(AssertUnwindSafe(|| E::pairing(g1[1], g2[1]))) {
            Ok(b) => b,
            Err(p) => {
                ctx.add_violation_in(&format!("{NAME}/setup"), &format!("{NAME}/setup/panic"), 0, format!("library panic computing e(G,H): {}", panic_text(p)));
                return;
            }
        };
        let r_limbs = [r];
        ctx.bound("toybn", "x=-2, p=373, r=349, M-type sextic twist over F_373^2: ALL 349^2 (aG,bH) for bilinearity, ALL 349^2 (a,a') for additivity in each argument against the partner 173*H resp. 173*G, plus the four alphabet sweeps of the shipped engines");
        ctx.sweep(&format!("{NAME}/all_pairs_bilinear"), r * r, |i, loc| {
            let [a, b] = unrank(i, [r, r]);
            let input = || format!("{NAME} e(aG,bH) a={a} b={b}");
            loc.class("engine:toy_bn373");
            loc.class("toybn:all_pairs");
            loc.class_if(a == 0, "a=0");
            loc.class_if(b == 0, "b=0");
            if loc.sampling() {
                loc.sample(input());
            }
            let site = identity_site(a == 0, b == 0, "bilinear");
            let Some(got) = guard(loc, site, input, || E::pairing(g1[a as usize], g2[b as usize])) else { return };
            let want = base.0.pow([a * b % r]);
            chk(loc, site, got.0 == want, || format!("{}: e(aG,bH) != e(G,H)^(ab mod r); got {} want {}", input(), short(&got.0), short(&want)));
            chk(loc, "nondegenerate", (a == 0 || b == 0) == got.0.is_one(), || format!("{}: e(aG,bH) = 1 exactly when a or b is 0 (r prime)", input()));
            chk(loc, "output_order", got.0.pow(r_limbs).is_one() && got.check().is_ok(), || format!("{}: output order does not divide r", input()));
        });
        const K: usize = 173;
        let col: Vec<Option<PairingOutput<E>>> = (0..r as usize).map(|a| catch_unwind(AssertUnwindSafe(|| E::pairing(g1[a], g2[K]))).ok()).collect();
        let row: Vec<Option<PairingOutput<E>>> = (0..r as usize).map(|a| catch_unwind(AssertUnwindSafe(|| E::pairing(g1[K], g2[a]))).ok()).collect();
        ctx.sweep(&format!("{NAME}/all_pairs_additive"), r * r, |i, loc| {
            let [a, a2] = unrank(i, [r, r]);
            let (a, a2) = (a as usize, a2 as usize);
            let input = || format!("{NAME} additivity a={a} a'={a2} partner scalar {K}");
            loc.class("engine:toy_bn373");
            loc.class_if(a == a2 && a != 0, "add:P+P");
            loc.class_if((a + a2) as u64 == r, "add:P+(-P)");
            let any_id = a == 0 || a2 == 0 || (a + a2) as u64 % r == 0;
            let s1 = identity_site(any_id, false, "additive_g1");
            let s2 = identity_site(false, any_id, "additive_g2");
            let p = g1p[a] + g1p[a2];
            let q = g2p[a] + g2p[a2];
            if let (Some(l), Some(x), Some(y)) = (guard(loc, s1, input, || E::pairing(p, g2[K])), col[a], col[a2]) {
                chk(loc, s1, l.0 == x.0 * y.0, || format!("{}: e(P+P',Q) != e(P,Q)e(P',Q)", input()));
            } else {
                flag(loc, s1, format!("{}: a pairing panicked", input()));
            }
            if let (Some(l), Some(x), Some(y)) = (guard(loc, s2, input, || E::pairing(g1[K], q)), row[a], row[a2]) {
                chk(loc, s2, l.0 == x.0 * y.0, || format!("{}: e(P,Q+Q') != e(P,Q)e(P,Q')", input()));
            } else {
                flag(loc, s2, format!("{}: a pairing panicked", input()));
            }
        });
    }

    pub fn run(ctx: &mut Ctx) {
        if !validate(ctx) {
            return;
        }
        run_engine::<E>(ctx, NAME, "engine:toy_bn373", "family:bn/toy(M-twist,p=373)", false, true);
        all_pairs(ctx);
    }
}
