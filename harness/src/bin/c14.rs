//! C14 - results do not depend on the `parallel` feature or on the number of threads.
//!
//! The same source is built twice.  The build WITHOUT `--features parallel` is run as
//! `c14 --serial-digests --tier T`: it computes every (operation, input id) cell with the
//! serial library code and writes SHA-256 digests of the canonical uncompressed
//! serialization of each result to /verif/evidence/c14_serial.json.  The build WITH the
//! feature is the check: for every pool size t it recomputes every cell inside
//! `ThreadPool::install` (with `current_num_threads() == t` asserted), three times, and
//! compares (1) with naive single-threaded reference definitions (written here; they use
//! only single field / group operations, never a batched or parallel library routine),
//! (2) with the serial build's digest of the same cell, (3) the three repetitions with
//! each other (uncontrolled-nondeterminism probe).
//!
//! A library panic inside a cell is a *result* ("PANIC:<msg>"): the property only demands
//! that the parallel build behaves like the serial one.
use algebra_mc::core::*;
use algebra_mc::toy::gen_fields::{D3889, D65537, DGold};
use ark_ec::pairing::{MillerLoopOutput, Pairing, PairingOutput};
use ark_ec::scalar_mul::variable_base::verif_hooks::{msm_bigint_plain, msm_bigint_signed};
use ark_ec::scalar_mul::BatchMulPreprocessing;
use ark_ec::{AffineRepr, CurveGroup, PrimeGroup, VariableBaseMSM};
use ark_ff::{batch_inversion, batch_inversion_and_mul, FftField, Field, PrimeField, Zero};
use ark_poly::multivariate::{SparsePolynomial as MvSparse, SparseTerm, Term};
use ark_poly::univariate::{DensePolynomial, SparsePolynomial as USparse};
use ark_poly::{
    DenseMVPolynomial, DenseMultilinearExtension, DenseUVPolynomial, EvaluationDomain, Evaluations, GeneralEvaluationDomain,
    MixedRadixEvaluationDomain, MultilinearExtension, Polynomial, Radix2EvaluationDomain, SparseMultilinearExtension,
};
use ark_serialize::{CanonicalDeserialize, CanonicalSerialize, Compress, Valid, Validate};
use sha2::{Digest, Sha256};
use std::collections::{BTreeMap, BTreeSet};
use std::panic::{catch_unwind, AssertUnwindSafe};
use std::sync::{Arc, Mutex, OnceLock};

type Fr381 = ark_bls12_381::Fr;
type Bn384s = ark_test_curves::bn384_small_two_adicity::Fq;

const SERIAL_FILE: &str = "/verif/evidence/c14_serial.json";

// ------------------------------------------------------------------------------------------
// cells
// ------------------------------------------------------------------------------------------
type Verify = Box<dyn FnOnce() -> Result<(), String> + Send>;
struct Out {
    digest: [u8; 32],
    panicked: bool,
    verify: Option<Verify>,
}

/// What the branch-class labels are computed from (inputs only).
#[derive(Clone, Debug)]
enum Meta {
    Plain,
    /// radix-2 FFT: domain size, number of input coefficients
    Radix2 { size: usize, len: usize, is_fft: bool },
    /// mixed-radix FFT: domain size and its 2-adicity (the `log_n` handed to best_fft)
    Mixed { size: usize, log_n: u32 },
    Horner { n: usize },
    Distribute { n: usize },
    BatchInv { n: usize },
    Msm { n: usize, windows: usize },
    Miller { pairs: usize },
}

struct Cell {
    key: String,
    /// input length (for the t>len class)
    len: usize,
    meta: Meta,
    /// the reference check covers the whole output (false: fixed spot rows only / none)
    full_ref: bool,
    run: Box<dyn Fn() -> Out + Send + Sync>,
    /// digest of a reference-validated output, the verdict, and the t it was validated under
    verified: OnceLock<([u8; 32], Option<String>, usize)>,
}
struct Group {
    name: String,
    cells: Vec<Cell>,
}

fn sha(b: &[u8]) -> [u8; 32] {
    let mut h = Sha256::new();
    h.update(b);
    h.finalize().into()
}
fn hex(d: &[u8]) -> String {
    d.iter().map(|b| format!("{b:02x}")).collect()
}
fn ser_c<T: CanonicalSerialize>(t: &T) -> Vec<u8> {
    let mut b = Vec::new();
    t.serialize_uncompressed(&mut b).expect("serialize");
    b
}
/// group element: normalise to affine first (projective representatives may differ)
fn ser_g<G: CurveGroup>(g: &G) -> Vec<u8> {
    ser_c(&g.into_affine())
}

fn add<T: Send + 'static>(
    cells: &mut Vec<Cell>,
    key: String,
    len: usize,
    meta: Meta,
    full_ref: bool,
    ser: fn(&T) -> Vec<u8>,
    run: impl Fn() -> T + Send + Sync + 'static,
    verify: impl Fn(&T) -> Result<(), String> + Send + Sync + 'static,
) {
    let verify = Arc::new(verify);
    let run = Box::new(move || {
        let t = run();
        let digest = sha(&ser(&t));
        let v = verify.clone();
        Out { digest, panicked: false, verify: Some(Box::new(move || v(&t))) }
    });
    cells.push(Cell { key, len, meta, full_ref, run, verified: OnceLock::new() });
}
/// cell without a naive reference (cross-build conformance and repetition only)
fn add_nover<T: Send + 'static>(cells: &mut Vec<Cell>, key: String, len: usize, meta: Meta, ser: fn(&T) -> Vec<u8>, run: impl Fn() -> T + Send + Sync + 'static) {
    let run = Box::new(move || {
        let t = run();
        Out { digest: sha(&ser(&t)), panicked: false, verify: None }
    });
    cells.push(Cell { key, len, meta, full_ref: false, run, verified: OnceLock::new() });
}

fn panic_text(p: Box<dyn std::any::Any + Send>) -> String {
    if let Some(s) = p.downcast_ref::<&str>() {
        s.to_string()
    } else if let Some(s) = p.downcast_ref::<String>() {
        s.clone()
    } else {
        "<non-string panic>".into()
    }
}
fn panic_out(p: Box<dyn std::any::Any + Send>) -> Out {
    Out { digest: sha(format!("PANIC:{}", panic_text(p)).as_bytes()), panicked: true, verify: None }
}

// ------------------------------------------------------------------------------------------
// grids
// ------------------------------------------------------------------------------------------
struct Env {
    quick: bool,
    ts: Vec<usize>,
}
impl Env {
    fn base(&self) -> BTreeSet<usize> {
        let mut s: BTreeSet<usize> = [0, 1, 2, 3, 15, 16, 17, 127, 128, 129, 255, 256, 257, 1023, 1024, 1025, 2047, 2048, 4096, 8192].into_iter().collect();
        if !self.quick {
            s.insert(1 << 14);
        }
        for t in &self.ts {
            s.extend([t - 1, *t, t + 1]);
        }
        s
    }
    /// grid for O(n) operations: base, every size < 64, and c*t-1, c*t, c*t+1 for each work-splitting constant c
    fn cheap(&self, consts: &[usize], cap: usize) -> Vec<usize> {
        let mut s = self.base();
        s.extend(0..64);
        for c in consts {
            for t in &self.ts {
                s.extend([c * t - 1, c * t, c * t + 1]);
            }
        }
        s.into_iter().filter(|n| *n <= cap).collect()
    }
    fn fft(&self, cap: usize) -> Vec<usize> {
        let mut s = self.base();
        s.extend(0..=65);
        s.extend([511, 512, 513, 2049, 4095]);
        if !self.quick {
            s.insert((1 << 14) - 1);
        }
        s.into_iter().filter(|n| *n <= cap).collect()
    }
    fn small(&self) -> Vec<usize> {
        let mut s: BTreeSet<usize> = [0, 1, 2, 3, 15, 16, 17, 127, 128, 129, 1023, 1024, 1025].into_iter().collect();
        for t in &self.ts {
            s.extend([t - 1, *t, t + 1]);
        }
        s.into_iter().collect()
    }
}
/// number of naive field multiplications we allow for a full reference check of one cell
fn budget<F: PrimeField>() -> usize {
    let limbs = (F::MODULUS_BIT_SIZE as usize).div_ceil(64);
    match limbs {
        1 => 1 << 21,
        2..=4 => 1 << 19,
        _ => 1 << 18,
    }
}

// ------------------------------------------------------------------------------------------
// structured inputs (no RNG)
// ------------------------------------------------------------------------------------------
const PATS: [&str; 6] = ["iota", "ones", "unit_mid", "unit_last", "zeros_mixed", "geom"];
const PATS_BIG: [&str; 4] = ["iota", "unit_mid", "zeros_mixed", "geom"];
fn pats_for(n: usize) -> &'static [&'static str] {
    if n <= 64 {
        &PATS
    } else {
        &PATS_BIG
    }
}
fn cgen<F: PrimeField>() -> F {
    let c = F::from(GENERIC64);
    if c.is_zero() || c.is_one() {
        F::from(5u64)
    } else {
        c
    }
}
fn pat<F: PrimeField>(p: &str, n: usize) -> Vec<F> {
    let c = cgen::<F>();
    match p {
        "iota" => (0..n).map(|i| F::from(i as u64 + 1)).collect(),
        "ones" => vec![F::one(); n],
        "unit_mid" => (0..n).map(|i| if i == n / 2 { F::one() } else { F::zero() }).collect(),
        "unit_last" => (0..n).map(|i| if i + 1 == n { F::one() } else { F::zero() }).collect(),
        "zeros_mixed" => (0..n).map(|i| if i % 7 == 0 || i == n / 2 || i + 1 == n { F::zero() } else { F::from(i as u64 + 1) * c }).collect(),
        "geom" => {
            let mut x = F::one();
            (0..n)
                .map(|_| {
                    x *= c;
                    x
                })
                .collect()
        }
        _ => unreachable!("pattern {p}"),
    }
}
fn trim<F: Zero>(mut v: Vec<F>) -> Vec<F> {
    while v.last().map_or(false, |x| x.is_zero()) {
        v.pop();
    }
    v
}
fn horner<F: Field>(c: &[F], x: &F) -> F {
    let mut acc = F::zero();
    for a in c.iter().rev() {
        acc = acc * x + a;
    }
    acc
}
/// sum a_i x^i with a running power (deliberately not Horner)
fn power_sum<F: Field>(c: &[F], x: &F) -> F {
    let mut acc = F::zero();
    let mut pw = F::one();
    for a in c {
        acc += *a * pw;
        pw *= x;
    }
    acc
}
fn dom_points<F: FftField, D: EvaluationDomain<F>>(d: &D) -> Vec<F> {
    let g = d.group_gen();
    let mut x = d.coset_offset();
    (0..d.size())
        .map(|_| {
            let o = x;
            x *= g;
            o
        })
        .collect()
}
fn rows(size: usize, full: bool) -> Vec<usize> {
    if full || size <= 16 {
        return (0..size).collect();
    }
    let s: BTreeSet<usize> = [0, 1, 2, 3, size / 4, size / 2 - 1, size / 2, size / 2 + 1, 3 * size / 4, size - 2, size - 1].into_iter().filter(|i| *i < size).collect();
    s.into_iter().collect()
}
fn first_diff<F: PartialEq + std::fmt::Display>(got: &[F], want: &[F]) -> Result<(), String> {
    if got.len() != want.len() {
        return Err(format!("length {} want {}", got.len(), want.len()));
    }
    for (i, (g, w)) in got.iter().zip(want).enumerate() {
        if g != w {
            return Err(format!("index {i}: got {g} want {w}"));
        }
    }
    Ok(())
}

// ------------------------------------------------------------------------------------------
// FFT families
// ------------------------------------------------------------------------------------------
fn meta_r2<F: FftField>(d: &Radix2EvaluationDomain<F>, len: usize, is_fft: bool) -> Meta {
    Meta::Radix2 { size: d.size(), len, is_fft }
}
fn meta_mixed<F: FftField>(d: &MixedRadixEvaluationDomain<F>, _len: usize, _is_fft: bool) -> Meta {
    Meta::Mixed { size: d.size(), log_n: d.log_size_of_group }
}
fn meta_general<F: FftField>(d: &GeneralEvaluationDomain<F>, len: usize, is_fft: bool) -> Meta {
    match d {
        GeneralEvaluationDomain::Radix2(r) => meta_r2(r, len, is_fft),
        GeneralEvaluationDomain::MixedRadix(m) => meta_mixed(m, len, is_fft),
    }
}

/// one fft cell: `len` coefficients (pattern p) evaluated over `dom`
fn fft_cell<F: PrimeField, D: EvaluationDomain<F> + Send + Sync + 'static>(cells: &mut Vec<Cell>, key: String, dom: D, len: usize, p: &'static str, meta: Meta) {
    let size = dom.size();
    let full = size * len.max(1) <= budget::<F>();
    add(
        cells,
        key,
        len,
        meta,
        full,
        ser_c::<Vec<F>>,
        move || dom.fft(&pat::<F>(p, len)),
        move |out: &Vec<F>| {
            if out.len() != size {
                return Err(format!("output length {} want {size}", out.len()));
            }
            let inp = pat::<F>(p, len);
            let pts = dom_points(&dom);
            for i in rows(size, full) {
                let want = horner(&inp, &pts[i]);
                if out[i] != want {
                    return Err(format!("evaluation {i} (at offset*g^{i}): got {} want {want}", out[i]));
                }
            }
            Ok(())
        },
    );
}
/// one ifft cell: `len` evaluations (zero-padded to the domain size by the library) interpolated over `dom`
fn ifft_cell<F: PrimeField, D: EvaluationDomain<F> + Send + Sync + 'static>(cells: &mut Vec<Cell>, key: String, dom: D, len: usize, p: &'static str, meta: Meta) {
    let size = dom.size();
    let full = size * size <= budget::<F>();
    add(
        cells,
        key,
        len,
        meta,
        full,
        ser_c::<Vec<F>>,
        move || dom.ifft(&pat::<F>(p, len)),
        move |out: &Vec<F>| {
            if out.len() != size {
                return Err(format!("output length {} want {size}", out.len()));
            }
            let mut inp = pat::<F>(p, len);
            inp.resize(size, F::zero());
            let pts = dom_points(&dom);
            for i in rows(size, full) {
                let got = horner(out, &pts[i]);
                if got != inp[i] {
                    return Err(format!("interpolant evaluated at domain element {i}: {got}, want the input evaluation {}", inp[i]));
                }
            }
            Ok(())
        },
    );
}

fn fft_family<F: PrimeField, D: EvaluationDomain<F> + Send + Sync + 'static>(
    cells: &mut Vec<Cell>,
    fname: &str,
    kind: &str,
    sizes: &[usize],
    sized: &[(usize, usize)],
    pats_override: Option<&'static [&'static str]>,
    meta_of: fn(&D, usize, bool) -> Meta,
) {
    for &n in sizes {
        let Some(dom0) = D::new(n) else { continue };
        for coset in [false, true] {
            let dom = if coset { dom0.get_coset(F::GENERATOR).unwrap() } else { dom0 };
            let cs = if coset { "coset_" } else { "" };
            for &p in pats_override.unwrap_or(pats_for(n)) {
                fft_cell::<F, D>(cells, format!("{kind}/{fname}/{cs}fft/n={n}/{p}"), dom, n, p, meta_of(&dom, n, true));
                ifft_cell::<F, D>(cells, format!("{kind}/{fname}/{cs}ifft/n={n}/{p}"), dom, n, p, meta_of(&dom, dom.size(), false));
            }
        }
    }
    // explicit (domain size, number of coefficients) pairs around the degree-aware threshold len*4 <= size
    for &(size, len) in sized {
        let Some(dom0) = D::new(size) else { continue };
        if dom0.size() != size {
            continue;
        }
        for coset in [false, true] {
            let dom = if coset { dom0.get_coset(F::GENERATOR).unwrap() } else { dom0 };
            let cs = if coset { "coset_" } else { "" };
            for p in ["iota", "geom"] {
                fft_cell::<F, D>(cells, format!("{kind}/{fname}/{cs}fft_sized/size={size}/len={len}/{p}"), dom, len, p, meta_of(&dom, len, true));
            }
        }
    }
}
fn sized_pairs(cap: usize) -> Vec<(usize, usize)> {
    let mut v = Vec::new();
    for size in [4usize, 8, 16, 64, 256, 1024, 2048, 4096, 8192, 16384] {
        if size > cap {
            continue;
        }
        let q = size / 4;
        let s: BTreeSet<usize> = [q - 1, q, q + 1, size / 8, size / 2, 1].into_iter().filter(|l| *l >= 1 && *l < size).collect();
        v.extend(s.into_iter().map(|l| (size, l)));
    }
    v
}

fn fft_groups<F: PrimeField>(gs: &mut Vec<Group>, fname: &'static str, env: &Env, cap: usize, huge: bool) {
    let mut cells = Vec::new();
    fft_family::<F, Radix2EvaluationDomain<F>>(&mut cells, fname, "radix2", &env.fft(cap), &sized_pairs(cap), None, meta_r2::<F>);
    if huge {
        // 2^16: second level of the recursive roots-of-unity table (log_powers.len() = 15 > 2*7)
        let n = 1 << 16;
        let dom = Radix2EvaluationDomain::<F>::new(n).unwrap();
        fft_cell::<F, _>(&mut cells, format!("radix2/{fname}/fft/n={n}/geom"), dom, n, "geom", meta_r2(&dom, n, true));
        ifft_cell::<F, _>(&mut cells, format!("radix2/{fname}/ifft/n={n}/geom"), dom, n, "geom", meta_r2(&dom, n, false));
        let cd = dom.get_coset(F::GENERATOR).unwrap();
        fft_cell::<F, _>(&mut cells, format!("radix2/{fname}/coset_fft/n={n}/geom"), cd, n, "geom", meta_r2(&cd, n, true));
    }
    gs.push(Group { name: format!("fft_radix2/{fname}"), cells });
    // GeneralEvaluationDomain dispatches to the same code: thinner grid
    let mut cells = Vec::new();
    let gen_sizes: Vec<usize> = [0usize, 1, 2, 3, 17, 64, 65, 1024, 1025, 4096].into_iter().filter(|n| *n <= cap).collect();
    fft_family::<F, GeneralEvaluationDomain<F>>(&mut cells, fname, "general", &gen_sizes, &[(64, 16), (64, 17), (4096, 1024), (4096, 1025)], Some(&["geom", "zeros_mixed"]), meta_general::<F>);
    gs.push(Group { name: format!("fft_general/{fname}"), cells });
}

fn mixed_groups<F: PrimeField>(gs: &mut Vec<Group>, fname: &'static str, sizes: &[usize]) {
    let mut cells = Vec::new();
    fft_family::<F, MixedRadixEvaluationDomain<F>>(&mut cells, fname, "mixed", sizes, &[], None, meta_mixed::<F>);
    gs.push(Group { name: format!("fft_mixed/{fname}"), cells });
    let mut cells = Vec::new();
    let sub: Vec<usize> = sizes.iter().copied().filter(|n| *n > 16 && (*n % 9 == 0 || *n % 8 == 1)).collect();
    fft_family::<F, GeneralEvaluationDomain<F>>(&mut cells, fname, "general_mixed", &sub, &[], Some(&["geom", "zeros_mixed"]), meta_general::<F>);
    gs.push(Group { name: format!("fft_general_mixed/{fname}"), cells });
}

// ------------------------------------------------------------------------------------------
// O(n) field-vector operations: distribute_powers, Horner, scalar *, batch inversion
// ------------------------------------------------------------------------------------------
fn linear_groups<F: PrimeField>(gs: &mut Vec<Group>, fname: &'static str, env: &Env) {
    let g = F::GENERATOR;
    let c7 = F::from(7u64);
    // distribute_powers[_and_mul_by_const]: chunk = max(len / t, 1024)
    let mut cells = Vec::new();
    for n in env.cheap(&[1024], usize::MAX) {
        let ps: &[&str] = if n <= 64 { &PATS } else { &["iota", "zeros_mixed", "geom"] };
        for &p in ps {
            add(
                &mut cells,
                format!("distribute_powers/{fname}/n={n}/{p}"),
                n,
                Meta::Distribute { n },
                true,
                ser_c::<Vec<F>>,
                move || {
                    let mut v = pat::<F>(p, n);
                    Radix2EvaluationDomain::<F>::distribute_powers(&mut v, g);
                    v
                },
                move |out: &Vec<F>| {
                    let mut pw = F::one();
                    let want: Vec<F> = pat::<F>(p, n)
                        .into_iter()
                        .map(|a| {
                            let o = a * pw;
                            pw *= g;
                            o
                        })
                        .collect();
                    first_diff(out, &want)
                },
            );
            add(
                &mut cells,
                format!("distribute_powers_and_mul_by_const/{fname}/n={n}/{p}"),
                n,
                Meta::Distribute { n },
                true,
                ser_c::<Vec<F>>,
                move || {
                    let mut v = pat::<F>(p, n);
                    GeneralEvaluationDomain::<F>::distribute_powers_and_mul_by_const(&mut v, g, c7);
                    v
                },
                move |out: &Vec<F>| {
                    let mut pw = c7;
                    let want: Vec<F> = pat::<F>(p, n)
                        .into_iter()
                        .map(|a| {
                            let o = a * pw;
                            pw *= g;
                            o
                        })
                        .collect();
                    first_diff(out, &want)
                },
            );
        }
    }
    gs.push(Group { name: format!("distribute_powers/{fname}"), cells });

    // DensePolynomial::evaluate: chunk = max(len / t, 16)
    let mut cells = Vec::new();
    let points: [(&'static str, F); 5] = [("0", F::zero()), ("1", F::one()), ("-1", -F::one()), ("g", g), ("c", cgen::<F>())];
    for n in env.cheap(&[16, 17], usize::MAX) {
        for &p in pats_for(n) {
            for (xn, x) in points {
                if n > 64 && (xn == "0" || xn == "1") {
                    continue;
                }
                add(
                    &mut cells,
                    format!("poly_evaluate/{fname}/n={n}/{p}/x={xn}"),
                    n,
                    Meta::Horner { n },
                    true,
                    ser_c::<F>,
                    move || DensePolynomial::from_coefficients_vec(pat::<F>(p, n)).evaluate(&x),
                    move |out: &F| {
                        let want = power_sum(&pat::<F>(p, n), &x);
                        if *out == want {
                            Ok(())
                        } else {
                            Err(format!("got {out} want {want}"))
                        }
                    },
                );
            }
        }
    }
    gs.push(Group { name: format!("poly_evaluate/{fname}"), cells });

    // scalar multiplication of dense and sparse univariate polynomials
    let mut cells = Vec::new();
    let scalars: [(&'static str, F); 3] = [("0", F::zero()), ("1", F::one()), ("c", cgen::<F>())];
    for n in env.cheap(&[], 8192) {
        for &p in pats_for(n) {
            for (kn, k) in scalars {
                if n > 64 && kn != "c" {
                    continue;
                }
                add(
                    &mut cells,
                    format!("poly_scalar_mul/{fname}/n={n}/{p}/k={kn}"),
                    n,
                    Meta::Plain,
                    true,
                    ser_c::<Vec<F>>,
                    move || (&DensePolynomial::from_coefficients_vec(pat::<F>(p, n)) * k).coeffs,
                    move |out: &Vec<F>| {
                        let want = if k.is_zero() { vec![] } else { trim(pat::<F>(p, n)).into_iter().map(|a| a * k).collect() };
                        first_diff(out, &want)
                    },
                );
            }
        }
        if n <= 1025 {
            // sparse polynomial with n terms at exponents 3i+1
            let k = cgen::<F>();
            add(
                &mut cells,
                format!("sparse_poly_scalar_mul/{fname}/terms={n}"),
                n,
                Meta::Plain,
                true,
                ser_c::<Vec<(usize, F)>>,
                move || {
                    let terms: Vec<(usize, F)> = pat::<F>("geom", n).into_iter().enumerate().map(|(i, a)| (3 * i + 1, a)).collect();
                    let sp = USparse::from_coefficients_vec(terms);
                    let r = &sp * k;
                    r.iter().cloned().collect::<Vec<(usize, F)>>()
                },
                move |out: &Vec<(usize, F)>| {
                    let want: Vec<(usize, F)> = pat::<F>("geom", n).into_iter().enumerate().map(|(i, a)| (3 * i + 1, a * k)).collect();
                    if *out == want {
                        Ok(())
                    } else {
                        Err(format!("sparse scalar product differs (got {} terms want {})", out.len(), want.len()))
                    }
                },
            );
        }
    }
    gs.push(Group { name: format!("poly_scalar_mul/{fname}"), cells });

    // batch inversion: chunk = max(len / t, 1); zeros are skipped
    let mut cells = Vec::new();
    let mut sizes: BTreeSet<usize> = env.cheap(&[1, 2], 8192).into_iter().collect();
    sizes.extend(env.ts.iter().map(|t| 2 * t + 1));
    for n in sizes {
        for &p in pats_for(n) {
            for with_coeff in [false, true] {
                let coeff = if with_coeff { cgen::<F>() } else { F::one() };
                let op = if with_coeff { "batch_inversion_and_mul" } else { "batch_inversion" };
                add(
                    &mut cells,
                    format!("{op}/{fname}/n={n}/{p}"),
                    n,
                    Meta::BatchInv { n },
                    true,
                    ser_c::<Vec<F>>,
                    move || {
                        let mut v = pat::<F>(p, n);
                        if with_coeff {
                            batch_inversion_and_mul(&mut v, &coeff);
                        } else {
                            batch_inversion(&mut v);
                        }
                        v
                    },
                    move |out: &Vec<F>| {
                        let inp = pat::<F>(p, n);
                        if out.len() != inp.len() {
                            return Err(format!("length {} want {}", out.len(), inp.len()));
                        }
                        for (i, (a, o)) in inp.iter().zip(out).enumerate() {
                            let ok = if a.is_zero() { o.is_zero() } else { *a * o == coeff };
                            if !ok {
                                return Err(format!("index {i}: input {a} output {o}: input*output != coeff {coeff} (zero must stay zero)"));
                            }
                        }
                        Ok(())
                    },
                );
            }
        }
    }
    gs.push(Group { name: format!("batch_inversion/{fname}"), cells });
}

// ------------------------------------------------------------------------------------------
// polynomial / domain operations
// ------------------------------------------------------------------------------------------
fn poly_groups<F: PrimeField>(gs: &mut Vec<Group>, fname: &'static str, env: &Env, cap: usize) {
    type D<F> = GeneralEvaluationDomain<F>;
    let doms = |list: &[usize]| -> Vec<(usize, bool, D<F>)> {
        let mut v = Vec::new();
        for &d in list {
            if d > cap {
                continue;
            }
            let Some(dom) = D::<F>::new(d) else { continue };
            if dom.size() != d {
                continue;
            }
            v.push((d, false, dom));
            v.push((d, true, dom.get_coset(F::GENERATOR).unwrap()));
        }
        v
    };
    // mul_by_vanishing_poly / divide_by_vanishing_poly
    let mut cells = Vec::new();
    let mut sizes: BTreeSet<usize> = env.base().into_iter().filter(|n| *n <= 4100).collect();
    sizes.extend(0..=17);
    sizes.extend([31, 32, 33, 63, 64, 65]);
    if !env.quick {
        sizes.extend(0..64);
    }
    for (d, coset, dom) in doms(&[1, 4, 64, 1024]) {
        let hd = dom.coset_offset_pow_size();
        let cs = if coset { "coset" } else { "subgroup" };
        for &n in &sizes {
            // divide_by_vanishing_poly makes n/d passes over n coefficients
            if n * n / d > if env.quick { 1 << 20 } else { 1 << 22 } {
                continue;
            }
            for p in ["zeros_mixed", "geom"] {
                add(
                    &mut cells,
                    format!("mul_by_vanishing_poly/{fname}/{cs}/d={d}/n={n}/{p}"),
                    n,
                    Meta::Plain,
                    true,
                    ser_c::<Vec<F>>,
                    move || DensePolynomial::from_coefficients_vec(pat::<F>(p, n)).mul_by_vanishing_poly(dom).coeffs,
                    move |out: &Vec<F>| {
                        let a = trim(pat::<F>(p, n));
                        let mut w = vec![F::zero(); d + a.len()];
                        for (i, x) in a.iter().enumerate() {
                            w[d + i] += x;
                            w[i] -= hd * x;
                        }
                        first_diff(out, &trim(w))
                    },
                );
                add(
                    &mut cells,
                    format!("divide_by_vanishing_poly/{fname}/{cs}/d={d}/n={n}/{p}"),
                    n,
                    Meta::Plain,
                    true,
                    |t: &(Vec<F>, Vec<F>)| ser_c(t),
                    move || {
                        let (q, r) = DensePolynomial::from_coefficients_vec(pat::<F>(p, n)).divide_by_vanishing_poly(dom);
                        (q.coeffs, r.coeffs)
                    },
                    move |(q, r): &(Vec<F>, Vec<F>)| {
                        let a = trim(pat::<F>(p, n));
                        if r.len() > d {
                            return Err(format!("remainder has {} coefficients, domain size {d}", r.len()));
                        }
                        if q.last().map_or(false, |x| x.is_zero()) || r.last().map_or(false, |x| x.is_zero()) {
                            return Err("quotient or remainder not trimmed".into());
                        }
                        let mut w = vec![F::zero(); (q.len() + d).max(r.len()).max(a.len())];
                        for (i, x) in q.iter().enumerate() {
                            w[d + i] += x;
                            w[i] -= hd * x;
                        }
                        for (i, x) in r.iter().enumerate() {
                            w[i] += x;
                        }
                        first_diff(&trim(w), &a).map_err(|e| format!("q*(x^{d} - h^{d}) + r != p: {e}"))
                    },
                );
            }
        }
    }
    gs.push(Group { name: format!("vanishing_poly/{fname}"), cells });

    // evaluate_over_domain (coefficients folded mod x^size - h^size in parallel, then fft)
    let mut cells = Vec::new();
    for (d, coset, dom) in doms(&[1, 2, 8, 64, 256, 1024, 4096]) {
        let cs = if coset { "coset" } else { "subgroup" };
        let ns: BTreeSet<usize> = [0, 1, d - 1, d, d + 1, 2 * d - 1, 2 * d, 2 * d + 1, 3 * d + 1, 4 * d + 3].into_iter().collect();
        for n in ns {
            for p in ["iota", "geom"] {
                for by_ref in [false, true] {
                    let full = d * n.max(1) <= budget::<F>();
                    let op = if by_ref { "evaluate_over_domain_by_ref" } else { "evaluate_over_domain" };
                    add(
                        &mut cells,
                        format!("{op}/{fname}/{cs}/d={d}/n={n}/{p}"),
                        n,
                        meta_general(&dom, n.min(d), true),
                        full,
                        ser_c::<Vec<F>>,
                        move || {
                            let poly = DensePolynomial::from_coefficients_vec(pat::<F>(p, n));
                            if by_ref {
                                poly.evaluate_over_domain_by_ref(dom).evals
                            } else {
                                poly.evaluate_over_domain(dom).evals
                            }
                        },
                        move |out: &Vec<F>| {
                            if out.len() != d {
                                return Err(format!("{} evaluations, domain size {d}", out.len()));
                            }
                            let a = pat::<F>(p, n);
                            let pts = dom_points(&dom);
                            for i in rows(d, full) {
                                let want = horner(&a, &pts[i]);
                                if out[i] != want {
                                    return Err(format!("evaluation {i}: got {} want {want}", out[i]));
                                }
                            }
                            Ok(())
                        },
                    );
                }
            }
        }
    }
    gs.push(Group { name: format!("evaluate_over_domain/{fname}"), cells });

    // SPARSE polynomial over a domain (a different code path: every domain point is evaluated on its own;
    // the output must still be in domain order whatever the pool does)
    let mut cells = Vec::new();
    for (d, coset, dom) in doms(&[8, 64, 256, 512, 1024]) {
        let cs = if coset { "coset" } else { "subgroup" };
        for terms in [1usize, 3, 40] {
            for by_ref in [false, true] {
                let op = if by_ref { "sparse_evaluate_over_domain_by_ref" } else { "sparse_evaluate_over_domain" };
                add(
                    &mut cells,
                    format!("{op}/{fname}/{cs}/d={d}/terms={terms}"),
                    d,
                    Meta::Plain,
                    true,
                    ser_c::<Vec<F>>,
                    move || {
                        let tl: Vec<(usize, F)> = pat::<F>("geom", terms).into_iter().enumerate().map(|(i, a)| (7 * i + 1, a)).collect();
                        let sp = USparse::from_coefficients_vec(tl);
                        if by_ref {
                            sp.evaluate_over_domain_by_ref(dom).evals
                        } else {
                            sp.evaluate_over_domain(dom).evals
                        }
                    },
                    move |out: &Vec<F>| {
                        if out.len() != d {
                            return Err(format!("{} evaluations, domain size {d}", out.len()));
                        }
                        let tl: Vec<(usize, F)> = pat::<F>("geom", terms).into_iter().enumerate().map(|(i, a)| (7 * i + 1, a)).collect();
                        let pts = dom_points(&dom);
                        for i in rows(d, d <= 256) {
                            let mut want = F::zero();
                            for (e, c) in &tl {
                                want += *c * pts[i].pow([*e as u64]);
                            }
                            if out[i] != want {
                                return Err(format!("evaluation {i}: got {} want {want}", out[i]));
                            }
                        }
                        Ok(())
                    },
                );
            }
        }
    }
    gs.push(Group { name: format!("sparse_evaluate_over_domain/{fname}"), cells });

    // Evaluations ops (pointwise, cfg_iter_mut) and mul_polynomials_in_evaluation_domain
    let mut cells = Vec::new();
    let k = cgen::<F>();
    let dsz: Vec<usize> = (0..=14).map(|i| 1usize << i).chain([3, 9, 27, 48, 81, 243, 1296, 3888]).collect();
    for (d, coset, dom) in doms(&dsz) {
        if coset {
            continue;
        }
        for (pa, pb) in [("iota", "geom"), ("geom", "zeros_mixed"), ("zeros_mixed", "iota")] {
            for op in ["add", "sub", "mul", "div", "mul_scalar", "mul_polynomials_in_evaluation_domain"] {
                add(
                    &mut cells,
                    format!("evaluations_{op}/{fname}/d={d}/{pa},{pb}"),
                    d,
                    Meta::Plain,
                    true,
                    ser_c::<Vec<F>>,
                    move || {
                        let a = Evaluations::from_vec_and_domain(pat::<F>(pa, d), dom);
                        let b = Evaluations::from_vec_and_domain(pat::<F>(pb, d), dom);
                        match op {
                            "add" => (&a + &b).evals,
                            "sub" => (&a - &b).evals,
                            "mul" => (&a * &b).evals,
                            "div" => (&a / &b).evals,
                            "mul_scalar" => (&a * k).evals,
                            _ => dom.mul_polynomials_in_evaluation_domain(&a.evals, &b.evals),
                        }
                    },
                    move |out: &Vec<F>| {
                        let a = pat::<F>(pa, d);
                        let b = pat::<F>(pb, d);
                        let want: Vec<F> = a
                            .iter()
                            .zip(&b)
                            .map(|(x, y)| match op {
                                "add" => *x + y,
                                "sub" => *x - y,
                                "div" => {
                                    // documented convention of batch_inversion: zero stays zero
                                    if y.is_zero() {
                                        F::zero()
                                    } else {
                                        *x * y.inverse().unwrap()
                                    }
                                }
                                "mul_scalar" => *x * k,
                                _ => *x * y,
                            })
                            .collect();
                        first_diff(out, &want)
                    },
                );
            }
        }
    }
    gs.push(Group { name: format!("evaluations_ops/{fname}"), cells });

    // polynomial * polynomial (fft, pointwise product, ifft)
    let mut cells = Vec::new();
    let mut pairs: Vec<(usize, usize)> = vec![(0, 5), (1, 1), (1, 7), (2, 2), (3, 3), (8, 8), (9, 8), (16, 17), (33, 32), (64, 64), (65, 64), (128, 128), (129, 128), (256, 256), (512, 512), (513, 512), (1024, 1024), (1025, 1024), (2048, 3)];
    if !env.quick {
        pairs.extend([(2048, 2048), (2049, 2048), (4096, 4096)]);
    }
    for (n1, n2) in pairs {
        let dn = (n1 + n2).saturating_sub(1);
        if dn > cap || D::<F>::new(dn).is_none() {
            continue;
        }
        for (pa, pb) in [("iota", "geom"), ("geom", "zeros_mixed")] {
            let full = n1 * n2 <= budget::<F>();
            add(
                &mut cells,
                format!("poly_mul/{fname}/n1={n1}/n2={n2}/{pa},{pb}"),
                n1.min(n2),
                D::<F>::new(dn).map(|dm| meta_general(&dm, n1, true)).unwrap_or(Meta::Plain),
                full,
                ser_c::<Vec<F>>,
                move || (&DensePolynomial::from_coefficients_vec(pat::<F>(pa, n1)) * &DensePolynomial::from_coefficients_vec(pat::<F>(pb, n2))).coeffs,
                move |out: &Vec<F>| {
                    let a = trim(pat::<F>(pa, n1));
                    let b = trim(pat::<F>(pb, n2));
                    let want_len = if a.is_empty() || b.is_empty() { 0 } else { a.len() + b.len() - 1 };
                    if out.len() != want_len {
                        return Err(format!("product has {} coefficients, want {want_len}", out.len()));
                    }
                    for kx in rows(want_len, full || want_len < 16) {
                        let mut acc = F::zero();
                        for i in 0..a.len() {
                            if kx >= i && kx - i < b.len() {
                                acc += a[i] * b[kx - i];
                            }
                        }
                        if out[kx] != acc {
                            return Err(format!("coefficient {kx}: got {} want {acc}", out[kx]));
                        }
                    }
                    Ok(())
                },
            );
        }
    }
    gs.push(Group { name: format!("poly_mul/{fname}"), cells });
}

// ------------------------------------------------------------------------------------------
// multilinear extensions and sparse multivariate polynomials
// ------------------------------------------------------------------------------------------
/// eq(b, x) = prod_i (b_i ? x_i : 1 - x_i), bit 0 of b = variable 0 (documented little-endian convention)
fn m_eq<F: Field>(b: usize, x: &[F]) -> F {
    let mut w = F::one();
    for (i, xi) in x.iter().enumerate() {
        w *= if (b >> i) & 1 == 1 { *xi } else { F::one() - xi };
    }
    w
}
fn m_eval<F: Field>(t: &[F], x: &[F]) -> F {
    let mut acc = F::zero();
    for (b, v) in t.iter().enumerate() {
        if !v.is_zero() {
            acc += *v * m_eq(b, x);
        }
    }
    acc
}
fn m_fix<F: Field>(t: &[F], r: &[F]) -> Vec<F> {
    let d = r.len();
    (0..t.len() >> d)
        .map(|c| {
            let mut acc = F::zero();
            for low in 0..(1usize << d) {
                acc += t[(c << d) | low] * m_eq(low, r);
            }
            acc
        })
        .collect()
}
fn m_swap_idx(i: usize, a: usize, b: usize, k: usize) -> usize {
    let mut j = i;
    for o in 0..k {
        let ba = (i >> (a + o)) & 1;
        let bb = (i >> (b + o)) & 1;
        j &= !(1usize << (a + o));
        j &= !(1usize << (b + o));
        j |= bb << (a + o);
        j |= ba << (b + o);
    }
    j
}
fn mpoint<F: PrimeField>(nv: usize) -> Vec<F> {
    let c = cgen::<F>();
    (0..nv).map(|i| F::from(i as u64 + 2) * c).collect()
}
/// sparse table: the pattern restricted to indices i with i % 3 == 1 (dense: everything)
fn sparse_entries<F: PrimeField>(p: &str, nv: usize, few: bool) -> Vec<(usize, F)> {
    let n = 1usize << nv;
    let t = pat::<F>(p, n);
    if few {
        let idx: BTreeSet<usize> = [0, n / 2, n - 1].into_iter().collect();
        idx.into_iter().map(|i| (i, t[i] + F::one())).collect()
    } else {
        (0..n).filter(|i| i % 3 == 1 || n == 1).map(|i| (i, t[i] + F::one())).collect()
    }
}
fn table_of<F: PrimeField>(nv: usize, e: &[(usize, F)]) -> Vec<F> {
    let mut t = vec![F::zero(); 1 << nv];
    for (i, v) in e {
        t[*i] = *v;
    }
    t
}

fn mle_groups<F: PrimeField>(gs: &mut Vec<Group>, fname: &'static str, env: &Env) {
    let max_nv = if env.quick { 11 } else { 13 };
    let f = cgen::<F>();
    let mut cells = Vec::new();
    for nv in 0..=max_nv {
        let n = 1usize << nv;
        for (pa, pb) in [("iota", "geom"), ("zeros_mixed", "iota")] {
            for op in ["add", "add_scaled", "neg", "evaluate", "fix_variables"] {
                let kfix = nv.min(3);
                add(
                    &mut cells,
                    format!("mle_dense/{fname}/{op}/nv={nv}/{pa},{pb}"),
                    n,
                    Meta::Plain,
                    true,
                    ser_c::<Vec<F>>,
                    move || {
                        let a = DenseMultilinearExtension::from_evaluations_vec(nv, pat::<F>(pa, n));
                        let b = DenseMultilinearExtension::from_evaluations_vec(nv, pat::<F>(pb, n));
                        match op {
                            "add" => (&a + &b).evaluations,
                            "add_scaled" => {
                                let mut x = a;
                                x += (f, &b);
                                x.evaluations
                            }
                            "neg" => (-a).evaluations,
                            "evaluate" => vec![a.evaluate(&mpoint::<F>(nv))],
                            _ => a.fix_variables(&mpoint::<F>(nv)[..kfix]).evaluations,
                        }
                    },
                    move |out: &Vec<F>| {
                        let a = pat::<F>(pa, n);
                        let b = pat::<F>(pb, n);
                        let want: Vec<F> = match op {
                            "add" => a.iter().zip(&b).map(|(x, y)| *x + y).collect(),
                            "add_scaled" => a.iter().zip(&b).map(|(x, y)| *x + f * y).collect(),
                            "neg" => a.iter().map(|x| -*x).collect(),
                            "evaluate" => vec![m_eval(&a, &mpoint::<F>(nv))],
                            _ => m_fix(&a, &mpoint::<F>(nv)[..kfix]),
                        };
                        first_diff(out, &want)
                    },
                );
            }
        }
        for few in [false, true] {
            for op in ["relabel", "add", "add_scaled", "neg", "evaluate", "fix_variables"] {
                let kfix = nv.min(3);
                let kk = nv / 2;
                add(
                    &mut cells,
                    format!("mle_sparse/{fname}/{op}/nv={nv}/{}", if few { "few" } else { "third" }),
                    if few { 3.min(n) } else { n / 3 },
                    Meta::Plain,
                    true,
                    ser_c::<Vec<F>>,
                    move || {
                        let a = SparseMultilinearExtension::from_evaluations(nv, &sparse_entries::<F>("geom", nv, few));
                        let b = SparseMultilinearExtension::from_evaluations(nv, &sparse_entries::<F>("iota", nv, !few));
                        match op {
                            "relabel" => a.relabel(0, kk, kk).to_evaluations(),
                            "add" => (&a + &b).to_evaluations(),
                            "add_scaled" => {
                                let mut x = a;
                                x += (f, &b);
                                x.to_evaluations()
                            }
                            "neg" => (-a).to_evaluations(),
                            "evaluate" => vec![a.evaluate(&mpoint::<F>(nv))],
                            _ => a.fix_variables(&mpoint::<F>(nv)[..kfix]).to_evaluations(),
                        }
                    },
                    move |out: &Vec<F>| {
                        let a = table_of(nv, &sparse_entries::<F>("geom", nv, few));
                        let b = table_of(nv, &sparse_entries::<F>("iota", nv, !few));
                        let want: Vec<F> = match op {
                            "relabel" => (0..n).map(|i| a[m_swap_idx(i, 0, kk, kk)]).collect(),
                            "add" => a.iter().zip(&b).map(|(x, y)| *x + y).collect(),
                            "add_scaled" => a.iter().zip(&b).map(|(x, y)| *x + f * y).collect(),
                            "neg" => a.iter().map(|x| -*x).collect(),
                            "evaluate" => vec![m_eval(&a, &mpoint::<F>(nv))],
                            _ => m_fix(&a, &mpoint::<F>(nv)[..kfix]),
                        };
                        first_diff(out, &want)
                    },
                );
            }
        }
    }
    gs.push(Group { name: format!("multilinear/{fname}"), cells });

    // sparse multivariate polynomial: evaluate sums the terms in parallel, SparseTerm::evaluate multiplies the
    // variable powers in parallel
    let mut cells = Vec::new();
    let mv_terms = |m: usize| -> Vec<(F, Vec<(usize, usize)>)> {
        let c = cgen::<F>();
        (0..m).map(|j| (F::from(j as u64 + 1) * c, vec![(j % 6, 1 + j % 3), ((j / 6) % 6, 1 + (j / 36) % 2), ((j / 216) % 6, j % 2)])).collect()
    };
    let naive_mv = |terms: &[(F, Vec<(usize, usize)>)], x: &[F]| -> F {
        let mut acc = F::zero();
        for (c, t) in terms {
            let mut m = *c;
            for (v, e) in t {
                for _ in 0..*e {
                    m *= x[*v];
                }
            }
            acc += m;
        }
        acc
    };
    for m in env.small() {
        add(
            &mut cells,
            format!("mvpoly_evaluate/{fname}/terms={m}"),
            m,
            Meta::Plain,
            true,
            ser_c::<F>,
            move || {
                let terms = mv_terms(m).into_iter().map(|(c, t)| (c, SparseTerm::new(t))).collect();
                MvSparse::<F, SparseTerm>::from_coefficients_vec(6, terms).evaluate(&mpoint::<F>(6))
            },
            move |out: &F| {
                let want = naive_mv(&mv_terms(m), &mpoint::<F>(6));
                if *out == want {
                    Ok(())
                } else {
                    Err(format!("got {out} want {want}"))
                }
            },
        );
        if m >= 1 && m <= 257 {
            // one term in m distinct variables plus a constant
            let one_term = move || -> Vec<(F, Vec<(usize, usize)>)> { vec![(cgen::<F>(), (0..m).map(|i| (i, 1 + i % 3)).collect()), (F::from(3u64), vec![])] };
            add(
                &mut cells,
                format!("mvpoly_term_evaluate/{fname}/vars={m}"),
                m,
                Meta::Plain,
                true,
                ser_c::<F>,
                move || {
                    let terms = one_term().into_iter().map(|(c, t)| (c, SparseTerm::new(t))).collect();
                    MvSparse::<F, SparseTerm>::from_coefficients_vec(m, terms).evaluate(&mpoint::<F>(m))
                },
                move |out: &F| {
                    let want = naive_mv(&one_term(), &mpoint::<F>(m));
                    if *out == want {
                        Ok(())
                    } else {
                        Err(format!("got {out} want {want}"))
                    }
                },
            );
        }
    }
    gs.push(Group { name: format!("multivariate/{fname}"), cells });
}

// ------------------------------------------------------------------------------------------
// elliptic-curve operations
// ------------------------------------------------------------------------------------------
/// textbook double-and-add with single group operations (the reference for every k*P)
fn smul<G: CurveGroup>(p: &G, k: &[u64]) -> G {
    let mut acc = G::zero();
    for b in ark_ff::BitIteratorBE::without_leading_zeros(k) {
        acc.double_in_place();
        if b {
            acc += p;
        }
    }
    acc
}
struct Bases<G: CurveGroup> {
    /// (i+1)*G accumulated by repeated addition (non-trivial Z)
    proj: Vec<G>,
    aff: Vec<G::Affine>,
}
fn make_bases<G: CurveGroup>(n: usize) -> Arc<Bases<G>> {
    let g = G::generator();
    let mut acc = G::zero();
    let mut proj = Vec::with_capacity(n);
    for _ in 0..n {
        acc += &g;
        proj.push(acc);
    }
    let aff = proj.iter().map(|p| p.into_affine()).collect();
    Arc::new(Bases { proj, aff })
}
const SPATS: [&str; 5] = ["iota_c", "zeros_mixed", "ones", "max", "small"];
fn spat<S: PrimeField>(p: &str, n: usize) -> Vec<S> {
    let c5 = S::from(GENERIC64).pow([5u64]);
    (0..n)
        .map(|i| match p {
            "iota_c" => S::from(i as u64 + 1) * c5,
            "zeros_mixed" => {
                if i % 5 == 0 || i == n / 2 {
                    S::zero()
                } else {
                    S::from(i as u64 + 1) * c5
                }
            }
            "ones" => S::one(),
            "max" => -S::one(),
            "small" => S::from(i as u64 + 1),
            _ => unreachable!(),
        })
        .collect()
}
/// base i = b_i * G with b_i = i+1, or the identity (b_i = 0) at i % 4 == 1 when `ident`
fn base_coeff(i: usize, ident: bool) -> u64 {
    if ident && i % 4 == 1 {
        0
    } else {
        i as u64 + 1
    }
}
fn base_list<G: CurveGroup>(b: &Bases<G>, n: usize, ident: bool) -> Vec<G::Affine> {
    (0..n).map(|i| if base_coeff(i, ident) == 0 { G::Affine::zero() } else { b.aff[i] }).collect()
}
fn msm_windows(n: usize, bits: usize) -> usize {
    let c = if n < 32 { 3 } else { (ark_std::log2(n) * 69 / 100) as usize + 2 };
    bits.div_ceil(c)
}
fn same_point<G: CurveGroup>(got: &G, want: &G) -> Result<(), String> {
    if got.into_affine() == want.into_affine() {
        Ok(())
    } else {
        Err(format!("got {} want {}", got.into_affine(), want.into_affine()))
    }
}

fn msm_groups<G: CurveGroup + VariableBaseMSM<MulBase = <G as CurveGroup>::Affine>>(gs: &mut Vec<Group>, gname: &'static str, env: &Env, reduced: bool) {
    let bases = make_bases::<G>(1030);
    let bits = G::ScalarField::MODULUS_BIT_SIZE as usize;
    let mut sizes: BTreeSet<usize> = [0, 1, 2, 3, 4, 7, 8, 9, 15, 16, 17, 31, 32, 33, 63, 64, 65, 127, 128, 129, 255, 256, 257, 511, 512, 513, 1023, 1024, 1025].into_iter().collect();
    for t in &env.ts {
        sizes.extend([t - 1, *t, t + 1]);
    }
    if !env.quick && !reduced {
        sizes.extend(0..64);
    }
    if env.quick {
        sizes.retain(|n| ![511, 512, 513].contains(n));
    }
    if reduced {
        sizes.retain(|n| *n <= 33 || [128, 129, 1024, 1025].contains(n));
    }
    let mut cells = Vec::new();
    for n in sizes {
        let big = n >= 255;
        let pats: &[&str] = if big || (env.quick && n > 33) || reduced {
            &["iota_c", "zeros_mixed"]
        } else if env.quick && n > 9 {
            &["iota_c", "zeros_mixed", "ones"]
        } else {
            &SPATS
        };
        // msm -> msm_unchecked -> msm_bigint -> signed-digit kernel: the wrappers add only the parallel into_bigint map
        let variants: &[&str] = if big || reduced || (env.quick && n > 9 && ![32, 33].contains(&n)) { &["msm", "hook_plain"] } else { &["msm", "msm_unchecked", "msm_bigint", "hook_plain", "hook_signed"] };
        for &p in pats {
            for ident in [false, true] {
                if ident && p != "zeros_mixed" {
                    continue;
                }
                for &v in variants {
                    let b = bases.clone();
                    let want_of = move || -> G {
                        let sc = spat::<G::ScalarField>(p, n);
                        let mut k = G::ScalarField::zero();
                        for (i, s) in sc.iter().enumerate() {
                            k += *s * G::ScalarField::from(base_coeff(i, ident));
                        }
                        smul(&G::generator(), k.into_bigint().as_ref())
                    };
                    let key = format!("msm/{gname}/{v}/n={n}/{p}{}", if ident { "/bases_with_identity" } else { "" });
                    let meta = Meta::Msm { n, windows: msm_windows(n, bits) };
                    if v == "msm" {
                        add(
                            &mut cells,
                            key,
                            n,
                            meta,
                            true,
                            |r: &Result<G, usize>| match r {
                                Ok(g) => ser_g(g),
                                Err(e) => format!("ERR:{e}").into_bytes(),
                            },
                            move || G::msm(&base_list(&b, n, ident), &spat::<G::ScalarField>(p, n)),
                            move |out: &Result<G, usize>| match out {
                                Ok(g) => same_point(g, &want_of()),
                                Err(e) => Err(format!("msm returned Err({e}) for equal lengths")),
                            },
                        );
                    } else {
                        add(
                            &mut cells,
                            key,
                            n,
                            meta,
                            true,
                            ser_g::<G>,
                            move || {
                                let bl = base_list(&b, n, ident);
                                let sc = spat::<G::ScalarField>(p, n);
                                let bi = || sc.iter().map(|s| s.into_bigint()).collect::<Vec<_>>();
                                match v {
                                    "msm_unchecked" => G::msm_unchecked(&bl, &sc),
                                    "msm_bigint" => G::msm_bigint(&bl, &bi()),
                                    "hook_plain" => msm_bigint_plain::<G>(&bl, &bi()),
                                    _ => msm_bigint_signed::<G>(&bl, &bi()),
                                }
                            },
                            move |out: &G| same_point(out, &want_of()),
                        );
                    }
                }
            }
        }
        // unequal lengths: msm reports the shorter length, msm_unchecked chops (also at sizes where each thread's
        // share of the two slices differs: a parallel split must cut both slices to the common prefix first)
        if n <= 33 || [64, 127, 129, 255, 257, 1023, 1025].contains(&n) {
            let b = bases.clone();
            add(
                &mut cells,
                format!("msm/{gname}/msm_unequal/n={n}"),
                n,
                Meta::Msm { n, windows: msm_windows(n, bits) },
                true,
                |r: &Result<G, usize>| match r {
                    Ok(g) => ser_g(g),
                    Err(e) => format!("ERR:{e}").into_bytes(),
                },
                move || G::msm(&base_list(&b, n, false), &spat::<G::ScalarField>("iota_c", n + 1)),
                move |out: &Result<G, usize>| if *out == Err(n) { Ok(()) } else { Err(format!("want Err({n})")) },
            );
            let b = bases.clone();
            add(
                &mut cells,
                format!("msm/{gname}/msm_unchecked_unequal/n={n}"),
                n,
                Meta::Msm { n, windows: msm_windows(n, bits) },
                true,
                ser_g::<G>,
                move || G::msm_unchecked(&base_list(&b, n + 2, false), &spat::<G::ScalarField>("iota_c", n)),
                move |out: &G| {
                    let mut k = G::ScalarField::zero();
                    for (i, s) in spat::<G::ScalarField>("iota_c", n).iter().enumerate() {
                        k += *s * G::ScalarField::from(i as u64 + 1);
                    }
                    same_point(out, &smul(&G::generator(), k.into_bigint().as_ref()))
                },
            );
        }
    }
    for (nb, ns) in [(100usize, 90usize), (90, 100), (1000, 900), (900, 1000), (257, 129)] {
        if reduced && nb.max(ns) > 300 {
            continue;
        }
        let b = bases.clone();
        let m = nb.min(ns);
        add(
            &mut cells,
            format!("msm/{gname}/msm_unchecked_unequal/bases={nb}/scalars={ns}"),
            m,
            Meta::Msm { n: m, windows: msm_windows(m, bits) },
            true,
            ser_g::<G>,
            move || {
                let sc = spat::<G::ScalarField>("iota_c", ns);
                let bi: Vec<_> = sc.iter().map(|s| s.into_bigint()).collect();
                let r1 = G::msm_unchecked(&base_list(&b, nb, false), &sc);
                let r2 = G::msm_bigint(&base_list(&b, nb, false), &bi);
                // both entry points document truncation to the shorter input; they must agree
                if r1.into_affine() == r2.into_affine() {
                    r1
                } else {
                    r1 + G::generator() // poison the digest: the reference check below then fails
                }
            },
            move |out: &G| {
                let mut k = G::ScalarField::zero();
                for (i, s) in spat::<G::ScalarField>("iota_c", ns).iter().take(m).enumerate() {
                    k += *s * G::ScalarField::from(i as u64 + 1);
                }
                same_point(out, &smul(&G::generator(), k.into_bigint().as_ref()))
            },
        );
    }
    gs.push(Group { name: format!("msm/{gname}"), cells });

    // batch_mul / BatchMulPreprocessing
    let mut cells = Vec::new();
    let mut sizes: BTreeSet<usize> = [0, 1, 2, 3, 15, 16, 17, 31, 32, 33, 127, 128, 129, 1023, 1024, 1025].into_iter().collect();
    for t in &env.ts {
        sizes.extend([t - 1, *t, t + 1]);
    }
    if reduced {
        sizes.retain(|n| *n <= 33 || *n == 129);
    }
    for n in sizes {
        for p in ["iota_c", "zeros_mixed"] {
            for v in ["batch_mul", "preprocessing_batch_mul", "table_for_other_len", "scalar_size_64"] {
                if (n > 129 || reduced) && v != "batch_mul" && v != "table_for_other_len" {
                    continue;
                }
                if env.quick && ((n > 129 && (v != "batch_mul" || p != "iota_c" || n == 1023)) || (n > 33 && v != "batch_mul" && v != "preprocessing_batch_mul")) {
                    continue;
                }
                let b = bases.clone();
                // base = 5*G in a non-normalised representation
                let scal = move || -> Vec<G::ScalarField> { if v == "scalar_size_64" { spat::<G::ScalarField>("small", n) } else { spat::<G::ScalarField>(p, n) } };
                let full = n <= 129;
                add(
                    &mut cells,
                    format!("batch_mul/{gname}/{v}/n={n}/{p}"),
                    n,
                    Meta::BatchInv { n },
                    full,
                    ser_c::<Vec<G::Affine>>,
                    move || {
                        let base = b.proj[4];
                        let sc = scal();
                        match v {
                            "batch_mul" => base.batch_mul(&sc),
                            "preprocessing_batch_mul" => BatchMulPreprocessing::new(base, n).batch_mul(&sc),
                            "table_for_other_len" => G::batch_mul_with_preprocessing(&BatchMulPreprocessing::new(base, 2 * n + 40), &sc),
                            _ => BatchMulPreprocessing::with_num_scalars_and_scalar_size(base, n, 64).batch_mul(&sc),
                        }
                    },
                    move |out: &Vec<G::Affine>| {
                        let sc = scal();
                        if out.len() != n {
                            return Err(format!("{} results for {n} scalars", out.len()));
                        }
                        let base = smul(&G::generator(), &[5u64]);
                        let idx: Vec<usize> = if full { (0..n).collect() } else { rows(n, false).into_iter().chain((0..n).step_by(64)).collect() };
                        for i in idx {
                            let want = smul(&base, sc[i].into_bigint().as_ref()).into_affine();
                            if out[i] != want {
                                return Err(format!("result {i}: got {} want {want}", out[i]));
                            }
                        }
                        Ok(())
                    },
                );
            }
        }
    }
    gs.push(Group { name: format!("batch_mul/{gname}"), cells });
}

/// normalize_batch: (projective point) -> affine; the reference divides by Z explicitly
fn normalize_groups<G: CurveGroup>(gs: &mut Vec<Group>, gname: &'static str, env: &Env, reference: fn(&G) -> G::Affine) {
    let bases = make_bases::<G>(1030);
    let mut cells = Vec::new();
    let mut sizes: BTreeSet<usize> = env.cheap(&[1, 2], 1025).into_iter().collect();
    sizes.extend(env.ts.iter().map(|t| 2 * t + 1));
    for n in sizes {
        for zeros in ["none", "some", "all"] {
            if zeros == "all" && n > 64 {
                continue;
            }
            let b = bases.clone();
            let input = move || -> Vec<G> { (0..n).map(|i| if zeros == "all" || (zeros == "some" && (i % 7 == 3 || i + 1 == n)) { G::zero() } else { b.proj[i] }).collect() };
            let input2 = input.clone();
            add(
                &mut cells,
                format!("normalize_batch/{gname}/n={n}/identities={zeros}"),
                n,
                Meta::BatchInv { n },
                true,
                ser_c::<Vec<G::Affine>>,
                move || G::normalize_batch(&input()),
                move |out: &Vec<G::Affine>| {
                    let inp = input2();
                    if out.len() != n {
                        return Err(format!("{} results for {n} points", out.len()));
                    }
                    for i in 0..n {
                        let want = reference(&inp[i]);
                        if out[i] != want {
                            return Err(format!("point {i}: got {} want {want}", out[i]));
                        }
                    }
                    Ok(())
                },
            );
        }
    }
    gs.push(Group { name: format!("normalize_batch/{gname}"), cells });
}
fn sw_affine_ref<P: ark_ec::short_weierstrass::SWCurveConfig>(p: &ark_ec::short_weierstrass::Projective<P>) -> ark_ec::short_weierstrass::Affine<P> {
    // Jacobian coordinates: (X/Z^2, Y/Z^3); Z = 0 is the identity
    match p.z.inverse() {
        None => ark_ec::short_weierstrass::Affine::identity(),
        Some(zi) => ark_ec::short_weierstrass::Affine::new_unchecked(p.x * zi * zi, p.y * zi * zi * zi),
    }
}
fn te_affine_ref<P: ark_ec::twisted_edwards::TECurveConfig>(p: &ark_ec::twisted_edwards::Projective<P>) -> ark_ec::twisted_edwards::Affine<P> {
    // extended coordinates: (X/Z, Y/Z)
    let zi = p.z.inverse().expect("Z != 0 on a twisted Edwards curve");
    ark_ec::twisted_edwards::Affine::new_unchecked(p.x * zi, p.y * zi)
}

// ------------------------------------------------------------------------------------------
// multi-pairings
// ------------------------------------------------------------------------------------------
/// pair i = ((i+1)*G1, (2i+3)*G2); with `ident`, pair 1 has the identity of G1 and pair 2 the identity of G2
fn pairing_inputs<E: Pairing>(k: usize, ident: bool) -> (Vec<E::G1Affine>, Vec<E::G2Affine>, u64) {
    let mut a = Vec::new();
    let mut b = Vec::new();
    let mut e = 0u64;
    for i in 0..k {
        let (x, y) = (i as u64 + 1, 2 * i as u64 + 3);
        let p = if ident && i == 1 { E::G1::zero() } else { smul(&E::G1::generator(), &[x]) };
        let q = if ident && i == 2 { E::G2::zero() } else { smul(&E::G2::generator(), &[y]) };
        if !(ident && (i == 1 || i == 2)) {
            e += x * y;
        }
        a.push(p.into_affine());
        b.push(q.into_affine());
    }
    (a, b, e)
}
fn pairing_groups<E: Pairing>(gs: &mut Vec<Group>, ename: &'static str, ks: &[usize], with_identity: bool, verify_max_pairs: usize) {
    let mut cells = Vec::new();
    for &k in ks {
        for ident in [false, true] {
            if ident && (!with_identity || k < 2) {
                continue;
            }
            let eff = if ident { k - k.min(3).saturating_sub(1) } else { k };
            let tag = if ident { "with_identity" } else { "plain" };
            let meta = Meta::Miller { pairs: eff };
            let ser_t: fn(&E::TargetField) -> Vec<u8> = ser_c::<E::TargetField>;
            let mp = move || {
                let (a, b, _) = pairing_inputs::<E>(k, ident);
                E::multi_pairing(a, b).0
            };
            if eff <= verify_max_pairs {
                add(&mut cells, format!("multi_pairing/{ename}/pairs={k}/{tag}"), k, meta.clone(), true, ser_t, mp, move |out: &E::TargetField| {
                    let (_, _, e) = pairing_inputs::<E>(k, ident);
                    // bilinearity: prod e(a_i G1, b_i G2) = e(G1, G2)^(sum a_i b_i)
                    let base: PairingOutput<E> = E::pairing(E::G1::generator().into_affine(), E::G2::generator().into_affine());
                    let want = base.0.pow([e]);
                    if *out == want {
                        Ok(())
                    } else {
                        Err(format!("multi_pairing != e(G1,G2)^{e}"))
                    }
                });
            } else {
                add_nover(&mut cells, format!("multi_pairing/{ename}/pairs={k}/{tag}"), k, meta.clone(), ser_t, mp);
            }
            // the Miller-loop value itself must also be independent of the schedule (product in a commutative field)
            add_nover(&mut cells, format!("multi_miller_loop/{ename}/pairs={k}/{tag}"), k, meta, ser_t, move || {
                let (a, b, _) = pairing_inputs::<E>(k, ident);
                let m: MillerLoopOutput<E> = E::multi_miller_loop(a, b);
                m.0
            });
        }
    }
    gs.push(Group { name: format!("multi_pairing/{ename}"), cells });
}

// ------------------------------------------------------------------------------------------
// Valid::batch_check / checked deserialization of vectors of points
// ------------------------------------------------------------------------------------------
type G1A = ark_bls12_381::G1Affine;
type G1P = ark_bls12_381::G1Projective;
/// first curve point (x = 1, 2, ...) that is on the curve but outside the prime-order subgroup: r*P != O by
/// textbook double-and-add
fn outside_subgroup_point() -> G1A {
    let r = <Fr381 as PrimeField>::MODULUS;
    for x in 1u64..200 {
        if let Some(p) = G1A::get_point_from_x_unchecked(ark_bls12_381::Fq::from(x), false) {
            if p.is_on_curve() && !smul(&G1P::from(p), r.as_ref()).is_zero() {
                return p;
            }
        }
    }
    panic!("no point outside the subgroup found");
}
fn batch_check_groups(gs: &mut Vec<Group>, env: &Env) {
    let bases = make_bases::<G1P>(70);
    let bad = outside_subgroup_point();
    let mut ns: Vec<usize> = vec![0, 1, 2, 3, 4, 5, 7, 8, 9, 15, 16, 17, 31, 32, 33];
    if !env.quick {
        ns.extend([63, 64, 65]);
    }
    let mut cells = Vec::new();
    for n in ns {
        // bad position: none (= n) or every position
        for pos in 0..=n {
            let has_bad = pos < n;
            let modes: &[&str] = if n <= 9 { &["vec_uncompressed", "vec_compressed", "direct", "vec_projective", "vec_of_vec", "vec_of_option", "vec_of_array", "vec_of_tuple"] } else if n <= 17 { &["vec_uncompressed", "direct", "vec_projective"] } else { &["vec_uncompressed", "direct"] };
            for &mode in modes {
                let b = bases.clone();
                let list = move || -> Vec<G1A> { (0..n).map(|i| if i == pos { bad } else { b.aff[i] }).collect() };
                let list2 = list.clone();
                add(
                    &mut cells,
                    format!("batch_check/bls12_381_g1/{mode}/n={n}/bad={}", if has_bad { pos.to_string() } else { "none".into() }),
                    n,
                    Meta::Plain,
                    true,
                    |r: &Result<Vec<G1A>, String>| match r {
                        Ok(v) => [b"OK:".to_vec(), ser_c(v)].concat(),
                        // the error text is not part of the value: both builds may name a different offending element
                        Err(_) => b"ERR".to_vec(),
                    },
                    move || -> Result<Vec<G1A>, String> {
                        let v = list();
                        match mode {
                            // nested containers reach Valid::batch_check through flat_map / par_bridge
                            "vec_of_vec" => {
                                let h = v.len() / 2;
                                let vv: Vec<Vec<G1A>> = vec![v[..h].to_vec(), Vec::new(), v[h..].to_vec()];
                                let bytes = ser_c(&vv);
                                Vec::<Vec<G1A>>::deserialize_with_mode(&bytes[..], Compress::No, Validate::Yes).map(|w| w.concat()).map_err(|e| format!("{e:?}"))
                            }
                            "vec_of_option" => {
                                let vo: Vec<Option<G1A>> = v.iter().flat_map(|p| [None, Some(*p)]).collect();
                                let bytes = ser_c(&vo);
                                Vec::<Option<G1A>>::deserialize_with_mode(&bytes[..], Compress::No, Validate::Yes).map(|w| w.into_iter().flatten().collect()).map_err(|e| format!("{e:?}"))
                            }
                            "vec_of_array" => {
                                let va: Vec<[G1A; 2]> = v.iter().map(|p| [*p, G1A::generator()]).collect();
                                let bytes = ser_c(&va);
                                Vec::<[G1A; 2]>::deserialize_with_mode(&bytes[..], Compress::No, Validate::Yes).map(|w| w.iter().map(|a| a[0]).collect()).map_err(|e| format!("{e:?}"))
                            }
                            "vec_of_tuple" => {
                                let vt: Vec<(u8, G1A)> = v.iter().enumerate().map(|(i, p)| (i as u8, *p)).collect();
                                let bytes = ser_c(&vt);
                                Vec::<(u8, G1A)>::deserialize_with_mode(&bytes[..], Compress::No, Validate::Yes).map(|w| w.iter().map(|a| a.1).collect()).map_err(|e| format!("{e:?}"))
                            }
                            "direct" => G1A::batch_check(v.iter()).map(|_| v.clone()).map_err(|e| format!("{e:?}")),
                            "vec_projective" => {
                                // encodings of projective points are affine encodings
                                let bytes = ser_c(&v);
                                Vec::<G1P>::deserialize_with_mode(&bytes[..], Compress::No, Validate::Yes).map(|w| w.iter().map(|p| p.into_affine()).collect()).map_err(|e| format!("{e:?}"))
                            }
                            "vec_compressed" => {
                                let mut bytes = Vec::new();
                                v.serialize_compressed(&mut bytes).unwrap();
                                Vec::<G1A>::deserialize_with_mode(&bytes[..], Compress::Yes, Validate::Yes).map_err(|e| format!("{e:?}"))
                            }
                            _ => {
                                let bytes = ser_c(&v);
                                Vec::<G1A>::deserialize_with_mode(&bytes[..], Compress::No, Validate::Yes).map_err(|e| format!("{e:?}"))
                            }
                        }
                    },
                    move |out: &Result<Vec<G1A>, String>| match out {
                        Ok(_) if has_bad => Err(format!("accepted a vector whose element {pos} is outside the subgroup")),
                        Ok(v) => {
                            if *v == list2() {
                                Ok(())
                            } else {
                                Err("decoded vector differs from the encoded one".into())
                            }
                        }
                        Err(_) if has_bad => Ok(()),
                        Err(e) => Err(format!("rejected a vector of valid points: {e}")),
                    },
                );
            }
        }
    }
    gs.push(Group { name: "batch_check/bls12_381_g1".into(), cells });
}

// ------------------------------------------------------------------------------------------
// schedule-independence premise scan
// ------------------------------------------------------------------------------------------
const PAR_MARKERS: [&str; 5] = ["rayon", "cfg_iter", "cfg_into_iter", "cfg_chunks", "par_"];
/// shared-mutable-state / unsafe tokens: searched in EVERY source file of the four crates
const STATE_TOKENS: [&str; 13] = ["Atomic", "Mutex", "RwLock", "RefCell", "static mut", "thread_local", "unsafe", "UnsafeCell", "Cell<", "lazy_static", "OnceCell", "OnceLock", "LazyLock"];
/// order-sensitive or early-exit parallel combinators: searched in files that contain parallel constructs
const COMBINATOR_TOKENS: [&str; 14] = [".sum()", ".product()", ".product::<", "par_bridge", ".reduce(", "reduce_with", "try_reduce", "find_any", "find_first", "position_any", "try_for_each", "rayon::join", "rayon::scope", "rayon::spawn"];
/// (file, token, trimmed line) established by reading each hit at the pinned tree:
/// * `#![forbid/deny(unsafe_code)]` crate attributes;
/// * ff: `unsafe` only around the x86 `_addcarry_u64`/`_subborrow_u64` intrinsics (biginteger), the
///   `unreachable_unchecked` arms of the asm-dispatch match (montgomery_backend) and a byte view of a
///   plain-old-data buffer in a const helper - no shared state, nothing related to parallel execution.
const STATE_ALLOW: [(&str, &str, &str); 16] = [
    ("ff/src/biginteger/mod.rs", "unsafe", "#[allow(unsafe_code)]"),
    ("ff/src/biginteger/mod.rs", "unsafe", "unsafe {"),
    ("ff/src/biginteger/arithmetic.rs", "unsafe", "#[allow(unsafe_code)]"),
    ("ff/src/biginteger/arithmetic.rs", "unsafe", "unsafe {"),
    ("ff/src/const_helpers.rs", "unsafe", "#[allow(unsafe_code)]"),
    ("ff/src/const_helpers.rs", "unsafe", "unsafe { ark_std::slice::from_raw_parts((self as *const Self) as *const u8, 8 * N + 1) }"),
    ("ff/src/lib.rs", "unsafe", "#![deny(unsafe_code)]"),
    ("ff/src/fields/models/fp/montgomery_backend.rs", "unsafe", "#[allow(unsafe_code)]"),
    ("ff/src/fields/models/fp/montgomery_backend.rs", "unsafe", "_ => unsafe { ark_std::hint::unreachable_unchecked() },"),
    ("ec/src/lib.rs", "unsafe", "#![forbid(unsafe_code)]"),
    ("poly/src/lib.rs", "unsafe", "#![forbid(unsafe_code)]"),
    ("serialize/src/lib.rs", "unsafe", "#![forbid(unsafe_code)]"),
    // spare slots keep the array length stable
    ("", "", ""),
    ("", "", ""),
    ("", "", ""),
    ("", "", ""),
];
/// (file, token): every hit read.  `.sum()` / `.product()` reduce field elements (commutative, associative, exact);
/// `par_bridge().try_for_each` returns some error when at least one element fails and every element error of the
/// shipped `check` impls is the same variant; `rayon::join` fills two disjoint scratch vectors.
const COMBINATOR_ALLOW: [(&str, &str); 13] = [
    ("ec/src/models/mnt4/mod.rs", ".product()"),
    ("ec/src/models/mnt6/mod.rs", ".product()"),
    ("ec/src/models/bls12/mod.rs", ".product::<"),
    ("ec/src/models/bn/mod.rs", ".product::<"),
    ("ec/src/models/bw6/mod.rs", ".product::<"),
    ("poly/src/polynomial/multivariate/sparse.rs", ".sum()"),
    ("poly/src/polynomial/multivariate/mod.rs", ".product()"),
    ("poly/src/polynomial/univariate/sparse.rs", ".sum()"),
    ("poly/src/polynomial/univariate/dense.rs", ".sum()"),
    ("poly/src/evaluations/multivariate/multilinear/dense.rs", ".sum()"),
    ("serialize/src/lib.rs", "par_bridge"),
    ("serialize/src/lib.rs", "try_for_each"),
    ("poly/src/domain/radix2/fft.rs", "rayon::join"),
];
fn rs_files(dir: &std::path::Path, out: &mut Vec<std::path::PathBuf>) {
    let Ok(rd) = std::fs::read_dir(dir) else { return };
    let mut entries: Vec<_> = rd.filter_map(|e| e.ok()).map(|e| e.path()).collect();
    entries.sort();
    for p in entries {
        if p.is_dir() {
            rs_files(&p, out);
        } else if p.extension().map_or(false, |e| e == "rs") {
            out.push(p);
        }
    }
}
fn premise_scan(ctx: &mut Ctx) {
    let mut files = Vec::new();
    for c in ["ff", "ec", "poly", "serialize"] {
        rs_files(std::path::Path::new(&format!("/repo/{c}/src")), &mut files);
    }
    if files.len() < 50 {
        ctx.machinery_error(format!("premise scan: only {} source files found under /repo/{{ff,ec,poly,serialize}}/src", files.len()));
    }
    let (mut par_files, mut state_hits, mut comb_hits) = (0u64, 0u64, 0u64);
    let mut fresh: Vec<String> = Vec::new();
    for f in &files {
        let Ok(txt) = std::fs::read_to_string(f) else {
            ctx.machinery_error(format!("premise scan: cannot read {}", f.display()));
            continue;
        };
        let rel = f.strip_prefix("/repo/").unwrap().to_string_lossy().to_string();
        let parallel_file = PAR_MARKERS.iter().any(|m| txt.contains(m));
        par_files += parallel_file as u64;
        for (ln, line) in txt.lines().enumerate() {
            let t = line.trim();
            if t.starts_with("//") {
                continue;
            }
            for tok in STATE_TOKENS {
                if t.contains(tok) {
                    state_hits += 1;
                    if !STATE_ALLOW.iter().any(|(af, at, al)| *af == rel && *at == tok && *al == t) {
                        fresh.push(format!("{rel}:{} token `{tok}`{}: {t}", ln + 1, if parallel_file { " (file has parallel constructs)" } else { "" }));
                    }
                }
            }
            if parallel_file {
                for tok in COMBINATOR_TOKENS {
                    if t.contains(tok) {
                        comb_hits += 1;
                        if !COMBINATOR_ALLOW.iter().any(|(af, at)| *af == rel && *at == tok) {
                            fresh.push(format!("{rel}:{} parallel-file combinator `{tok}`: {t}", ln + 1));
                        }
                    }
                }
            }
        }
    }
    // A new hit is not a verdict and does not stop the check (a violation must never be masked by an
    // error): it is printed and recorded; the schedule explorer (harness-sched) and the pool-size grid
    // below remain the judges, but the step from task schedules to all interleavings needs re-analysis.
    for h in &fresh {
        println!("PREMISE-WARNING: new shared-state / reduction construct in a parallel path, the task-level schedule model must be re-analysed: {h}");
    }
    ctx.bound("premise_scan_new_hits", serde_json::json!(fresh));
    ctx.bound("premise_scan", format!("{} files, {par_files} with parallel constructs, {state_hits} shared-state/unsafe token hits and {comb_hits} reduction/early-exit combinator hits, all on the allow-list", files.len()));
    ctx.assume("instruction-level interleavings inside a real rayon pool are not enumerated here (task schedules are, by the schedule explorer on the rayon stand-in, see coverage.schedule_exploration). Premise, re-checked textually at start-up: every parallel path in ff/ec/poly/serialize uses only rayon's safe data-parallel combinators over disjoint chunks; no Atomic/Mutex/RwLock/RefCell/static mut/thread_local/unsafe in or near them; parallel reductions are sums/products of field elements (exact, commutative, associative) and collect() preserves order; hence every result is a function of (input, current_num_threads) only, and that function's domain is what is enumerated. Every cell is additionally run 3 times per pool size (uncontrolled-nondeterminism probe).");
}

// ------------------------------------------------------------------------------------------
// branch classes (from inputs and t only)
// ------------------------------------------------------------------------------------------
fn log2_floor(t: usize) -> u32 {
    usize::BITS - 1 - t.leading_zeros()
}
fn near(n: usize, c: usize) -> bool {
    n.abs_diff(c) <= 1
}
fn classes_of(meta: &Meta, t: usize, out: &mut Vec<&'static str>) {
    match meta {
        Meta::Plain => {}
        Meta::Radix2 { size, len, is_fft } => {
            let size = *size;
            if size == 1024 || size == 2048 {
                out.push("chunk_boundary:butterfly_min_input_1024");
            }
            if size == 2048 || size == 4096 {
                out.push("chunk_boundary:butterfly_min_gap_1024");
            }
            if size == 128 || size == 256 {
                out.push("chunk_boundary:roots_log_parallel_size_7");
                out.push("chunk_boundary:roots_compaction_128_chunks");
            }
            if size >= 512 {
                out.push("roots_recursive");
            }
            if size >= 1 << 16 {
                out.push("roots_recursive_depth2");
            }
            if size >= 4096 && t >= 2 {
                out.push("gap_parallel");
            }
            if size > 1024 {
                out.push("butterfly_chunks_parallel");
            }
            if *is_fft {
                if len * 4 <= size {
                    out.push("degree_aware_fft");
                }
                if (len * 4 <= size && (len + 1) * 4 > size) || (*len >= 1 && len * 4 > size && (len - 1) * 4 <= size) {
                    out.push("chunk_boundary:degree_aware_factor_4");
                }
            }
        }
        Meta::Mixed { size, log_n } => {
            let lc = log2_floor(t);
            if *log_n > lc && lc >= 1 {
                out.push("parallel_fft_cosets");
                if !size.is_power_of_two() {
                    out.push("parallel_fft_cosets:size_not_power_of_two");
                }
            }
            if *log_n > lc && lc == 0 {
                out.push("parallel_fft_single_coset");
            }
            if *log_n <= lc {
                out.push("best_fft_serial(log_n<=log_cpus)");
            }
            if *log_n == lc || *log_n == lc + 1 {
                out.push("chunk_boundary:best_fft_log_n_vs_log_cpus");
            }
        }
        Meta::Horner { n } => {
            if near(*n, 16) || near(*n, 16 * t) || near(*n, 17 * t) {
                out.push("chunk_boundary:horner_min_16_per_thread");
            }
            if *n > 16 && n / t > 16 {
                out.push("horner:chunk=len/t");
            }
            if *n > 16 && n / t <= 16 {
                out.push("horner:chunk=16");
            }
        }
        Meta::Distribute { n } => {
            if near(*n, 1024) || near(*n, 1024 * t) {
                out.push("chunk_boundary:distribute_powers_min_1024");
            }
            if *n > 1024 && n / t > 1024 {
                out.push("distribute_powers:chunk=len/t");
            }
            if *n > 1024 && n / t <= 1024 {
                out.push("distribute_powers:chunk=1024");
            }
        }
        Meta::BatchInv { n } => {
            if near(*n, t) || near(*n, 2 * t) {
                out.push("chunk_boundary:batch_inversion_len_div_t");
            }
            if *n > t && n % t != 0 {
                out.push("batch_inversion:ragged_last_chunk");
            }
        }
        Meta::Msm { n, windows } => {
            if near(*n, 32) {
                out.push("chunk_boundary:msm_window_size_32");
            }
            if t > *windows {
                out.push("msm:t>windows");
            }
            if t > 1 && t <= *windows {
                out.push("msm:windows_split_over_threads");
            }
        }
        Meta::Miller { pairs } => {
            if [4usize, 5, 8, 9].contains(pairs) {
                out.push("chunk_boundary:miller_chunks_of_4");
            }
            if *pairs > 4 {
                out.push("miller:several_chunks");
            }
        }
    }
}
const MANDATORY: [&str; 17] = [
    "t=1",
    "t_not_power_of_two",
    "t>len",
    "chunk_boundary:horner_min_16_per_thread",
    "chunk_boundary:distribute_powers_min_1024",
    "chunk_boundary:batch_inversion_len_div_t",
    "chunk_boundary:butterfly_min_input_1024",
    "chunk_boundary:butterfly_min_gap_1024",
    "chunk_boundary:roots_log_parallel_size_7",
    "chunk_boundary:roots_compaction_128_chunks",
    "chunk_boundary:degree_aware_factor_4",
    "chunk_boundary:msm_window_size_32",
    "chunk_boundary:miller_chunks_of_4",
    "chunk_boundary:best_fft_log_n_vs_log_cpus",
    "parallel_fft_cosets",
    "roots_recursive",
    "gap_parallel",
];

// ------------------------------------------------------------------------------------------
// the cell table (identical in both builds)
// ------------------------------------------------------------------------------------------
fn build_groups(env: &Env) -> Vec<Group> {
    let mut gs = Vec::new();
    let top = if env.quick { 8192 } else { 1 << 14 };
    // FFT families
    fft_groups::<DGold>(&mut gs, "DGold", env, top, true);
    fft_groups::<D65537>(&mut gs, "D65537", env, top, true);
    fft_groups::<D3889>(&mut gs, "D3889", env, 16, false);
    fft_groups::<Fr381>(&mut gs, "bls12_381_Fr", env, top, false);
    let mut mixed: Vec<usize> = (1..=64).collect();
    mixed.extend([80, 81, 82, 96, 97, 108, 109, 144, 145, 162, 163, 243, 244, 324, 325, 432, 433, 486, 487, 648, 649, 972, 973, 1296, 1297, 1944, 1945, 3887, 3888]);
    mixed_groups::<D3889>(&mut gs, "D3889", &mixed);
    // 2-adicity 12, 3-adicity 2: reaches log_n > log_cpus for every pool size of the grid
    let mut mixed_bn: Vec<usize> = vec![3, 5, 6, 9, 17, 18, 33, 36, 65, 72, 129, 144, 257, 288, 513, 576, 1025, 1152];
    if !env.quick {
        mixed_bn.extend([2049, 2304, 4097, 4608]);
    }
    mixed_groups::<Bn384s>(&mut gs, "bn384_small_two_adicity_Fq", &mixed_bn);
    // linear and polynomial operations
    linear_groups::<DGold>(&mut gs, "DGold", env);
    linear_groups::<D65537>(&mut gs, "D65537", env);
    linear_groups::<D3889>(&mut gs, "D3889", env);
    linear_groups::<Fr381>(&mut gs, "bls12_381_Fr", env);
    poly_groups::<DGold>(&mut gs, "DGold", env, 1 << 15);
    poly_groups::<D65537>(&mut gs, "D65537", env, 1 << 15);
    poly_groups::<D3889>(&mut gs, "D3889", env, 3888);
    poly_groups::<Fr381>(&mut gs, "bls12_381_Fr", env, 1 << 15);
    mle_groups::<DGold>(&mut gs, "DGold", env);
    mle_groups::<D65537>(&mut gs, "D65537", env);
    mle_groups::<Fr381>(&mut gs, "bls12_381_Fr", env);
    // curves
    msm_groups::<G1P>(&mut gs, "bls12_381_g1", env, false);
    msm_groups::<ark_ed_on_bls12_381::EdwardsProjective>(&mut gs, "ed_on_bls12_381", env, true);
    normalize_groups::<G1P>(&mut gs, "bls12_381_g1", env, sw_affine_ref);
    normalize_groups::<ark_ed_on_bls12_381::EdwardsProjective>(&mut gs, "ed_on_bls12_381", env, te_affine_ref);
    let ks: Vec<usize> = (0..=9).collect();
    pairing_groups::<ark_bls12_381::Bls12_381>(&mut gs, "bls12_381", &ks, true, 9);
    pairing_groups::<ark_mnt4_298::MNT4_298>(&mut gs, "mnt4_298", &ks, true, 9);
    // the other multi_miller_loop implementations with parallel chunks (cross-build + reference)
    let ks2: Vec<usize> = if env.quick { vec![0, 1, 4, 5, 9] } else { ks.clone() };
    pairing_groups::<ark_bn254::Bn254>(&mut gs, "bn254", &ks2, true, 9);
    pairing_groups::<ark_mnt6_298::MNT6_298>(&mut gs, "mnt6_298", &ks2, true, 9);
    pairing_groups::<ark_bw6_761::BW6_761>(&mut gs, "bw6_761", &ks2, true, 9);
    batch_check_groups(&mut gs, env);
    batch_check_groups_te(&mut gs, env);
    gs
}

/// the same for a twisted Edwards element type (cofactor 8: the order-2 point (0,-1) and G + (0,-1) are outside the subgroup),
/// one and two invalid members
fn batch_check_groups_te(gs: &mut Vec<Group>, env: &Env) {
    type EA = ark_ed_on_bls12_381::EdwardsAffine;
    type EP = ark_ed_on_bls12_381::EdwardsProjective;
    let bases = make_bases::<EP>(40);
    let t2 = EA::new_unchecked(ark_ed_on_bls12_381::Fq::zero(), -ark_ed_on_bls12_381::Fq::from(1u64));
    let bad: EA = (EP::from(t2) + EP::generator()).into_affine();
    let r = <ark_ed_on_bls12_381::Fr as PrimeField>::MODULUS;
    assert!(bad.is_on_curve() && !smul(&EP::from(bad), r.as_ref()).is_zero(), "harness: G + (0,-1) must lie outside the subgroup");
    let ns: Vec<usize> = if env.quick { vec![0, 1, 2, 3, 5, 8, 9, 16, 17, 33] } else { vec![0, 1, 2, 3, 4, 5, 7, 8, 9, 15, 16, 17, 31, 32, 33] };
    let mut cells = Vec::new();
    for n in ns {
        for pos in 0..=n {
            for two in [false, true] {
                let pos2 = n.saturating_sub(1 + pos / 2);
                if two && (pos >= n || pos2 == pos) {
                    continue;
                }
                let has_bad = pos < n;
                for mode in ["vec_uncompressed", "direct", "vec_projective"] {
                    let b = bases.clone();
                    let list = move || -> Vec<EA> { (0..n).map(|i| if i == pos || (two && i == pos2) { bad } else { b.aff[i] }).collect() };
                    let list2 = list.clone();
                    add(
                        &mut cells,
                        format!("batch_check/ed_on_bls12_381/{mode}/n={n}/bad={}{}", if has_bad { pos.to_string() } else { "none".into() }, if two { format!("+{pos2}") } else { String::new() }),
                        n,
                        Meta::Plain,
                        true,
                        |r: &Result<Vec<EA>, String>| match r {
                            Ok(v) => [b"OK:".to_vec(), ser_c(v)].concat(),
                            Err(_) => b"ERR".to_vec(),
                        },
                        move || -> Result<Vec<EA>, String> {
                            let v = list();
                            match mode {
                                "direct" => EA::batch_check(v.iter()).map(|_| v.clone()).map_err(|e| format!("{e:?}")),
                                "vec_projective" => {
                                    let bytes = ser_c(&v);
                                    Vec::<EP>::deserialize_with_mode(&bytes[..], Compress::No, Validate::Yes).map(|w| w.iter().map(|p| p.into_affine()).collect()).map_err(|e| format!("{e:?}"))
                                }
                                _ => {
                                    let bytes = ser_c(&v);
                                    Vec::<EA>::deserialize_with_mode(&bytes[..], Compress::No, Validate::Yes).map_err(|e| format!("{e:?}"))
                                }
                            }
                        },
                        move |out: &Result<Vec<EA>, String>| match out {
                            Ok(_) if has_bad => Err(format!("accepted a vector whose element {pos} is outside the subgroup")),
                            Ok(v) => {
                                if *v == list2() {
                                    Ok(())
                                } else {
                                    Err("decoded vector differs from the encoded one".into())
                                }
                            }
                            Err(_) if has_bad => Ok(()),
                            Err(e) => Err(format!("rejected a vector of valid points: {e}")),
                        },
                    );
                }
            }
        }
    }
    gs.push(Group { name: "batch_check/ed_on_bls12_381".into(), cells });
}

fn pool_sizes(quick: bool) -> Vec<usize> {
    if quick {
        vec![1, 2, 3, 4, 5, 6, 7, 8, 16, 17]
    } else {
        (1..=16).chain([17, 24, 32, 64]).collect()
    }
}

/// user+system CPU seconds of this process (profiling aid, C14_PROFILE=1)
fn cpu_seconds() -> f64 {
    let st = std::fs::read_to_string("/proc/self/stat").unwrap_or_default();
    let after = st.rsplit(')').next().unwrap_or("");
    let f: Vec<&str> = after.split_whitespace().collect();
    let ticks = |i: usize| f.get(i).and_then(|x| x.parse::<f64>().ok()).unwrap_or(0.0);
    (ticks(11) + ticks(12)) / 100.0
}
fn run_caught(f: impl FnOnce() -> Out) -> Out {
    match catch_unwind(AssertUnwindSafe(f)) {
        Ok(o) => o,
        Err(p) => panic_out(p),
    }
}

// ------------------------------------------------------------------------------------------
// serial build: digest table
// ------------------------------------------------------------------------------------------
fn serial_digests(mut ctx: Ctx, groups: Vec<Group>) -> i32 {
    ctx.only = None;
    ctx.replay = None;
    let mut table: BTreeMap<String, String> = BTreeMap::new();
    let mut panics = 0u64;
    for g in &groups {
        let slots: Vec<OnceLock<(String, bool)>> = (0..g.cells.len()).map(|_| OnceLock::new()).collect();
        ctx.sweep(&format!("serial/{}", g.name), g.cells.len() as u64, |i, _loc| {
            let c = &g.cells[i as usize];
            let o = run_caught(|| (c.run)());
            let _ = slots[i as usize].set((hex(&o.digest), o.panicked));
        });
        for (c, s) in g.cells.iter().zip(&slots) {
            let Some((d, p)) = s.get() else {
                ctx.machinery_error(format!("serial digest of {} was not computed", c.key));
                continue;
            };
            panics += *p as u64;
            if table.insert(c.key.clone(), d.clone()).is_some() {
                ctx.machinery_error(format!("duplicate cell key {}", c.key));
            }
        }
    }
    if ctx.capped {
        ctx.machinery_error("serial digest run hit the time budget".into());
    }
    let tier = if ctx.quick() { "quick" } else { "thorough" };
    let doc = serde_json::json!({
        "what": "C14: SHA-256 of the canonical uncompressed serialization of every (operation, input id) result, computed by the build WITHOUT the `parallel` feature",
        "tier": tier,
        "cells": table.len(),
        "cells_that_panic": panics,
        "wall_s": ctx.start.elapsed().as_secs_f64(),
        "digests": table,
    });
    let _ = std::fs::create_dir_all("/verif/evidence");
    if let Err(e) = std::fs::write(SERIAL_FILE, serde_json::to_string(&doc).unwrap()) {
        ctx.machinery_error(format!("cannot write {SERIAL_FILE}: {e}"));
    }
    for s in &ctx.sweeps {
        if s.wall_s > 0.25 {
            println!("    space {:<52} cases={:<8} {:.2}s", s.name, s.cases, s.wall_s);
        }
    }
    println!("[C14 serial digests] tier={tier} cells={} panicking={} wall={:.1}s -> {SERIAL_FILE}", doc["cells"], panics, ctx.start.elapsed().as_secs_f64());
    if ctx.machinery_errors.is_empty() {
        0
    } else {
        2
    }
}

// ------------------------------------------------------------------------------------------
// parallel build: the check
// ------------------------------------------------------------------------------------------
fn parallel_check(mut ctx: Ctx, groups: Vec<Group>) -> i32 {
    ctx.require(&MANDATORY);
    premise_scan(&mut ctx);
    let ts = pool_sizes(ctx.quick());
    let tier = if ctx.quick() { "quick" } else { "thorough" };
    // serial digest table
    let serial: BTreeMap<String, String> = match std::fs::read_to_string(SERIAL_FILE).ok().and_then(|t| serde_json::from_str::<serde_json::Value>(&t).ok()) {
        None => {
            ctx.machinery_error(format!("{SERIAL_FILE} is missing or unreadable: run the serial build first (`c14 --serial-digests --tier {tier}`; ./check C14 does it)"));
            return ctx.finish();
        }
        Some(v) => {
            if v["tier"].as_str() != Some(tier) {
                ctx.machinery_error(format!("{SERIAL_FILE} was produced for tier {:?}, this run is tier {tier}", v["tier"].as_str()));
                return ctx.finish();
            }
            v["digests"].as_object().map(|m| m.iter().map(|(k, d)| (k.clone(), d.as_str().unwrap_or("").to_string())).collect()).unwrap_or_default()
        }
    };
    // pools: ceil(16/t) instances of each size so that small pools are not a serial bottleneck of the sweep
    let pools: Vec<(usize, Vec<rayon::ThreadPool>)> = ts
        .iter()
        .map(|&t| {
            let k = 16usize.div_ceil(t);
            (
                t,
                (0..k)
                    .map(|_| {
                        rayon::ThreadPoolBuilder::new()
                            .num_threads(t)
                            .start_handler(|_| QUIET_PANICS.with(|q| q.set(true)))
                            .build()
                            .unwrap()
                    })
                    .collect(),
            )
        })
        .collect();
    ctx.bound("pool_sizes", format!("{ts:?}"));
    ctx.bound("repetitions_per_cell_and_pool_size", 3);
    ctx.bound("cells", groups.iter().map(|g| g.cells.len()).sum::<usize>());
    ctx.bound("inputs", "fixed structured vectors (iota, all-ones, unit vectors, vectors with zeros, geometric sequence of a generic-looking constant); no RNG");
    ctx.assume("naive references use single field / group operations (C01-C03 scope) and never a batched or parallel library routine; where the full naive reference is too expensive (class reference:spot_rows_only) fixed rows are checked and the serial-build digest covers the whole output");
    ctx.assume("BW6 multi_pairing with more than 4 effective pairs (known finding F7 of C06, identical in both builds) and all multi_miller_loop cells have no naive reference: cross-build digest and repetition only");
    let mach: Mutex<Vec<String>> = Mutex::new(Vec::new());
    let nt = ts.len() as u64;
    let profile = std::env::var("C14_PROFILE").is_ok();
    for g in &groups {
        let nc = g.cells.len() as u64;
        let cpu0 = cpu_seconds();
        if profile && !ctx.sweeps.is_empty() {
            let last = ctx.sweeps.last().unwrap();
            eprintln!("[profile] {:<52} wall {:.2}s", last.name, last.wall_s);
        }
        let _ = cpu0;
        ctx.sweep(&g.name, nc * nt, |i, loc| {
            let [ti, ci] = unrank(i, [nt, nc]);
            let (t, insts) = &pools[ti as usize];
            let t = *t;
            let pool = &insts[ci as usize % insts.len()];
            let cell = &g.cells[ci as usize];
            loc.class_if(t == 1, "t=1");
            loc.class_if(!t.is_power_of_two(), "t_not_power_of_two");
            loc.class_if(t > cell.len, "t>len");
            let mut cl = Vec::new();
            classes_of(&cell.meta, t, &mut cl);
            for c in cl {
                loc.class(c);
            }
            loc.class_if(!cell.full_ref, "reference:spot_rows_only_or_none");
            // three repetitions inside the pool
            let mut outs: Vec<Out> = Vec::with_capacity(3);
            for _ in 0..3 {
                let mut seen_threads = 0usize;
                let o = run_caught(|| {
                    pool.install(|| {
                        seen_threads = rayon::current_num_threads();
                        (cell.run)()
                    })
                });
                if seen_threads != t {
                    mach.lock().unwrap().push(format!("rayon::current_num_threads() = {seen_threads} inside a pool built with num_threads({t})"));
                }
                outs.push(o);
            }
            let d0 = outs[0].digest;
            if loc.sampling() {
                loc.sample(format!("{} t={t} digest={}", cell.key, hex(&d0)));
            }
            loc.class_if(outs[0].panicked, "result_is_a_panic");
            for r in 1..3 {
                loc.check_at("repeat", outs[r].digest == d0, || {
                    format!("{} t={t}: repetition {r} gave digest {} but repetition 0 gave {} (same input, same pool size)", cell.key, hex(&outs[r].digest), hex(&d0))
                });
            }
            // cross-build conformance
            match serial.get(&cell.key) {
                None => mach.lock().unwrap().push(format!("no serial digest for cell {}", cell.key)),
                Some(d) => {
                    loc.check_at("vs_serial_build", *d == hex(&d0), || {
                        format!("{} t={t}: parallel build result digest {} != serial build digest {d}{}", cell.key, hex(&d0), if outs[0].panicked { " (parallel build panicked)" } else { "" })
                    });
                }
            }
            // naive reference (validated once per distinct output)
            if let Some(v0) = outs[0].verify.take() {
                let (vd, verr, vt) = cell.verified.get_or_init(|| (d0, v0().err(), t));
                if *vd == d0 {
                    if let Some(e) = verr {
                        loc.fail_at("vs_naive_reference", format!("{} t={t}: {e} (output validated under t={vt})", cell.key));
                    } else {
                        loc.op();
                    }
                } else {
                    let own = outs[1].verify.take().map(|v| v());
                    loc.fail_at(
                        "vs_naive_reference",
                        format!("{} t={t}: output digest {} differs from the output under t={vt} (digest {}, reference verdict {:?}); own reference verdict: {:?}", cell.key, hex(&d0), hex(vd), verr, own),
                    );
                }
            }
        });
        if profile {
            eprintln!("[profile] {:<52} cpu {:.2}s", g.name, cpu_seconds() - cpu0);
        }
    }
    let mut m = mach.into_inner().unwrap();
    m.sort();
    m.dedup();
    for e in m.iter().take(20) {
        ctx.machinery_error(e.clone());
    }
    ctx.finish()
}

fn main() {
    let args: Vec<String> = std::env::args().collect();
    let serial_mode = args.iter().any(|a| a == "--serial-digests");
    let ctx = Ctx::from_args("C14");
    let par_build = cfg!(feature = "parallel");
    if !par_build && !serial_mode {
        eprintln!("MACHINERY-ERROR: this c14 binary was built WITHOUT `--features parallel`; it can only produce the serial digest table (`c14 --serial-digests --tier T`). Build with `--features parallel` for the check (./check C14 does both).");
        std::process::exit(2);
    }
    if par_build && serial_mode {
        eprintln!("MACHINERY-ERROR: --serial-digests must be run with the build WITHOUT `--features parallel`");
        std::process::exit(2);
    }
    let env = Env { quick: ctx.quick(), ts: pool_sizes(ctx.quick()) };
    let groups = build_groups(&env);
    eprintln!("[C14] cell table: {} groups, {} cells, built in {:.1}s", groups.len(), groups.iter().map(|g| g.cells.len()).sum::<usize>(), ctx.start.elapsed().as_secs_f64());
    let code = if serial_mode { serial_digests(ctx, groups) } else { parallel_check(ctx, groups) };
    std::process::exit(code);
}
