fn main() {}
