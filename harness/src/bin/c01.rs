//! C01 - prime-field operations equal integer arithmetic modulo p.
//! E: whole universes of tiny fields; A: raw-Montgomery-limb boundary alphabets on
//! big toy moduli (1..13 limbs, with/without spare bit) and every shipped field;
//! S: stateright over in-place operation sequences.  Every configuration both
//! as #[derive(MontConfig)] and as hand-written config inheriting trait defaults.
use algebra_mc::core::*;
use algebra_mc::fpaccess::FpAccess;
use algebra_mc::refmodel::zmod::*;
use algebra_mc::seq::run_seq;
use ark_ff::{batch_inversion, batch_inversion_and_mul, BigInteger, Field, PrimeField, Zero};
use num_bigint::BigUint;
use num_traits::{One, Zero as NZero};
use std::collections::BTreeSet;
use std::str::FromStr;
use std::sync::Mutex;

struct Fm {
    name: String,
    p: BigUint,
    n: usize,
    mont: Mont,
    bits: usize,
    spare_bit: bool,
    no_carry_runtime: bool,
    two64n: BigUint,
    pinv_neg: BigUint, // -p^{-1} mod 2^(64N)
}

impl Fm {
    fn new<F: FpAccess>(name: &str) -> Fm {
        let p = F::modulus_big();
        let n = F::NLIMBS;
        let limbs = F::modulus_limbs();
        let spare_bit = limbs[n - 1] >> 63 == 0;
        let all_rest_ones = limbs[n - 1] == u64::MAX >> 1 && limbs[..n - 1].iter().all(|l| *l == u64::MAX);
        let two64n = pow2(64 * n);
        let pinv = modinv(&p, &two64n).unwrap();
        Fm {
            name: name.to_string(),
            bits: p.bits() as usize,
            mont: Mont::new(&p, n),
            n,
            spare_bit,
            no_carry_runtime: spare_bit && !all_rest_ones,
            pinv_neg: &two64n - pinv,
            two64n,
            p,
        }
    }
    fn enc<F: FpAccess>(&self, x: &BigUint) -> F {
        F::from_raw(&self.mont.encode(x))
    }
    /// canonical and denotes `want`
    fn is<F: FpAccess>(&self, got: &F, want: &BigUint) -> bool {
        let r = got.raw();
        self.mont.canonical(&r) && &self.mont.decode(&r) == want
    }
    fn show<F: FpAccess>(&self, got: &F) -> String {
        let r = got.raw();
        format!("raw={:x?} (={}{})", r, self.mont.decode(&r), if self.mont.canonical(&r) { "" } else { ", NOT CANONICAL" })
    }
    /// CIOS intermediate before the final conditional subtraction: (ra*rb + m p)/R
    fn cios_t(&self, ra: &BigUint, rb: &BigUint) -> BigUint {
        let ab = ra * rb;
        let m = (&ab * &self.pinv_neg) % &self.two64n;
        (ab + m * &self.p) >> (64 * self.n)
    }
}

/// raw-limb operands (all canonical, i.e. < p)
fn operands(fm: &Fm, dev: usize) -> Vec<Vec<u64>> {
    let n = fm.n;
    let alphabet: Vec<u64> = if n <= 3 {
        L10.to_vec()
    } else if n <= 8 {
        let mut a = L4.to_vec();
        a.push(GENERIC64);
        a
    } else {
        vec![0, u64::MAX, 1]
    };
    let plimbs = to_limbs(&fm.p, n);
    let pm1 = to_limbs(&(&fm.p - 1u32), n);
    let mut raw: Vec<Vec<u64>> = Vec::new();
    for base in [vec![0u64; n], vec![u64::MAX; n], plimbs.clone(), pm1.clone()] {
        raw.extend(deviation_ball(&base, &alphabet, dev));
        let top = plimbs[n - 1];
        for e in [top, top.wrapping_sub(1), top >> 1, top.wrapping_add(1)] {
            let mut b = base.clone();
            b[n - 1] = e;
            raw.push(b.clone());
            if n > 1 {
                for a in &alphabet {
                    let mut c = b.clone();
                    c[0] = *a;
                    raw.push(c);
                }
            }
        }
    }
    let mut set: BTreeSet<Vec<u64>> = BTreeSet::new();
    for l in raw {
        let mut v = from_limbs(&l);
        if v >= fm.p {
            v -= &fm.p;
        }
        if v >= fm.p {
            v %= &fm.p;
        }
        set.insert(to_limbs(&v, n));
    }
    // canonical integers, both as Montgomery encodings and as raw limb patterns
    let p = &fm.p;
    let mut ints: Vec<BigUint> = vec![
        BigUint::zero(),
        BigUint::one(),
        BigUint::from(2u32),
        BigUint::from(3u32),
        p - 1u32,
        (p + p - 2u32) % p,
        (p - 1u32) >> 1usize,
        ((p + 1u32) >> 1usize) % p,
        fm.mont.r.clone(),
        (&fm.mont.r * &fm.mont.r) % p,
        BigUint::from(GENERIC64) % p,
        BigUint::from(1u64 << 32) % p,
    ];
    for k in 1..=n {
        let t = pow2(64 * k);
        ints.push((&t - 1u32) % p);
        ints.push(&t % p);
        ints.push((&t + 1u32) % p);
    }
    for v in ints {
        let v = v % p;
        set.insert(to_limbs(&v, n));
        set.insert(fm.mont.encode(&v));
    }
    set.into_iter().collect()
}

fn binary_checks<F: FpAccess>(ctx: &mut Ctx, fm: &Fm, ops: &[Vec<u64>], tag: &str) {
    let dec: Vec<BigUint> = ops.iter().map(|l| fm.mont.decode(l)).collect();
    let rawv: Vec<BigUint> = ops.iter().map(|l| from_limbs(l)).collect();
    let n = ops.len() as u64;
    let p = &fm.p;
    ctx.sweep(&format!("binary/{}/{}", fm.name, tag), n * n, |i, loc| {
        let [ia, ib] = unrank(i, [n, n]);
        let (ia, ib) = (ia as usize, ib as usize);
        let a = F::from_raw(&ops[ia]);
        let b = F::from_raw(&ops[ib]);
        let (da, db) = (&dec[ia], &dec[ib]);
        let (ra, rb) = (&rawv[ia], &rawv[ib]);
        if loc.sampling() {
            loc.sample(format!("{}: a.raw={:x?} b.raw={:x?}", fm.name, ops[ia], ops[ib]));
        }
        // --- add
        let s_raw = ra + rb;
        loc.class_if(s_raw >= fm.two64n, "add:carry_out");
        loc.class_if(s_raw >= *p && s_raw < fm.two64n, "add:sum>=p_no_carry");
        let want = (da + db) % p;
        let r1 = a + b;
        let mut r2 = a;
        r2 += &b;
        let r3 = a.ref_add(&b);
        let mut r4 = a;
        r4 += b;
        loc.check_at("add", fm.is(&r1, &want) && r1 == r2 && r1 == r3 && r1 == r4, || {
            format!("{}: {} + {} -> {} want {want}", fm.name, fm.show(&a), fm.show(&b), fm.show(&r1))
        });
        // the remaining operator impls (each is a separate impl block in the library): Fp + &Fp, Fp + &mut Fp, += &mut Fp;
        // they must return what `a + b` returns (which the site above compares with the model)
        let mut bm = b;
        let v1 = a + &b;
        let v2 = a + &mut bm;
        let mut v3 = a;
        v3 += &mut bm;
        loc.check_at("add_variants", v1 == r1 && v2 == r1 && v3 == r1, || {
            format!("{}: {} + {} (a + &b, a + &mut b, a += &mut b) -> {} / {} / {} want {want}", fm.name, fm.show(&a), fm.show(&b), fm.show(&v1), fm.show(&v2), fm.show(&v3))
        });
        // --- sub
        loc.class_if(ra < rb, "sub:borrow");
        let want = modsub(da, db, p);
        let r1 = a - b;
        let mut r2 = a;
        r2 -= &b;
        let r3 = a.ref_sub(&b);
        loc.check_at("sub", fm.is(&r1, &want) && r1 == r2 && r1 == r3, || {
            format!("{}: {} - {} -> {} want {want}", fm.name, fm.show(&a), fm.show(&b), fm.show(&r1))
        });
        let v1 = a - &b;
        let v2 = a - &mut bm;
        let mut v3 = a;
        v3 -= b;
        let mut v4 = a;
        v4 -= &mut bm;
        loc.check_at("sub_variants", v1 == r1 && v2 == r1 && v3 == r1 && v4 == r1, || {
            format!("{}: {} - {} (a - &b, a - &mut b, a -= b, a -= &mut b) -> {} / {} / {} / {} want {want}", fm.name, fm.show(&a), fm.show(&b), fm.show(&v1), fm.show(&v2), fm.show(&v3), fm.show(&v4))
        });
        // --- mul
        if fm.no_carry_runtime {
            loc.class("mul:no_carry_path");
        } else {
            loc.class("mul:cios_path");
        }
        if !fm.spare_bit && fm.cios_t(ra, rb) >= fm.two64n {
            loc.class("mul:final_sub_with_carry");
            loc.class(if fm.n == 1 { "mul:final_sub_with_carry:N=1" } else { "mul:final_sub_with_carry:N>=2" });
        }
        let want = (da * db) % p;
        let r1 = a * b;
        let mut r2 = a;
        r2 *= &b;
        let r3 = a.ref_mul(&b);
        loc.check_at("mul", fm.is(&r1, &want) && r1 == r2 && r1 == r3, || {
            format!("{}: {} * {} -> {} want {want}", fm.name, fm.show(&a), fm.show(&b), fm.show(&r1))
        });
        let v1 = a * &b;
        let v2 = a * &mut bm;
        let mut v3 = a;
        v3 *= b;
        let mut v4 = a;
        v4 *= &mut bm;
        loc.check_at("mul_variants", v1 == r1 && v2 == r1 && v3 == r1 && v4 == r1, || {
            format!("{}: {} * {} (a * &b, a * &mut b, a *= b, a *= &mut b) -> {} / {} / {} / {} want {want}", fm.name, fm.show(&a), fm.show(&b), fm.show(&v1), fm.show(&v2), fm.show(&v3), fm.show(&v4))
        });
        // --- div
        if !db.is_zero() {
            let want = (da * modinv(db, p).unwrap()) % p;
            let r1 = a / b;
            let mut r2 = a;
            r2 /= &b;
            let r3 = a.ref_div(&b);
            loc.check_at("div", fm.is(&r1, &want) && r1 == r2 && r1 == r3, || {
                format!("{}: {} / {} -> {} want {want}", fm.name, fm.show(&a), fm.show(&b), fm.show(&r1))
            });
            // (division by zero is documented to panic: nothing is demanded there)
            let v1 = a / &b;
            let v2 = a / &mut bm;
            let mut v3 = a;
            v3 /= b;
            let mut v4 = a;
            v4 /= &mut bm;
            loc.check_at("div_variants", v1 == r1 && v2 == r1 && v3 == r1 && v4 == r1, || {
                format!("{}: {} / {} (a / &b, a / &mut b, a /= b, a /= &mut b) -> {} / {} / {} / {} want {want}", fm.name, fm.show(&a), fm.show(&b), fm.show(&v1), fm.show(&v2), fm.show(&v3), fm.show(&v4))
            });
        }
        // --- Sum / Product over owned and borrowed items: [a, b, a]
        let want_s = (da + db + da) % p;
        let want_p = (da * db * da) % p;
        let s1: F = [a, b, a].into_iter().sum();
        let s2: F = [a, b, a].iter().sum();
        let p1: F = [a, b, a].into_iter().product();
        let p2: F = [a, b, a].iter().product();
        loc.check_at("sum_product_iter", fm.is(&s1, &want_s) && s2 == s1 && fm.is(&p1, &want_p) && p2 == p1, || {
            format!("{}: Sum/Product of [a, b, a] (owned / borrowed), a={} b={} -> sum {} / {} want {want_s}, product {} / {} want {want_p}", fm.name, fm.show(&a), fm.show(&b), fm.show(&s1), fm.show(&s2), fm.show(&p1), fm.show(&p2))
        });
        // --- sum_of_products M=2 with (a,b),(b,a) and M=1
        let want = (da * db * 2u32) % p;
        let r = F::sum_of_products(&[a, b], &[b, a]);
        loc.check_at("sum_of_products", fm.is(&r, &want), || format!("{}: sop2 a={} b={} -> {} want {want}", fm.name, fm.show(&a), fm.show(&b), fm.show(&r)));
        // --- equality/order are C19's job; here only that == agrees with the model
        loc.check_at("eq", (a == b) == (da == db), || format!("{}: == disagrees for {} vs {}", fm.name, fm.show(&a), fm.show(&b)));
    });
}

/// simulate the binary-Euclid inversion on integers to see whether `b + p`
/// overflows 2^(64N) at some halving step (model-only branch label)
fn inverse_has_carry(fm: &Fm, a_raw: &BigUint) -> bool {
    if fm.spare_bit {
        return false;
    }
    let one = BigUint::one();
    let p = &fm.p;
    let mut u = a_raw.clone();
    let mut v = p.clone();
    let mut b = (&fm.mont.r * &fm.mont.r) % p;
    let mut c = BigUint::zero();
    let mut hit = false;
    let mut guard = 0;
    while u != one && v != one {
        guard += 1;
        if guard > 4000 {
            break;
        }
        while !u.bit(0) {
            u >>= 1usize;
            if b.bit(0) {
                if &b + p >= fm.two64n {
                    hit = true;
                }
                b = (&b + p) >> 1usize;
            } else {
                b >>= 1usize;
            }
        }
        while !v.bit(0) {
            v >>= 1usize;
            if c.bit(0) {
                if &c + p >= fm.two64n {
                    hit = true;
                }
                c = (&c + p) >> 1usize;
            } else {
                c >>= 1usize;
            }
        }
        if v < u {
            u -= &v;
            b = modsub(&b, &c, p);
        } else {
            v -= &u;
            c = modsub(&c, &b, p);
        }
    }
    hit
}

fn unary_checks<F: FpAccess>(ctx: &mut Ctx, fm: &Fm, ops: &[Vec<u64>]) {
    let p = &fm.p;
    let n = fm.n;
    // exponents as limb slices
    let pm1 = p - 1u32;
    let mut exps: Vec<Vec<u64>> = vec![
        vec![0],
        vec![1],
        vec![2],
        vec![3],
        to_limbs(&((p + p - 2u32) % p), n),
        to_limbs(&pm1, n),
        to_limbs(p, n),
        vec![u64::MAX],
        vec![0, 1],
        vec![5, 0],
        vec![5, 0, 0],
        vec![],
    ];
    exps.dedup();
    let table_len = exps.iter().map(|e| from_limbs(e).bits() as usize).max().unwrap_or(0);
    ctx.sweep(&format!("unary/{}", fm.name), ops.len() as u64, |i, loc| {
        let l = &ops[i as usize];
        let a = F::from_raw(l);
        let da = fm.mont.decode(l);
        let ra = from_limbs(l);
        if loc.sampling() {
            loc.sample(format!("{}: a.raw={:x?} (={da})", fm.name, l));
        }
        // neg
        let want = modneg(&da, p);
        let r = -a;
        let mut r2 = a;
        r2.neg_in_place();
        loc.check_at("neg", fm.is(&r, &want) && r == r2, || format!("{}: -{} -> {}", fm.name, fm.show(&a), fm.show(&r)));
        // double
        loc.class_if(&ra + &ra >= fm.two64n, "double:carry_out");
        let want = (&da + &da) % p;
        let r = a.double();
        let mut r2 = a;
        r2.double_in_place();
        loc.check_at("double", fm.is(&r, &want) && r == r2, || format!("{}: double {} -> {} want {want}", fm.name, fm.show(&a), fm.show(&r)));
        // square
        loc.class_if(n == 1, "square:N1_path");
        if !fm.spare_bit && fm.cios_t(&ra, &ra) >= fm.two64n {
            loc.class("square:final_sub_with_carry");
            loc.class(if n == 1 { "square:final_sub_with_carry:N=1" } else { "square:final_sub_with_carry:N>=2" });
        }
        let want = (&da * &da) % p;
        let r = a.square();
        let mut r2 = a;
        r2.square_in_place();
        loc.check_at("square", fm.is(&r, &want) && r == r2, || format!("{}: square {} -> {} want {want}", fm.name, fm.show(&a), fm.show(&r)));
        // inverse
        if da.is_zero() {
            let mut t = a;
            loc.check_at("inverse", a.inverse().is_none() && t.inverse_in_place().is_none(), || format!("{}: inverse(0) should be None", fm.name));
        } else {
            loc.class_if(inverse_has_carry(fm, &ra), "inverse:b_halving_with_carry");
            let want = modinv(&da, p).unwrap();
            let r = a.inverse();
            let mut t = a;
            let ok2 = t.inverse_in_place().is_some();
            loc.check_at("inverse", r.map(|r| fm.is(&r, &want)).unwrap_or(false) && ok2 && Some(t) == r, || {
                format!("{}: inverse {} -> {:?} want {want}", fm.name, fm.show(&a), r.map(|r| fm.show(&r)))
            });
        }
        // pow
        let mut table: Vec<F> = Vec::with_capacity(table_len);
        let mut sq = da.clone();
        for _ in 0..table_len {
            table.push(fm.enc::<F>(&sq));
            sq = (&sq * &sq) % p;
        }
        for e in &exps {
            let eb = from_limbs(e);
            loc.class_if(e.len() > 1 && *e.last().unwrap() == 0, "pow:leading_zero_limb");
            let want = da.modpow(&eb, p);
            let r = a.pow(e);
            loc.check_at("pow", fm.is(&r, &want), || format!("{}: {} ^ {e:x?} -> {} want {want}", fm.name, fm.show(&a), fm.show(&r)));
            // pow_with_table over the model's table [a, a^2, a^4, ...] (as many entries as the exponent has bits)
            let nb = eb.bits() as usize;
            let r = F::pow_with_table(&table[..nb], e);
            loc.check_at("pow_with_table", r.map(|r| fm.is(&r, &want)).unwrap_or(false), || {
                format!("{}: pow_with_table([a^(2^i); {nb}], {e:x?}), a={} -> {:?} want {want}", fm.name, fm.show(&a), r.map(|r| fm.show(&r)))
            });
            if nb > 0 {
                // the top power is missing: documented to be None; a right value is accepted too, a wrong one never
                loc.class("pow_with_table:missing_power");
                let r = F::pow_with_table(&table[..nb - 1], e);
                loc.check_at("pow_with_table", r.map(|r| fm.is(&r, &want)).unwrap_or(true), || {
                    format!("{}: pow_with_table(table one entry short, {e:x?}), a={} -> {:?}, neither None nor {want}", fm.name, fm.show(&a), r.map(|r| fm.show(&r)))
                });
            }
        }
        // into_bigint / from_bigint
        let bi = a.into_bigint();
        loc.check_at("into_bigint", from_limbs(bi.as_ref()) == da, || format!("{}: into_bigint {} -> {:?}", fm.name, fm.show(&a), bi));
        let back = F::from_bigint(bi);
        loc.check_at("from_bigint", back == Some(a), || format!("{}: from_bigint(into_bigint(a)) != a for {}", fm.name, fm.show(&a)));
        // strings / BigUint
        let s = format!("{a}");
        loc.check_at("display", s == da.to_str_radix(10), || format!("{}: Display {} -> {s}", fm.name, fm.show(&a)));
        loc.check_at("from_str", F::from_str(&s).ok() == Some(a), || format!("{}: FromStr({s}) != a", fm.name));
        let bu: BigUint = a.into();
        loc.check_at("biguint", bu == da && F::from(da.clone()) == a, || format!("{}: BigUint round trip of {}", fm.name, fm.show(&a)));
        // predicates, frobenius (identity on prime fields)
        loc.check_at("predicates", a.is_zero() == da.is_zero() && a.is_one() == da.is_one(), || format!("{}: is_zero/is_one on {}", fm.name, fm.show(&a)));
        let mut f = a;
        f.frobenius_map_in_place(1);
        loc.check_at("frobenius", f == a && (0..3).all(|k| a.frobenius_map(k) == a), || format!("{}: frobenius changed {}", fm.name, fm.show(&a)));
        // single-element sop, sum, product
        let r = F::sum_of_products(&[a], &[a]);
        loc.check_at("sum_of_products", fm.is(&r, &((&da * &da) % p)), || format!("{}: sop1 {} -> {}", fm.name, fm.show(&a), fm.show(&r)));
        let s3: F = [a, a, a].iter().sum();
        let p3: F = [a, a, a].iter().product();
        loc.check_at("sum_product_iter", fm.is(&s3, &((&da * 3u32) % p)) && fm.is(&p3, &da.modpow(&BigUint::from(3u32), p)), || {
            format!("{}: Sum/Product of [a;3], a={}", fm.name, fm.show(&a))
        });
    });
}

fn sop_m<F: FpAccess, const M: usize>(loc: &mut Loc, fm: &Fm, av: &[F], dv: &[BigUint], idx_a: &[usize], idx_b: &[usize]) {
    let a: [F; M] = core::array::from_fn(|k| av[idx_a[k]]);
    let b: [F; M] = core::array::from_fn(|k| av[idx_b[k]]);
    let mut want = BigUint::zero();
    for k in 0..M {
        want += &dv[idx_a[k]] * &dv[idx_b[k]];
    }
    want %= &fm.p;
    let chunk = if fm.bits >= 64 * fm.n - 1 { 0 } else { 2 * (fm.n * 64 - fm.bits) - 1 };
    loc.class_if(M == 0, "sop:M=0");
    loc.class_if(chunk != 0 && M == chunk, "sop:M=chunk_exactly");
    loc.class_if(chunk != 0 && M == chunk + 1, "sop:M=chunk+1");
    if chunk == 0 {
        loc.class("sop:fallback");
    } else if M == 2 {
        loc.class("sop:M2_path");
    } else if M > chunk {
        loc.class("sop:chunked");
    } else {
        loc.class("sop:single_chunk");
    }
    let r = F::sum_of_products(&a, &b);
    loc.check_at("sum_of_products", fm.is(&r, &want), || {
        format!("{}: sum_of_products::<{M}> a_idx={idx_a:?} b_idx={idx_b:?} (alphabet values {:?}) -> {} want {want}", fm.name, dv, fm.show(&r))
    });
}

fn sop_checks<F: FpAccess>(ctx: &mut Ctx, fm: &Fm) {
    let p = &fm.p;
    // 6-value alphabet
    let vals: Vec<BigUint> = vec![BigUint::zero(), BigUint::one(), p - 1u32, (p - 1u32) >> 1usize, BigUint::from(GENERIC64) % p, fm.mont.r.clone()];
    let av: Vec<F> = vals.iter().map(|v| fm.enc::<F>(v)).collect();
    // M <= 3: all tuples
    for m in 1..=3usize {
        let total = 6u64.pow(2 * m as u32);
        ctx.sweep(&format!("sop_all/{}/M={m}", fm.name), total, |i, loc| {
            let d = unrank_vec(i, &vec![6u64; 2 * m]);
            let ia: Vec<usize> = d[..m].iter().map(|x| *x as usize).collect();
            let ib: Vec<usize> = d[m..].iter().map(|x| *x as usize).collect();
            match m {
                1 => sop_m::<F, 1>(loc, fm, &av, &vals, &ia, &ib),
                2 => sop_m::<F, 2>(loc, fm, &av, &vals, &ia, &ib),
                _ => sop_m::<F, 3>(loc, fm, &av, &vals, &ia, &ib),
            }
        });
    }
    // larger M: deviation <= 1 (pairs position,value) over base patterns
    macro_rules! big_m {
        ($($M:expr),*) => {$(
            sop_dev1::<F, $M>(ctx, fm, &av, &vals, "sop_dev1");
        )*};
    }
    big_m!(4, 5, 6, 7, 8, 11, 12, 16, 33, 200, 230);
}
const SOP_BIG_M: [usize; 11] = [4, 5, 6, 7, 8, 11, 12, 16, 33, 200, 230];

/// cases: base pattern x (no deviation | position x side x value); M = 0 has the single case of two empty arrays
fn sop_dev1_cases<const M: usize>() -> u64 {
    if M == 0 {
        1
    } else {
        4 * (1 + M as u64 * 2 * 6)
    }
}
const SOP_BASES: [(usize, usize); 4] = [(2, 2), (1, 1), (2, 4), (4, 2)];
fn sop_dev1_case<F: FpAccess, const M: usize>(loc: &mut Loc, fm: &Fm, av: &[F], vals: &[BigUint], i: u64) {
    let per_base = 1 + M as u64 * 2 * 6;
    let [ib, r] = unrank(i, [4, per_base]);
    let (ba, bb) = SOP_BASES[ib as usize];
    let mut ia = vec![ba; M];
    let mut ibv = vec![bb; M];
    if r > 0 {
        let [pos, side, val] = unrank(r - 1, [M as u64, 2, 6]);
        if side == 0 {
            ia[pos as usize] = val as usize
        } else {
            ibv[pos as usize] = val as usize
        }
    }
    sop_m::<F, M>(loc, fm, av, vals, &ia, &ibv);
}
fn sop_dev1<F: FpAccess, const M: usize>(ctx: &mut Ctx, fm: &Fm, av: &[F], vals: &[BigUint], sweep: &str) {
    ctx.sweep(&format!("{sweep}/{}/M={}", fm.name, M), sop_dev1_cases::<M>(), |i, loc| sop_dev1_case::<F, M>(loc, fm, av, vals, i));
}

/// the chunk size of the library's sum_of_products for a modulus of `bits` bits in `n` limbs (0: no chunking, plain fallback)
const fn sop_chunk(n: usize, bits: usize) -> usize {
    if bits >= 64 * n - 1 {
        0
    } else {
        2 * (n * 64 - bits) - 1
    }
}

/// M = 0, M = the chunk size exactly and M = chunk size + 1 in ONE sweep per field (C and C1 are computed per field at
/// the call site, from the field's own constants; the class labels in `sop_m` come from the model's bit length);
/// lengths already swept by sop_all / sop_dev1 are not visited twice
fn sop_chunk_edges<F: FpAccess, const C: usize, const C1: usize>(ctx: &mut Ctx, name: &str) {
    let fm = Fm::new::<F>(name);
    let p = &fm.p;
    let vals: Vec<BigUint> = vec![BigUint::zero(), BigUint::one(), p - 1u32, (p - 1u32) >> 1usize, BigUint::from(GENERIC64) % p, fm.mont.r.clone()];
    let av: Vec<F> = vals.iter().map(|v| fm.enc::<F>(v)).collect();
    let n0 = sop_dev1_cases::<0>();
    let nc = if C > 3 && !SOP_BIG_M.contains(&C) { sop_dev1_cases::<C>() } else { 0 };
    let nc1 = if C > 3 && !SOP_BIG_M.contains(&C1) { sop_dev1_cases::<C1>() } else { 0 };
    ctx.sweep(&format!("sop_edge/{}/M=0,{C},{C1}", fm.name), n0 + nc + nc1, |i, loc| {
        if i < n0 {
            sop_dev1_case::<F, 0>(loc, &fm, &av, &vals, i)
        } else if i < n0 + nc {
            sop_dev1_case::<F, C>(loc, &fm, &av, &vals, i - n0)
        } else {
            sop_dev1_case::<F, C1>(loc, &fm, &av, &vals, i - n0 - nc)
        }
    });
}

fn batch_inv_checks<F: FpAccess>(ctx: &mut Ctx, fm: &Fm) {
    let p = &fm.p;
    let vals: Vec<BigUint> = vec![BigUint::zero(), BigUint::one(), BigUint::from(2u32) % p, p - 1u32, BigUint::from(GENERIC64) % p];
    let av: Vec<F> = vals.iter().map(|v| fm.enc::<F>(v)).collect();
    let mut cases: Vec<Vec<usize>> = Vec::new();
    for len in 0..=4usize {
        for i in 0..5u64.pow(len as u32) {
            cases.push(unrank_vec(i, &vec![5u64; len]).iter().map(|x| *x as usize).collect());
        }
    }
    ctx.sweep(&format!("batch_inversion/{}", fm.name), cases.len() as u64 * 2, |i, loc| {
        let [ic, ik] = unrank(i, [cases.len() as u64, 2]);
        let idx = &cases[ic as usize];
        let coeff_d = if ik == 0 { BigUint::one() } else { BigUint::from(GENERIC64) % p };
        let coeff = fm.enc::<F>(&coeff_d);
        let mut v: Vec<F> = idx.iter().map(|k| av[*k]).collect();
        loc.class_if(idx.iter().any(|k| *k == 0), "batch:zero_in_batch");
        loc.class_if(idx.is_empty(), "batch:empty");
        if ik == 0 {
            batch_inversion(&mut v);
        } else {
            batch_inversion_and_mul(&mut v, &coeff);
        }
        let mut ok = true;
        for (k, x) in idx.iter().enumerate() {
            let want = if vals[*x].is_zero() { BigUint::zero() } else { (modinv(&vals[*x], p).unwrap() * &coeff_d) % p };
            ok &= fm.is(&v[k], &want);
        }
        loc.check_at("batch_inversion", ok, || format!("{}: batch_inversion_and_mul(values idx {idx:?} of {vals:?}, coeff {coeff_d}) -> {:?}", fm.name, v.iter().map(|x| fm.show(x)).collect::<Vec<_>>()));
    });
}

fn conversion_checks<F: FpAccess>(ctx: &mut Ctx, fm: &Fm, all_short_bytes: bool) {
    let p = &fm.p;
    let n = fm.n;
    // from_bigint boundary
    let name = fm.name.clone();
    ctx.sweep(&format!("conv_int/{}", fm.name), 1, |_, loc| {
        let cands: Vec<BigUint> = vec![BigUint::zero(), BigUint::one(), p - 1u32, p.clone(), p + 1u32, &fm.two64n - 1u32];
        for c in cands {
            if c >= fm.two64n {
                continue;
            }
            let bi = <F::BigInt as TryFrom<BigUint>>::try_from(c.clone()).ok().unwrap();
            let r = F::from_bigint(bi);
            if c < *p {
                loc.check_at("from_bigint", r.map(|r| fm.is(&r, &c)).unwrap_or(false), || format!("{name}: from_bigint({c}) -> {:?}", r.map(|r| fm.show(&r))));
            } else {
                loc.class("from_bigint:>=p_rejected");
                loc.check_at("from_bigint", r.is_none(), || format!("{name}: from_bigint({c}) should be None (>= p)"));
            }
        }
        macro_rules! prim_u {
            ($t:ty) => {
                for v in [0 as $t, 1, 2, <$t>::MAX, <$t>::MAX - 1, <$t>::MAX / 2, <$t>::MAX / 2 + 1] {
                    let r = F::from(v);
                    let want = BigUint::from(v) % p;
                    loc.check_at("from_primitive", fm.is(&r, &want), || format!("{name}: From<{}>({v}) -> {} want {want}", stringify!($t), fm.show(&r)));
                }
            };
        }
        macro_rules! prim_i {
            ($t:ty) => {
                for v in [0 as $t, 1, -1, 2, -2, <$t>::MAX, <$t>::MIN, <$t>::MIN + 1, <$t>::MAX - 1] {
                    let r = F::from(v);
                    let mag = BigUint::from(v.unsigned_abs()) % p;
                    let want = if v < 0 { modneg(&mag, p) } else { mag };
                    loc.check_at("from_primitive", fm.is(&r, &want), || format!("{name}: From<{}>({v}) -> {} want {want}", stringify!($t), fm.show(&r)));
                }
            };
        }
        prim_u!(u8);
        prim_u!(u16);
        prim_u!(u32);
        prim_u!(u64);
        prim_u!(u128);
        prim_i!(i8);
        prim_i!(i16);
        prim_i!(i32);
        prim_i!(i64);
        prim_i!(i128);
        for v in [false, true] {
            let r = F::from(v);
            loc.check_at("from_primitive", fm.is(&r, &(BigUint::from(v as u8) % p)), || format!("{name}: From<bool>({v})"));
        }
        // decimal strings
        let ints: Vec<BigUint> = vec![BigUint::zero(), BigUint::one(), p - 1u32, p.clone(), p + 1u32, p * 2u32 - 1u32, &fm.two64n - 1u32, fm.two64n.clone(), &fm.two64n * &fm.two64n + 7u32];
        for v in ints {
            let s = v.to_str_radix(10);
            let r = F::from_str(&s).ok();
            let want = &v % p;
            loc.check_at("from_str", r.map(|r| fm.is(&r, &want)).unwrap_or(false), || format!("{name}: FromStr({s}) -> {:?} want {want}", r.map(|r| fm.show(&r))));
            if !v.is_zero() {
                let s = format!("-{s}");
                let r = F::from_str(&s).ok();
                let want = modneg(&want, p);
                loc.class("from_str:negative");
                // a leading minus sign is not promised by the rustdoc ("a string of numbers"): rejection or p - v, never another value
                loc.class_if(r.is_some(), "observed:from_str_negative_accepted");
                loc.check_at("from_str", r.map(|r| fm.is(&r, &want)).unwrap_or(true), || format!("{name}: FromStr({s}) -> {:?}, neither rejected nor {want}", r.map(|r| fm.show(&r))));
            }
        }
        // Sum / Product of nothing
        let (es, ep): (F, F) = (Vec::<F>::new().into_iter().sum(), Vec::<F>::new().into_iter().product());
        let (es2, ep2): (F, F) = (Vec::<F>::new().iter().sum(), Vec::<F>::new().iter().product());
        loc.check_at("sum_product_iter", fm.is(&es, &BigUint::zero()) && es2 == es && fm.is(&ep, &(BigUint::one() % p)) && ep2 == ep, || format!("{name}: empty Sum / Product -> {} / {}", fm.show(&es), fm.show(&ep)));
        loc.check_at("from_str", F::from_str("").is_err() && F::from_str("x").is_err() && F::from_str("1x").is_err(), || format!("{name}: FromStr accepts garbage"));
        // characteristic
        loc.check_at("characteristic", from_limbs(F::characteristic()) == *p && F::MODULUS_BIT_SIZE as usize == fm.bits, || format!("{name}: characteristic / MODULUS_BIT_SIZE"));
    });
    // byte strings
    let modbytes = (fm.bits + 7) / 8;
    let mut strings: Vec<Vec<u8>> = vec![vec![]];
    for b in 0..=255u8 {
        strings.push(vec![b]);
    }
    if all_short_bytes {
        for a in 0..=255u8 {
            for b in 0..=255u8 {
                strings.push(vec![a, b]);
            }
        }
    }
    let balpha = [0x00u8, 0x01, 0x7f, 0x80, 0xff];
    let mut lens = vec![modbytes.saturating_sub(1), modbytes, modbytes + 1, 2 * modbytes, 8 * n, 8 * n + 1, 64, 65];
    lens.sort();
    lens.dedup();
    for len in lens {
        if len == 0 {
            continue;
        }
        for base in [0x00u8, 0xff] {
            // dev <= 2 but only on boundary positions to keep the set small
            let mut pos: Vec<usize> = vec![0, 1, len / 2, len.saturating_sub(2), len - 1, modbytes.saturating_sub(1).min(len - 1), modbytes.min(len - 1)];
            pos.retain(|x| *x < len);
            pos.sort();
            pos.dedup();
            strings.push(vec![base; len]);
            for (k, p1) in pos.iter().enumerate() {
                for a in balpha {
                    let mut s = vec![base; len];
                    s[*p1] = a;
                    strings.push(s.clone());
                    for p2 in pos.iter().skip(k + 1) {
                        for b in [0x01u8, 0x80, 0xff] {
                            let mut t = s.clone();
                            t[*p2] = b;
                            strings.push(t);
                        }
                    }
                }
            }
        }
    }
    let strings = dedup_sorted(strings);
    ctx.sweep(&format!("conv_bytes/{}", fm.name), strings.len() as u64, |i, loc| {
        let s = &strings[i as usize];
        loc.class_if(s.len() > modbytes, "from_bytes:longer_than_modulus");
        let want_le = BigUint::from_bytes_le(s) % p;
        let want_be = BigUint::from_bytes_be(s) % p;
        let r = F::from_le_bytes_mod_order(s);
        loc.check_at("from_le_bytes_mod_order", fm.is(&r, &want_le), || format!("{}: from_le_bytes_mod_order({s:x?}) -> {} want {want_le}", fm.name, fm.show(&r)));
        let r = F::from_be_bytes_mod_order(s);
        loc.check_at("from_be_bytes_mod_order", fm.is(&r, &want_be), || format!("{}: from_be_bytes_mod_order({s:x?}) -> {} want {want_be}", fm.name, fm.show(&r)));
        if loc.sampling() {
            loc.sample(format!("{}: bytes {s:x?}", fm.name));
        }
    });
}

/// S: stateright over in-place operation sequences
fn seq_checks<F: FpAccess>(ctx: &mut Ctx, name: &str, depth: u8) {
    let fm = std::sync::Arc::new(Fm::new::<F>(name));
    let p = fm.p.clone();
    let alpha: Vec<BigUint> = vec![BigUint::one(), &p - 1u32, (&p - 1u32) >> 1usize, BigUint::from(GENERIC64) % &p];
    let alpha_f: Vec<Vec<u64>> = alpha.iter().map(|v| fm.mont.encode(v)).collect();
    let init: Vec<(Vec<u64>, BigUint)> = vec![(fm.mont.encode(&BigUint::zero()), BigUint::zero()), (fm.mont.encode(&(&p - 1u32)), &p - 1u32)];
    let n_actions = 3 * alpha.len() + 5;
    let an = alpha.len();
    let fm2 = fm.clone();
    let action_name = move |a: usize| -> String {
        if a < 3 * an {
            format!("{}{}", ["+=", "-=", "*="][a / an], ["1", "p-1", "(p-1)/2", "g64"][a % an])
        } else {
            ["double_in_place", "square_in_place", "neg_in_place", "inverse_in_place", "frobenius"][a - 3 * an].to_string()
        }
    };
    let step = move |s: &(Vec<u64>, BigUint), a: usize| -> Result<Option<(Vec<u64>, BigUint)>, String> {
        let fm = &fm2;
        let p = &fm.p;
        let mut x = F::from_raw(&s.0);
        let mut m = s.1.clone();
        if a < 3 * an {
            let y = F::from_raw(&alpha_f[a % an]);
            let ym = &alpha[a % an];
            match a / an {
                0 => {
                    x += &y;
                    m = (m + ym) % p;
                }
                1 => {
                    x -= &y;
                    m = modsub(&m, ym, p);
                }
                _ => {
                    x *= &y;
                    m = (m * ym) % p;
                }
            }
        } else {
            match a - 3 * an {
                0 => {
                    x.double_in_place();
                    m = (&m + &m) % p;
                }
                1 => {
                    x.square_in_place();
                    m = (&m * &m) % p;
                }
                2 => {
                    x.neg_in_place();
                    m = modneg(&m, p);
                }
                3 => {
                    if m.is_zero() {
                        if x.inverse_in_place().is_some() {
                            return Err("inverse_in_place(0) returned Some".into());
                        }
                        return Ok(None);
                    }
                    if x.inverse_in_place().is_none() {
                        return Err("inverse_in_place(nonzero) returned None".into());
                    }
                    m = modinv(&m, p).unwrap();
                }
                _ => {
                    x.frobenius_map_in_place(1);
                }
            }
        }
        if !fm.is(&x, &m) {
            return Err(format!("{}: impl {} but model {m}", fm.name, fm.show(&x)));
        }
        Ok(Some((x.raw(), m)))
    };
    run_seq(ctx, &format!("seq/{name}"), init, n_actions, depth, action_name, step);
}

fn tiny_universe<F: FpAccess>(ctx: &mut Ctx, name: &str, seen: &Mutex<BTreeSet<String>>) {
    let fm = Fm::new::<F>(name);
    let pu = fm.p.to_u64_digits()[0];
    let _ = seen;
    // all elements as Montgomery encodings of 0..p (for p <= 257), a stride subset otherwise
    let all: Vec<Vec<u64>> = (0..pu).map(|x| fm.mont.encode(&BigUint::from(x))).collect();
    if pu <= 257 {
        binary_checks::<F>(ctx, &fm, &all, "all_pairs");
        unary_checks::<F>(ctx, &fm, &all);
    } else {
        unary_checks::<F>(ctx, &fm, &all);
        let want = ctx.t(256u64, 2048);
        let stride = (pu / want).max(1);
        let mut sub: Vec<Vec<u64>> = (0..pu).step_by(stride as usize).map(|x| fm.mont.encode(&BigUint::from(x))).collect();
        sub.push(fm.mont.encode(&BigUint::from(pu - 1)));
        sub.push(fm.mont.encode(&BigUint::from(pu - 2)));
        binary_checks::<F>(ctx, &fm, &sub, "stride_pairs");
    }
    // raw-limb operands too (tiny p in a 64-bit limb: plenty of spare bits)
    let ops = operands(&fm, 2);
    binary_checks::<F>(ctx, &fm, &ops, "raw_alphabet");
    sop_checks::<F>(ctx, &fm);
    batch_inv_checks::<F>(ctx, &fm);
    conversion_checks::<F>(ctx, &fm, ctx.thorough() || pu <= 17);
}

fn alphabet_field<F: FpAccess>(ctx: &mut Ctx, name: &str, seen: &Mutex<BTreeSet<String>>, dedupe: bool) -> bool {
    let fm = Fm::new::<F>(name);
    if dedupe && !seen.lock().unwrap().insert(fm.p.to_str_radix(16)) {
        return false; // same modulus re-exported under another name
    }
    let dev = if ctx.quick() && fm.n >= 3 { 1 } else { 2 };
    let ops = operands(&fm, dev);
    binary_checks::<F>(ctx, &fm, &ops, &format!("dev{dev}"));
    unary_checks::<F>(ctx, &fm, &ops);
    sop_checks::<F>(ctx, &fm);
    batch_inv_checks::<F>(ctx, &fm);
    conversion_checks::<F>(ctx, &fm, false);
    true
}

/// sum_of_products lengths at the field's own chunk boundary (const generics: computed per concrete field type)
macro_rules! sop_edges {
    ($F:ty, $name:expr, $ctx:expr) => {{
        const C: usize = sop_chunk(<$F as FpAccess>::NLIMBS, <$F as PrimeField>::MODULUS_BIT_SIZE as usize);
        sop_chunk_edges::<$F, C, { C + 1 }>($ctx, $name);
    }};
}
macro_rules! tiny {
    ($F:ty, $n:expr, $name:expr, $ctx:expr, $seen:expr) => {
        tiny_universe::<$F>($ctx, $name, $seen);
        sop_edges!($F, $name, $ctx);
    };
}
macro_rules! big {
    ($F:ty, $n:expr, $name:expr, $ctx:expr, $seen:expr) => {
        alphabet_field::<$F>($ctx, $name, $seen, false);
        sop_edges!($F, $name, $ctx);
    };
}
macro_rules! shipped {
    ($F:ty, $name:expr, $ctx:expr, $seen:expr) => {
        if alphabet_field::<$F>($ctx, $name, $seen, true) {
            sop_edges!($F, $name, $ctx);
        }
    };
}

fn main() {
    let mut ctx = Ctx::from_args("C01");
    ctx.require(&[
        "add:carry_out",
        "add:sum>=p_no_carry",
        "sub:borrow",
        "double:carry_out",
        "mul:final_sub_with_carry",
        "mul:no_carry_path",
        "mul:cios_path",
        "square:N1_path",
        "square:final_sub_with_carry",
        "inverse:b_halving_with_carry",
        "sop:chunked",
        "sop:M=0",
        "sop:M=chunk_exactly",
        "sop:M=chunk+1",
        "mul:final_sub_with_carry:N=1",
        "mul:final_sub_with_carry:N>=2",
        "square:final_sub_with_carry:N=1",
        "square:final_sub_with_carry:N>=2",
        "pow_with_table:missing_power",
        "sop:fallback",
        "sop:M2_path",
        "from_bytes:longer_than_modulus",
        "batch:zero_in_batch",
        "pow:leading_zero_limb",
    ]);
    ctx.assume("oracle: num-bigint modular arithmetic; results are observed as raw Montgomery limbs decoded with limbs*R^-1 mod p computed by the oracle, never through the library's into_bigint");
    ctx.bound("tiny_universe", "all p^2 ordered pairs for p<=257; all elements (unary) and stride-subset pairs for larger tiny p");
    ctx.bound("alphabet", "raw Montgomery limbs: deviation<=2 (quick: <=1 for N>=3) over bases {0..0, f..f, p, p-1} with L10 (N<=3) / L4+generic (N<=8) / {0,1,max} (N>=9), top-limb extras around p's top limb, canonical integers; all ordered pairs");
    ctx.bound("sum_of_products_lengths", "M<=3: all tuples over a 6-value alphabet; M in {4,5,6,7,8,11,12,16,33,200,230} and, per field, M = 0, M = chunk size and M = chunk size + 1 of that field: deviation<=1 over 4 base patterns");
    ctx.bound("operator_impls", "every pair goes through a op b, a op &b, &a op &b, a op &mut b, a op= b, a op= &b, a op= &mut b for op in + - * /, and Sum/Product over owned and borrowed items");
    let seen = Mutex::new(BTreeSet::new());
    algebra_mc::tiny_fields_derived!(tiny, &mut ctx, &seen);
    algebra_mc::tiny_fields_hand!(tiny, &mut ctx, &seen);
    algebra_mc::big_fields_derived!(big, &mut ctx, &seen);
    algebra_mc::big_fields_hand!(big, &mut ctx, &seen);
    algebra_mc::shipped_prime_fields!(shipped, &mut ctx, &seen);
    // S
    use algebra_mc::toy::gen_fields::*;
    let d = ctx.t(3u8, 5u8);
    seq_checks::<D7>(&mut ctx, "D7", d + 1);
    seq_checks::<H7>(&mut ctx, "H7", d + 1);
    seq_checks::<DP64>(&mut ctx, "DP64", d);
    seq_checks::<HP64>(&mut ctx, "HP64", d);
    seq_checks::<DM127>(&mut ctx, "DM127", d);
    seq_checks::<HM127>(&mut ctx, "HM127", d);
    seq_checks::<ark_secp256k1::Fq>(&mut ctx, "secp256k1::Fq", d);
    std::process::exit(ctx.finish());
}
