//! C03 - curve point operations realise the elliptic-curve group law.
//!
//! E: every toy short-Weierstrass / twisted-Edwards curve, all ordered pairs of points in every
//!    coordinate representation, every operator impl, against the textbook affine law on u64.
//! A: every shipped SW / TE configuration, alphabet of special points x Z-rescalings, against the
//!    affine law written generically over `F: Field` (add/sub/mul/inverse only).
//! S: stateright exploration of in-place operation sequences on raw projective coordinates.
#![allow(clippy::all, non_camel_case_types)]
use algebra_mc::core::*;
use algebra_mc::refmodel::curve::{GroupTable, Pt, SwModel, TeModel};
use algebra_mc::refmodel::fieldmodel::{prime_to_u64, FieldModel, Fp2Model, PrimeModel};
use algebra_mc::refmodel::zmod::from_limbs;
use algebra_mc::seq::run_seq;
use algebra_mc::toy::gen_curves::{SwA0P103B3, TeP101};
use algebra_mc::toy::gen_fields::{D13, D29, D43, D61, D7};
use algebra_mc::toycurve::{SwToy, TeToy};
use ark_ec::hashing::curve_maps::wb::WBConfig;
use ark_ec::short_weierstrass::{self as sw, SWCurveConfig};
use ark_ec::twisted_edwards::{self as te, TECurveConfig};
use ark_ec::{AdditiveGroup, AffineRepr, CurveConfig, CurveGroup, PrimeGroup, ScalarMul};
use ark_ff::{Field, Fp2, Fp2Config, Fp3, Fp3Config, MontFp, PrimeField};
use ark_std::Zero;
use num_bigint::BigUint;
use std::marker::PhantomData;
use std::sync::Arc;

// =====================================================================================================
// small helpers
// =====================================================================================================

/// tag of one projective representation of a point
#[derive(Clone, Copy, Debug)]
pub struct Tag {
    pub z_one: bool,
    /// identity in a non-canonical form (SW: (x,y,0) != (1,1,0); TE: (0,z,0,z) with z != 1)
    pub noncanon_id: bool,
}

pub trait Raw {
    fn raw(&self) -> String;
}
impl<P: SWCurveConfig> Raw for sw::Projective<P> {
    fn raw(&self) -> String {
        format!("(X={}, Y={}, Z={})", self.x, self.y, self.z)
    }
}
impl<P: SWCurveConfig> Raw for sw::Affine<P> {
    fn raw(&self) -> String {
        format!("(x={}, y={}, infinity={})", self.x, self.y, self.infinity)
    }
}
impl<P: TECurveConfig> Raw for te::Projective<P> {
    fn raw(&self) -> String {
        format!("(X={}, Y={}, T={}, Z={})", self.x, self.y, self.t, self.z)
    }
}
impl<P: TECurveConfig> Raw for te::Affine<P> {
    fn raw(&self) -> String {
        format!("(x={}, y={})", self.x, self.y)
    }
}

/// every way the API offers to construct the identity, the (undocumented) `Default` value, the checked
/// constructor applied to the coordinates of an existing value and the fixed generator
pub trait Ctors: Sized {
    fn identities() -> Vec<(&'static str, Self)>;
    /// `Default::default()`: no rustdoc says what it is, so it is observed (class), not judged
    fn default_value() -> Self;
    /// the checked constructor (`new`) on the coordinates of `self` (asserts curve + subgroup membership)
    fn checked(&self) -> Self;
    fn fixed_generator() -> Self;
}
impl<P: SWCurveConfig> Ctors for sw::Projective<P> {
    fn identities() -> Vec<(&'static str, Self)> {
        vec![("Projective::zero()", <Self as Zero>::zero()), ("Projective::ZERO", <Self as AdditiveGroup>::ZERO)]
    }
    fn default_value() -> Self {
        Self::default()
    }
    fn checked(&self) -> Self {
        Self::new(self.x, self.y, self.z)
    }
    fn fixed_generator() -> Self {
        <Self as PrimeGroup>::generator()
    }
}
impl<P: SWCurveConfig> Ctors for sw::Affine<P> {
    fn identities() -> Vec<(&'static str, Self)> {
        vec![("Affine::identity()", Self::identity()), ("Affine::zero()", <Self as AffineRepr>::zero())]
    }
    fn default_value() -> Self {
        Self::default()
    }
    fn checked(&self) -> Self {
        Self::new(self.x, self.y)
    }
    fn fixed_generator() -> Self {
        <Self as AffineRepr>::generator()
    }
}
impl<P: TECurveConfig> Ctors for te::Projective<P> {
    fn identities() -> Vec<(&'static str, Self)> {
        vec![("Projective::zero()", <Self as Zero>::zero()), ("Projective::ZERO", <Self as AdditiveGroup>::ZERO)]
    }
    fn default_value() -> Self {
        Self::default()
    }
    fn checked(&self) -> Self {
        Self::new(self.x, self.y, self.t, self.z)
    }
    fn fixed_generator() -> Self {
        <Self as PrimeGroup>::generator()
    }
}
impl<P: TECurveConfig> Ctors for te::Affine<P> {
    fn identities() -> Vec<(&'static str, Self)> {
        vec![("Affine::zero() (inherent)", Self::zero()), ("AffineRepr::zero()", <Self as AffineRepr>::zero())]
    }
    fn default_value() -> Self {
        Self::default()
    }
    fn checked(&self) -> Self {
        Self::new(self.x, self.y)
    }
    fn fixed_generator() -> Self {
        <Self as AffineRepr>::generator()
    }
}
/// run a library call whose panic is a result of THIS call site (not of the whole case)
pub fn guarded<T>(f: impl FnOnce() -> T) -> Result<T, String> {
    std::panic::catch_unwind(std::panic::AssertUnwindSafe(f)).map_err(|p| {
        let at = LAST_PANIC_LOC.with(|c| c.borrow().clone());
        let m = p.downcast_ref::<&str>().map(|s| s.to_string()).or_else(|| p.downcast_ref::<String>().cloned()).unwrap_or_default();
        format!("panic at {at}: {m}")
    })
}

fn wanted(ctx: &Ctx, name: &str) -> bool {
    if let Some((c, _)) = &ctx.replay {
        if c != name {
            return false;
        }
    }
    if let Some(o) = &ctx.only {
        if !name.contains(o.as_str()) {
            return false;
        }
    }
    true
}
const SUFFIXES: [&str; 5] = ["pairs", "unary", "sum", "normalize_batch", "normalize_batch_large"];
fn wanted_prefix(ctx: &Ctx, prefix: &str) -> bool {
    SUFFIXES.iter().any(|s| wanted(ctx, &format!("{prefix}/{s}")))
}

/// every vector over {0, 1, 2} of each length in lo..=hi (entry kinds of the mixed batches of `batch`)
fn kind_patterns(lo: u32, hi: u32) -> Vec<Vec<u8>> {
    let mut out = Vec::new();
    for len in lo..=hi {
        for mut i in 0..3u64.pow(len) {
            out.push(
                (0..len)
                    .map(|_| {
                        let d = (i % 3) as u8;
                        i /= 3;
                        d
                    })
                    .collect(),
            );
        }
    }
    out
}
/// shipped curves (one SW, one TE) that also get the long normalize_batch inputs, and the lengths
const LARGE_BATCH_CURVES: [&str; 2] = ["bls12_381/g1", "ed_on_bls12_381/jubjub"];
const LARGE_BATCH_LENS: [usize; 5] = [1023, 1024, 1025, 2049, 3000];
/// the fixed mixed batches used on every shipped curve (lengths 5..=9)
fn ship_patterns() -> Vec<Vec<u8>> {
    vec![
        vec![2, 0, 1, 2, 0],
        vec![0, 0, 2, 1, 2, 0],
        vec![1, 2, 0, 0, 2, 1, 2],
        vec![2, 2, 1, 0, 2, 1, 2, 0],
        vec![0, 2, 2, 1, 0, 2, 1, 2, 0],
        vec![2, 1, 2, 2, 1, 2, 2, 1, 2],
        vec![0, 0, 0, 0, 0, 0, 2, 0, 0],
    ]
}
/// number of vectors of length 0..=maxlen over s symbols
fn vec_count(s: u64, maxlen: u32) -> u64 {
    (0..=maxlen).map(|k| s.pow(k)).sum()
}
/// idx -> vector (shortest first)
fn vec_unrank(mut idx: u64, s: u64) -> Vec<usize> {
    let mut len = 0;
    let mut block = 1u64;
    while idx >= block {
        idx -= block;
        block *= s;
        len += 1;
    }
    (0..len)
        .map(|_| {
            let d = idx % s;
            idx /= s;
            d as usize
        })
        .collect()
}

// =====================================================================================================
// the engine: identical for both curve models (instantiated twice by macro because the operator impls
// on `&Projective` are not implied by any trait bound)
// =====================================================================================================
macro_rules! engine {
    ($modname:ident, $m:ident, $Cfg:ident, $is_sw:expr) => {
        pub mod $modname {
            use super::*;
            pub use ark_ec::$m::{Affine, Projective, $Cfg as Cfg};
            pub const IS_SW: bool = $is_sw;

            /// the reference model of one curve, plus the bridge to library values
            pub trait Or<P: Cfg>: Sync {
                type Pt: Clone + PartialEq + std::fmt::Debug + Send + Sync;
                fn name(&self) -> &str;
                fn id(&self) -> Self::Pt;
                /// textbook affine law; None = outside the scope of the property (incomplete TE)
                fn add(&self, a: &Self::Pt, b: &Self::Pt) -> Option<Self::Pt>;
                fn neg(&self, a: &Self::Pt) -> Self::Pt;
                fn aff(&self, a: &Self::Pt) -> Affine<P>;
                /// further affine encodings of the same point, canonical one excluded (SW: the identity with
                /// non-zero hidden x / y behind `infinity: true`)
                fn aff_alts(&self, _a: &Self::Pt) -> Vec<Affine<P>> {
                    Vec::new()
                }
                /// the configured generator and (model) membership in the prime-order subgroup
                fn gen(&self) -> Self::Pt;
                fn in_subgroup(&self, a: &Self::Pt) -> bool;
                /// the projective representative of a finite point with Z = z (z a small non-zero integer), built from the
                /// model's affine coordinates with field multiplications only
                fn rep_z(&self, a: &Self::Pt, z: u64) -> Projective<P>;
                /// every projective representation in the enumerated space (canonical / Z = 1 first)
                fn reps(&self, a: &Self::Pt) -> Vec<(Projective<P>, Tag)>;
                /// does `q` represent `want` (decoded by the model; TE: also T consistent)
                fn proj_is(&self, q: &Projective<P>, want: &Self::Pt) -> bool;
                fn aff_is(&self, a: &Affine<P>, want: &Self::Pt) -> bool;
                fn xy(&self, a: &Self::Pt) -> Option<(P::BaseField, P::BaseField)>;
                /// 1 = identity, 2 / 4 = point of that order, 0 = anything else
                fn small_order(&self, a: &Self::Pt) -> u32;
                fn show(&self, a: &Self::Pt) -> String;
            }

            #[inline(never)]
            pub fn res<P: Cfg, O: Or<P>>(o: &O, loc: &mut Loc, site: &str, got: &Projective<P>, want: &O::Pt, deep: bool, what: &dyn Fn() -> String) {
                let ok = o.proj_is(got, want);
                loc.check_at(site, ok, || format!("{}: {}: got {} want {}", o.name(), what(), got.raw(), o.show(want)));
                if !ok {
                    return;
                }
                let wid = *want == o.id();
                loc.check_at(site, got.is_zero() == wid, || {
                    format!("{}: {}: result {} has is_zero()={} but the model says identity={}", o.name(), what(), got.raw(), got.is_zero(), wid)
                });
                if deep {
                    let a = got.into_affine();
                    loc.check_at(site, o.aff_is(&a, want), || {
                        format!("{}: {}: into_affine() of the result {} gives {} want {}", o.name(), what(), got.raw(), a.raw(), o.show(want))
                    });
                    loc.check_at(site, a.is_on_curve(), || format!("{}: {}: result {} -> {} fails is_on_curve()", o.name(), what(), got.raw(), a.raw()));
                }
            }

            fn scope_ok<P: Cfg, O: Or<P>>(ctx: &mut Ctx, o: &O, pts: &[O::Pt]) -> bool {
                for a in pts {
                    for b in pts {
                        if o.add(a, b).is_none() || o.add(a, &o.neg(b)).is_none() {
                            ctx.machinery_error(format!("{}: oracle law undefined on an in-scope pair {} {}", o.name(), o.show(a), o.show(b)));
                            return false;
                        }
                    }
                }
                true
            }

            /// all ordered pairs x all representations x every binary operator impl, and equality
            pub fn pairs<P: Cfg, O: Or<P>>(ctx: &mut Ctx, o: &O, pts: &[O::Pt], deep_all: bool) {
                let name = format!("{}/pairs", o.name());
                if !wanted(ctx, &name) || !scope_ok(ctx, o, pts) {
                    return;
                }
                let n = pts.len() as u64;
                let a0ext = IS_SW && P::COEFF_A.is_zero() && P::BaseField::extension_degree() > 1;
                let a0ext3 = IS_SW && P::COEFF_A.is_zero() && P::BaseField::extension_degree() > 2;
                ctx.sweep(&name, n * n, |idx, loc| {
                    let [j, i] = unrank(idx, [n, n]);
                    let (pi, pj) = (&pts[i as usize], &pts[j as usize]);
                    let id = o.id();
                    let sum = o.add(pi, pj).unwrap();
                    let nj = o.neg(pj);
                    let dif = o.add(pi, &nj).unwrap();
                    let (id_i, id_j) = (*pi == id, *pj == id);
                    let same = pi == pj;
                    let opp = *pi == nj;
                    let a = o.aff(pi);
                    let b = o.aff(pj);
                    let ri = o.reps(pi);
                    let rj = o.reps(pj);
                    let (oi, oj) = (o.small_order(pi), o.small_order(pj));
                    let noncanon = ri.iter().chain(rj.iter()).any(|r| r.1.noncanon_id);
                    let znz = !id_i && !id_j && ri.iter().any(|r| !r.1.z_one) && rj.iter().any(|r| !r.1.z_one);
                    if IS_SW {
                        loc.class_if(same && !id_i, "sw:P+P_via_add");
                        loc.class_if(opp && !id_i, "sw:P+(−P)");
                        loc.class_if(id_i && !id_j, "sw:O+P");
                        loc.class_if(!id_i && id_j, "sw:P+O");
                        loc.class_if(id_i && id_j, "sw:O+O");
                        loc.class_if(noncanon, "sw:O_noncanonical");
                        loc.class_if(same && !id_i, "sw:madd_equal");
                        loc.class_if(opp && !id_i, "sw:madd_opposite");
                        loc.class_if(znz, "sw:Z1≠1∧Z2≠1");
                        loc.class_if(oi == 2 || oj == 2, "sw:order2_operand");
                        loc.class_if(same && oi == 2, "sw:order2_double");
                        loc.class_if(a0ext && same && !id_i, "sw:a=0_ext_field");
                        loc.class_if(a0ext3 && same && !id_i, "sw:a=0_ext_degree>2");
                    } else {
                        loc.class_if(noncanon, "te:identity_any_z");
                        loc.class_if(oi == 2 || oj == 2, "te:order2");
                        loc.class_if(oi == 4 || oj == 4, "te:order4");
                        loc.class_if(same && !id_i, "te:P+P_via_add");
                        loc.class_if(opp && !id_i, "te:P+(−P)");
                        loc.class_if(znz, "te:Z1≠1∧Z2≠1");
                    }
                    if loc.sampling() {
                        loc.sample(format!("{}: P={} Q={} P+Q={} P-Q={} ({} x {} representations)", o.name(), o.show(pi), o.show(pj), o.show(&sum), o.show(&dif), ri.len(), rj.len()));
                    }
                    // every affine encoding of the operands (canonical first; SW identity: hidden x / y too)
                    let mut affs_i = vec![a];
                    affs_i.extend(o.aff_alts(pi));
                    let mut affs_j = vec![b];
                    affs_j.extend(o.aff_alts(pj));
                    if IS_SW {
                        loc.class_if(affs_i.len() > 1 || affs_j.len() > 1, "sw:affine_identity_hidden_xy");
                        let is00 = |q: &O::Pt| o.xy(q).map_or(false, |(x, y)| x.is_zero() && y.is_zero());
                        loc.class_if((oi == 2 && is00(pi)) || (oj == 2 && is00(pj)), "sw:point_(0,0)_is_2_torsion");
                    }
                    for (ka, a) in affs_i.iter().copied().enumerate() {
                        // ---- affine (+) affine
                        for (kb, b) in affs_j.iter().copied().enumerate() {
                            let w = || format!("P={} affine {}, Q={} affine {}", o.show(pi), a.raw(), o.show(pj), b.raw());
                            res(o, loc, "aff+aff", &(a + b), &sum, true, &w);
                            res(o, loc, "aff+&aff", &(a + &b), &sum, deep_all, &w);
                            res(o, loc, "aff-aff", &(a - b), &dif, true, &w);
                            res(o, loc, "aff-&aff", &(a - &b), &dif, deep_all, &w);
                            if ka == 0 && kb == 0 {
                                // (`==` on two affine values is judged on the canonical encodings only)
                                loc.check_at("aff==aff", (a == b) == same && (a != b) != same, || format!("{}: {} : == gives {}", o.name(), w(), a == b));
                            }
                        }
                        // ---- affine (+) projective
                        for (q, _) in &rj {
                            let w = || format!("P={} affine {}, Q={} as {}", o.show(pi), a.raw(), o.show(pj), q.raw());
                            res(o, loc, "aff+proj", &(a + *q), &sum, true, &w);
                            res(o, loc, "aff+&proj", &(a + q), &sum, deep_all, &w);
                            res(o, loc, "aff-proj", &(a - *q), &dif, true, &w);
                            res(o, loc, "aff-&proj", &(a - q), &dif, deep_all, &w);
                            loc.check_at("aff==proj", (a == *q) == same, || format!("{}: {} : == gives {}", o.name(), w(), a == *q));
                        }
                    }
                    for (p, _) in &ri {
                        // ---- projective (+) affine (mixed addition)
                        for b in affs_j.iter().copied() {
                            let w = || format!("P={} as {}, Q={} affine {}", o.show(pi), p.raw(), o.show(pj), b.raw());
                            res(o, loc, "proj+aff", &(*p + b), &sum, true, &w);
                            res(o, loc, "proj+&aff", &(*p + &b), &sum, deep_all, &w);
                            let mut t = *p;
                            t += b;
                            res(o, loc, "proj+=aff", &t, &sum, deep_all, &w);
                            let mut t = *p;
                            t += &b;
                            res(o, loc, "proj+=&aff", &t, &sum, deep_all, &w);
                            res(o, loc, "proj-aff", &(*p - b), &dif, true, &w);
                            res(o, loc, "proj-&aff", &(*p - &b), &dif, deep_all, &w);
                            let mut t = *p;
                            t -= b;
                            res(o, loc, "proj-=aff", &t, &dif, deep_all, &w);
                            let mut t = *p;
                            t -= &b;
                            res(o, loc, "proj-=&aff", &t, &dif, deep_all, &w);
                            loc.check_at("proj==aff", (*p == b) == same, || format!("{}: {} : == gives {}", o.name(), w(), *p == b));
                        }
                        // ---- projective (+) projective
                        for (q, _) in &rj {
                            let w = || format!("P={} as {}, Q={} as {}", o.show(pi), p.raw(), o.show(pj), q.raw());
                            let mut qq = *q;
                            res(o, loc, "proj+proj", &(*p + *q), &sum, true, &w);
                            res(o, loc, "proj+&proj", &(*p + q), &sum, deep_all, &w);
                            res(o, loc, "proj+&mut proj", &(*p + &mut qq), &sum, deep_all, &w);
                            res(o, loc, "&proj+proj", &(p + *q), &sum, deep_all, &w);
                            res(o, loc, "&proj+&proj", &(p + q), &sum, deep_all, &w);
                            res(o, loc, "&proj+&mut proj", &(p + &mut qq), &sum, deep_all, &w);
                            let mut t = *p;
                            t += *q;
                            res(o, loc, "proj+=proj", &t, &sum, deep_all, &w);
                            let mut t = *p;
                            t += q;
                            res(o, loc, "proj+=&proj", &t, &sum, deep_all, &w);
                            let mut t = *p;
                            t += &mut qq;
                            res(o, loc, "proj+=&mut proj", &t, &sum, deep_all, &w);
                            res(o, loc, "proj-proj", &(*p - *q), &dif, true, &w);
                            res(o, loc, "proj-&proj", &(*p - q), &dif, deep_all, &w);
                            res(o, loc, "proj-&mut proj", &(*p - &mut qq), &dif, deep_all, &w);
                            res(o, loc, "&proj-proj", &(p - *q), &dif, deep_all, &w);
                            res(o, loc, "&proj-&proj", &(p - q), &dif, deep_all, &w);
                            res(o, loc, "&proj-&mut proj", &(p - &mut qq), &dif, deep_all, &w);
                            let mut t = *p;
                            t -= *q;
                            res(o, loc, "proj-=proj", &t, &dif, deep_all, &w);
                            let mut t = *p;
                            t -= q;
                            res(o, loc, "proj-=&proj", &t, &dif, deep_all, &w);
                            let mut t = *p;
                            t -= &mut qq;
                            res(o, loc, "proj-=&mut proj", &t, &dif, deep_all, &w);
                            loc.check_at("proj==proj", (*p == *q) == same && (*p != *q) != same, || format!("{}: {} : == gives {}", o.name(), w(), *p == *q));
                        }
                    }
                });
            }

            /// every point x every representation: doubling, negation, conversions, predicates
            pub fn unary<P: Cfg, O: Or<P>>(ctx: &mut Ctx, o: &O, pts: &[O::Pt]) {
                let name = format!("{}/unary", o.name());
                if !wanted(ctx, &name) || !scope_ok(ctx, o, pts) {
                    return;
                }
                let a0ext = IS_SW && P::COEFF_A.is_zero() && P::BaseField::extension_degree() > 1;
                ctx.sweep(&name, pts.len() as u64, |idx, loc| {
                    let pi = &pts[idx as usize];
                    let id = o.id();
                    let is_id = *pi == id;
                    let dbl = o.add(pi, pi).unwrap();
                    let ng = o.neg(pi);
                    let so = o.small_order(pi);
                    if IS_SW {
                        loc.class_if(so == 2, "sw:order2_double");
                        loc.class_if(is_id, "sw:O_noncanonical");
                        loc.class_if(a0ext && !is_id, "sw:a=0_ext_field");
                    } else {
                        loc.class_if(is_id, "te:identity_any_z");
                        loc.class_if(so == 2, "te:order2");
                        loc.class_if(so == 4, "te:order4");
                    }
                    let a = o.aff(pi);
                    let wa = || format!("P={} affine {}", o.show(pi), a.raw());
                    if loc.sampling() {
                        loc.sample(format!("{}: {} 2P={} -P={}", o.name(), wa(), o.show(&dbl), o.show(&ng)));
                    }
                    loc.check_at("aff.is_on_curve", a.is_on_curve(), || format!("{}: {}: is_on_curve() false", o.name(), wa()));
                    loc.check_at("aff.is_zero", AffineRepr::is_zero(&a) == is_id, || format!("{}: {}: is_zero() = {}", o.name(), wa(), AffineRepr::is_zero(&a)));
                    // xy(): the coordinates of a finite point; None for the SW point at infinity.  The TE identity (0, 1)
                    // HAS coordinates: None and Some((0, 1)) are both accepted there, which one is observed as a class
                    let xy = o.xy(pi);
                    let got_xy = a.xy();
                    let te_id_coords = !IS_SW && is_id && got_xy == Some((<P::BaseField as AdditiveGroup>::ZERO, <P::BaseField as Field>::ONE));
                    loc.check_at("aff.xy", (got_xy == xy || te_id_coords) && a.x() == got_xy.map(|t| t.0) && a.y() == got_xy.map(|t| t.1), || format!("{}: {}: xy() = {:?}", o.name(), wa(), a.xy()));
                    loc.class_if(!IS_SW && is_id && got_xy.is_none(), "observed:te_xy(identity)=None");
                    if IS_SW {
                        loc.class_if(so == 2 && xy.map_or(false, |(x, y)| x.is_zero() && y.is_zero()), "sw:point_(0,0)_is_2_torsion");
                    }
                    res(o, loc, "aff.into_group", &a.into_group(), pi, true, &wa);
                    res(o, loc, "proj_from_aff", &Projective::<P>::from(a), pi, true, &wa);
                    let t: Projective<P> = a.into();
                    res(o, loc, "aff.into", &t, pi, true, &wa);
                    let na = -a;
                    // (`==` between affine values is not used on the SW identity: it would pin the hidden coordinates)
                    let sw_id = IS_SW && is_id;
                    loc.check_at("neg_aff", o.aff_is(&na, &ng) && na.is_on_curve() && (sw_id || na == o.aff(&ng)), || format!("{}: {}: -P = {} want {}", o.name(), wa(), na.raw(), o.show(&ng)));
                    loc.check_at("aff==aff", a == a, || format!("{}: {}: P != P", o.name(), wa()));
                    for (p, _) in o.reps(pi) {
                        let w = || format!("P={} as {}", o.show(pi), p.raw());
                        res(o, loc, "double", &p.double(), &dbl, true, &w);
                        let mut t = p;
                        let r = *t.double_in_place();
                        res(o, loc, "double_in_place", &t, &dbl, true, &w);
                        res(o, loc, "double_in_place", &r, &dbl, false, &w);
                        res(o, loc, "neg", &(-p), &ng, true, &w);
                        let mut t = p;
                        let r = *t.neg_in_place();
                        res(o, loc, "neg_in_place", &t, &ng, true, &w);
                        res(o, loc, "neg_in_place", &r, &ng, false, &w);
                        let c1 = p.into_affine();
                        let c2 = Affine::<P>::from(p);
                        let c3: Affine<P> = p.into();
                        for (site, c) in [("into_affine", c1), ("affine_from_proj", c2), ("proj.into", c3)] {
                            loc.check_at(site, o.aff_is(&c, pi) && c.is_on_curve(), || format!("{}: {}: -> {} want {}", o.name(), w(), c.raw(), o.show(pi)));
                            loc.check_at(site, sw_id || c == a, || format!("{}: {}: -> {} is not == the affine point {}", o.name(), w(), c.raw(), a.raw()));
                        }
                        loc.check_at("proj.is_zero", p.is_zero() == is_id, || format!("{}: {}: is_zero() = {}", o.name(), w(), p.is_zero()));
                        loc.check_at("proj==proj", p == p, || format!("{}: {}: P != P", o.name(), w()));
                        loc.check_at("proj==aff", p == a && a == p, || format!("{}: {}: not == its affine form", o.name(), w()));
                        res(o, loc, "proj-proj", &(p - p), &id, true, &w);
                        res(o, loc, "proj+proj", &(p + (-p)), &id, true, &w);
                    }
                    // ---- checked constructors on valid (on-curve, in-subgroup) points: they must return the point
                    if o.in_subgroup(pi) {
                        loc.class("ctor:checked_new_on_subgroup_point");
                        if !(IS_SW && is_id) {
                            match guarded(|| a.checked()) {
                                Ok(c) => {
                                    loc.check_at("Affine::new", o.aff_is(&c, pi), || format!("{}: {}: Affine::new(x, y) = {}", o.name(), wa(), c.raw()));
                                }
                                Err(e) => loc.fail_at("Affine::new", format!("{}: {}: Affine::new(x, y) on a point of the prime-order subgroup: {e}", o.name(), wa())),
                            }
                        }
                        for (p, _) in o.reps(pi) {
                            let w = || format!("P={} as {}", o.show(pi), p.raw());
                            match guarded(|| p.checked()) {
                                Ok(c) => res(o, loc, "Projective::new", &c, pi, false, &w),
                                Err(e) => loc.fail_at("Projective::new", format!("{}: {}: Projective::new(coordinates) on a point of the prime-order subgroup: {e}", o.name(), w())),
                            }
                        }
                    }
                    // ---- further affine encodings of this point (SW identity with hidden x / y): every affine-taking
                    // operation must treat them as the point they encode; only group-law results are judged
                    for a2 in o.aff_alts(pi) {
                        let w2 = || format!("P={} affine {}", o.show(pi), a2.raw());
                        loc.class("sw:affine_identity_hidden_xy");
                        loc.check_at("alt_aff.predicates", a2.is_on_curve() && AffineRepr::is_zero(&a2) == is_id && (a2.xy().is_none() == o.xy(pi).is_none()), || {
                            format!("{}: {}: is_on_curve()={} is_zero()={} xy()={:?}", o.name(), w2(), a2.is_on_curve(), AffineRepr::is_zero(&a2), a2.xy())
                        });
                        res(o, loc, "alt_aff.into_group", &a2.into_group(), pi, true, &w2);
                        res(o, loc, "alt_aff.proj_from_aff", &Projective::<P>::from(a2), pi, true, &w2);
                        res(o, loc, "alt_aff.neg", &(-a2).into_group(), &ng, true, &w2);
                        res(o, loc, "alt_aff.double", &a2.into_group().double(), &dbl, true, &w2);
                        // 5 * P and 3 * P through the affine entry points of scalar multiplication
                        let mut m3 = Some(id.clone());
                        let mut m5 = Some(id.clone());
                        for k in 0..5 {
                            m5 = m5.and_then(|t| o.add(&t, pi));
                            if k < 3 {
                                m3 = m3.and_then(|t| o.add(&t, pi));
                            }
                        }
                        if let (Some(m3), Some(m5)) = (m3, m5) {
                            res(o, loc, "alt_aff.mul_bigint", &a2.mul_bigint([5u64]), &m5, true, &w2);
                            res(o, loc, "alt_aff.mul", &(a2 * P::ScalarField::from(3u64)), &m3, true, &w2);
                        }
                        loc.check_at("alt_aff==proj", a2 == a.into_group() && a.into_group() == a2, || format!("{}: {}: not == the projective form of the same point", o.name(), w2()));
                    }
                    if idx == 0 {
                        for (what, z) in <Projective<P> as Ctors>::identities() {
                            let w = || what.to_string();
                            res(o, loc, "identity_ctor", &z, &id, true, &w);
                        }
                        for (what, z) in <Affine<P> as Ctors>::identities() {
                            loc.check_at("identity_ctor", o.aff_is(&z, &id) && AffineRepr::is_zero(&z) && z.is_on_curve(), || format!("{}: {what} = {}", o.name(), z.raw()));
                        }
                        // Default::default(): not documented to be the identity -> observed, not judged
                        let (dp, da) = (<Projective<P> as Ctors>::default_value(), <Affine<P> as Ctors>::default_value());
                        loc.class_if(o.proj_is(&dp, &id) && o.aff_is(&da, &id), "observed:default()_is_identity");
                        // the fixed generator of the group: the configured generator (of order r by start-up validation)
                        let gen = o.gen();
                        let w = || "PrimeGroup::generator()".to_string();
                        res(o, loc, "generator", &<Projective<P> as Ctors>::fixed_generator(), &gen, true, &w);
                        let ga = <Affine<P> as Ctors>::fixed_generator();
                        loc.check_at("generator", o.aff_is(&ga, &gen) && ga.is_on_curve(), || format!("{}: AffineRepr::generator() = {} want {}", o.name(), ga.raw(), o.show(&gen)));
                        loc.class("ctor:generator");
                    }
                });
            }

            /// `Sum` over all vectors of length <= 3 of a subset (iterators of Projective, &Projective, Affine, &Affine)
            pub fn sums<P: Cfg, O: Or<P>>(ctx: &mut Ctx, o: &O, subset: &[O::Pt]) {
                let name = format!("{}/sum", o.name());
                if !wanted(ctx, &name) || !scope_ok(ctx, o, subset) {
                    return;
                }
                let s = subset.len() as u64;
                let total = vec_count(s, 3);
                let nsel = 4u64;
                ctx.sweep(&name, total * nsel, |idx, loc| {
                    let [sel, vi] = unrank(idx, [nsel, total]);
                    let v = vec_unrank(vi, s);
                    let mut want = o.id();
                    for k in &v {
                        match o.add(&want, &subset[*k]) {
                            Some(x) => want = x,
                            None => return, // partial sum leaves the scope (cannot happen for closed subsets)
                        }
                    }
                    loc.class_if(v.is_empty(), "sum:empty");
                    loc.class_if(v.len() == 3, "sum:triple");
                    let projs: Vec<Projective<P>> = v
                        .iter()
                        .enumerate()
                        .map(|(pos, k)| {
                            let r = o.reps(&subset[*k]);
                            r[(sel as usize + pos) % r.len()].0
                        })
                        .collect();
                    let affs: Vec<Affine<P>> = v.iter().map(|k| o.aff(&subset[*k])).collect();
                    let w = || format!("terms {:?} as {:?}", v.iter().map(|k| o.show(&subset[*k])).collect::<Vec<_>>(), projs.iter().map(|p| p.raw()).collect::<Vec<_>>());
                    if loc.sampling() {
                        loc.sample(format!("{}: Sum of {} = {}", o.name(), w(), o.show(&want)));
                    }
                    res(o, loc, "sum_proj", &projs.iter().copied().sum::<Projective<P>>(), &want, true, &w);
                    res(o, loc, "sum_&proj", &projs.iter().sum::<Projective<P>>(), &want, true, &w);
                    if sel == 0 {
                        res(o, loc, "sum_aff", &affs.iter().copied().sum::<Projective<P>>(), &want, true, &w);
                        res(o, loc, "sum_&aff", &affs.iter().sum::<Projective<P>>(), &want, true, &w);
                    }
                });
            }

            /// normalize_batch, one sweep with two parts:
            /// (a) all vectors of length <= 3 over {O, O', P, P (Z != 1), 2P (Z != 1), -P}, for every P of `pts`;
            /// (b) batches of 5..=9 entries taken from DIFFERENT points: one case per pattern over
            ///     {0: identity (Z = 0, every junk form in turn), 1: Z = 1, 2: generic Z}; the entry at position k encodes
            ///     the point ring[(k + shift) % m] (identity excluded from the ring), generic Z varying with k
            pub fn batch<P: Cfg, O: Or<P>>(ctx: &mut Ctx, o: &O, pts: &[O::Pt], ring: &[O::Pt], patterns: &[Vec<u8>], all_shifts: bool) {
                let name = format!("{}/normalize_batch", o.name());
                if !wanted(ctx, &name) || !scope_ok(ctx, o, pts) {
                    return;
                }
                const A: u64 = 6;
                let per = vec_count(A, 3);
                let n = pts.len() as u64;
                // ---- tables of part (b)
                let id = o.id();
                let mut rpts: Vec<O::Pt> = Vec::new();
                for q in ring {
                    if *q != id && !rpts.contains(q) {
                        rpts.push(q.clone());
                    }
                }
                let idreps: Vec<Projective<P>> = o.reps(&id).into_iter().map(|r| r.0).collect();
                let table: Vec<(Option<Projective<P>>, Vec<Projective<P>>)> = rpts
                    .iter()
                    .map(|q| {
                        let r = o.reps(q);
                        (r.iter().find(|x| x.1.z_one).map(|x| x.0), r.iter().filter(|x| !x.1.z_one).map(|x| x.0).collect())
                    })
                    .collect();
                let usable = rpts.len() >= 3 && !idreps.is_empty() && table.iter().all(|t| t.0.is_some() && !t.1.is_empty());
                ctx.validate(usable, &format!("{name}: mixed batches need >= 3 finite points, each with a Z = 1 and a Z != 1 representative"));
                if !usable {
                    return;
                }
                let m = rpts.len() as u64;
                let np = patterns.len() as u64;
                let shifts = if all_shifts { m } else { 1 };
                let mixed = |idx: u64, loc: &mut Loc| {
                    let [pk, sh] = unrank(idx, [np, shifts]);
                    let pat = &patterns[pk as usize];
                    let mut input: Vec<Projective<P>> = Vec::with_capacity(pat.len());
                    let mut want: Vec<&O::Pt> = Vec::with_capacity(pat.len());
                    let mut used: Vec<usize> = Vec::new();
                    for (k, kind) in pat.iter().enumerate() {
                        let j = ((k as u64 + sh) % m) as usize;
                        match kind {
                            0 => {
                                input.push(idreps[k % idreps.len()]);
                                want.push(&id);
                            }
                            1 => {
                                input.push(table[j].0.unwrap());
                                want.push(&rpts[j]);
                            }
                            _ => {
                                let g = &table[j].1;
                                input.push(g[k % g.len()]);
                                want.push(&rpts[j]);
                            }
                        }
                        if *kind != 0 && !used.contains(&j) {
                            used.push(j);
                        }
                    }
                    let has = |t: u8| pat.contains(&t);
                    loc.class_if(pat.len() >= 5 && used.len() >= 2, "batch:len>=5_distinct_points");
                    loc.class_if(pat.len() >= 5 && used.len() >= 2 && has(0) && has(1) && has(2), "batch:len>=5_mixes_O_Z=1_genericZ");
                    loc.class_if(has(0) && pat[0] == 0, "batch:zero_first");
                    loc.class_if(has(0) && pat[pat.len() - 1] == 0, "batch:zero_last");
                    loc.class_if(pat.windows(2).any(|w| w[0] == 0 && w[1] == 0), "batch:adjacent_zeros");
                    let w = || format!("batch {:?}", input.iter().map(|p| p.raw()).collect::<Vec<_>>());
                    if loc.sampling() {
                        loc.sample(format!("{}: pattern {:?} shift {} {}", o.name(), pat, sh, w()));
                    }
                    let out = Projective::<P>::normalize_batch(&input);
                    let out2 = <Projective<P> as ScalarMul>::batch_convert_to_mul_base(&input);
                    let mut ok = out.len() == pat.len() && out2.len() == pat.len();
                    if ok {
                        for ((wp, a), a2) in want.iter().zip(out.iter()).zip(out2.iter()) {
                            ok &= o.aff_is(a, wp) && a.is_on_curve() && o.aff_is(a2, wp);
                        }
                    }
                    loc.check_at("normalize_batch", ok, || format!("{}: {}: got {:?} want {:?}", o.name(), w(), out.iter().map(|a| a.raw()).collect::<Vec<_>>(), want.iter().map(|q| o.show(q)).collect::<Vec<_>>()));
                };
                ctx.sweep(&name, n * per + np * shifts, |idx, loc| {
                    if idx >= n * per {
                        return mixed(idx - n * per, loc);
                    }
                    let [vi, i] = unrank(idx, [per, n]);
                    let pi = &pts[i as usize];
                    let id = o.id();
                    let dbl = o.add(pi, pi).unwrap();
                    let ng = o.neg(pi);
                    let (rid, rp, rd, rn) = (o.reps(&id), o.reps(pi), o.reps(&dbl), o.reps(&ng));
                    let alpha: [(Projective<P>, &O::Pt); 6] =
                        [(rid[0].0, &id), (rid[rid.len() - 1].0, &id), (rp[0].0, pi), (rp[rp.len() - 1].0, pi), (rd[rd.len() - 1].0, &dbl), (rn[1 % rn.len()].0, &ng)];
                    let v = vec_unrank(vi, A);
                    let input: Vec<Projective<P>> = v.iter().map(|k| alpha[*k].0).collect();
                    let nz = v.iter().filter(|k| *alpha[**k].1 == id).count();
                    loc.class_if(nz > 0 && nz < v.len(), "batch:zero_in_batch");
                    loc.class_if(nz > 0 && nz == v.len(), "batch:all_zero");
                    loc.class_if(v.is_empty(), "batch:empty");
                    let w = || format!("P={} batch {:?}", o.show(pi), input.iter().map(|p| p.raw()).collect::<Vec<_>>());
                    if loc.sampling() {
                        loc.sample(format!("{}: {}", o.name(), w()));
                    }
                    let out = Projective::<P>::normalize_batch(&input);
                    let out2 = <Projective<P> as ScalarMul>::batch_convert_to_mul_base(&input);
                    let mut ok = out.len() == v.len() && out2.len() == v.len();
                    if ok {
                        for ((k, a), a2) in v.iter().zip(out.iter()).zip(out2.iter()) {
                            ok &= o.aff_is(a, alpha[*k].1) && a.is_on_curve() && o.aff_is(a2, alpha[*k].1);
                        }
                    }
                    loc.check_at("normalize_batch", ok, || format!("{}: {}: got {:?}", o.name(), w(), out.iter().map(|a| a.raw()).collect::<Vec<_>>()));
                });
            }

            /// normalize_batch / batch_convert_to_mul_base on LONG batches (a blocked implementation with a reused scratch
            /// buffer is a realistic refactor): entry i encodes P_i = (i+1)*G (model: repeated oracle addition) with
            /// Z = i + 2 - all different, none equal to 1 - and the identity (every junk form in turn) sits at positions
            /// 0, 1023, 1024 and last.  One case per length.
            pub fn batch_large<P: Cfg, O: Or<P>>(ctx: &mut Ctx, o: &O, lens: &[usize]) {
                let name = format!("{}/normalize_batch_large", o.name());
                if !wanted(ctx, &name) {
                    return;
                }
                let id = o.id();
                let g = o.gen();
                let maxlen = lens.iter().copied().max().unwrap_or(0);
                let mut model: Vec<O::Pt> = Vec::with_capacity(maxlen);
                let mut acc = id.clone();
                for _ in 0..maxlen {
                    match o.add(&acc, &g) {
                        Some(x) => acc = x,
                        None => {
                            ctx.validate(false, &format!("{name}: oracle law defined on the multiples of G"));
                            return;
                        }
                    }
                    model.push(acc.clone());
                }
                ctx.validate(model.iter().all(|q| *q != id), &format!("{name}: (i+1)*G != O for i < {maxlen}"));
                let input: Vec<Projective<P>> = model.iter().enumerate().map(|(i, q)| o.rep_z(q, i as u64 + 2)).collect();
                ctx.validate(input.iter().zip(&model).all(|(p, q)| o.proj_is(p, q)), &format!("{name}: inputs decode to the model points"));
                let idreps: Vec<Projective<P>> = o.reps(&id).into_iter().map(|r| r.0).collect();
                ctx.sweep(&name, lens.len() as u64, |idx, loc| {
                    let len = lens[idx as usize];
                    let mut v: Vec<Projective<P>> = input[..len].to_vec();
                    let mut want: Vec<&O::Pt> = model[..len].iter().collect();
                    for (k, pos) in [0usize, 1023, 1024, len - 1].into_iter().enumerate() {
                        if pos < len {
                            v[pos] = idreps[k % idreps.len()];
                            want[pos] = &id;
                        }
                    }
                    loc.class_if(len > 1024, "normalize_batch:len>1024");
                    loc.class_if(len == 1024, "normalize_batch:len=1024");
                    loc.class("batch:zero_in_batch");
                    if loc.sampling() {
                        loc.sample(format!("{}: normalize_batch of {len} entries (i+1)*G with Z = i+2, identity at 0, 1023, 1024, last", o.name()));
                    }
                    let out = Projective::<P>::normalize_batch(&v);
                    let out2 = <Projective<P> as ScalarMul>::batch_convert_to_mul_base(&v);
                    loc.ops(2 * len as u64);
                    let mut bad: Option<usize> = None;
                    if out.len() == len && out2.len() == len {
                        for i in 0..len {
                            if !(o.aff_is(&out[i], want[i]) && out[i].is_on_curve() && o.aff_is(&out2[i], want[i])) {
                                bad = Some(i);
                                break;
                            }
                        }
                    }
                    loc.check_at("normalize_batch_large", out.len() == len && out2.len() == len && bad.is_none(), || match bad {
                        Some(i) => format!("{}: batch of {len}: entry {i} = {} -> {} / {} want {}", o.name(), v[i].raw(), out[i].raw(), out2[i].raw(), o.show(want[i])),
                        None => format!("{}: batch of {len}: {} / {} results", o.name(), out.len(), out2.len()),
                    });
                });
            }
        }
    };
}
engine!(swe, short_weierstrass, SWCurveConfig, true);
engine!(tee, twisted_edwards, TECurveConfig, false);

// =====================================================================================================
// field-model bridges and the F_{p^3} model
// =====================================================================================================
pub trait Br<F>: FieldModel {
    fn to_lib(&self, e: Self::E) -> F;
    fn from_lib(&self, f: &F) -> Self::E;
}
impl<F: PrimeField> Br<F> for PrimeModel {
    fn to_lib(&self, e: u64) -> F {
        F::from(e)
    }
    fn from_lib(&self, f: &F) -> u64 {
        prime_to_u64(f)
    }
}
impl<C: Fp2Config> Br<Fp2<C>> for Fp2Model {
    fn to_lib(&self, e: (u64, u64)) -> Fp2<C> {
        Fp2::<C>::new(C::Fp::from(e.0), C::Fp::from(e.1))
    }
    fn from_lib(&self, f: &Fp2<C>) -> (u64, u64) {
        (prime_to_u64(&f.c0), prime_to_u64(&f.c1))
    }
}
/// F_p[u]/(u^3 - beta), elements (c0, c1, c2), schoolbook
#[derive(Clone, Copy, Debug)]
pub struct Fp3Model {
    pub p: u64,
    pub beta: u64,
}
impl FieldModel for Fp3Model {
    type E = (u64, u64, u64);
    fn zero(&self) -> Self::E {
        (0, 0, 0)
    }
    fn one(&self) -> Self::E {
        (1, 0, 0)
    }
    fn add(&self, a: Self::E, b: Self::E) -> Self::E {
        ((a.0 + b.0) % self.p, (a.1 + b.1) % self.p, (a.2 + b.2) % self.p)
    }
    fn sub(&self, a: Self::E, b: Self::E) -> Self::E {
        let p = self.p;
        ((a.0 + p - b.0) % p, (a.1 + p - b.1) % p, (a.2 + p - b.2) % p)
    }
    fn neg(&self, a: Self::E) -> Self::E {
        let p = self.p;
        ((p - a.0) % p, (p - a.1) % p, (p - a.2) % p)
    }
    fn mul(&self, a: Self::E, b: Self::E) -> Self::E {
        let (p, be) = (self.p, self.beta);
        let c0 = (a.0 * b.0 + be * ((a.1 * b.2 + a.2 * b.1) % p)) % p;
        let c1 = (a.0 * b.1 + a.1 * b.0 + be * (a.2 * b.2 % p)) % p;
        let c2 = (a.0 * b.2 + a.1 * b.1 + a.2 * b.0) % p;
        (c0, c1, c2)
    }
    fn inv(&self, a: Self::E) -> Self::E {
        assert!(a != (0, 0, 0), "model: inverse of zero");
        self.pow(a, self.p * self.p * self.p - 2)
    }
    fn from_u64(&self, x: u64) -> Self::E {
        (x % self.p, 0, 0)
    }
    fn elements(&self) -> Vec<Self::E> {
        let p = self.p;
        let mut v = Vec::with_capacity((p * p * p) as usize);
        for c2 in 0..p {
            for c1 in 0..p {
                for c0 in 0..p {
                    v.push((c0, c1, c2));
                }
            }
        }
        v
    }
    fn order(&self) -> u64 {
        self.p * self.p * self.p
    }
}
impl<C: Fp3Config> Br<Fp3<C>> for Fp3Model {
    fn to_lib(&self, e: (u64, u64, u64)) -> Fp3<C> {
        Fp3::<C>::new(C::Fp::from(e.0), C::Fp::from(e.1), C::Fp::from(e.2))
    }
    fn from_lib(&self, f: &Fp3<C>) -> (u64, u64, u64) {
        (prime_to_u64(&f.c0), prime_to_u64(&f.c1), prime_to_u64(&f.c2))
    }
}

fn small_orders<E: Copy + Eq + std::hash::Hash + std::fmt::Debug>(g: &GroupTable<E>) -> Vec<u32> {
    (0..g.n())
        .map(|i| {
            if i == g.id {
                return 1;
            }
            let d = g.add[i][i];
            if d == usize::MAX {
                return 0;
            }
            if d == g.id {
                return 2;
            }
            let q = g.add[d][d];
            if q == g.id {
                4
            } else {
                0
            }
        })
        .collect()
}

// =====================================================================================================
// toy oracles (whole-universe enumeration): Pt = index into the brute-force point list
// =====================================================================================================
pub struct ToySw<P: SWCurveConfig, M: FieldModel> {
    pub name: String,
    pub m: SwModel<M>,
    pub g: GroupTable<M::E>,
    pub zs: Vec<M::E>,
    pub junk: Vec<(M::E, M::E)>,
    pub negt: Vec<usize>,
    pub ord: Vec<u32>,
    pub gen: usize,
    pub in_sub: Vec<bool>,
    _p: PhantomData<fn() -> P>,
}
impl<P: SWCurveConfig, M: Br<P::BaseField>> ToySw<P, M> {
    fn build(name: &str, m: SwModel<M>, g: GroupTable<M::E>, zs: Vec<M::E>, junk: Vec<(M::E, M::E)>, gen: usize, in_sub: Vec<bool>) -> Self {
        let mut g = g;
        if std::env::var("C03_NEGATIVE_CONTROL").is_ok() {
            // deliberately wrong model (2G := O) to demonstrate that a disagreement is reported; never set in real runs
            g.add[gen][gen] = g.id;
        }
        let negt = (0..g.n()).map(|i| g.index[&m.neg(g.pts[i])]).collect();
        let ord = small_orders(&g);
        ToySw { name: name.to_string(), m, g, zs, junk, negt, ord, gen, in_sub, _p: PhantomData }
    }
    fn lib(&self, e: M::E) -> P::BaseField {
        self.m.f.to_lib(e)
    }
    fn all(&self) -> Vec<usize> {
        (0..self.g.n()).collect()
    }
    /// <= 12 points: O, G, 2G, -G, 3G, a 2-torsion point, a point outside the subgroup, then the lowest indices
    fn subset(&self) -> Vec<usize> {
        subset12(self.g.n(), self.g.id, self.gen, &self.g.add, &self.negt, &self.ord, &self.in_sub, &self.all())
    }
}
fn subset12(n: usize, id: usize, gen: usize, add: &[Vec<usize>], negt: &[usize], ord: &[u32], in_sub: &[bool], scope: &[usize]) -> Vec<usize> {
    let g2 = add[gen][gen];
    let mut s = vec![id, gen, g2, negt[gen], add[g2][gen]];
    if let Some(t) = scope.iter().find(|i| ord[**i] == 2) {
        s.push(*t);
    }
    if let Some(t) = scope.iter().find(|i| ord[**i] == 4) {
        s.push(*t);
    }
    if let Some(t) = scope.iter().find(|i| !in_sub[**i] && ord[**i] == 0) {
        s.push(*t);
    }
    for i in scope {
        if s.len() >= 12.min(n) {
            break;
        }
        if !s.contains(i) {
            s.push(*i);
        }
    }
    let mut out = Vec::new();
    for i in s {
        if !out.contains(&i) {
            out.push(i);
        }
    }
    out
}
impl<P: SWCurveConfig, M: Br<P::BaseField>> swe::Or<P> for ToySw<P, M> {
    type Pt = usize;
    fn name(&self) -> &str {
        &self.name
    }
    fn id(&self) -> usize {
        self.g.id
    }
    fn add(&self, a: &usize, b: &usize) -> Option<usize> {
        let r = self.g.add[*a][*b];
        (r != usize::MAX).then_some(r)
    }
    fn neg(&self, a: &usize) -> usize {
        self.negt[*a]
    }
    fn aff(&self, a: &usize) -> sw::Affine<P> {
        match self.g.pts[*a] {
            Pt::O => sw::Affine::identity(),
            Pt::A(x, y) => sw::Affine::new_unchecked(self.lib(x), self.lib(y)),
        }
    }
    fn aff_alts(&self, a: &usize) -> Vec<sw::Affine<P>> {
        match self.g.pts[*a] {
            Pt::O => sw_hidden_identities::<P>(),
            _ => Vec::new(),
        }
    }
    fn gen(&self) -> usize {
        self.gen
    }
    fn in_subgroup(&self, a: &usize) -> bool {
        self.in_sub[*a]
    }
    fn rep_z(&self, a: &usize, z: u64) -> sw::Projective<P> {
        let f = &self.m.f;
        let z = f.from_u64(z);
        match self.g.pts[*a] {
            Pt::O => sw::Projective::new_unchecked(self.lib(f.one()), self.lib(f.one()), self.lib(f.zero())),
            Pt::A(x, y) => {
                let z2 = f.sq(z);
                sw::Projective::new_unchecked(self.lib(f.mul(x, z2)), self.lib(f.mul(y, f.mul(z2, z))), self.lib(z))
            }
        }
    }
    fn reps(&self, a: &usize) -> Vec<(sw::Projective<P>, Tag)> {
        let f = &self.m.f;
        match self.g.pts[*a] {
            Pt::O => self
                .junk
                .iter()
                .enumerate()
                .map(|(k, (x, y))| (sw::Projective::new_unchecked(self.lib(*x), self.lib(*y), self.lib(f.zero())), Tag { z_one: false, noncanon_id: k != 0 }))
                .collect(),
            Pt::A(x, y) => self
                .zs
                .iter()
                .map(|z| {
                    let z2 = f.sq(*z);
                    (sw::Projective::new_unchecked(self.lib(f.mul(x, z2)), self.lib(f.mul(y, f.mul(z2, *z))), self.lib(*z)), Tag { z_one: *z == f.one(), noncanon_id: false })
                })
                .collect(),
        }
    }
    fn proj_is(&self, q: &sw::Projective<P>, want: &usize) -> bool {
        let f = &self.m.f;
        let (x, y, z) = (f.from_lib(&q.x), f.from_lib(&q.y), f.from_lib(&q.z));
        match self.g.pts[*want] {
            Pt::O => f.is_zero(z),
            Pt::A(wx, wy) => {
                let z2 = f.sq(z);
                !f.is_zero(z) && x == f.mul(wx, z2) && y == f.mul(wy, f.mul(z2, z))
            }
        }
    }
    fn aff_is(&self, a: &sw::Affine<P>, want: &usize) -> bool {
        let f = &self.m.f;
        match self.g.pts[*want] {
            Pt::O => a.infinity,
            Pt::A(wx, wy) => !a.infinity && f.from_lib(&a.x) == wx && f.from_lib(&a.y) == wy,
        }
    }
    fn xy(&self, a: &usize) -> Option<(P::BaseField, P::BaseField)> {
        match self.g.pts[*a] {
            Pt::O => None,
            Pt::A(x, y) => Some((self.lib(x), self.lib(y))),
        }
    }
    fn small_order(&self, a: &usize) -> u32 {
        self.ord[*a]
    }
    fn show(&self, a: &usize) -> String {
        format!("#{}:{:?}", a, self.g.pts[*a])
    }
}

pub struct ToyTe<P: TECurveConfig, M: FieldModel> {
    pub name: String,
    pub m: TeModel<M>,
    pub g: GroupTable<M::E>,
    pub zs: Vec<M::E>,
    pub negt: Vec<usize>,
    pub ord: Vec<u32>,
    pub gen: usize,
    pub in_sub: Vec<bool>,
    pub complete: bool,
    _p: PhantomData<fn() -> P>,
}
impl<P: TECurveConfig, M: Br<P::BaseField>> ToyTe<P, M> {
    fn lib(&self, e: M::E) -> P::BaseField {
        self.m.f.to_lib(e)
    }
    fn xy_m(&self, i: usize) -> (M::E, M::E) {
        match self.g.pts[i] {
            Pt::A(x, y) => (x, y),
            Pt::O => unreachable!(),
        }
    }
    /// the scope of the property: all of E(F_p) when complete, the prime-order subgroup otherwise
    fn scope(&self) -> Vec<usize> {
        (0..self.g.n()).filter(|i| self.complete || self.in_sub[*i]).collect()
    }
    fn subset(&self) -> Vec<usize> {
        subset12(self.g.n(), self.g.id, self.gen, &self.g.add, &self.negt, &self.ord, &self.in_sub, &self.scope())
    }
}
impl<P: TECurveConfig, M: Br<P::BaseField>> tee::Or<P> for ToyTe<P, M> {
    type Pt = usize;
    fn name(&self) -> &str {
        &self.name
    }
    fn id(&self) -> usize {
        self.g.id
    }
    fn add(&self, a: &usize, b: &usize) -> Option<usize> {
        let r = self.g.add[*a][*b];
        (r != usize::MAX).then_some(r)
    }
    fn neg(&self, a: &usize) -> usize {
        self.negt[*a]
    }
    fn aff(&self, a: &usize) -> te::Affine<P> {
        let (x, y) = self.xy_m(*a);
        te::Affine::new_unchecked(self.lib(x), self.lib(y))
    }
    fn gen(&self) -> usize {
        self.gen
    }
    fn in_subgroup(&self, a: &usize) -> bool {
        self.in_sub[*a]
    }
    fn rep_z(&self, a: &usize, z: u64) -> te::Projective<P> {
        let f = &self.m.f;
        let z = f.from_u64(z);
        let (x, y) = self.xy_m(*a);
        te::Projective::new_unchecked(self.lib(f.mul(x, z)), self.lib(f.mul(y, z)), self.lib(f.mul(f.mul(x, y), z)), self.lib(z))
    }
    fn reps(&self, a: &usize) -> Vec<(te::Projective<P>, Tag)> {
        let f = &self.m.f;
        let (x, y) = self.xy_m(*a);
        self.zs
            .iter()
            .map(|z| {
                let one = *z == f.one();
                (
                    te::Projective::new_unchecked(self.lib(f.mul(x, *z)), self.lib(f.mul(y, *z)), self.lib(f.mul(f.mul(x, y), *z)), self.lib(*z)),
                    Tag { z_one: one, noncanon_id: *a == self.g.id && !one },
                )
            })
            .collect()
    }
    fn proj_is(&self, q: &te::Projective<P>, want: &usize) -> bool {
        let f = &self.m.f;
        let (x, y, t, z) = (f.from_lib(&q.x), f.from_lib(&q.y), f.from_lib(&q.t), f.from_lib(&q.z));
        let (wx, wy) = self.xy_m(*want);
        !f.is_zero(z) && x == f.mul(wx, z) && y == f.mul(wy, z) && f.mul(t, z) == f.mul(x, y)
    }
    fn aff_is(&self, a: &te::Affine<P>, want: &usize) -> bool {
        let f = &self.m.f;
        (f.from_lib(&a.x), f.from_lib(&a.y)) == self.xy_m(*want)
    }
    fn xy(&self, a: &usize) -> Option<(P::BaseField, P::BaseField)> {
        if *a == self.g.id {
            return None;
        }
        let (x, y) = self.xy_m(*a);
        Some((self.lib(x), self.lib(y)))
    }
    fn small_order(&self, a: &usize) -> u32 {
        self.ord[*a]
    }
    fn show(&self, a: &usize) -> String {
        format!("#{}:{:?}", a, self.g.pts[*a])
    }
}

/// Z in {1, 2, g, p-1} with g the smallest primitive root outside {1, 2, p-1}
fn z4(p: u64) -> Vec<u64> {
    let f = PrimeModel { p };
    let is_gen = |g: u64| {
        let mut x = 1u64;
        for k in 1..p {
            x = f.mul(x, g);
            if x == 1 {
                return k == p - 1;
            }
        }
        false
    };
    let g = (3..p - 1).find(|g| is_gen(*g)).expect("primitive root");
    vec![1, 2, g, p - 1]
}
const TINY: [&str; 4] = ["SwP13A0B2", "SwP13A0B4", "SwP31A2B2", "TeP13"];
/// thorough tier: Z over all of F_p^* for these too
const MID: [&str; 4] = ["SwP61A0B2", "SwP61A0B8", "SwP59A1B3", "SwP59A1B8"];
fn all_z(ctx: &Ctx, name: &str) -> bool {
    TINY.contains(&name) || (ctx.thorough() && MID.contains(&name))
}

fn toy_sw_prime<P: SWCurveConfig>(ctx: &mut Ctx, name: &str) -> ToySw<P, PrimeModel>
where
    P::BaseField: PrimeField,
{
    let t = SwToy::<P>::new(name);
    t.validate(ctx);
    let p = t.p;
    let zs: Vec<u64> = if all_z(ctx, name) { (1..p).collect() } else { z4(p) };
    // identity as (x, y, 0): canonical (1,1) first, then junk
    let junk = vec![(1, 1), (0, 0), (0, 1), (1, 0), (p - 2, 3 % p)];
    let SwToy { m, g, gen, in_subgroup, .. } = t;
    ToySw::build(&format!("toy/{name}"), m, g, zs, junk, gen, in_subgroup)
}
fn toy_te_prime<P: TECurveConfig>(ctx: &mut Ctx, name: &str) -> ToyTe<P, PrimeModel>
where
    P::BaseField: PrimeField,
{
    let t = TeToy::<P>::new(name);
    t.validate(ctx);
    let p = t.p;
    let zs: Vec<u64> = if all_z(ctx, name) { (1..p).collect() } else { z4(p) };
    let TeToy { m, g, gen, in_subgroup, complete, .. } = t;
    let negt = (0..g.n()).map(|i| g.index[&m.neg(g.pts[i])]).collect();
    let ord = small_orders(&g);
    ToyTe { name: format!("toy/{name}"), m, g, zs, negt, ord, gen, in_sub: in_subgroup, complete, _p: PhantomData }
}

fn run_toy_sw<P: SWCurveConfig>(ctx: &mut Ctx, name: &str)
where
    P::BaseField: PrimeField,
{
    if !wanted_prefix(ctx, &format!("toy/{name}")) {
        return;
    }
    let o = toy_sw_prime::<P>(ctx, name);
    let pts = o.all();
    ctx.bound(&format!("toy/{name}"), format!("#E={} all ordered pairs; Z in {:?}; identity as (x,y,0) for (x,y) in {:?}", pts.len(), if o.zs.len() > 6 { vec![1, o.zs.len() as u64] } else { o.zs.clone() }, o.junk));
    swe::pairs(ctx, &o, &pts, true);
    swe::unary(ctx, &o, &pts);
    swe::sums(ctx, &o, &o.subset());
    let (pats, all_shifts) = (kind_patterns(5, 9), ctx.thorough());
    swe::batch(ctx, &o, &pts, &o.subset(), &pats, all_shifts);
}
fn run_toy_te<P: TECurveConfig>(ctx: &mut Ctx, name: &str)
where
    P::BaseField: PrimeField,
{
    if !wanted_prefix(ctx, &format!("toy/{name}")) {
        return;
    }
    let o = toy_te_prime::<P>(ctx, name);
    let pts = o.scope();
    ctx.bound(&format!("toy/{name}"), format!("complete={} points in scope={} of {} all ordered pairs; Z (incl. identity (0,z,0,z)) in {:?}", o.complete, pts.len(), o.g.n(), if o.zs.len() > 6 { vec![1, o.zs.len() as u64] } else { o.zs.clone() }));
    tee::pairs(ctx, &o, &pts, true);
    tee::unary(ctx, &o, &pts);
    tee::sums(ctx, &o, &o.subset());
    let (pats, all_shifts) = (kind_patterns(5, 9), ctx.thorough());
    tee::batch(ctx, &o, &pts, &o.subset(), &pats, all_shifts);
}

// =====================================================================================================
// toy curves over extension fields (defined here; parameters found by /verif-independent brute force
// and re-validated below by counting points with the model)
// =====================================================================================================
pub struct Q7Cfg;
impl Fp2Config for Q7Cfg {
    type Fp = D7;
    const NONRESIDUE: D7 = MontFp!("6");
    const FROBENIUS_COEFF_FP2_C1: &'static [D7] = &[MontFp!("1"), MontFp!("6")];
}
pub type Q7 = Fp2<Q7Cfg>;
pub struct Q13Cfg;
impl Fp2Config for Q13Cfg {
    type Fp = D13;
    const NONRESIDUE: D13 = MontFp!("2");
    const FROBENIUS_COEFF_FP2_C1: &'static [D13] = &[MontFp!("1"), MontFp!("12")];
}
pub type Q13 = Fp2<Q13Cfg>;
pub struct C7Cfg;
impl Fp3Config for C7Cfg {
    type Fp = D7;
    const NONRESIDUE: D7 = MontFp!("2");
    const FROBENIUS_COEFF_FP3_C1: &'static [D7] = &[MontFp!("1"), MontFp!("4"), MontFp!("2")];
    const FROBENIUS_COEFF_FP3_C2: &'static [D7] = &[MontFp!("1"), MontFp!("2"), MontFp!("4")];
    const TWO_ADICITY: u32 = 1;
    const TRACE_MINUS_ONE_DIV_TWO: &'static [u64] = &[85];
    const QUADRATIC_NONRESIDUE_TO_T: Fp3<Self> = Fp3::<Self>::new(MontFp!("6"), MontFp!("0"), MontFp!("0"));
}
pub type C7 = Fp3<C7Cfg>;

macro_rules! ext_sw {
    ($name:ident, $F:ty, $R:ty, $h:expr, $hinv:expr, $a:expr, $b:expr, $gx:expr, $gy:expr) => {
        #[derive(Clone, Copy, Debug, Default, PartialEq, Eq)]
        pub struct $name;
        impl CurveConfig for $name {
            type BaseField = $F;
            type ScalarField = $R;
            const COFACTOR: &'static [u64] = &[$h];
            const COFACTOR_INV: $R = MontFp!($hinv);
        }
        impl SWCurveConfig for $name {
            const COEFF_A: $F = $a;
            const COEFF_B: $F = $b;
            const GENERATOR: sw::Affine<Self> = sw::Affine::new_unchecked($gx, $gy);
        }
    };
}
// y^2 = x^3 + (2+3u) over F_7[u]/(u^2+1): 52 = 4 * 13 points, 2-torsion
ext_sw!(SwQ7A0, Q7, D13, 4, "10", Q7::new(MontFp!("0"), MontFp!("0")), Q7::new(MontFp!("2"), MontFp!("3")), Q7::new(MontFp!("1"), MontFp!("4")), Q7::new(MontFp!("2"), MontFp!("0")));
// y^2 = x^3 + u x + (2+2u) over F_13[u]/(u^2-2): 172 = 4 * 43 points
ext_sw!(SwQ13A, Q13, D43, 4, "11", Q13::new(MontFp!("0"), MontFp!("1")), Q13::new(MontFp!("2"), MontFp!("2")), Q13::new(MontFp!("1"), MontFp!("2")), Q13::new(MontFp!("5"), MontFp!("9")));
// y^2 = x^3 + (u+u^2) over F_7[u]/(u^3-2): 364 = 28 * 13 points (a = 0, extension degree 3: the generic doubling branch)
ext_sw!(
    SwC7A0,
    C7,
    D13,
    28,
    "7",
    C7::new(MontFp!("0"), MontFp!("0"), MontFp!("0")),
    C7::new(MontFp!("0"), MontFp!("1"), MontFp!("1")),
    C7::new(MontFp!("1"), MontFp!("3"), MontFp!("5")),
    C7::new(MontFp!("1"), MontFp!("3"), MontFp!("4"))
);
// y^2 = x^3 + u x + (1+u+u^2) over F_7[u]/(u^3-2): 366 = 6 * 61 points
ext_sw!(
    SwC7A,
    C7,
    D61,
    6,
    "51",
    C7::new(MontFp!("0"), MontFp!("1"), MontFp!("0")),
    C7::new(MontFp!("1"), MontFp!("1"), MontFp!("1")),
    C7::new(MontFp!("0"), MontFp!("1"), MontFp!("0")),
    C7::new(MontFp!("0"), MontFp!("3"), MontFp!("2"))
);

fn toy_sw_ext<P: SWCurveConfig, M: Br<P::BaseField>>(ctx: &mut Ctx, name: &str, model: M, all_z: bool) -> Option<ToySw<P, M>> {
    let f = model.clone();
    // the bridge itself: to_lib/from_lib round trip and agreement of one product (typo guard)
    let els = f.elements();
    let probe = [els[1], els[els.len() - 1], els[els.len() / 2 + 3]];
    for a in probe {
        for b in probe {
            ctx.validate(f.from_lib(&(f.to_lib(a) * f.to_lib(b))) == f.mul(a, b) && f.from_lib(&(f.to_lib(a) + f.to_lib(b))) == f.add(a, b), &format!("{name}: field bridge on {a:?},{b:?}"));
        }
    }
    let m = SwModel { f: f.clone(), a: f.from_lib(&P::COEFF_A), b: f.from_lib(&P::COEFF_B) };
    let pts = m.points();
    let n = pts.len() as u64;
    let q = f.order();
    let mm = m.clone();
    let g = GroupTable::build(pts, Pt::O, move |a, b| Some(mm.add(a, b)));
    let r = P::ScalarField::MODULUS.as_ref()[0];
    let h = P::COFACTOR[0];
    let gen_pt = Pt::A(f.from_lib(&P::GENERATOR.x), f.from_lib(&P::GENERATOR.y));
    let Some(gen) = g.index.get(&gen_pt).copied() else {
        ctx.validate(false, &format!("{name}: generator on the curve"));
        return None;
    };
    let d = n as i64 - (q as i64 + 1);
    ctx.validate((d * d) as u64 <= 4 * q, &format!("{name}: Hasse bound, #E={n} q={q}"));
    ctx.validate(n == h * r && h % r != 0, &format!("{name}: #E = {n} = h*r = {h}*{r}"));
    ctx.validate(g.order(gen) == Some(r), &format!("{name}: generator has order r"));
    let k = g.n().min(14);
    let mut ok = true;
    for a in 0..k {
        for b in 0..k {
            for c in 0..k {
                ok &= g.add[g.add[a][b]][c] == g.add[a][g.add[b][c]];
            }
        }
    }
    ctx.validate(ok, &format!("{name}: oracle law associative"));
    let in_sub: Vec<bool> = (0..g.n()).map(|i| g.mul(r, i) == Some(g.id)).collect();
    let one = f.one();
    let zs: Vec<M::E> = if all_z {
        els.iter().copied().filter(|e| !f.is_zero(*e)).collect()
    } else {
        // 1, 2, -1, an element with every coordinate non-zero, a generic one
        let v = vec![one, f.from_u64(2), f.neg(one), els[els.len() - 2], els[q as usize / 2 + 3]];
        let mut out: Vec<M::E> = Vec::new();
        for z in v {
            if !f.is_zero(z) && !out.contains(&z) {
                out.push(z);
            }
        }
        out
    };
    let zero = f.zero();
    let junk = vec![(one, one), (zero, zero), (zero, one), (one, zero), (els[els.len() - 2], els[els.len() / 2 + 3])];
    Some(ToySw::build(&format!("ext/{name}"), m, g, zs, junk, gen, in_sub))
}
fn run_toy_sw_ext<P: SWCurveConfig, M: Br<P::BaseField>>(ctx: &mut Ctx, name: &str, model: M, all_z: bool) {
    if !wanted_prefix(ctx, &format!("ext/{name}")) {
        return;
    }
    let Some(o) = toy_sw_ext::<P, M>(ctx, name, model, all_z) else { return };
    run_toy_sw_handmade(ctx, o);
}
fn run_toy_sw_handmade<P: SWCurveConfig, M: Br<P::BaseField>>(ctx: &mut Ctx, o: ToySw<P, M>) {
    let pts = o.all();
    ctx.bound(&o.name, format!("#E={} all ordered pairs; {} Z values {:?}", pts.len(), o.zs.len(), if o.zs.len() > 8 { Vec::new() } else { o.zs.clone() }));
    swe::pairs(ctx, &o, &pts, true);
    swe::unary(ctx, &o, &pts);
    swe::sums(ctx, &o, &o.subset());
    let (pats, all_shifts) = (kind_patterns(5, 9), ctx.thorough());
    swe::batch(ctx, &o, &pts, &o.subset(), &pats, all_shifts);
}

// y^2 = x^3 + 2x over F_29 (COEFF_B = 0): 26 = 2 * 13 points, (0, 0) is a genuine point of order 2.  Declared by
// hand like the extension-field toys; validated at start-up by brute-force point counting with the model.
ext_sw!(SwP29A2B0, D29, D13, 2, "7", MontFp!("2"), MontFp!("0"), MontFp!("6"), MontFp!("5"));
fn run_toy_sw_b0(ctx: &mut Ctx) {
    let name = "SwP29A2B0";
    if !wanted_prefix(ctx, &format!("toy/{name}")) {
        return;
    }
    let Some(mut o) = toy_sw_ext::<SwP29A2B0, PrimeModel>(ctx, name, PrimeModel { p: 29 }, true) else { return };
    o.name = format!("toy/{name}");
    let t = o.g.index.get(&Pt::A(0, 0)).copied();
    ctx.validate(o.m.b == 0 && t.map_or(false, |t| o.ord[t] == 2 && o.g.add[t][t] == o.g.id && !o.in_sub[t]), &format!("{name}: COEFF_B = 0 and (0, 0) is a point of order 2 outside the subgroup"));
    run_toy_sw_handmade(ctx, o);
}

// =====================================================================================================
// shipped curves (alphabet products): the oracle is the affine law over `F: Field`, using only the
// field's add / sub / mul / inverse and the configuration's COEFF_* constants
// =====================================================================================================
type BF<P> = <P as CurveConfig>::BaseField;
type SPt<P> = Option<(BF<P>, BF<P>)>;

fn sw_on_curve<P: SWCurveConfig>(p: &SPt<P>) -> bool {
    match p {
        None => true,
        Some((x, y)) => *y * *y == *x * *x * *x + P::COEFF_A * *x + P::COEFF_B,
    }
}
fn sw_law_neg<P: SWCurveConfig>(p: &SPt<P>) -> SPt<P> {
    p.map(|(x, y)| (x, BF::<P>::ZERO - y))
}
fn sw_law_add<P: SWCurveConfig>(p: &SPt<P>, q: &SPt<P>) -> SPt<P> {
    let (Some((x1, y1)), Some((x2, y2))) = (*p, *q) else {
        return if p.is_none() { *q } else { *p };
    };
    let l = if x1 == x2 {
        if (y1 + y2).is_zero() {
            return None;
        }
        let xx = x1 * x1;
        (xx + xx + xx + P::COEFF_A) * (y1 + y1).inverse().expect("oracle: 2y != 0")
    } else {
        (y2 - y1) * (x2 - x1).inverse().expect("oracle: x2 != x1")
    };
    let x3 = l * l - x1 - x2;
    let y3 = l * (x1 - x3) - y1;
    Some((x3, y3))
}
/// k*P by MSB-first double-and-add with the oracle law
fn sw_law_mul<P: SWCurveConfig>(p: &SPt<P>, k: &BigUint) -> SPt<P> {
    let mut acc: SPt<P> = None;
    for i in (0..k.bits()).rev() {
        acc = sw_law_add::<P>(&acc, &acc);
        if k.bit(i) {
            acc = sw_law_add::<P>(&acc, p);
        }
    }
    acc
}

pub struct ShipSw<P: SWCurveConfig> {
    pub name: String,
    pub zs: Vec<BF<P>>,
    /// alphabet points known (by the oracle law) to lie in the prime-order subgroup
    pub sub: Vec<SPt<P>>,
}
/// the SW affine identity with non-zero hidden coordinates (the fields are public)
fn sw_hidden_identities<P: SWCurveConfig>() -> Vec<sw::Affine<P>> {
    let one = BF::<P>::ONE;
    vec![sw::Affine::<P> { x: one, y: one, infinity: true }, sw::Affine::<P> { x: P::GENERATOR.x, y: P::GENERATOR.y, infinity: true }]
}
impl<P: SWCurveConfig> swe::Or<P> for ShipSw<P> {
    type Pt = SPt<P>;
    fn name(&self) -> &str {
        &self.name
    }
    fn id(&self) -> SPt<P> {
        None
    }
    fn add(&self, a: &SPt<P>, b: &SPt<P>) -> Option<SPt<P>> {
        Some(sw_law_add::<P>(a, b))
    }
    fn neg(&self, a: &SPt<P>) -> SPt<P> {
        sw_law_neg::<P>(a)
    }
    fn aff(&self, a: &SPt<P>) -> sw::Affine<P> {
        match a {
            None => sw::Affine::identity(),
            Some((x, y)) => sw::Affine::new_unchecked(*x, *y),
        }
    }
    fn aff_alts(&self, a: &SPt<P>) -> Vec<sw::Affine<P>> {
        if a.is_none() {
            sw_hidden_identities::<P>()
        } else {
            Vec::new()
        }
    }
    fn gen(&self) -> SPt<P> {
        Some((P::GENERATOR.x, P::GENERATOR.y))
    }
    fn in_subgroup(&self, a: &SPt<P>) -> bool {
        self.sub.contains(a)
    }
    fn rep_z(&self, a: &SPt<P>, z: u64) -> sw::Projective<P> {
        let z = BF::<P>::from(z);
        match a {
            None => sw::Projective::new_unchecked(BF::<P>::ONE, BF::<P>::ONE, BF::<P>::ZERO),
            Some((x, y)) => {
                let z2 = z * z;
                sw::Projective::new_unchecked(*x * z2, *y * z2 * z, z)
            }
        }
    }
    fn reps(&self, a: &SPt<P>) -> Vec<(sw::Projective<P>, Tag)> {
        let (z0, o1) = (BF::<P>::ZERO, BF::<P>::ONE);
        match a {
            None => vec![
                (sw::Projective::new_unchecked(o1, o1, z0), Tag { z_one: false, noncanon_id: false }),
                (sw::Projective::new_unchecked(z0, z0, z0), Tag { z_one: false, noncanon_id: true }),
                (sw::Projective::new_unchecked(P::GENERATOR.x, P::GENERATOR.y + o1, z0), Tag { z_one: false, noncanon_id: true }),
            ],
            Some((x, y)) => self
                .zs
                .iter()
                .map(|z| {
                    let z2 = *z * *z;
                    (sw::Projective::new_unchecked(*x * z2, *y * z2 * *z, *z), Tag { z_one: *z == o1, noncanon_id: false })
                })
                .collect(),
        }
    }
    fn proj_is(&self, q: &sw::Projective<P>, want: &SPt<P>) -> bool {
        match want {
            None => q.z == BF::<P>::ZERO,
            Some((x, y)) => {
                let z2 = q.z * q.z;
                q.z != BF::<P>::ZERO && q.x == *x * z2 && q.y == *y * z2 * q.z
            }
        }
    }
    fn aff_is(&self, a: &sw::Affine<P>, want: &SPt<P>) -> bool {
        match want {
            None => a.infinity,
            Some((x, y)) => !a.infinity && a.x == *x && a.y == *y,
        }
    }
    fn xy(&self, a: &SPt<P>) -> Option<(BF<P>, BF<P>)> {
        *a
    }
    fn small_order(&self, a: &SPt<P>) -> u32 {
        match a {
            None => 1,
            Some((_, y)) if y.is_zero() => 2,
            _ => match sw_law_add::<P>(a, a) {
                Some((_, y)) if y.is_zero() => 4,
                _ => 0,
            },
        }
    }
    fn show(&self, a: &SPt<P>) -> String {
        match a {
            None => "O".into(),
            Some((x, y)) => format!("({x}, {y})"),
        }
    }
}

fn push_new<T: PartialEq>(v: &mut Vec<T>, x: T) {
    if !v.contains(&x) {
        v.push(x);
    }
}
/// largest e with l^e | h, and h / l^e ... returned as (e)
fn valuation(h: &BigUint, l: u32) -> u32 {
    let mut e = 0;
    let mut t = h.clone();
    let l = BigUint::from(l);
    while !t.is_zero() && (&t % &l).is_zero() {
        t /= &l;
        e += 1;
    }
    e
}

fn ship_sw<P: SWCurveConfig>(ctx: &mut Ctx, short: &str) {
    let name = format!("ship/{short}");
    if !wanted_prefix(ctx, &name) {
        return;
    }
    let g: SPt<P> = Some((P::GENERATOR.x, P::GENERATOR.y));
    let r = from_limbs(P::ScalarField::MODULUS.as_ref());
    let h = from_limbs(P::COFACTOR);
    let n = &r * &h;
    let one = BigUint::from(1u32);
    ctx.validate(sw_on_curve::<P>(&g), &format!("{name}: generator satisfies the curve equation"));
    ctx.validate(sw_law_mul::<P>(&g, &r).is_none(), &format!("{name}: r*G = O by the oracle law"));
    let g2 = sw_law_add::<P>(&g, &g);
    let g3 = sw_law_add::<P>(&g2, &g);
    let rm1 = sw_law_mul::<P>(&g, &(&r - &one));
    ctx.validate(rm1 == sw_law_neg::<P>(&g), &format!("{name}: (r-1)*G = -G by the oracle law"));
    // H = ((r+1)/2)*G, a generic-looking subgroup point with 2H = G
    let half = sw_law_mul::<P>(&g, &((&r + &one) >> 1));
    ctx.validate(sw_law_add::<P>(&half, &half) == g, &format!("{name}: 2*((r+1)/2)*G = G by the oracle law"));
    let mut pts: Vec<SPt<P>> = vec![None, g, sw_law_neg::<P>(&g), g2, g3];
    push_new(&mut pts, half);
    let sub = pts.clone();
    // further curve points from x = 0, 1, 2, ... (validated with the oracle equation)
    let mut cands: Vec<SPt<P>> = Vec::new();
    let mut x = 0u64;
    while cands.len() < 4 && x < 64 {
        if let Some(a) = sw::Affine::<P>::get_point_from_x_unchecked(BF::<P>::from(x), false) {
            let c: SPt<P> = Some((a.x, a.y));
            if sw_on_curve::<P>(&c) {
                cands.push(c);
            } else {
                eprintln!("note: {name}: get_point_from_x_unchecked({x}) is not on the curve (C11's business), skipped");
            }
        }
        x += 1;
    }
    let mut n_out = 0;
    let mut n_tors = 0;
    if h == one {
        if let Some(c) = cands.iter().find(|c| !pts.contains(c) && !pts.contains(&sw_law_neg::<P>(c))) {
            push_new(&mut pts, *c);
        }
    } else {
        if let Some(c) = cands.iter().find(|c| sw_law_mul::<P>(c, &r).is_some()) {
            push_new(&mut pts, *c);
            n_out = 1;
        }
        // 2-power torsion: (n / 2^s) * W, then double down to the point of order 2 (and the one of order 4 before it)
        let s = valuation(&h, 2);
        if s > 0 {
            let e = &n >> (s as usize);
            for c in &cands {
                let mut t = sw_law_mul::<P>(c, &e);
                if t.is_none() {
                    continue;
                }
                let mut chain = vec![t];
                for _ in 0..s {
                    t = sw_law_add::<P>(&t, &t);
                    if t.is_none() {
                        break;
                    }
                    chain.push(t);
                }
                if t.is_some() {
                    eprintln!("note: {name}: (n/2^s)*W does not have 2-power order (COFACTOR is C16's business), torsion point skipped");
                    break;
                }
                for t in chain.iter().rev().take(2) {
                    push_new(&mut pts, *t);
                    n_tors += 1;
                }
                break;
            }
        }
        // a point of order 3
        let s3 = valuation(&h, 3);
        if s3 > 0 {
            let e = &n / BigUint::from(3u32).pow(s3);
            for c in &cands {
                let mut t = sw_law_mul::<P>(c, &e);
                if t.is_none() {
                    continue;
                }
                for _ in 0..s3 {
                    let t3 = sw_law_add::<P>(&sw_law_add::<P>(&t, &t), &t);
                    if t3.is_none() {
                        push_new(&mut pts, t);
                        n_tors += 1;
                        break;
                    }
                    t = t3;
                }
                break;
            }
        }
    }
    for p in &pts {
        ctx.validate(sw_on_curve::<P>(p), &format!("{name}: alphabet point on the curve"));
    }
    // alphabet floors: the derived members are counted, and a curve with cofactor > 1 that ends up without any
    // point outside the subgroup is a machinery error (coverage must not shrink silently)
    ctx.add_class("ship:sw_points_outside_subgroup", n_out);
    ctx.add_class("ship:sw_points_of_small_order", n_tors);
    if h != one {
        ctx.add_class("ship:sw_curves_with_cofactor>1", 1);
        ctx.validate(n_out + n_tors > 0, &format!("{name}: cofactor > 1 but the alphabet has no point outside the prime-order subgroup"));
    }
    let m1 = BF::<P>::ZERO - BF::<P>::ONE;
    let mut zs = vec![BF::<P>::ONE, BF::<P>::ONE + BF::<P>::ONE, m1];
    let ext = ext_zs::<BF<P>>();
    if BF::<P>::extension_degree() > 1 {
        ctx.validate(ext.len() == 2 && ext[0].to_base_prime_field_elements().all(|c| !c.is_zero()) && ext[1].to_base_prime_field_elements().nth(1).map_or(false, |c| !c.is_zero()), &format!("{name}: extension-field Z values have the intended shape"));
        ctx.add_class("ship:sw_ext_field_generic_Z", 1);
    }
    zs.extend(ext);
    let o = ShipSw::<P> { name: name.clone(), zs, sub };
    ctx.bound(&name, format!("{} points (O, G, -G, 2G, 3G, ((r+1)/2)G, {} outside the subgroup, {} of small order, rest: first new point from x=0,1,..) x Z in {{1,2,-1{}}} x identity as (1,1,0),(0,0,0),(gx,gy+1,0); affine identity also as (1,1,inf),(gx,gy,inf); a=0:{} ext_degree:{}", pts.len(), n_out, n_tors, if o.zs.len() > 3 { ", 2+3u[+5u^2], u" } else { "" }, P::COEFF_A.is_zero(), BF::<P>::extension_degree()));
    ctx.add_class("ship:sw_curves", 1);
    swe::pairs(ctx, &o, &pts, true);
    swe::unary(ctx, &o, &pts);
    swe::sums(ctx, &o, &pts[..pts.len().min(8)]);
    swe::batch(ctx, &o, &pts, &pts, &ship_patterns(), false);
    if LARGE_BATCH_CURVES.contains(&short) {
        swe::batch_large(ctx, &o, &LARGE_BATCH_LENS);
    }
}
/// extension fields only: Z = 2 + 3u [+ 5u^2 ...] (every coordinate non-zero) and Z = u (outside the prime subfield)
fn ext_zs<F: Field>() -> Vec<F> {
    let d = F::extension_degree() as usize;
    if d < 2 {
        return Vec::new();
    }
    let small = [2u64, 3, 5, 7, 11, 13, 17, 19, 23, 29, 31, 37, 41, 43, 47, 53, 59, 61];
    let generic = F::from_base_prime_field_elems((0..d).map(|i| F::BasePrimeField::from(small[i % small.len()])));
    let u = F::from_base_prime_field_elems((0..d).map(|i| F::BasePrimeField::from((i == 1) as u64)));
    [generic, u].into_iter().flatten().collect()
}

// ---- twisted Edwards
type TPt<P> = (BF<P>, BF<P>);
fn te_on_curve<P: TECurveConfig>(p: &TPt<P>) -> bool {
    let (x2, y2) = (p.0 * p.0, p.1 * p.1);
    P::COEFF_A * x2 + y2 == BF::<P>::ONE + P::COEFF_D * x2 * y2
}
fn te_law_add<P: TECurveConfig>(p: &TPt<P>, q: &TPt<P>) -> Option<TPt<P>> {
    let ((x1, y1), (x2, y2)) = (*p, *q);
    let t = P::COEFF_D * x1 * x2 * y1 * y2;
    let dx = (BF::<P>::ONE + t).inverse()?;
    let dy = (BF::<P>::ONE - t).inverse()?;
    Some(((x1 * y2 + y1 * x2) * dx, (y1 * y2 - P::COEFF_A * x1 * x2) * dy))
}
fn te_law_mul<P: TECurveConfig>(p: &TPt<P>, k: &BigUint) -> Option<TPt<P>> {
    let mut acc: TPt<P> = (BF::<P>::ZERO, BF::<P>::ONE);
    for i in (0..k.bits()).rev() {
        acc = te_law_add::<P>(&acc, &acc)?;
        if k.bit(i) {
            acc = te_law_add::<P>(&acc, p)?;
        }
    }
    Some(acc)
}
pub struct ShipTe<P: TECurveConfig> {
    pub name: String,
    pub zs: Vec<BF<P>>,
    /// alphabet points known (by the oracle law) to lie in the prime-order subgroup
    pub sub: Vec<TPt<P>>,
}
impl<P: TECurveConfig> tee::Or<P> for ShipTe<P> {
    type Pt = TPt<P>;
    fn name(&self) -> &str {
        &self.name
    }
    fn id(&self) -> TPt<P> {
        (BF::<P>::ZERO, BF::<P>::ONE)
    }
    fn add(&self, a: &TPt<P>, b: &TPt<P>) -> Option<TPt<P>> {
        te_law_add::<P>(a, b)
    }
    fn neg(&self, a: &TPt<P>) -> TPt<P> {
        (BF::<P>::ZERO - a.0, a.1)
    }
    fn aff(&self, a: &TPt<P>) -> te::Affine<P> {
        te::Affine::new_unchecked(a.0, a.1)
    }
    fn gen(&self) -> TPt<P> {
        (P::GENERATOR.x, P::GENERATOR.y)
    }
    fn in_subgroup(&self, a: &TPt<P>) -> bool {
        self.sub.contains(a)
    }
    fn rep_z(&self, a: &TPt<P>, z: u64) -> te::Projective<P> {
        let z = BF::<P>::from(z);
        te::Projective::new_unchecked(a.0 * z, a.1 * z, a.0 * a.1 * z, z)
    }
    fn reps(&self, a: &TPt<P>) -> Vec<(te::Projective<P>, Tag)> {
        let is_id = *a == tee::Or::<P>::id(self);
        self.zs
            .iter()
            .map(|z| {
                let one = *z == BF::<P>::ONE;
                (te::Projective::new_unchecked(a.0 * *z, a.1 * *z, a.0 * a.1 * *z, *z), Tag { z_one: one, noncanon_id: is_id && !one })
            })
            .collect()
    }
    fn proj_is(&self, q: &te::Projective<P>, want: &TPt<P>) -> bool {
        q.z != BF::<P>::ZERO && q.x == want.0 * q.z && q.y == want.1 * q.z && q.t * q.z == q.x * q.y
    }
    fn aff_is(&self, a: &te::Affine<P>, want: &TPt<P>) -> bool {
        a.x == want.0 && a.y == want.1
    }
    fn xy(&self, a: &TPt<P>) -> Option<(BF<P>, BF<P>)> {
        (*a != tee::Or::<P>::id(self)).then_some(*a)
    }
    fn small_order(&self, a: &TPt<P>) -> u32 {
        let id = tee::Or::<P>::id(self);
        if *a == id {
            return 1;
        }
        let Some(d) = te_law_add::<P>(a, a) else { return 0 };
        if d == id {
            return 2;
        }
        match te_law_add::<P>(&d, &d) {
            Some(q) if q == id => 4,
            _ => 0,
        }
    }
    fn show(&self, a: &TPt<P>) -> String {
        format!("({}, {})", a.0, a.1)
    }
}

fn ship_te<P: TECurveConfig>(ctx: &mut Ctx, short: &str) {
    let name = format!("ship/{short}");
    if !wanted_prefix(ctx, &name) {
        return;
    }
    let id: TPt<P> = (BF::<P>::ZERO, BF::<P>::ONE);
    let g: TPt<P> = (P::GENERATOR.x, P::GENERATOR.y);
    let r = from_limbs(P::ScalarField::MODULUS.as_ref());
    let h = from_limbs(P::COFACTOR);
    let n = &r * &h;
    let one = BigUint::from(1u32);
    // scope of the property: a square and d non-square <=> the law is complete on all of E(F_q)
    let complete = P::COEFF_A.legendre().is_qr() && P::COEFF_D.legendre().is_qnr();
    ctx.validate(te_on_curve::<P>(&g), &format!("{name}: generator satisfies the curve equation"));
    ctx.validate(te_law_mul::<P>(&g, &r) == Some(id), &format!("{name}: r*G = O by the oracle law"));
    let ng = (BF::<P>::ZERO - g.0, g.1);
    let (Some(g2), Some(rm1)) = (te_law_add::<P>(&g, &g), te_law_mul::<P>(&g, &(&r - &one))) else {
        ctx.validate(false, &format!("{name}: oracle law defined on the subgroup"));
        return;
    };
    let Some(g3) = te_law_add::<P>(&g2, &g) else { return };
    ctx.validate(rm1 == ng, &format!("{name}: (r-1)*G = -G by the oracle law"));
    let Some(half) = te_law_mul::<P>(&g, &((&r + &one) >> 1)) else { return };
    ctx.validate(te_law_add::<P>(&half, &half) == Some(g), &format!("{name}: 2*((r+1)/2)*G = G by the oracle law"));
    let mut pts: Vec<TPt<P>> = vec![id, g, ng, g2, g3];
    push_new(&mut pts, half);
    let sub = pts.clone();
    let mut n_out = 0;
    let mut n_tors = 0;
    if complete {
        let mut cands: Vec<TPt<P>> = Vec::new();
        let mut y = 2u64;
        while cands.len() < 3 && y < 64 {
            if let Some(a) = te::Affine::<P>::get_point_from_y_unchecked(BF::<P>::from(y), false) {
                if te_on_curve::<P>(&(a.x, a.y)) {
                    cands.push((a.x, a.y));
                }
            }
            y += 1;
        }
        if let Some(c) = cands.iter().find(|c| te_law_mul::<P>(c, &r) != Some(id)) {
            push_new(&mut pts, *c);
            n_out = 1;
        }
        let s = valuation(&h, 2);
        if s > 0 {
            let e = &n >> (s as usize);
            for c in &cands {
                let Some(mut t) = te_law_mul::<P>(c, &e) else { continue };
                if t == id {
                    continue;
                }
                let mut chain = vec![t];
                for _ in 0..s {
                    t = te_law_add::<P>(&t, &t).expect("complete law");
                    if t == id {
                        break;
                    }
                    chain.push(t);
                }
                if t != id {
                    eprintln!("note: {name}: (n/2^s)*W does not have 2-power order (COFACTOR is C16's business), torsion points skipped");
                    break;
                }
                for t in chain.iter().rev().take(3) {
                    push_new(&mut pts, *t);
                    n_tors += 1;
                }
                break;
            }
        }
    }
    for p in &pts {
        ctx.validate(te_on_curve::<P>(p), &format!("{name}: alphabet point on the curve"));
    }
    ctx.add_class("ship:te_points_outside_subgroup", n_out);
    ctx.add_class("ship:te_points_of_2power_order", n_tors);
    if complete && h != one {
        // (incomplete parameters: only the prime-order subgroup is in scope, nothing to lose)
        ctx.add_class("ship:te_complete_curves_with_cofactor>1", 1);
        ctx.validate(n_out + n_tors > 0, &format!("{name}: complete curve with cofactor > 1 but the alphabet has no point outside the prime-order subgroup"));
    }
    let m1 = BF::<P>::ZERO - BF::<P>::ONE;
    let mut zs = vec![BF::<P>::ONE, BF::<P>::ONE + BF::<P>::ONE, m1];
    zs.extend(ext_zs::<BF<P>>());
    let o = ShipTe::<P> { name: name.clone(), zs, sub };
    ctx.bound(&name, format!("complete={complete}; {} points (O, G, -G, 2G, 3G, ((r+1)/2)G, {} outside the subgroup, {} of 2-power order) x Z in {{1,2,-1}} (identity too)", pts.len(), n_out, n_tors));
    ctx.add_class(if complete { "ship:te_complete" } else { "ship:te_subgroup_only" }, 1);
    tee::pairs(ctx, &o, &pts, true);
    tee::unary(ctx, &o, &pts);
    tee::sums(ctx, &o, &pts[..pts.len().min(8)]);
    tee::batch(ctx, &o, &pts, &pts, &ship_patterns(), false);
    if LARGE_BATCH_CURVES.contains(&short) {
        tee::batch_large(ctx, &o, &LARGE_BATCH_LENS);
    }
}

// =====================================================================================================
// S: operation sequences on raw projective coordinates
// =====================================================================================================
fn seq_sw(ctx: &mut Ctx) {
    type C = SwA0P103B3;
    let name = "seq/SwA0P103B3";
    if !wanted(ctx, name) {
        return;
    }
    let t = Arc::new(SwToy::<C>::new("SwA0P103B3"));
    t.validate(ctx);
    let n = t.n();
    let id = t.g.id;
    let negs: Vec<usize> = (0..n).map(|i| t.g.neg(i)).collect();
    let ord = small_orders(&t.g);
    let t2 = (0..n).find(|i| ord[*i] == 2).expect("2-torsion point");
    let w = (0..n).find(|i| !t.in_subgroup[*i] && ord[*i] == 0).expect("point outside the subgroup");
    let ops = [id, t.gen, t2, w];
    let zg = z4(t.p)[2];
    let projs = [t.proj_identity_junk(0, 1), t.proj(t.gen, zg), t.proj(t2, t.p - 1), t.proj(w, 2)];
    let affs = [t.aff(id), t.aff(t.gen), t.aff(t2), t.aff(w)];
    let raw = |p: &sw::Projective<C>| [prime_to_u64(&p.x), prime_to_u64(&p.y), prime_to_u64(&p.z)];
    let init: Vec<([u64; 3], usize)> = vec![
        (raw(&sw::Projective::<C>::zero()), id),
        (raw(&t.proj_identity_junk(0, 0)), id),
        (raw(&t.proj(t.gen, 1)), t.gen),
        (raw(&t.proj(t2, 5)), t2),
        (raw(&t.proj(w, zg)), w),
    ];
    let depth = ctx.t(5u8, 8u8);
    ctx.bound(name, format!("depth<={depth}; 15 actions: {{+=P, -=P, += affine P}} x P in {{O, G, T2 (order 2), W (outside subgroup)}}, double_in_place, neg, normalise; 5 initial representations"));
    let act_name = |a: usize| -> String {
        let pn = ["O", "G", "T2", "W"];
        match a {
            0..=3 => format!("+=proj {}", pn[a % 4]),
            4..=7 => format!("-=proj {}", pn[a % 4]),
            8..=11 => format!("+=affine {}", pn[a % 4]),
            12 => "double_in_place".into(),
            13 => "neg".into(),
            _ => "into_affine.into".into(),
        }
    };
    let tt = t.clone();
    let step = move |v: &([u64; 3], usize), act: usize| -> Result<Option<([u64; 3], usize)>, String> {
        let t = &tt;
        let mut p = sw::Projective::<C>::new_unchecked(t.fe(v.0[0]), t.fe(v.0[1]), t.fe(v.0[2]));
        let cur = v.1;
        let want = match act {
            0..=3 => {
                p += projs[act % 4];
                t.g.add[cur][ops[act % 4]]
            }
            4..=7 => {
                p -= projs[act % 4];
                t.g.add[cur][negs[ops[act % 4]]]
            }
            8..=11 => {
                p += affs[act % 4];
                t.g.add[cur][ops[act % 4]]
            }
            12 => {
                p.double_in_place();
                t.g.add[cur][cur]
            }
            13 => {
                p = -p;
                negs[cur]
            }
            _ => {
                p = p.into_affine().into();
                cur
            }
        };
        let got = t.idx_proj(&p);
        if got != Some(want) {
            return Err(format!("result {} decodes to {:?}, model says #{} {:?}", p.raw(), got.map(|i| t.g.pts[i]), want, t.g.pts[want]));
        }
        if p.is_zero() != (want == t.g.id) {
            return Err(format!("result {} is_zero()={} but model identity={}", p.raw(), p.is_zero(), want == t.g.id));
        }
        Ok(Some(([prime_to_u64(&p.x), prime_to_u64(&p.y), prime_to_u64(&p.z)], want)))
    };
    run_seq(ctx, name, init, 15, depth, act_name, step);
}

fn seq_te(ctx: &mut Ctx) {
    type C = TeP101;
    let name = "seq/TeP101";
    if !wanted(ctx, name) {
        return;
    }
    let t = Arc::new(TeToy::<C>::new("TeP101"));
    t.validate(ctx);
    ctx.validate(t.complete, "TeP101 is complete");
    let n = t.n();
    let id = t.g.id;
    let negs: Vec<usize> = (0..n).map(|i| t.g.neg(i)).collect();
    let ord = small_orders(&t.g);
    let t2 = (0..n).find(|i| ord[*i] == 2).expect("point of order 2");
    let w = (0..n).find(|i| !t.in_subgroup[*i] && ord[*i] == 0).expect("point outside the subgroup of order > 4");
    let ops = [id, t.gen, t2, w];
    let zg = z4(t.p)[2];
    let projs = [t.proj(id, 2), t.proj(t.gen, zg), t.proj(t2, t.p - 1), t.proj(w, 2)];
    let affs = [t.aff(id), t.aff(t.gen), t.aff(t2), t.aff(w)];
    let raw = |p: &te::Projective<C>| [prime_to_u64(&p.x), prime_to_u64(&p.y), prime_to_u64(&p.t), prime_to_u64(&p.z)];
    let o4 = (0..n).find(|i| ord[*i] == 4).expect("point of order 4");
    let init: Vec<([u64; 4], usize)> = vec![
        (raw(&te::Projective::<C>::zero()), id),
        (raw(&t.proj(id, zg)), id),
        (raw(&t.proj(t.gen, 1)), t.gen),
        (raw(&t.proj(o4, 5)), o4),
        (raw(&t.proj(w, zg)), w),
    ];
    let depth = ctx.t(5u8, 8u8);
    ctx.bound(name, format!("depth<={depth}; 15 actions: {{+=P, -=P, += affine P}} x P in {{O, G, T2 (order 2), W (outside subgroup)}}, double_in_place, neg, normalise; 5 initial representations"));
    let act_name = |a: usize| -> String {
        let pn = ["O", "G", "T2", "W"];
        match a {
            0..=3 => format!("+=proj {}", pn[a % 4]),
            4..=7 => format!("-=proj {}", pn[a % 4]),
            8..=11 => format!("+=affine {}", pn[a % 4]),
            12 => "double_in_place".into(),
            13 => "neg".into(),
            _ => "into_affine.into".into(),
        }
    };
    let tt = t.clone();
    let step = move |v: &([u64; 4], usize), act: usize| -> Result<Option<([u64; 4], usize)>, String> {
        let t = &tt;
        let mut p = te::Projective::<C>::new_unchecked(t.fe(v.0[0]), t.fe(v.0[1]), t.fe(v.0[2]), t.fe(v.0[3]));
        let cur = v.1;
        let want = match act {
            0..=3 => {
                p += projs[act % 4];
                t.g.add[cur][ops[act % 4]]
            }
            4..=7 => {
                p -= projs[act % 4];
                t.g.add[cur][negs[ops[act % 4]]]
            }
            8..=11 => {
                p += affs[act % 4];
                t.g.add[cur][ops[act % 4]]
            }
            12 => {
                p.double_in_place();
                t.g.add[cur][cur]
            }
            13 => {
                p = -p;
                negs[cur]
            }
            _ => {
                p = p.into_affine().into();
                cur
            }
        };
        let got = t.idx_proj(&p);
        if got != Some(want) {
            return Err(format!("result {} decodes to {:?} (None = not a curve point or T inconsistent), model says #{} {:?}", p.raw(), got.map(|i| t.g.pts[i]), want, t.g.pts[want]));
        }
        if p.is_zero() != (want == t.g.id) {
            return Err(format!("result {} is_zero()={} but model identity={}", p.raw(), p.is_zero(), want == t.g.id));
        }
        Ok(Some(([prime_to_u64(&p.x), prime_to_u64(&p.y), prime_to_u64(&p.t), prime_to_u64(&p.z)], want)))
    };
    run_seq(ctx, name, init, 15, depth, act_name, step);
}

// =====================================================================================================
// registry of shipped configurations
// =====================================================================================================
type Iso<C> = <C as WBConfig>::IsogenousCurve;
/// tier: 0 = quick and thorough, 1 = thorough only (753..782-bit groups over extension fields)
macro_rules! shipped_sw_curves {
    ($m:ident, $ctx:expr) => {
        $m!(ark_bls12_377::g1::Config, "bls12_377/g1", 0, $ctx);
        $m!(Iso<ark_bls12_377::g1::Config>, "bls12_377/g1_swu_iso", 0, $ctx);
        $m!(ark_bls12_377::g2::Config, "bls12_377/g2", 0, $ctx);
        $m!(Iso<ark_bls12_377::g2::Config>, "bls12_377/g2_swu_iso", 0, $ctx);
        $m!(ark_bls12_381::g1::Config, "bls12_381/g1", 0, $ctx);
        $m!(Iso<ark_bls12_381::g1::Config>, "bls12_381/g1_swu_iso", 0, $ctx);
        $m!(ark_bls12_381::g2::Config, "bls12_381/g2", 0, $ctx);
        $m!(Iso<ark_bls12_381::g2::Config>, "bls12_381/g2_swu_iso", 0, $ctx);
        $m!(ark_bn254::g1::Config, "bn254/g1", 0, $ctx);
        $m!(ark_bn254::g2::Config, "bn254/g2", 0, $ctx);
        $m!(ark_bw6_761::g1::Config, "bw6_761/g1", 0, $ctx);
        $m!(ark_bw6_761::g2::Config, "bw6_761/g2", 0, $ctx);
        $m!(ark_bw6_767::g1::Config, "bw6_767/g1", 0, $ctx);
        $m!(ark_bw6_767::g2::Config, "bw6_767/g2", 0, $ctx);
        $m!(ark_cp6_782::g1::Config, "cp6_782/g1", 0, $ctx);
        $m!(ark_cp6_782::g2::Config, "cp6_782/g2", 1, $ctx);
        $m!(ark_ed_on_bls12_381::JubjubConfig, "ed_on_bls12_381/jubjub(sw)", 0, $ctx);
        $m!(ark_ed_on_bls12_381_bandersnatch::BandersnatchConfig, "ed_on_bls12_381_bandersnatch(sw)", 0, $ctx);
        $m!(ark_grumpkin::GrumpkinConfig, "grumpkin", 0, $ctx);
        $m!(ark_mnt4_298::g1::Config, "mnt4_298/g1", 0, $ctx);
        $m!(ark_mnt4_298::g2::Config, "mnt4_298/g2", 0, $ctx);
        $m!(ark_mnt4_753::g1::Config, "mnt4_753/g1", 0, $ctx);
        $m!(ark_mnt4_753::g2::Config, "mnt4_753/g2", 1, $ctx);
        $m!(ark_mnt6_298::g1::Config, "mnt6_298/g1", 0, $ctx);
        $m!(ark_mnt6_298::g2::Config, "mnt6_298/g2", 0, $ctx);
        $m!(ark_mnt6_753::g1::Config, "mnt6_753/g1", 0, $ctx);
        $m!(ark_mnt6_753::g2::Config, "mnt6_753/g2", 1, $ctx);
        $m!(ark_pallas::PallasConfig, "pallas", 0, $ctx);
        $m!(ark_vesta::VestaConfig, "vesta", 0, $ctx);
        $m!(ark_secp256k1::Config, "secp256k1", 0, $ctx);
        $m!(ark_secp256r1::Config, "secp256r1", 0, $ctx);
        $m!(ark_secp384r1::Config, "secp384r1", 0, $ctx);
        $m!(ark_secq256k1::Config, "secq256k1", 0, $ctx);
        $m!(ark_test_curves::bn384_small_two_adicity::g1::Config, "test/bn384_small_two_adicity/g1", 0, $ctx);
        $m!(ark_test_curves::secp256k1::Config, "test/secp256k1/g1", 0, $ctx);
        $m!(ark_test_curves::mnt4_753::g1::Config, "test/mnt4_753/g1", 0, $ctx);
        $m!(ark_test_curves::bls12_381::g1::Config, "test/bls12_381/g1", 0, $ctx);
        $m!(ark_test_curves::bls12_381::g1_swu_iso::SwuIsoConfig, "test/bls12_381/g1_swu_iso", 0, $ctx);
        $m!(ark_test_curves::bls12_381::g2::Config, "test/bls12_381/g2", 0, $ctx);
        $m!(ark_test_curves::bls12_381::g2_swu_iso::SwuIsoConfig, "test/bls12_381/g2_swu_iso", 0, $ctx);
    };
}
macro_rules! shipped_te_curves {
    ($m:ident, $ctx:expr) => {
        $m!(ark_bls12_377::g1::Config, "bls12_377/g1(te)", 0, $ctx);
        $m!(ark_curve25519::Curve25519Config, "curve25519", 0, $ctx);
        $m!(ark_ed25519::EdwardsConfig, "ed25519", 0, $ctx);
        $m!(ark_ed_on_bls12_377::EdwardsConfig, "ed_on_bls12_377", 0, $ctx);
        $m!(ark_ed_on_bls12_381::JubjubConfig, "ed_on_bls12_381/jubjub", 0, $ctx);
        $m!(ark_ed_on_bls12_381_bandersnatch::BandersnatchConfig, "ed_on_bls12_381_bandersnatch", 0, $ctx);
        $m!(ark_ed_on_bn254::EdwardsConfig, "ed_on_bn254", 0, $ctx);
        $m!(ark_ed_on_cp6_782::EdwardsConfig, "ed_on_cp6_782(=ed_on_bw6_761)", 0, $ctx);
        $m!(ark_ed_on_mnt4_298::EdwardsConfig, "ed_on_mnt4_298", 0, $ctx);
        $m!(ark_ed_on_mnt4_753::EdwardsConfig, "ed_on_mnt4_753", 0, $ctx);
        $m!(ark_test_curves::ed_on_bls12_381::EdwardsConfig, "test/ed_on_bls12_381", 0, $ctx);
    };
}

fn main() {
    let mut ctx = Ctx::from_args("C03");
    if std::env::var("C03_NEGATIVE_CONTROL").is_ok() {
        eprintln!("C03_NEGATIVE_CONTROL is set: the toy SW model is deliberately wrong (2G := O); violations are expected and mean nothing");
        ctx.assume("NEGATIVE CONTROL RUN: the toy SW model was deliberately corrupted (2G := O)");
    }
    ctx.require(&[
        "sw:P+P_via_add",
        "sw:P+(−P)",
        "sw:O+P",
        "sw:P+O",
        "sw:O_noncanonical",
        "sw:order2_double",
        "sw:madd_equal",
        "sw:madd_opposite",
        "sw:Z1≠1∧Z2≠1",
        "sw:a=0_ext_field",
        "sw:a=0_ext_degree>2",
        "te:identity_any_z",
        "te:order2",
        "te:order4",
        "batch:zero_in_batch",
        "batch:len>=5_distinct_points",
        "batch:len>=5_mixes_O_Z=1_genericZ",
        "batch:adjacent_zeros",
        "normalize_batch:len>1024",
        "sw:point_(0,0)_is_2_torsion",
        "sw:affine_identity_hidden_xy",
        "ctor:checked_new_on_subgroup_point",
        "ctor:generator",
        "ship:sw_curves",
        "ship:sw_ext_field_generic_Z",
        "ship:sw_points_outside_subgroup",
        "ship:te_points_outside_subgroup",
        "ship:te_complete",
    ]);
    ctx.assume("oracle: textbook affine chord-and-tangent / affine Edwards law with explicit case split; toy curves on u64 model arithmetic (points enumerated by brute force, full addition table), shipped curves on the field's own add/sub/mul/inverse (C01/C02's job) and the COEFF_* constants (C16's job)");
    ctx.assume("projective results are decoded by the model: X = x*Z^2, Y = y*Z^3 (SW), X = x*Z, Y = y*Z, T*Z = X*Y, Z != 0 (TE); never by the library's into_affine");
    ctx.assume("incomplete twisted-Edwards parameters (a non-square or d square): only the prime-order subgroup is enumerated, as the property states");
    ctx.assume("extension-field toy curves SwQ7A0/SwQ13A/SwC7A0/SwC7A are defined in c03.rs and validated by brute-force point counting; their Frobenius/sqrt constants are not exercised by any C03 operation");
    ctx.assume("shipped curves: the point outside the subgroup and the small-order points are derived with get_point_from_{x,y}_unchecked (validated with the oracle curve equation) and oracle scalar multiplication by n/2^s, n/3^s using COFACTOR; the number of such members is recorded per run (classes ship:*_points_*), and a curve with cofactor > 1 (TE: complete law) left without any point outside the subgroup is a machinery error");
    ctx.assume("SwP29A2B0 (y^2 = x^3 + 2x over F_29, COEFF_B = 0, (0,0) of order 2) is declared in c03.rs and validated by brute-force point counting");
    ctx.assume("`==` between two AFFINE values is judged on canonical encodings of finite points only (the hidden coordinates of the SW affine identity are not pinned); identity results are judged by the infinity flag / is_zero() / model decode. Default::default() and xy() of the TE identity are observed (classes observed:*), not judged: no rustdoc fixes them");
    ctx.assume("checked constructors (Projective::new / Affine::new) are called on points of the prime-order subgroup only; their behaviour on invalid input is C12's subject");
    ctx.bound("operators", "aff±aff, aff±&aff, aff±proj, aff±&proj, proj±aff, proj±&aff, proj±=aff, proj±=&aff, {proj,&proj}±{proj,&proj,&mut proj}, proj±={proj,&proj,&mut proj}, ==/!= on every pair of representations, double, double_in_place, neg, neg_in_place, -affine, into_affine/From/Into both ways, is_zero, xy/x/y, is_on_curve of results, identity constructors, Sum<Projective|&Projective|Affine|&Affine> over all vectors of length <= 3 of a <=12-point subset, normalize_batch / batch_convert_to_mul_base on all vectors of length <= 3 over {O, O', P, P(Z!=1), 2P(Z!=1), -P} and on batches of 5..9 entries of different points (toy: every pattern over {O, Z=1, generic Z}^L, L=5..9, point ring = the <=12-point subset, all rotations of the ring in the thorough tier; shipped: 7 fixed patterns; bls12_381 G1 and ed_on_bls12_381: batches of 1023, 1024, 1025, 2049, 3000 entries (i+1)*G with Z = i+2, identity at positions 0, 1023, 1024, last); checked constructors new() on subgroup points, generator(); SW affine identity with hidden coordinates (1,1),(gx,gy) as operand of every affine-taking operator, into_group, neg, double, mul");
    ctx.bound("result_checks", "every projective result of every operator form: model decode == model sum, is_zero() <=> model identity, into_affine() == model point, is_on_curve()");
    ctx.bound("toy_Z", if ctx.quick() { "all of F_p^* for SwP13A0B2, SwP13A0B4, SwP31A2B2, TeP13; {1,2,g,p-1} otherwise; 5 values for the extension-field toys" } else { "all of F_p^* for p <= 61 curves and TeP13, all of F_49^* for SwQ7A0; {1,2,g,p-1} resp. 5 values otherwise" });

    // ---- E: toy curves over prime fields
    macro_rules! toy_sw {
        ($P:ty, $name:expr, $ctx:expr) => {
            run_toy_sw::<$P>($ctx, $name)
        };
    }
    macro_rules! toy_te {
        ($P:ty, $name:expr, $ctx:expr) => {
            run_toy_te::<$P>($ctx, $name)
        };
    }
    algebra_mc::toy_sw_curves!(toy_sw, &mut ctx);
    algebra_mc::toy_te_curves!(toy_te, &mut ctx);
    run_toy_sw_b0(&mut ctx);
    // ---- E: toy curves over extension fields
    let all_z = ctx.thorough();
    run_toy_sw_ext::<SwQ7A0, Fp2Model>(&mut ctx, "SwQ7A0", Fp2Model { p: 7, beta: 6 }, all_z);
    run_toy_sw_ext::<SwQ13A, Fp2Model>(&mut ctx, "SwQ13A", Fp2Model { p: 13, beta: 2 }, false);
    run_toy_sw_ext::<SwC7A0, Fp3Model>(&mut ctx, "SwC7A0", Fp3Model { p: 7, beta: 2 }, false);
    run_toy_sw_ext::<SwC7A, Fp3Model>(&mut ctx, "SwC7A", Fp3Model { p: 7, beta: 2 }, false);
    // ---- A: shipped curves
    macro_rules! s_sw {
        ($P:ty, $name:expr, $tier:expr, $ctx:expr) => {
            if $tier == 0 || $ctx.thorough() {
                ship_sw::<$P>($ctx, $name)
            }
        };
    }
    macro_rules! s_te {
        ($P:ty, $name:expr, $tier:expr, $ctx:expr) => {
            if $tier == 0 || $ctx.thorough() {
                ship_te::<$P>($ctx, $name)
            }
        };
    }
    shipped_sw_curves!(s_sw, &mut ctx);
    shipped_te_curves!(s_te, &mut ctx);
    // ---- S: operation sequences
    seq_sw(&mut ctx);
    seq_te(&mut ctx);
    std::process::exit(ctx.finish());
}
