//! C08 - univariate polynomial arithmetic is ring arithmetic on canonical
//! representations (dense / sparse / evaluation form).
//!
//! Reference model: coefficient vectors `Vec<u64>` mod p (index i = coefficient
//! of x^i, no trailing zero), schoolbook add/sub/mul, Horner evaluation and
//! long division written here.  Conversions model <-> implementation use
//! `F::from(u64)` and `into_bigint()` only (checked by C01).
use algebra_mc::core::*;
use algebra_mc::seq::run_seq;
use algebra_mc::toy::gen_fields::{D17, D257, D5, D7, D97};
use ark_ff::{FftField, PrimeField, Zero};
use ark_poly::univariate::{DenseOrSparsePolynomial, DensePolynomial, SparsePolynomial};
use ark_poly::{
    DenseUVPolynomial, EvaluationDomain, Evaluations, GeneralEvaluationDomain, MixedRadixEvaluationDomain, Polynomial,
    Radix2EvaluationDomain,
};
use std::panic::{catch_unwind, AssertUnwindSafe};
use std::cell::RefCell;
use std::collections::{BTreeMap, HashMap};
use std::sync::{Arc, Mutex};

// ---------------------------------------------------------------- model ----
type M = Vec<u64>;

fn trim(mut v: M) -> M {
    while v.last() == Some(&0) {
        v.pop();
    }
    v
}
/// degree of a non-zero polynomial; for the zero polynomial the library answers 0 today
fn m_deg(a: &[u64]) -> usize {
    a.len().saturating_sub(1)
}
/// the property only says that asking for the degree never fails: for the zero polynomial any answer is
/// accepted (the value 0 is observed as a class in `dense_unary` / `sparse_unary`)
fn deg_ok(d: usize, want: &[u64]) -> bool {
    want.is_empty() || d == want.len() - 1
}
fn m_add(a: &[u64], b: &[u64], p: u64) -> M {
    let n = a.len().max(b.len());
    trim((0..n).map(|i| (a.get(i).copied().unwrap_or(0) + b.get(i).copied().unwrap_or(0)) % p).collect())
}
fn m_neg(a: &[u64], p: u64) -> M {
    a.iter().map(|x| (p - x % p) % p).collect()
}
fn m_sub(a: &[u64], b: &[u64], p: u64) -> M {
    m_add(a, &m_neg(b, p), p)
}
fn m_scale(a: &[u64], f: u64, p: u64) -> M {
    trim(a.iter().map(|x| x * f % p).collect())
}
fn m_mul(a: &[u64], b: &[u64], p: u64) -> M {
    if a.is_empty() || b.is_empty() {
        return vec![];
    }
    let mut r = vec![0u64; a.len() + b.len() - 1];
    for (i, x) in a.iter().enumerate() {
        if *x == 0 {
            continue;
        }
        for (j, y) in b.iter().enumerate() {
            r[i + j] = (r[i + j] + x * y) % p;
        }
    }
    trim(r)
}
fn m_eval(a: &[u64], x: u64, p: u64) -> u64 {
    a.iter().rev().fold(0u64, |acc, c| (acc * x + c) % p)
}
fn m_pow(x: u64, mut e: u64, p: u64) -> u64 {
    let mut r = 1 % p;
    let mut b = x % p;
    while e > 0 {
        if e & 1 == 1 {
            r = r * b % p;
        }
        b = b * b % p;
        e >>= 1;
    }
    r
}
/// inverse by exhaustive search (p <= 257)
fn m_inv(x: u64, p: u64) -> u64 {
    (1..p).find(|y| x * y % p == 1).expect("m_inv of zero")
}
/// schoolbook long division: a = q*b + r, r = 0 or deg r < deg b; b != 0
fn m_divrem(a: &[u64], b: &[u64], p: u64) -> (M, M) {
    assert!(!b.is_empty() && *b.last().unwrap() != 0);
    if a.len() < b.len() {
        return (vec![], a.to_vec());
    }
    let db = b.len() - 1;
    let inv = m_inv(b[db], p);
    let mut r = a.to_vec();
    let mut q = vec![0u64; a.len() - db];
    for k in (0..q.len()).rev() {
        let c = r[k + db] * inv % p;
        q[k] = c;
        if c != 0 {
            for (j, bj) in b.iter().enumerate() {
                r[k + j] = (r[k + j] + p * p - c * bj % p) % p;
            }
        }
    }
    r.truncate(db);
    (trim(q), trim(r))
}
fn m_terms(a: &[u64]) -> Vec<(usize, u64)> {
    a.iter().enumerate().filter(|(_, c)| **c != 0).map(|(i, c)| (i, *c)).collect()
}
fn m_from_terms(t: &[(usize, u64)], p: u64) -> M {
    let n = t.iter().map(|(d, _)| d + 1).max().unwrap_or(0);
    let mut v = vec![0u64; n];
    for (d, c) in t {
        v[*d] = (v[*d] + c) % p;
    }
    trim(v)
}

// ------------------------------------------------------- impl <-> model ----
fn modulus<F: PrimeField>() -> u64 {
    F::MODULUS.as_ref()[0]
}
fn fe<F: PrimeField>(x: u64) -> F {
    F::from(x)
}
fn fu<F: PrimeField>(x: &F) -> u64 {
    x.into_bigint().as_ref()[0]
}
/// canonical dense value built without any library constructor
fn dense<F: PrimeField>(m: &[u64]) -> DensePolynomial<F> {
    DensePolynomial { coeffs: m.iter().map(|c| fe::<F>(*c)).collect() }
}
/// canonical sparse value: sorted, non-zero terms handed to the only constructor
fn sparse<F: PrimeField>(m: &[u64]) -> SparsePolynomial<F> {
    SparsePolynomial::from_coefficients_vec(m_terms(m).into_iter().map(|(d, c)| (d, fe::<F>(c))).collect())
}
fn dvec<F: PrimeField>(d: &DensePolynomial<F>) -> M {
    d.coeffs.iter().map(fu).collect()
}
fn svec<F: PrimeField>(s: &SparsePolynomial<F>) -> Vec<(usize, u64)> {
    s.iter().map(|(d, c)| (*d, fu(c))).collect()
}
/// largest size for which GeneralEvaluationDomain::new succeeds
fn fft_cap<F: FftField>() -> usize {
    let mut c = 1usize << F::TWO_ADICITY;
    if let (Some(b), Some(a)) = (F::SMALL_SUBGROUP_BASE, F::SMALL_SUBGROUP_BASE_ADICITY) {
        c *= (b as usize).pow(a);
    }
    c
}

fn pmsg(p: Box<dyn std::any::Any + Send>) -> String {
    let m = if let Some(s) = p.downcast_ref::<&str>() {
        s.to_string()
    } else if let Some(s) = p.downcast_ref::<String>() {
        s.clone()
    } else {
        "<non-string panic>".to_string()
    };
    let at = LAST_PANIC_LOC.with(|c| c.borrow().clone());
    format!("panic at {at}: {m}")
}

// ------------------------------------------------ violation bookkeeping ----
// The engine keeps the first 20 violation records per worker thread, so when
// one call site fails on millions of cases the records of other failing sites
// are crowded out (and which ones survive depends on scheduling).  Local
// work-around: every failure goes through `report`, which keeps the KEEP
// lowest-index cases of every site (each worker sees increasing indices, so
// the globally lowest cases are among the first KEEP failures of some worker);
// `sweep` then replaces the engine's records of those sites by these.
const KEEP: usize = 2;
static REC: Mutex<BTreeMap<String, Vec<(u64, String)>>> = Mutex::new(BTreeMap::new());
thread_local! {
    static LOCAL_SEEN: RefCell<HashMap<String, usize>> = RefCell::new(HashMap::new());
}
fn report(loc: &mut Loc, site: &str, msg: impl FnOnce() -> String) {
    let n = LOCAL_SEEN.with(|m| {
        let mut m = m.borrow_mut();
        if let Some(c) = m.get_mut(site) {
            *c += 1;
            *c
        } else {
            m.insert(site.to_string(), 1);
            1
        }
    });
    if n <= KEEP {
        let m = msg();
        REC.lock().unwrap().entry(site.to_string()).or_default().push((loc.index(), m.clone()));
        loc.fail_at(site, m);
    } else {
        loc.fail_at(site, String::new());
    }
}
fn check_at(loc: &mut Loc, site: &str, ok: bool, msg: impl FnOnce() -> String) {
    loc.op();
    if !ok {
        report(loc, site, msg);
    }
}
fn sweep<G: Fn(u64, &mut Loc) + Sync>(ctx: &mut Ctx, name: &str, n: u64, f: G) {
    assert!(!name.contains('/'), "sweep names must not contain '/' (replay files are keyed by the first path component)");
    REC.lock().unwrap().clear();
    ctx.sweep(name, n, f);
    let rec = std::mem::take(&mut *REC.lock().unwrap());
    if rec.is_empty() {
        return;
    }
    let prefix = format!("{name}/");
    ctx.violations.retain(|v| !(v.check.starts_with(&prefix) && rec.contains_key(&v.check[prefix.len()..])));
    for (site, mut v) in rec {
        v.sort();
        v.dedup();
        for (index, msg) in v.into_iter().take(KEEP) {
            ctx.violations.push(Violation { sweep: name.to_string(), check: format!("{name}/{site}"), index, msg });
        }
    }
}

/// Every defect of `got` against the canonical model value `want`.
fn dense_problems<F: PrimeField>(got: &DensePolynomial<F>, want: &[u64]) -> Vec<String> {
    let mut pr = Vec::new();
    let g = dvec(got);
    if g != want {
        if trim(g.clone()) == want {
            pr.push(format!("non-canonical result (trailing zero coefficient kept): coeffs {g:?}, canonical {want:?}"));
        } else {
            pr.push(format!("wrong polynomial: got coeffs {g:?} want {want:?}"));
        }
    }
    match catch_unwind(AssertUnwindSafe(|| got.degree())) {
        Err(p) => pr.push(format!("degree() panics ({})", pmsg(p))),
        Ok(d) => {
            if !deg_ok(d, want) {
                pr.push(format!("degree() = {d} want {}", m_deg(want)));
            }
        }
    }
    if *got != dense::<F>(want) {
        pr.push("`==` with the canonical value is false".to_string());
    }
    if got.is_zero() != want.is_empty() {
        pr.push(format!("is_zero() = {}", got.is_zero()));
    }
    pr
}
fn sparse_problems<F: PrimeField>(got: &SparsePolynomial<F>, want: &[u64], p: u64) -> Vec<String> {
    let mut pr = Vec::new();
    let t = svec(got);
    let wt = m_terms(want);
    if t != wt {
        let asc = t.windows(2).all(|w| w[0].0 < w[1].0);
        let nz = t.iter().all(|x| x.1 != 0);
        if asc && m_from_terms(&t, p) == want {
            pr.push(format!("non-canonical result (zero term kept): terms {t:?}, canonical {wt:?}"));
        } else if !asc {
            pr.push(format!("non-canonical result (degrees not strictly ascending): terms {t:?}, canonical {wt:?}"));
        } else {
            pr.push(format!("wrong polynomial: got terms {t:?} want {wt:?}{}", if nz { "" } else { " (and a zero term kept)" }));
        }
    }
    match catch_unwind(AssertUnwindSafe(|| got.degree())) {
        Err(e) => pr.push(format!("degree() panics ({})", pmsg(e))),
        Ok(d) => {
            if !deg_ok(d, want) {
                pr.push(format!("degree() = {d} want {}", m_deg(want)));
            }
        }
    }
    if *got != sparse::<F>(want) {
        pr.push("`==` with the canonical value is false".to_string());
    }
    if got.is_zero() != want.is_empty() {
        pr.push(format!("is_zero() = {}", got.is_zero()));
    }
    pr
}

fn expect_dense<F: PrimeField>(loc: &mut Loc, site: &str, got: &DensePolynomial<F>, want: &[u64], what: impl Fn() -> String) {
    loc.op();
    // cheap verdict first; the full diagnosis is only formatted for recorded cases
    let ok = got.coeffs.len() == want.len()
        && got.coeffs.iter().zip(want).all(|(c, w)| fu(c) == *w)
        && matches!(catch_unwind(AssertUnwindSafe(|| got.degree())), Ok(d) if deg_ok(d, want))
        && *got == dense::<F>(want)
        && got.is_zero() == want.is_empty();
    if !ok {
        report(loc, site, || format!("{}: {}", what(), dense_problems(got, want).join("; ")));
    }
}
fn expect_sparse<F: PrimeField>(loc: &mut Loc, site: &str, got: &SparsePolynomial<F>, want: &[u64], what: impl Fn() -> String) {
    loc.op();
    let mut wi = want.iter().enumerate().filter(|(_, c)| **c != 0);
    let ok = got.iter().all(|(d, c)| wi.next() == Some((*d, &fu(c))))
        && wi.next().is_none()
        && matches!(catch_unwind(AssertUnwindSafe(|| got.degree())), Ok(d) if deg_ok(d, want))
        && *got == sparse::<F>(want)
        && got.is_zero() == want.is_empty();
    if !ok {
        report(loc, site, || format!("{}: {}", what(), sparse_problems(got, want, modulus::<F>()).join("; ")));
    }
}
/// run one library call; a panic is a violation at `site`
fn guard<R>(loc: &mut Loc, site: &str, what: &dyn Fn() -> String, f: impl FnOnce() -> R) -> Option<R> {
    match catch_unwind(AssertUnwindSafe(f)) {
        Ok(r) => Some(r),
        Err(p) => {
            loc.op();
            let m = pmsg(p);
            report(loc, site, || format!("{}: {}", what(), m));
            None
        }
    }
}
fn chk_dense<F: PrimeField>(loc: &mut Loc, site: &str, want: &[u64], what: impl Fn() -> String, f: impl FnOnce() -> DensePolynomial<F>) {
    if let Some(g) = guard(loc, site, &what, f) {
        expect_dense(loc, site, &g, want, what);
    }
}
fn chk_sparse<F: PrimeField>(loc: &mut Loc, site: &str, want: &[u64], what: impl Fn() -> String, f: impl FnOnce() -> SparsePolynomial<F>) {
    if let Some(g) = guard(loc, site, &what, f) {
        expect_sparse(loc, site, &g, want, what);
    }
}
fn chk_qr<F: PrimeField>(
    loc: &mut Loc,
    site: &str,
    q: &[u64],
    r: &[u64],
    what: impl Fn() -> String,
    f: impl FnOnce() -> Option<(DensePolynomial<F>, DensePolynomial<F>)>,
) {
    match guard(loc, site, &what, f) {
        None => {}
        Some(None) => {
            loc.op();
            report(loc, site, || format!("{}: returned None", what()));
        }
        Some(Some((gq, gr))) => {
            expect_dense(loc, site, &gq, q, || format!("{} [quotient]", what()));
            expect_dense(loc, site, &gr, r, || format!("{} [remainder]", what()));
        }
    }
}
fn chk_val<F: PrimeField>(loc: &mut Loc, site: &str, want: u64, what: impl Fn() -> String, f: impl FnOnce() -> F) {
    if let Some(g) = guard(loc, site, &what, f) {
        let g = fu(&g);
        check_at(loc, site, g == want, || format!("{}: got {g} want {want}", what()));
    }
}

// ------------------------------------------------------- dense, unary ----
fn dense_unary<F: PrimeField>(ctx: &mut Ctx, fname: &str, k: usize) {
    let p = modulus::<F>();
    let n = p.pow(k as u32);
    sweep(ctx, &format!("dense_unary.{fname}.len{k}"), n, |i, loc| {
        let raw = unrank_vec(i, &vec![p; k]);
        let a = trim(raw.clone());
        let w = |op: &str| format!("F_{p} a={a:?}: {op}");
        if loc.sampling() {
            loc.sample(w("dense operand, coefficients low to high; constructors, neg, scale by every f, evaluate at every x, conversions"));
        }
        loc.class_if(raw.len() != a.len(), "ctor:input_has_trailing_zeros");
        loc.class_if(a.is_empty(), "operand_zero");
        let rawf: Vec<F> = raw.iter().map(|c| fe::<F>(*c)).collect();
        chk_dense(loc, "dense_from_coefficients_vec", &a, || format!("F_{p} from_coefficients_vec({raw:?})"), || {
            DensePolynomial::from_coefficients_vec(rawf.clone())
        });
        chk_dense(loc, "dense_from_coefficients_slice", &a, || format!("F_{p} from_coefficients_slice({raw:?})"), || {
            DensePolynomial::from_coefficients_slice(&rawf)
        });
        let da = dense::<F>(&a);
        check_at(loc, "dense_coeffs", da.coeffs().iter().map(fu).collect::<Vec<_>>() == a, || w("coeffs()"));
        chk_dense(loc, "dense_neg", &m_neg(&a, p), || w("-a"), || -da.clone());
        for f in 0..p {
            let want = m_scale(&a, f, p);
            loc.class_if(f == 0 && !a.is_empty(), "scale_by_zero");
            chk_dense(loc, "dense_scale", &want, || w(&format!("&a * {f}")), || &da * fe::<F>(f));
            chk_dense(loc, "dense_scale_owned", &want, || w(&format!("a * {f}")), || da.clone() * fe::<F>(f));
        }
        for x in 0..p {
            chk_val(loc, "dense_evaluate", m_eval(&a, x, p), || w(&format!("evaluate({x})")), || da.evaluate(&fe::<F>(x)));
        }
        // conversions
        chk_sparse(loc, "dense_to_sparse", &a, || w("SparsePolynomial::from(a)"), || SparsePolynomial::from(da.clone()));
        chk_dense(loc, "sparse_to_dense", &a, || w("DensePolynomial::from(sparse(a))"), || DensePolynomial::from(sparse::<F>(&a)));
        chk_dense(loc, "dos_to_dense", &a, || w("DensePolynomial::from(DenseOrSparse::from(&a))"), || {
            DensePolynomial::from(DenseOrSparsePolynomial::from(&da))
        });
        chk_dense(loc, "dos_to_dense", &a, || w("DensePolynomial::from(DenseOrSparse::from(sparse(a)))"), || {
            DensePolynomial::from(DenseOrSparsePolynomial::from(sparse::<F>(&a)))
        });
        let dos = DenseOrSparsePolynomial::from(&da);
        let dd = guard(loc, "dos_degree", &|| w("DenseOrSparse(dense).degree()/is_zero()"), || (dos.degree(), dos.is_zero()));
        check_at(loc, "dos_degree", dd.map_or(true, |x| deg_ok(x.0, &a) && x.1 == a.is_empty()), || w("DenseOrSparse(dense).degree()/is_zero()"));
        if a.is_empty() {
            loc.class(if da.degree() == 0 { "observed:degree_of_zero_polynomial_is_0" } else { "observed:degree_of_zero_polynomial_is_not_0" });
        }
        // a dense value behind DenseOrSparse: the conversion to Sparse may refuse (Err, today's behaviour) or convert;
        // a converted value must be the same polynomial in canonical form
        let ti: Option<Result<SparsePolynomial<F>, ()>> =
            guard(loc, "dos_try_into_sparse", &|| w("DenseOrSparse(dense).try_into::<Sparse>()"), || DenseOrSparsePolynomial::from(da.clone()).try_into());
        match ti {
            Some(Ok(s)) => {
                loc.class("observed:dos_dense_try_into_sparse_converts");
                expect_sparse(loc, "dos_try_into_sparse", &s, &a, || w("DenseOrSparse(dense).try_into::<Sparse>()"));
            }
            Some(Err(())) => {
                loc.class("observed:dos_dense_try_into_sparse_is_err");
                loc.op();
            }
            None => {}
        }
    });
}

// ------------------------------------------------------- dense x dense ----
fn dense_pairs<F: PrimeField>(ctx: &mut Ctx, fname: &str, k: usize) {
    let p = modulus::<F>();
    let n = p.pow(k as u32);
    let cap = fft_cap::<F>();
    let owned = p == 5;
    sweep(ctx, &format!("dense_pairs.{fname}.len{k}"), n * n, |i, loc| {
        let [ib, ia] = unrank(i, [n, n]);
        let rad = vec![p; k];
        let a = trim(unrank_vec(ia, &rad));
        let b = trim(unrank_vec(ib, &rad));
        let (da, db) = (dense::<F>(&a), dense::<F>(&b));
        let w = |op: &str| format!("F_{p} a={a:?} b={b:?}: {op}");
        if loc.sampling() {
            loc.sample(w("dense pair (coefficients low to high): + += +=(f,) - -= naive_mul * / divide_with_q_and_r"));
        }
        let sum = m_add(&a, &b, p);
        let diff = m_sub(&a, &b, p);
        let prod = m_mul(&a, &b, p);
        let both = !a.is_empty() && !b.is_empty();
        loc.class_if(a.is_empty(), "lhs_zero");
        loc.class_if(b.is_empty(), "rhs_zero");
        loc.class_if(both && (sum.is_empty() || diff.is_empty()), "result_zero");
        loc.class_if(both && a.len() == b.len() && (sum.len() < a.len() || diff.len() < a.len()), "leading_terms_cancel");
        loc.class_if(both && a.len() < b.len(), "deg(lhs)<deg(rhs)");
        // add
        chk_dense(loc, "dense_add", &sum, || w("&a + &b"), || &da + &db);
        chk_dense(loc, "dense_add_assign", &sum, || w("a += &b"), || {
            let mut x = da.clone();
            x += &db;
            x
        });
        // scaled add, every f
        for f in 0..p {
            let want = m_add(&a, &m_scale(&b, f, p), p);
            loc.class_if(both && a.len() == b.len() && want.len() < a.len(), "scaled_add:leading_terms_cancel");
            chk_dense(loc, "dense_add_assign_scaled", &want, || w(&format!("a += ({f}, &b)")), || {
                let mut x = da.clone();
                x += (fe::<F>(f), &db);
                x
            });
        }
        // sub
        chk_dense(loc, "dense_sub", &diff, || w("&a - &b"), || &da - &db);
        chk_dense(loc, "dense_sub_assign", &diff, || w("a -= &b"), || {
            let mut x = da.clone();
            x -= &db;
            x
        });
        // mul
        chk_dense(loc, "dense_naive_mul", &prod, || w("a.naive_mul(&b)"), || da.naive_mul(&db));
        let smooth = !both || a.len() + b.len() - 1 <= cap;
        if smooth {
            chk_dense(loc, "dense_mul_fft", &prod, || w("&a * &b"), || &da * &db);
        } else {
            // "if F is smooth": without a large enough domain the operator may refuse
            // (panic); if it answers, the answer must be the product
            loc.class("fft_mul:field_not_smooth");
            if let Ok(g) = catch_unwind(AssertUnwindSafe(|| &da * &db)) {
                expect_dense(loc, "dense_mul_fft", &g, &prod, || w("&a * &b (no domain of that size)"));
            }
        }
        // div
        if !b.is_empty() {
            let (q, r) = m_divrem(&a, &b, p);
            loc.class_if(!a.is_empty() && b.len() > a.len(), "divisor_deg>dividend");
            loc.class_if(!a.is_empty() && r.is_empty(), "div:exact");
            loc.class_if(!a.is_empty() && !r.is_empty() && r.len() + 1 < b.len(), "div:remainder_drops_more_than_one_degree");
            chk_dense(loc, "dense_div", &q, || w("&a / &b"), || &da / &db);
            chk_qr(loc, "div_q_r_dense_dense", &q, &r, || w("DenseOrSparse(&a).divide_with_q_and_r(&DenseOrSparse(&b))"), || {
                DenseOrSparsePolynomial::from(&da).divide_with_q_and_r(&DenseOrSparsePolynomial::from(&db))
            });
            if owned {
                chk_dense(loc, "dense_div_owned", &q, || w("a / b, a / &b, &a / b"), || da.clone() / db.clone());
                chk_dense(loc, "dense_div_owned", &q, || w("a / &b"), || da.clone() / &db);
                chk_dense(loc, "dense_div_owned", &q, || w("&a / b"), || &da / db.clone());
            }
        }
        if owned {
            chk_dense(loc, "dense_add_owned", &sum, || w("a + b"), || da.clone() + db.clone());
            chk_dense(loc, "dense_add_owned", &sum, || w("a + &b"), || da.clone() + &db);
            chk_dense(loc, "dense_add_owned", &sum, || w("&a + b"), || &da + db.clone());
            chk_dense(loc, "dense_sub_owned", &diff, || w("a - b"), || da.clone() - db.clone());
            chk_dense(loc, "dense_sub_owned", &diff, || w("a - &b"), || da.clone() - &db);
            chk_dense(loc, "dense_sub_owned", &diff, || w("&a - b"), || &da - db.clone());
            if smooth {
                chk_dense(loc, "dense_mul_fft_owned", &prod, || w("a * b"), || da.clone() * db.clone());
                chk_dense(loc, "dense_mul_fft_owned", &prod, || w("a * &b"), || da.clone() * &db);
                chk_dense(loc, "dense_mul_fft_owned", &prod, || w("&a * b"), || &da * db.clone());
            }
        }
    });
}

// ------------------------------------------ non-canonical dense operands ----
/// `DensePolynomial { coeffs }` / DerefMut let a caller build values with trailing zero coefficients.  The
/// property speaks about canonical representations, so for such operands: a panic (the library asserts the
/// invariant in `degree()`) is only counted; an operation that does answer must answer with the right
/// polynomial (VALUES are compared, i.e. after trimming - a canonical result is not demanded).
fn nc_dense<F: PrimeField>(loc: &mut Loc, site: &str, panics: &'static str, want: &[u64], what: &dyn Fn() -> String, f: impl FnOnce() -> DensePolynomial<F>) {
    loc.op();
    match catch_unwind(AssertUnwindSafe(f)) {
        Err(_) => loc.class(panics),
        Ok(g) => {
            let gv = trim(dvec(&g));
            if gv != want {
                report(loc, site, || format!("{}: got coeffs {:?} (value {gv:?}) want the value {want:?}", what(), dvec(&g)));
            }
        }
    }
}
fn noncanonical_dense<F: PrimeField>(ctx: &mut Ctx, fname: &str, ka: usize, kb: usize) {
    let p = modulus::<F>();
    let (na, nb) = (p.pow(ka as u32), p.pow(kb as u32));
    sweep(ctx, &format!("noncanonical_dense.{fname}.len{ka}x{kb}"), na * nb * 4, |i, loc| {
        let [pad, ib, ia] = unrank(i, [4, nb, na]);
        let a = trim(unrank_vec(ia, &vec![p; ka]));
        let b = trim(unrank_vec(ib, &vec![p; kb]));
        // padding: a gets 1 or 2 trailing zeros; b is canonical or gets 1
        let (pa, pb) = (1 + (pad & 1) as usize, (pad >> 1) as usize);
        let raw = |m: &[u64], z: usize| -> DensePolynomial<F> {
            let mut c: Vec<F> = m.iter().map(|x| fe::<F>(*x)).collect();
            c.extend(std::iter::repeat(F::zero()).take(z));
            DensePolynomial { coeffs: c }
        };
        let (x, y) = (raw(&a, pa), raw(&b, pb));
        let w = |op: &str| format!("F_{p} x = coeffs {:?} (value {a:?}), y = coeffs {:?} (value {b:?}): {op}", dvec(&x), dvec(&y));
        let w = &w;
        if loc.sampling() {
            loc.sample(w("operators on dense operands with trailing zero coefficients"));
        }
        loc.class("noncanonical_operand");
        loc.class_if(a.is_empty(), "noncanonical_operand:all_zero_coefficients");
        loc.class_if(pb > 0, "noncanonical_operand:both");
        // degree / is_zero / evaluate
        loc.op();
        match catch_unwind(AssertUnwindSafe(|| x.degree())) {
            Err(_) => loc.class("observed:noncanonical_degree_panics"),
            Ok(d) => check_at(loc, "noncanonical_degree", deg_ok(d, &a), || w(&format!("x.degree() = {d} want {}", m_deg(&a)))),
        }
        match catch_unwind(AssertUnwindSafe(|| x.is_zero())) {
            Err(_) => loc.class("observed:noncanonical_is_zero_panics"),
            Ok(z) => check_at(loc, "noncanonical_is_zero", z == a.is_empty(), || w(&format!("x.is_zero() = {z}"))),
        }
        for t in 0..p {
            match catch_unwind(AssertUnwindSafe(|| x.evaluate(&fe::<F>(t)))) {
                Err(_) => loc.class("observed:noncanonical_evaluate_panics"),
                Ok(v) => check_at(loc, "noncanonical_evaluate", fu(&v) == m_eval(&a, t, p), || w(&format!("x.evaluate({t}) = {} want {}", fu(&v), m_eval(&a, t, p)))),
            }
        }
        nc_dense(loc, "noncanonical_neg", "observed:noncanonical_neg_panics", &m_neg(&a, p), &|| w("-x"), || -x.clone());
        nc_dense(loc, "noncanonical_scale", "observed:noncanonical_scale_panics", &m_scale(&a, 2, p), &|| w("&x * 2"), || &x * fe::<F>(2));
        let (sum, diff, prod) = (m_add(&a, &b, p), m_sub(&a, &b, p), m_mul(&a, &b, p));
        nc_dense(loc, "noncanonical_add", "observed:noncanonical_add_panics", &sum, &|| w("&x + &y"), || &x + &y);
        nc_dense(loc, "noncanonical_add", "observed:noncanonical_add_panics", &sum, &|| w("&y + &x"), || &y + &x);
        nc_dense(loc, "noncanonical_add_assign", "observed:noncanonical_add_assign_panics", &sum, &|| w("x += &y"), || {
            let mut t = x.clone();
            t += &y;
            t
        });
        nc_dense(loc, "noncanonical_add_assign_scaled", "observed:noncanonical_add_assign_scaled_panics", &m_add(&a, &m_scale(&b, 2, p), p), &|| w("x += (2, &y)"), || {
            let mut t = x.clone();
            t += (fe::<F>(2), &y);
            t
        });
        nc_dense(loc, "noncanonical_sub", "observed:noncanonical_sub_panics", &diff, &|| w("&x - &y"), || &x - &y);
        nc_dense(loc, "noncanonical_sub", "observed:noncanonical_sub_panics", &m_neg(&diff, p), &|| w("&y - &x"), || &y - &x);
        nc_dense(loc, "noncanonical_sub_assign", "observed:noncanonical_sub_assign_panics", &diff, &|| w("x -= &y"), || {
            let mut t = x.clone();
            t -= &y;
            t
        });
        nc_dense(loc, "noncanonical_naive_mul", "observed:noncanonical_naive_mul_panics", &prod, &|| w("x.naive_mul(&y)"), || x.naive_mul(&y));
        nc_dense(loc, "noncanonical_mul_fft", "observed:noncanonical_mul_fft_panics", &prod, &|| w("&x * &y"), || &x * &y);
        if !b.is_empty() {
            let q = m_divrem(&a, &b, p).0;
            nc_dense(loc, "noncanonical_div", "observed:noncanonical_div_panics", &q, &|| w("&x / &y"), || &x / &y);
        }
        if !a.is_empty() {
            let q = m_divrem(&b, &a, p).0;
            nc_dense(loc, "noncanonical_div", "observed:noncanonical_div_panics", &q, &|| w("&y / &x"), || &y / &x);
        }
    });
}

// ------------------------------------------------------------ sparse ----
const SPARSE_DEGS: [usize; 6] = [0, 1, 2, 3, 5, 8];

/// all term lists (ascending degrees from `degs`, <= max_terms terms) with
/// coefficients in lo..p
fn term_lists(p: u64, degs: &[usize], max_terms: usize, lo: u64) -> Vec<Vec<(usize, u64)>> {
    let mut out = Vec::new();
    for mask in 0u32..(1 << degs.len()) {
        let k = mask.count_ones() as usize;
        if k > max_terms {
            continue;
        }
        let ds: Vec<usize> = (0..degs.len()).filter(|j| mask >> j & 1 == 1).map(|j| degs[j]).collect();
        let ncoef = (p - lo).pow(k as u32);
        for ci in 0..ncoef {
            let cs = unrank_vec(ci, &vec![p - lo; k]);
            out.push(ds.iter().zip(cs.iter()).map(|(d, c)| (*d, c + lo)).collect());
        }
    }
    out.sort_by_key(|t: &Vec<(usize, u64)>| (t.len(), t.clone()));
    out
}
fn permutations<T: Clone>(v: &[T]) -> Vec<Vec<T>> {
    if v.len() <= 1 {
        return vec![v.to_vec()];
    }
    let mut out = Vec::new();
    for i in 0..v.len() {
        let mut rest = v.to_vec();
        let x = rest.remove(i);
        for mut q in permutations(&rest) {
            q.insert(0, x.clone());
            out.push(q);
        }
    }
    out
}
fn sp_from_terms<F: PrimeField>(t: &[(usize, u64)]) -> Vec<(usize, F)> {
    t.iter().map(|(d, c)| (*d, fe::<F>(*c))).collect()
}

fn sparse_unary<F: PrimeField>(ctx: &mut Ctx, fname: &str, max_terms: usize) {
    let p = modulus::<F>();
    let uni = term_lists(p, &SPARSE_DEGS, max_terms, 1);
    sweep(ctx, &format!("sparse_unary.{fname}.terms{max_terms}"), uni.len() as u64, |i, loc| {
        let t = &uni[i as usize];
        let a = m_from_terms(t, p);
        let w = |op: &str| format!("F_{p} s={t:?}: {op}");
        if loc.sampling() {
            loc.sample(w("sparse operand (degree, coeff): constructor in every permutation, neg, scale, evaluate everywhere, conversions"));
        }
        loc.class_if(t.is_empty(), "operand_zero");
        for perm in permutations(t) {
            loc.class_if(perm != *t, "ctor:unsorted_input");
            chk_sparse(loc, "sparse_from_coefficients_vec", &a, || format!("F_{p} from_coefficients_vec({perm:?})"), || {
                SparsePolynomial::from_coefficients_vec(sp_from_terms::<F>(&perm))
            });
            chk_sparse(loc, "sparse_from_coefficients_slice", &a, || format!("F_{p} from_coefficients_slice({perm:?})"), || {
                SparsePolynomial::from_coefficients_slice(&sp_from_terms::<F>(&perm))
            });
        }
        let sa = sparse::<F>(&a);
        chk_sparse(loc, "sparse_neg", &m_neg(&a, p), || w("-s"), || -sa.clone());
        for f in 0..p {
            loc.class_if(f == 0 && !a.is_empty(), "scale_by_zero");
            chk_sparse(loc, "sparse_scale", &m_scale(&a, f, p), || w(&format!("&s * {f}")), || &sa * fe::<F>(f));
        }
        for x in 0..p {
            chk_val(loc, "sparse_evaluate", m_eval(&a, x, p), || w(&format!("evaluate({x})")), || sa.evaluate(&fe::<F>(x)));
        }
        chk_dense(loc, "sparse_to_dense", &a, || w("DensePolynomial::from(s)"), || DensePolynomial::from(sa.clone()));
        chk_sparse(loc, "dense_to_sparse", &a, || w("SparsePolynomial::from(dense(s))"), || SparsePolynomial::from(dense::<F>(&a)));
        chk_dense(loc, "dos_to_dense", &a, || w("DensePolynomial::from(DenseOrSparse::from(&s))"), || {
            DensePolynomial::from(DenseOrSparsePolynomial::from(&sa))
        });
        let dos = DenseOrSparsePolynomial::from(&sa);
        let dd = guard(loc, "dos_degree", &|| w("DenseOrSparse(sparse).degree()/is_zero()"), || (dos.degree(), dos.is_zero()));
        check_at(loc, "dos_degree", dd.map_or(true, |x| deg_ok(x.0, &a) && x.1 == a.is_empty()), || w("DenseOrSparse(sparse).degree()/is_zero()"));
        let ti: Option<Result<SparsePolynomial<F>, ()>> =
            guard(loc, "dos_try_into_sparse", &|| w("DenseOrSparse(sparse).try_into()"), || DenseOrSparsePolynomial::from(sa.clone()).try_into());
        match ti {
            Some(Ok(s)) => expect_sparse(loc, "dos_try_into_sparse", &s, &a, || w("DenseOrSparse(sparse).try_into()")),
            Some(Err(())) => report(loc, "dos_try_into_sparse", || w("DenseOrSparse(sparse).try_into::<Sparse>() returned Err")),
            None => {}
        }
    });
}

/// constructor on term lists that contain zero coefficients (distinct degrees, any order)
fn sparse_ctor_zero_terms<F: PrimeField>(ctx: &mut Ctx, fname: &str, max_terms: usize) {
    let p = modulus::<F>();
    let lists: Vec<Vec<(usize, u64)>> = term_lists(p, &SPARSE_DEGS, max_terms, 0).into_iter().filter(|t| t.iter().any(|x| x.1 == 0)).collect();
    sweep(ctx, &format!("sparse_ctor_zero_terms.{fname}.terms{max_terms}"), lists.len() as u64, |i, loc| {
        let t = &lists[i as usize];
        let a = m_from_terms(t, p);
        if loc.sampling() {
            loc.sample(format!("F_{p} from_coefficients_vec on every permutation of {t:?} (zero coefficients present)"));
        }
        let maxd = t.iter().map(|x| x.0).max().unwrap();
        loc.class_if(t.iter().any(|x| x.1 == 0 && x.0 != maxd), "ctor:interior_zero_coefficient");
        loc.class_if(t.iter().any(|x| x.1 == 0 && x.0 == maxd), "ctor:leading_zero_coefficient");
        for perm in permutations(t) {
            chk_sparse(loc, "sparse_from_coefficients_vec_zero_terms", &a, || format!("F_{p} from_coefficients_vec({perm:?})"), || {
                SparsePolynomial::from_coefficients_vec(sp_from_terms::<F>(&perm))
            });
        }
    });
}

/// true iff some degree below deg(result) receives contributions that cancel to 0
fn interior_cancel_add(a: &[u64], b: &[u64], res: &[u64]) -> bool {
    (0..res.len().saturating_sub(1)).any(|d| a.get(d).copied().unwrap_or(0) != 0 && b.get(d).copied().unwrap_or(0) != 0 && res[d] == 0)
}
fn interior_cancel_mul(a: &[u64], b: &[u64], res: &[u64]) -> bool {
    (0..res.len().saturating_sub(1)).any(|d| res[d] == 0 && (0..=d).any(|i| a.get(i).copied().unwrap_or(0) != 0 && b.get(d - i).copied().unwrap_or(0) != 0))
}

fn sparse_pairs<F: PrimeField>(ctx: &mut Ctx, fname: &str, max_terms: usize) {
    let p = modulus::<F>();
    let uni = term_lists(p, &SPARSE_DEGS, max_terms, 1);
    let n = uni.len() as u64;
    sweep(ctx, &format!("sparse_pairs.{fname}.terms{max_terms}"), n * n, |i, loc| {
        let [ib, ia] = unrank(i, [n, n]);
        let (ta, tb) = (&uni[ia as usize], &uni[ib as usize]);
        let (a, b) = (m_from_terms(ta, p), m_from_terms(tb, p));
        let (sa, sb) = (sparse::<F>(&a), sparse::<F>(&b));
        let w = |op: &str| format!("F_{p} a={ta:?} b={tb:?}: {op}");
        if loc.sampling() {
            loc.sample(w("sparse pair (degree, coeff): + += +=(f,) -= mul divide_with_q_and_r"));
        }
        let sum = m_add(&a, &b, p);
        let diff = m_sub(&a, &b, p);
        let prod = m_mul(&a, &b, p);
        let both = !a.is_empty() && !b.is_empty();
        loc.class_if(a.is_empty(), "lhs_zero");
        loc.class_if(b.is_empty(), "rhs_zero");
        loc.class_if(both && (sum.is_empty() || diff.is_empty()), "result_zero");
        loc.class_if(both && a.len() == b.len() && (sum.len() < a.len() || diff.len() < a.len()), "leading_terms_cancel");
        loc.class_if(both && a.len() < b.len(), "deg(lhs)<deg(rhs)");
        loc.class_if(interior_cancel_add(&a, &b, &sum) || interior_cancel_add(&a, &m_neg(&b, p), &diff) || interior_cancel_mul(&a, &b, &prod), "interior_zero_term");
        chk_sparse(loc, "sparse_add", &sum, || w("&a + &b"), || &sa + &sb);
        chk_sparse(loc, "sparse_add_owned", &sum, || w("a + b"), || sa.clone() + sb.clone());
        chk_sparse(loc, "sparse_add_assign", &sum, || w("a += &b"), || {
            let mut x = sa.clone();
            x += &sb;
            x
        });
        for f in 0..p {
            let want = m_add(&a, &m_scale(&b, f, p), p);
            chk_sparse(loc, "sparse_add_assign_scaled", &want, || w(&format!("a += ({f}, &b)")), || {
                let mut x = sa.clone();
                x += (fe::<F>(f), &sb);
                x
            });
        }
        chk_sparse(loc, "sparse_sub_assign", &diff, || w("a -= &b"), || {
            let mut x = sa.clone();
            x -= &sb;
            x
        });
        chk_sparse(loc, "sparse_mul", &prod, || w("a.mul(&b)"), || sa.mul(&sb));
        if !b.is_empty() {
            let (q, r) = m_divrem(&a, &b, p);
            loc.class_if(!a.is_empty() && b.len() > a.len(), "divisor_deg>dividend");
            chk_qr(loc, "div_q_r_sparse_sparse", &q, &r, || w("DenseOrSparse(&a).divide_with_q_and_r(&DenseOrSparse(&b))"), || {
                DenseOrSparsePolynomial::from(&sa).divide_with_q_and_r(&DenseOrSparsePolynomial::from(&sb))
            });
        }
    });
}

// ------------------------------------------------------ dense x sparse ----
fn mixed_pairs<F: PrimeField>(ctx: &mut Ctx, fname: &str, k: usize, max_terms: usize) {
    let p = modulus::<F>();
    let uni = term_lists(p, &SPARSE_DEGS, max_terms, 1);
    let ns = uni.len() as u64;
    let nd = p.pow(k as u32);
    sweep(ctx, &format!("mixed_pairs.{fname}.len{k}.terms{max_terms}"), nd * ns, |i, loc| {
        let [is, id] = unrank(i, [ns, nd]);
        let d = trim(unrank_vec(id, &vec![p; k]));
        let ts = &uni[is as usize];
        let s = m_from_terms(ts, p);
        let (dd, ss) = (dense::<F>(&d), sparse::<F>(&s));
        let w = |op: &str| format!("F_{p} dense d={d:?} sparse s={ts:?}: {op}");
        if loc.sampling() {
            loc.sample(w("&d+&s, d+=&s, &d-&s, d-=&s, divide_with_q_and_r both ways"));
        }
        let sum = m_add(&d, &s, p);
        let diff = m_sub(&d, &s, p);
        let both = !d.is_empty() && !s.is_empty();
        loc.class_if(d.is_empty(), "lhs_zero");
        loc.class_if(s.is_empty(), "rhs_zero");
        loc.class_if(both && s.len() > d.len(), "sparse_degree_above_dense");
        loc.class_if(both && s.len() < d.len(), "sparse_degree_below_dense");
        loc.class_if(both && s.len() == d.len(), "sparse_degree_equals_dense");
        loc.class_if(both && (sum.is_empty() || diff.is_empty()), "result_zero");
        loc.class_if(both && d.len() == s.len() && (sum.len() < d.len() || diff.len() < d.len()), "leading_terms_cancel");
        chk_dense(loc, "dense_add_sparse", &sum, || w("&d + &s"), || &dd + &ss);
        chk_dense(loc, "dense_add_assign_sparse", &sum, || w("d += &s"), || {
            let mut x = dd.clone();
            x += &ss;
            x
        });
        chk_dense(loc, "dense_sub_sparse", &diff, || w("&d - &s"), || &dd - &ss);
        chk_dense(loc, "dense_sub_assign_sparse", &diff, || w("d -= &s"), || {
            let mut x = dd.clone();
            x -= &ss;
            x
        });
        if !s.is_empty() {
            let (q, r) = m_divrem(&d, &s, p);
            loc.class_if(!d.is_empty() && s.len() > d.len(), "divisor_deg>dividend");
            chk_qr(loc, "div_q_r_dense_sparse", &q, &r, || w("DenseOrSparse(&d).divide_with_q_and_r(&DenseOrSparse(&s))"), || {
                DenseOrSparsePolynomial::from(&dd).divide_with_q_and_r(&DenseOrSparsePolynomial::from(&ss))
            });
        }
        if !d.is_empty() {
            let (q, r) = m_divrem(&s, &d, p);
            loc.class_if(!s.is_empty() && d.len() > s.len(), "divisor_deg>dividend");
            chk_qr(loc, "div_q_r_sparse_dense", &q, &r, || w("DenseOrSparse(&s).divide_with_q_and_r(&DenseOrSparse(&d))"), || {
                DenseOrSparsePolynomial::from(&ss).divide_with_q_and_r(&DenseOrSparsePolynomial::from(&dd))
            });
        }
    });
}

/// Second pair universe: long dense dividends over the coefficient alphabet {0, 1, -1} against sparse
/// divisors with gaps, so that long division takes several quotient steps over a gappy divisor (the small
/// universes above stop at 4 dense coefficients / 3 sparse terms).
const GAPPY_DIVISOR_DEGS: [&[usize]; 3] = [&[0, 2, 5], &[1, 4], &[3, 7]];
fn gappy_division<F: PrimeField>(ctx: &mut Ctx, fname: &str, min_len: usize, max_len: usize) {
    let p = modulus::<F>();
    let alpha = [0u64, 1, p - 1];
    let mut dividends: Vec<M> = Vec::new();
    for l in min_len..=max_len {
        for i in 0..3u64.pow(l as u32 - 1) * 2 {
            let mut rad = vec![3u64; l - 1];
            rad.push(2);
            let d = unrank_vec(i, &rad);
            let mut v: M = d[..l - 1].iter().map(|j| alpha[*j as usize]).collect();
            v.push(alpha[1 + d[l - 1] as usize]);
            dividends.push(v);
        }
    }
    let mut divisors: Vec<Vec<(usize, u64)>> = Vec::new();
    for degs in GAPPY_DIVISOR_DEGS {
        for ci in 0..(p - 1).pow(degs.len() as u32) {
            let cs = unrank_vec(ci, &vec![p - 1; degs.len()]);
            divisors.push(degs.iter().zip(cs.iter()).map(|(d, c)| (*d, c + 1)).collect());
        }
    }
    let (na, nb) = (dividends.len() as u64, divisors.len() as u64);
    sweep(ctx, &format!("gappy_division.{fname}.len{min_len}to{max_len}"), na * nb, |i, loc| {
        let [ib, ia] = unrank(i, [nb, na]);
        let a = &dividends[ia as usize];
        let tb = &divisors[ib as usize];
        let b = m_from_terms(tb, p);
        let w = |op: &str| format!("F_{p} dense a={a:?} sparse b={tb:?}: {op}");
        if loc.sampling() {
            loc.sample(w("divide_with_q_and_r: dense/sparse, sparse/sparse, dense/dense, sparse/dense and b / a; &a / &b"));
        }
        let (da, sa) = (dense::<F>(a), sparse::<F>(a));
        let (db, sb) = (dense::<F>(&b), sparse::<F>(&b));
        let (q, r) = m_divrem(a, &b, p);
        let qterms = q.iter().filter(|c| **c != 0).count();
        loc.class_if(qterms >= 3, "gappy_div:quotient>=3_terms");
        loc.class_if(qterms >= 3 && tb.len() == 3, "gappy_div:quotient>=3_terms_3_term_divisor");
        loc.class_if(q.len() >= 2 && q[..q.len() - 1].contains(&0), "gappy_div:interior_zero_in_quotient");
        loc.class_if(!q.is_empty() && r.is_empty(), "gappy_div:exact");
        loc.class_if(!q.is_empty() && !r.is_empty() && r.len() + 1 < b.len(), "gappy_div:remainder_drops_more_than_one_degree");
        loc.class_if(b.len() > a.len(), "divisor_deg>dividend");
        chk_qr(loc, "div_q_r_dense_sparse", &q, &r, || w("DenseOrSparse(&a).divide_with_q_and_r(&DenseOrSparse(&b))"), || {
            DenseOrSparsePolynomial::from(&da).divide_with_q_and_r(&DenseOrSparsePolynomial::from(&sb))
        });
        chk_qr(loc, "div_q_r_sparse_sparse", &q, &r, || w("DenseOrSparse(&sparse(a)).divide_with_q_and_r(&DenseOrSparse(&b))"), || {
            DenseOrSparsePolynomial::from(&sa).divide_with_q_and_r(&DenseOrSparsePolynomial::from(&sb))
        });
        chk_qr(loc, "div_q_r_dense_dense", &q, &r, || w("DenseOrSparse(&a).divide_with_q_and_r(&DenseOrSparse(&dense(b)))"), || {
            DenseOrSparsePolynomial::from(&da).divide_with_q_and_r(&DenseOrSparsePolynomial::from(&db))
        });
        chk_qr(loc, "div_q_r_sparse_dense", &q, &r, || w("DenseOrSparse(&sparse(a)).divide_with_q_and_r(&DenseOrSparse(&dense(b)))"), || {
            DenseOrSparsePolynomial::from(&sa).divide_with_q_and_r(&DenseOrSparsePolynomial::from(&db))
        });
        chk_dense(loc, "dense_div", &q, || w("&a / &dense(b)"), || &da / &db);
        // the other way round: gappy sparse dividend, long dense divisor
        let (q2, r2) = m_divrem(&b, a, p);
        loc.class_if(!q2.is_empty(), "gappy_div:sparse_dividend_dense_divisor_quotient_nonzero");
        chk_qr(loc, "div_q_r_sparse_dense", &q2, &r2, || w("DenseOrSparse(&b).divide_with_q_and_r(&DenseOrSparse(&a))"), || {
            DenseOrSparsePolynomial::from(&sb).divide_with_q_and_r(&DenseOrSparsePolynomial::from(&da))
        });
    });
}

// ------------------------------------------------------------ domains ----
struct DomCase {
    di: usize,
    h: u64,
    a: M,
}

fn fam_fixed(l: usize, which: usize, p: u64) -> M {
    assert!(l >= 1);
    let mut v: M = match which {
        0 => {
            let mut v = vec![0; l];
            v[l - 1] = 1;
            v
        }
        1 => vec![1; l],
        2 => (0..l).map(|i| (i as u64 + 1) % p).collect(),
        3 => (0..l).map(|i| if i % 2 == 0 { p - 1 } else { 1 }).collect(),
        _ => {
            let mut v = vec![0; l];
            v[l - 1] = 1;
            v[0] = (v[0] + 1) % p;
            v
        }
    };
    if v[l - 1] == 0 {
        v[l - 1] = 1;
    }
    v
}
const N_FAM: usize = 5;

/// operands of exact length l for a domain of size n with offset h
fn operands(l: usize, n: usize, h: u64, p: u64) -> Vec<M> {
    if l == 0 {
        return vec![vec![]];
    }
    let mut out: Vec<M> = (0..N_FAM).map(|w| fam_fixed(l, w, p)).collect();
    // two-term operands x^(l-1) + c x^i
    let is: Vec<usize> = if l <= 40 { (0..l - 1).collect() } else { vec![0, 1, l / 2, (l - 1) % n, l - 1 - n.min(l - 1), l - 2] };
    for i in is {
        if i >= l - 1 {
            continue;
        }
        for c in [1, p - 1] {
            let mut v = vec![0; l];
            v[l - 1] = 1;
            v[i] = c;
            out.push(v);
        }
    }
    if l > n {
        // multiples of X^n - 1 and of X^n - h^n (zero remainder / fold to zero)
        for hn in [1, m_pow(h, n as u64, p)] {
            let mut v = vec![0; l];
            v[l - 1] = 1;
            v[l - 1 - n] = (p - hn) % p;
            out.push(v);
            // (X^n - hn) * ones
            let ones = vec![1u64; l - n];
            let mut z = vec![0u64; n + 1];
            z[0] = (p - hn) % p;
            z[n] = 1;
            out.push(m_mul(&ones, &z, p));
        }
    }
    dedup_sorted(out)
}

fn domain_cases(p: u64, sizes: &[usize], offsets: &[u64], exhaustive: Option<(usize, usize)>) -> Vec<DomCase> {
    let mut out = Vec::new();
    for (di, n) in sizes.iter().enumerate() {
        let n = *n;
        // up to 5n+2: `divide_by_vanishing_poly` adds block i of the operand with weight (h^n)^i for
        // i in 1..len/n, so len >= 4n is needed for the third weight step (len/n = 5 at the top)
        let lens: Vec<usize> = if n <= 16 {
            (0..=5 * n + 2).collect()
        } else {
            dedup_sorted(vec![
                0, 1, 2, n / 4 - 1, n / 4, n / 4 + 1, n / 2 - 1, n / 2, n / 2 + 1, n - 1, n, n + 1, 2 * n - 1, 2 * n, 2 * n + 1, 3 * n - 1, 3 * n, 3 * n + 1,
                4 * n - 1, 4 * n, 4 * n + 1, 5 * n - 1, 5 * n, 5 * n + 1, 5 * n + 2,
            ])
        };
        for h in offsets {
            let mut ops: Vec<M> = Vec::new();
            for l in &lens {
                ops.extend(operands(*l, n, *h, p));
            }
            if let Some((max_n, k)) = exhaustive {
                if n <= max_n {
                    for i in 0..p.pow(k as u32) {
                        ops.push(trim(unrank_vec(i, &vec![p; k])));
                    }
                }
            }
            for a in dedup_sorted(ops) {
                out.push(DomCase { di, h: *h, a });
            }
        }
    }
    out
}

fn distinct_domains<F: PrimeField, D: EvaluationDomain<F>>(ctx: &mut Ctx, tag: &str, max_req: usize) -> (Vec<D>, Vec<usize>) {
    let p = modulus::<F>();
    let mut doms: Vec<D> = Vec::new();
    for req in 1..=max_req {
        if let Some(d) = D::new(req) {
            if !doms.iter().any(|x| x.size() == d.size()) {
                doms.push(d);
            }
        }
    }
    // self-validation of what the oracle relies on: group_gen has order exactly size
    for d in &doms {
        let n = d.size() as u64;
        let g = fu(&d.group_gen());
        let mut ok = m_pow(g, n, p) == 1;
        for q in 2..=n {
            if n % q == 0 && (2..q).all(|r| q % r != 0) {
                ok &= m_pow(g, n / q, p) != 1;
            }
        }
        ctx.validate(ok && fu(&d.coset_offset()) == 1, &format!("{tag}: domain of size {n}: group_gen {g} has order {n} in F_{p} and offset 1"));
    }
    let sizes = doms.iter().map(|d| d.size()).collect();
    (doms, sizes)
}

fn zpoly(n: usize, h: u64, p: u64) -> M {
    let mut z = vec![0u64; n + 1];
    z[0] = (p - m_pow(h, n as u64, p)) % p;
    z[n] = 1;
    z
}
fn coset_of<F: PrimeField, D: EvaluationDomain<F>>(base: &D, h: u64) -> D {
    if h == 1 {
        *base
    } else {
        base.get_coset(fe::<F>(h)).expect("get_coset of a non-zero offset")
    }
}
fn domain_classes(loc: &mut Loc, l: usize, n: usize, h: u64, hn: u64) {
    loc.class_if(h != 1, "coset_domain");
    loc.class_if(hn != 1, "coset_domain:offset^size!=1");
    loc.class_if(l > n, "operand_longer_than_domain");
    loc.class_if(l >= 2 * n, "operand>=2x_domain");
    loc.class_if(l == n, "operand_len==domain");
    loc.class_if(l < n, "operand_shorter_than_domain");
    // len/n >= 4: the block loop of divide_by_vanishing_poly runs i = 1, 2, 3 (weights h^n, h^2n, h^3n)
    loc.class_if(l >= 4 * n, "operand>=4x_domain");
    loc.class_if(l >= 4 * n && hn != 1, "operand>=4x_domain:offset^size!=1");
    loc.class_if(l >= 5 * n && n > 1, "operand>=5x_domain");
}

fn vanishing<F: PrimeField, D: EvaluationDomain<F> + Sync>(ctx: &mut Ctx, tag: &str, doms: &[D], cases: &[DomCase]) {
    let p = modulus::<F>();
    sweep(ctx, &format!("vanishing.{tag}"), cases.len() as u64, |i, loc| {
        let c = &cases[i as usize];
        let base = &doms[c.di];
        let n = base.size();
        let (h, a) = (c.h, &c.a);
        let dom = coset_of::<F, D>(base, h);
        let z = zpoly(n, h, p);
        let hn = (p - z[0]) % p;
        domain_classes(loc, a.len(), n, h, hn);
        let w = |op: &str| format!("F_{p} domain size {n} offset {h} (Z = x^{n} - {hn}) a={a:?}: {op}");
        if loc.sampling() {
            loc.sample(w("mul_by_vanishing_poly / divide_by_vanishing_poly"));
        }
        let da = dense::<F>(a);
        let (sm, sd) = if h == 1 { ("mul_by_vanishing_poly", "divide_by_vanishing_poly") } else { ("mul_by_vanishing_poly_coset", "divide_by_vanishing_poly_coset") };
        chk_dense(loc, sm, &m_mul(a, &z, p), || w("a.mul_by_vanishing_poly(domain)"), || da.mul_by_vanishing_poly(dom));
        let (q, r) = m_divrem(a, &z, p);
        loc.class_if(!a.is_empty() && r.is_empty(), "div:exact");
        loc.class_if(a.len() > n && r.len() < n, "vanishing:remainder_has_leading_zeros");
        chk_qr(loc, sd, &q, &r, || w("a.divide_by_vanishing_poly(domain)"), || Some(da.divide_by_vanishing_poly(dom)));
    });
}

fn chk_evals<F: PrimeField, D: EvaluationDomain<F>>(loc: &mut Loc, site: &str, want: &[u64], dom: &D, what: impl Fn() -> String, f: impl FnOnce() -> Evaluations<F, D>) {
    if let Some(e) = guard(loc, site, &what, f) {
        let g: Vec<u64> = e.evals.iter().map(fu).collect();
        let idx_ok = g.len() != want.len() || (0..g.len()).all(|j| fu(&e[j]) == g[j]);
        check_at(loc, site, g == want && e.domain() == *dom && idx_ok, || {
            format!("{}: got evals {g:?} want {want:?}; domain preserved: {}", what(), e.domain() == *dom)
        });
    }
}

/// which kind of transform a domain value runs (read off the value itself, not modelled)
fn general_is_radix2<F: FftField>(d: &GeneralEvaluationDomain<F>) -> bool {
    matches!(d, GeneralEvaluationDomain::Radix2(_))
}
fn always_radix2<F: FftField>(_: &Radix2EvaluationDomain<F>) -> bool {
    true
}
fn never_radix2<F: FftField>(_: &MixedRadixEvaluationDomain<F>) -> bool {
    false
}

fn eval_domain<F: PrimeField, D: EvaluationDomain<F> + Sync>(ctx: &mut Ctx, tag: &str, doms: &[D], cases: &[DomCase], is_r2: fn(&D) -> bool) {
    let p = modulus::<F>();
    sweep(ctx, &format!("eval_domain.{tag}"), cases.len() as u64, |i, loc| {
        let c = &cases[i as usize];
        let base = &doms[c.di];
        let n = base.size();
        let (h, a) = (c.h, &c.a);
        let dom = coset_of::<F, D>(base, h);
        let g = fu(&base.group_gen());
        let z = zpoly(n, h, p);
        let hn = (p - z[0]) % p;
        domain_classes(loc, a.len(), n, h, hn);
        // the dense evaluate_over_domain* calls below fold the operand to min(len, n) coefficients and hand
        // them to fft_in_place; a radix-2 domain takes the degree-aware path iff 4 * that length <= n
        // (DEGREE_AWARE_FFT_THRESHOLD_FACTOR = 4 in radix2/mod.rs; mixed-radix domains have no such path)
        let r2 = is_r2(&dom);
        let fl = a.len().min(n);
        loc.class_if(r2 && fl > 0 && fl * 4 <= n, "fft:degree_aware_path");
        loc.class_if(r2 && fl > 0 && fl * 4 <= n && h != 1, "fft:degree_aware_path_on_coset");
        loc.class_if(r2 && n >= 4 && fl * 4 > n && (fl - 1) * 4 <= n, "fft:just_above_degree_aware_threshold");
        let pts: Vec<u64> = (0..n).map(|j| h * m_pow(g, j as u64, p) % p).collect();
        let w = |op: &str| format!("F_{p} domain size {n} gen {g} offset {h} a={a:?}: {op}");
        if loc.sampling() {
            loc.sample(w("evaluate_over_domain[_by_ref] (dense, sparse), interpolate[_by_ref]"));
        }
        let els: Vec<u64> = dom.elements().map(|x| fu(&x)).collect();
        check_at(loc, "domain_elements", els == pts && (0..n).all(|j| fu(&dom.element(j)) == pts[j]), || w(&format!("elements() = {els:?} want offset*gen^j = {pts:?}")));
        let vals: Vec<u64> = pts.iter().map(|x| m_eval(a, *x, p)).collect();
        let (da, sa) = (dense::<F>(a), sparse::<F>(a));
        chk_evals(loc, "dense_evaluate_over_domain_by_ref", &vals, &dom, || w("dense.evaluate_over_domain_by_ref"), || da.evaluate_over_domain_by_ref(dom));
        chk_evals(loc, "dense_evaluate_over_domain", &vals, &dom, || w("dense.evaluate_over_domain"), || da.clone().evaluate_over_domain(dom));
        chk_evals(loc, "dos_evaluate_over_domain", &vals, &dom, || w("DenseOrSparsePolynomial::evaluate_over_domain(&dense, domain)"), || {
            DenseOrSparsePolynomial::evaluate_over_domain(&da, dom)
        });
        chk_evals(loc, "sparse_evaluate_over_domain_by_ref", &vals, &dom, || w("sparse.evaluate_over_domain_by_ref"), || sa.evaluate_over_domain_by_ref(dom));
        chk_evals(loc, "sparse_evaluate_over_domain", &vals, &dom, || w("sparse.evaluate_over_domain"), || sa.clone().evaluate_over_domain(dom));
        // interpolation back: the unique polynomial of degree < n with these values = a mod Z
        let r = m_divrem(a, &z, p).1;
        loc.class_if(a.len() > n && r.len() < n, "interpolate:result_has_leading_zeros");
        loc.class_if(r.is_empty(), "result_zero");
        let ev = Evaluations::from_vec_and_domain(vals.iter().map(|v| fe::<F>(*v)).collect(), dom);
        chk_dense(loc, "evaluations_interpolate_by_ref", &r, || w(&format!("Evaluations({vals:?}).interpolate_by_ref()")), || ev.interpolate_by_ref());
        chk_dense(loc, "evaluations_interpolate", &r, || w(&format!("Evaluations({vals:?}).interpolate()")), || ev.clone().interpolate());
    });
}

fn evaluations_ops<F: PrimeField, D: EvaluationDomain<F> + Sync>(ctx: &mut Ctx, tag: &str, doms: &[D], offsets: &[u64], k: usize) {
    let p = modulus::<F>();
    let np = p.pow(k as u32);
    let (nd, no) = (doms.len() as u64, offsets.len() as u64);
    sweep(ctx, &format!("evaluations_ops.{tag}.len{k}"), nd * no * np * np, |i, loc| {
        let [ib, ia, io, id] = unrank(i, [np, np, no, nd]);
        let base = &doms[id as usize];
        let h = offsets[io as usize];
        let n = base.size();
        let dom = coset_of::<F, D>(base, h);
        let g = fu(&base.group_gen());
        let a = trim(unrank_vec(ia, &vec![p; k]));
        let b = trim(unrank_vec(ib, &vec![p; k]));
        let pts: Vec<u64> = (0..n).map(|j| h * m_pow(g, j as u64, p) % p).collect();
        let va: Vec<u64> = pts.iter().map(|x| m_eval(&a, *x, p)).collect();
        let vb: Vec<u64> = pts.iter().map(|x| m_eval(&b, *x, p)).collect();
        let mk = |v: &[u64]| Evaluations::<F, D>::from_vec_and_domain(v.iter().map(|x| fe::<F>(*x)).collect(), dom);
        let (ea, eb) = (mk(&va), mk(&vb));
        let w = |op: &str| format!("F_{p} domain size {n} offset {h} evals A={va:?} B={vb:?}: {op}");
        if loc.sampling() {
            loc.sample(w("pointwise + - * / and *f on Evaluations"));
        }
        loc.class_if(h != 1, "coset_domain");
        let pw = |f: &dyn Fn(u64, u64) -> u64| -> Vec<u64> { va.iter().zip(vb.iter()).map(|(x, y)| f(*x, *y)).collect() };
        let add = pw(&|x, y| (x + y) % p);
        let sub = pw(&|x, y| (x + p - y) % p);
        let mul = pw(&|x, y| x * y % p);
        chk_evals(loc, "evaluations_add", &add, &dom, || w("&A + &B"), || &ea + &eb);
        chk_evals(loc, "evaluations_add_assign", &add, &dom, || w("A += &B"), || {
            let mut x = ea.clone();
            x += &eb;
            x
        });
        chk_evals(loc, "evaluations_sub", &sub, &dom, || w("&A - &B"), || &ea - &eb);
        chk_evals(loc, "evaluations_sub_assign", &sub, &dom, || w("A -= &B"), || {
            let mut x = ea.clone();
            x -= &eb;
            x
        });
        chk_evals(loc, "evaluations_mul", &mul, &dom, || w("&A * &B"), || &ea * &eb);
        chk_evals(loc, "evaluations_mul_assign", &mul, &dom, || w("A *= &B"), || {
            let mut x = ea.clone();
            x *= &eb;
            x
        });
        if vb.iter().all(|y| *y != 0) {
            loc.class("evals_div:divisor_nonvanishing");
            let div = pw(&|x, y| x * m_inv(y, p) % p);
            chk_evals(loc, "evaluations_div", &div, &dom, || w("&A / &B"), || &ea / &eb);
            chk_evals(loc, "evaluations_div_assign", &div, &dom, || w("A /= &B"), || {
                let mut x = ea.clone();
                x /= &eb;
                x
            });
        }
        for f in 0..p {
            let sc: Vec<u64> = va.iter().map(|x| x * f % p).collect();
            chk_evals(loc, "evaluations_scale", &sc, &dom, || w(&format!("&A * {f}")), || &ea * fe::<F>(f));
        }
        // product interpolated back = a*b mod Z
        let z = zpoly(n, h, p);
        let r = m_divrem(&m_mul(&a, &b, p), &z, p).1;
        loc.class_if(a.len() + b.len() > n + 1, "product_longer_than_domain");
        chk_dense(loc, "evaluations_mul_interpolate", &r, || w("(&A * &B).interpolate()"), || (&ea * &eb).interpolate());
        chk_mul_in_domain(loc, &dom, &va, &vb, &mul, Some(&r), &|| w("domain.mul_polynomials_in_evaluation_domain(A, B)"));
    });
}

/// `EvaluationDomain::mul_polynomials_in_evaluation_domain`: the evaluations of the product over the domain
/// (pointwise products); interpolated back (`ifft`) they give `interp` = a*b mod Z, i.e. a*b when it fits.
fn chk_mul_in_domain<F: PrimeField, D: EvaluationDomain<F>>(loc: &mut Loc, dom: &D, va: &[u64], vb: &[u64], want: &[u64], interp: Option<&[u64]>, what: &dyn Fn() -> String) {
    let site = "mul_polynomials_in_evaluation_domain";
    let fa: Vec<F> = va.iter().map(|x| fe::<F>(*x)).collect();
    let fb: Vec<F> = vb.iter().map(|x| fe::<F>(*x)).collect();
    if let Some(g) = guard(loc, site, what, || dom.mul_polynomials_in_evaluation_domain(&fa, &fb)) {
        let gu: Vec<u64> = g.iter().map(fu).collect();
        check_at(loc, site, gu == want, || format!("{}: got {gu:?} want {want:?}", what()));
        if let Some(r) = interp {
            if let Some(c) = guard(loc, site, what, || dom.ifft(&g)) {
                let cu = trim(c.iter().map(fu).collect());
                check_at(loc, site, cu == r, || format!("{}: interpolated back (ifft) gives {cu:?} want {r:?}", what()));
            }
        }
    }
}

/// product in evaluation form on structured operands of every length 0..=n (all ordered pairs), on every
/// listed domain and offset
fn mul_in_eval_domain<F: PrimeField, D: EvaluationDomain<F> + Sync>(ctx: &mut Ctx, tag: &str, doms: &[D], offsets: &[u64], exhaustive_k: usize) {
    let p = modulus::<F>();
    let mut groups: Vec<(usize, u64, Vec<M>)> = Vec::new();
    let mut cases: Vec<(u32, u32, u32)> = Vec::new();
    for (di, d) in doms.iter().enumerate() {
        let n = d.size();
        let mut ops: Vec<M> = vec![vec![]];
        for l in 1..=n {
            ops.extend((0..N_FAM).map(|w| fam_fixed(l, w, p)));
        }
        for i in 0..p.pow(exhaustive_k as u32) {
            ops.push(trim(unrank_vec(i, &vec![p; exhaustive_k])));
        }
        let ops = dedup_sorted(ops);
        for h in offsets {
            let gi = groups.len() as u32;
            for ia in 0..ops.len() as u32 {
                for ib in 0..ops.len() as u32 {
                    cases.push((gi, ia, ib));
                }
            }
            groups.push((di, *h, ops.clone()));
        }
    }
    sweep(ctx, &format!("mul_in_eval_domain.{tag}"), cases.len() as u64, |i, loc| {
        let (gi, ia, ib) = cases[i as usize];
        let (di, h, ops) = &groups[gi as usize];
        let (a, b) = (&ops[ia as usize], &ops[ib as usize]);
        let base = &doms[*di];
        let n = base.size();
        let h = *h;
        let dom = coset_of::<F, D>(base, h);
        let g = fu(&base.group_gen());
        let pts: Vec<u64> = (0..n).map(|j| h * m_pow(g, j as u64, p) % p).collect();
        let va: Vec<u64> = pts.iter().map(|x| m_eval(a, *x, p)).collect();
        let vb: Vec<u64> = pts.iter().map(|x| m_eval(b, *x, p)).collect();
        let want: Vec<u64> = va.iter().zip(vb.iter()).map(|(x, y)| x * y % p).collect();
        let prod = m_mul(a, b, p);
        let r = m_divrem(&prod, &zpoly(n, h, p), p).1;
        let w = || format!("F_{p} domain size {n} gen {g} offset {h} a={a:?} b={b:?}: domain.mul_polynomials_in_evaluation_domain(evals of a, evals of b)");
        if loc.sampling() {
            loc.sample(w());
        }
        loc.class_if(h != 1, "coset_domain");
        loc.class_if(a.is_empty() || b.is_empty(), "mul_in_eval_domain:zero_operand");
        loc.class_if(!prod.is_empty() && prod.len() < n, "mul_in_eval_domain:product_fits");
        loc.class_if(prod.len() == n, "mul_in_eval_domain:product_len==domain_size");
        loc.class_if(prod.len() > n, "mul_in_eval_domain:product_longer_than_domain");
        chk_mul_in_domain(loc, &dom, &va, &vb, &want, Some(&r), &w);
    });
}

/// FFT-based product on structured operands of every length pair
fn fft_mul<F: PrimeField>(ctx: &mut Ctx, fname: &str, lens: &[usize]) {
    let p = modulus::<F>();
    let cap = fft_cap::<F>();
    let nl = lens.len() as u64;
    let nf = N_FAM as u64;
    sweep(ctx, &format!("fft_mul.{fname}"), nl * nl * nf * nf, |i, loc| {
        let [fb, fa, ib, ia] = unrank(i, [nf, nf, nl, nl]);
        let (la, lb) = (lens[ia as usize], lens[ib as usize]);
        if la + lb - 1 > cap {
            return;
        }
        let a = fam_fixed(la, fa as usize, p);
        let b = fam_fixed(lb, fb as usize, p);
        let w = |op: &str| format!("F_{p} a={a:?} b={b:?}: {op}");
        if loc.sampling() {
            loc.sample(format!("F_{p} FFT product of lengths {la} x {lb}, families {fa},{fb}"));
        }
        let dsize = la + lb - 1;
        loc.class_if(dsize > (1usize << F::TWO_ADICITY), "fft_mul:mixed_radix_domain");
        loc.class_if(dsize.is_power_of_two() || dsize == cap, "fft_mul:product_len==domain_size");
        // `&a * &b` builds GeneralEvaluationDomain::new(la + lb - 1) and transforms both operands over it: the
        // degree-aware path runs iff that domain is a radix-2 one and 4 * operand length <= its size
        if let Some(GeneralEvaluationDomain::Radix2(d)) = GeneralEvaluationDomain::<F>::new(dsize) {
            loc.class_if(la * 4 <= d.size() || lb * 4 <= d.size(), "fft:degree_aware_path");
            loc.class_if(la * 4 <= d.size() || lb * 4 <= d.size(), "fft_mul:degree_aware_path");
        }
        let prod = m_mul(&a, &b, p);
        let (da, db) = (dense::<F>(&a), dense::<F>(&b));
        chk_dense(loc, "dense_mul_fft", &prod, || w("&a * &b"), || &da * &db);
        chk_dense(loc, "dense_naive_mul", &prod, || w("a.naive_mul(&b)"), || da.naive_mul(&db));
    });
}

// ------------------------------------------------- oracle self-checks ----
fn validate_model(ctx: &mut Ctx) {
    // the coefficient-wise model is tied to the property's pointwise statement:
    // over F_5, F_7 every operation commutes with evaluation at every point
    for p in [5u64, 7] {
        let k = 3usize;
        let n = p.pow(k as u32);
        let mut ok = true;
        for ia in 0..n {
            let a = trim(unrank_vec(ia, &vec![p; k]));
            for ib in 0..n {
                let b = trim(unrank_vec(ib, &vec![p; k]));
                let (s, d, m) = (m_add(&a, &b, p), m_sub(&a, &b, p), m_mul(&a, &b, p));
                for x in 0..p {
                    let (ea, eb) = (m_eval(&a, x, p), m_eval(&b, x, p));
                    ok &= m_eval(&s, x, p) == (ea + eb) % p && m_eval(&d, x, p) == (ea + p - eb) % p && m_eval(&m, x, p) == ea * eb % p;
                }
                if !b.is_empty() {
                    let (q, r) = m_divrem(&a, &b, p);
                    ok &= m_add(&m_mul(&q, &b, p), &r, p) == a && (r.is_empty() || r.len() < b.len());
                    ok &= q.last() != Some(&0) && r.last() != Some(&0);
                }
            }
        }
        ctx.validate(ok, &format!("reference model over F_{p}: add/sub/mul commute with evaluation at every point; a = q*b + r with deg r < deg b"));
    }
    for p in [5u64, 7, 17, 97, 257] {
        ctx.validate((2..p).all(|d| p % d != 0), &format!("{p} is prime"));
        ctx.validate((1..p).all(|x| m_inv(x, p) == m_pow(x, p - 2, p)), &format!("m_inv agrees with x^(p-2) mod {p}"));
    }
    fn conv<F: PrimeField>(ctx: &mut Ctx, want_p: u64) {
        let p = modulus::<F>();
        ctx.validate(p == want_p && F::MODULUS.as_ref().len() == 1, &format!("toy field modulus {want_p}"));
        ctx.validate((0..p).all(|x| fu(&fe::<F>(x)) == x), &format!("F_{want_p}: u64 <-> field conversion round-trips"));
    }
    conv::<D5>(ctx, 5);
    conv::<D7>(ctx, 7);
    conv::<D17>(ctx, 17);
    conv::<D97>(ctx, 97);
    conv::<D257>(ctx, 257);
}

// -------------------------------------------- S: operation sequences ----
#[derive(Clone, Copy, PartialEq, Eq, Debug)]
enum OpK {
    AddAssign,
    SubAssign,
    AddAssignScaled,
    Add,
    Sub,
    Scale,
    Neg,
}
impl OpK {
    fn name(self) -> &'static str {
        match self {
            OpK::AddAssign => "add_assign",
            OpK::SubAssign => "sub_assign",
            OpK::AddAssignScaled => "add_assign_scaled",
            OpK::Add => "add",
            OpK::Sub => "sub",
            OpK::Scale => "scale",
            OpK::Neg => "neg",
        }
    }
}
/// (op, operand index, scalar)
fn seq_actions(n_operands: usize, p: u64, with_sub: bool) -> Vec<(OpK, usize, u64)> {
    let mut v = Vec::new();
    for j in 0..n_operands {
        v.push((OpK::AddAssign, j, 0));
        v.push((OpK::SubAssign, j, 0));
        v.push((OpK::Add, j, 0));
        if with_sub {
            v.push((OpK::Sub, j, 0));
        }
        for f in 0..p {
            v.push((OpK::AddAssignScaled, j, f));
        }
    }
    for f in 0..p {
        v.push((OpK::Scale, 0, f));
    }
    v.push((OpK::Neg, 0, 0));
    v
}
fn seq_model_step(m: &[u64], op: OpK, b: &[u64], f: u64, p: u64) -> M {
    match op {
        OpK::AddAssign | OpK::Add => m_add(m, b, p),
        OpK::SubAssign | OpK::Sub => m_sub(m, b, p),
        OpK::AddAssignScaled => m_add(m, &m_scale(b, f, p), p),
        OpK::Scale => m_scale(m, f, p),
        OpK::Neg => m_neg(m, p),
    }
}

#[derive(Clone, Hash, PartialEq, Eq)]
struct DSt {
    m: M,
    d: DensePolynomial<D5>,
}
impl std::fmt::Debug for DSt {
    fn fmt(&self, f: &mut std::fmt::Formatter<'_>) -> std::fmt::Result {
        write!(f, "model={:?} impl.coeffs={:?}", self.m, dvec(&self.d))
    }
}
#[derive(Clone, Hash, PartialEq, Eq)]
struct SSt {
    m: M,
    s: SparsePolynomial<D5>,
}
impl std::fmt::Debug for SSt {
    fn fmt(&self, f: &mut std::fmt::Formatter<'_>) -> std::fmt::Result {
        write!(f, "model={:?} impl.terms={:?}", self.m, svec(&self.s))
    }
}

/// deterministic choice of the reported sequence-model violations: the KEEP
/// smallest (state size, text) per operation, taken over ALL violating transitions
static SEQ_REC: Mutex<BTreeMap<String, Vec<(usize, String)>>> = Mutex::new(BTreeMap::new());
fn seq_record(site: &str, size: usize, msg: String) {
    let mut g = SEQ_REC.lock().unwrap();
    let v = g.entry(site.to_string()).or_default();
    let item = (size, msg);
    if !v.contains(&item) {
        v.push(item);
        v.sort();
        v.truncate(KEEP);
    }
}
fn seq_fold(ctx: &mut Ctx, name: &str) {
    let rec = std::mem::take(&mut *SEQ_REC.lock().unwrap());
    let prefix = format!("{name}/");
    ctx.violations.retain(|v| !(v.check.starts_with(&prefix) && rec.contains_key(&v.check[prefix.len()..])));
    for (site, v) in rec {
        for (k, (_, msg)) in v.into_iter().enumerate() {
            ctx.violations.push(Violation { sweep: name.to_string(), check: format!("{name}/{site}"), index: k as u64, msg });
        }
    }
}

fn seq_models(ctx: &mut Ctx) {
    let p = 5u64;
    let depth: u8 = ctx.t(4, 8);
    // operands chosen so that leading terms cancel: 0, 1, x^2, -x^2, x^2+x, x^3, -x^3+x
    let d_ops: Arc<Vec<M>> = Arc::new(vec![vec![], vec![1], vec![0, 0, 1], vec![0, 0, 4], vec![0, 1, 1], vec![0, 0, 0, 1], vec![0, 1, 0, 4]]);
    // sparse: 0, 1, x^2, -x^2, x^2+x, x^5, -x^5+x^2
    let s_ops: Arc<Vec<M>> = Arc::new(vec![vec![], vec![1], vec![0, 0, 1], vec![0, 0, 4], vec![0, 1, 1], vec![0, 0, 0, 0, 0, 1], vec![0, 0, 1, 0, 0, 4]]);
    ctx.bound("seq.depth", depth as u64);
    ctx.bound("seq.dense_operands", format!("{:?}", *d_ops));
    ctx.bound("seq.sparse_operands", format!("{:?}", *s_ops));
    ctx.bound("seq.actions", "+=a, -=a, &x+&a, &x-&a (dense), +=(f,a) for every f in F_5, &x*f for every f, -x");

    let acts = Arc::new(seq_actions(d_ops.len(), p, true));
    let init: Vec<DSt> = [vec![], vec![0, 0, 1], vec![0, 1, 1], vec![1]].iter().map(|m: &M| DSt { m: m.clone(), d: dense::<D5>(m) }).collect();
    let (a1, a2, o2) = (acts.clone(), acts.clone(), d_ops.clone());
    run_seq(
        ctx,
        "seq_dense_D5",
        init,
        acts.len(),
        depth,
        move |a| a1[a].0.name().to_string(),
        move |s: &DSt, a: usize| {
            let (op, j, f) = a2[a];
            let b = &o2[j];
            let db = dense::<D5>(b);
            let want = seq_model_step(&s.m, op, b, f, p);
            let mut d = s.d.clone();
            match op {
                OpK::AddAssign => d += &db,
                OpK::SubAssign => d -= &db,
                OpK::AddAssignScaled => d += (fe::<D5>(f), &db),
                OpK::Add => d = &d + &db,
                OpK::Sub => d = &d - &db,
                OpK::Scale => d = &d * fe::<D5>(f),
                OpK::Neg => d = -d,
            }
            let pr = dense_problems(&d, &want);
            if pr.is_empty() {
                Ok(Some(DSt { m: want, d }))
            } else {
                let msg = format!("operand {b:?} f={f}: {}", pr.join("; "));
                seq_record(op.name(), s.m.len(), format!("state {s:?} --{}--> {msg}", op.name()));
                Err(msg)
            }
        },
    );
    seq_fold(ctx, "seq_dense_D5");

    let acts = Arc::new(seq_actions(s_ops.len(), p, false));
    let init: Vec<SSt> = [vec![], vec![0, 0, 1], vec![0, 1, 1], vec![1]].iter().map(|m: &M| SSt { m: m.clone(), s: sparse::<D5>(m) }).collect();
    let (a1, a2, o2) = (acts.clone(), acts.clone(), s_ops.clone());
    run_seq(
        ctx,
        "seq_sparse_D5",
        init,
        acts.len(),
        depth,
        move |a| a1[a].0.name().to_string(),
        move |st: &SSt, a: usize| {
            let (op, j, f) = a2[a];
            let b = &o2[j];
            let sb = sparse::<D5>(b);
            let want = seq_model_step(&st.m, op, b, f, p);
            let mut s = st.s.clone();
            match op {
                OpK::AddAssign => s += &sb,
                OpK::SubAssign => s -= &sb,
                OpK::AddAssignScaled => s += (fe::<D5>(f), &sb),
                OpK::Add => s = &s + &sb,
                OpK::Sub => unreachable!(),
                OpK::Scale => s = &s * fe::<D5>(f),
                OpK::Neg => s = -s,
            }
            let pr = sparse_problems(&s, &want, p);
            if pr.is_empty() {
                Ok(Some(SSt { m: want, s }))
            } else {
                let msg = format!("operand {b:?} f={f}: {}", pr.join("; "));
                seq_record(op.name(), st.m.len(), format!("state {st:?} --{}--> {msg}", op.name()));
                Err(msg)
            }
        },
    );
    seq_fold(ctx, "seq_sparse_D5");
}

// ---------------------------------------------------------------- main ----
fn main() {
    let mut ctx = Ctx::from_args("C08");
    ctx.require(&[
        "leading_terms_cancel",
        "result_zero",
        "lhs_zero",
        "rhs_zero",
        "deg(lhs)<deg(rhs)",
        "sparse_degree_above_dense",
        "sparse_degree_below_dense",
        "interior_zero_term",
        "operand_longer_than_domain",
        "operand>=2x_domain",
        "coset_domain",
        "coset_domain:offset^size!=1",
        "divisor_deg>dividend",
        "ctor:input_has_trailing_zeros",
        "ctor:unsorted_input",
        "ctor:interior_zero_coefficient",
        "fft_mul:mixed_radix_domain",
        "fft:degree_aware_path",
        "fft:degree_aware_path_on_coset",
        "fft:just_above_degree_aware_threshold",
        "fft_mul:degree_aware_path",
        "operand>=4x_domain",
        "operand>=4x_domain:offset^size!=1",
        "operand>=5x_domain",
        "mul_in_eval_domain:product_fits",
        "mul_in_eval_domain:product_len==domain_size",
        "mul_in_eval_domain:product_longer_than_domain",
        "gappy_div:quotient>=3_terms",
        "gappy_div:quotient>=3_terms_3_term_divisor",
        "gappy_div:exact",
        "noncanonical_operand",
        "noncanonical_operand:both",
        "scaled_add:leading_terms_cancel",
        "evals_div:divisor_nonvanishing",
    ]);
    ctx.assume("oracle: coefficient vectors Vec<u64> mod p with schoolbook add/sub/mul, Horner evaluation, long division, inverse by search (validated at start-up against evaluation at every point of F_5, F_7)");
    ctx.assume("model <-> implementation conversion through F::from(u64) / into_bigint() (property C01)");
    ctx.assume("evaluation domains: group_gen() is read from the library and validated to have order exactly size(); the i-th domain point is offset*group_gen^i (construction of domains is property C07)");
    ctx.assume("non-canonical dense operands (trailing zero coefficients, sweep noncanonical_dense) are outside 'canonical representations': a panic is only counted (classes observed:noncanonical_*), a returned result must have the right value after trimming");
    ctx.assume("degree() of the zero polynomial: any answer is accepted (the property only says that asking never fails); DenseOrSparse(dense).try_into::<Sparse>() may be Err or the same polynomial");
    ctx.assume("operands are canonical values; sparse constructor inputs have pairwise distinct degrees (duplicates are documented as unsupported)");
    ctx.assume("&a * &b (FFT) is required to be right whenever a domain of size >= len(a)+len(b)-1 exists; otherwise ('if F is smooth') a refusal by panic is accepted but a returned value must be the product");
    ctx.assume("Evaluations `/`: only divisors that vanish nowhere on the domain; division by the zero polynomial is excluded (explicit panic in the library)");
    validate_model(&mut ctx);
    let q = ctx.quick();

    // dense
    ctx.bound("dense_universe", if q { "F_5: all polys with <=4 coeffs, all ordered pairs; F_7: <=3 coeffs; F_17: <=2 coeffs" } else { "F_5, F_7: all polys with <=4 coeffs, all ordered pairs; F_17: <=3 coeffs" });
    ctx.bound("scalars", "every f in F for scale, scaled add, Evaluations*f; every x in F for evaluate");
    dense_unary::<D5>(&mut ctx, "D5", 4);
    dense_unary::<D7>(&mut ctx, "D7", 4);
    dense_unary::<D17>(&mut ctx, "D17", 3);
    let k_big = ctx.t(1, 2);
    dense_unary::<D97>(&mut ctx, "D97", k_big);
    dense_unary::<D257>(&mut ctx, "D257", k_big);
    dense_pairs::<D5>(&mut ctx, "D5", 4);
    let (k7, k17) = (ctx.t(3, 4), ctx.t(2, 3));
    dense_pairs::<D7>(&mut ctx, "D7", k7);
    dense_pairs::<D17>(&mut ctx, "D17", k17);

    // dense operands with trailing zeros (constructible through the public field)
    noncanonical_dense::<D5>(&mut ctx, "D5", 3, 2);
    ctx.bound("noncanonical_dense", "F_5: x = every polynomial with <=3 coefficients padded with 1 or 2 zero coefficients, y = every polynomial with <=2 coefficients, canonical or padded with 1: degree, is_zero, evaluate everywhere, neg, scale, + - += -= +=(2,.) naive_mul * / in both operand orders; values compared after trimming, panics only counted");

    // sparse
    ctx.bound("sparse_universe", "term lists with <=3 terms, degrees in {0,1,2,3,5,8}, coefficients in F_5^* (1545 polynomials, all ordered pairs), constructor fed every permutation; the same over F_7 (4897 polynomials) in thorough; dense x sparse: all dense with <=4 coeffs x all sparse");
    sparse_unary::<D5>(&mut ctx, "D5", 3);
    sparse_ctor_zero_terms::<D5>(&mut ctx, "D5", 3);
    sparse_pairs::<D5>(&mut ctx, "D5", 3);
    mixed_pairs::<D5>(&mut ctx, "D5", 4, 3);
    // second universe: long {0,1,-1} dividends, gappy sparse divisors
    ctx.bound("gappy_division", "dense dividends with 5..=8 (quick) / 5..=9 (thorough) coefficients in {0,1,-1} x sparse divisors on degrees {0,2,5}, {1,4}, {3,7} with every non-zero coefficient choice, over F_5 (and F_7 in thorough); dividend and divisor each in dense and sparse form, and the reverse division");
    let gl = ctx.t(8, 9);
    gappy_division::<D5>(&mut ctx, "D5", 5, gl);
    if !q {
        gappy_division::<D7>(&mut ctx, "D7", 5, 8);
    }
    if !q {
        sparse_unary::<D7>(&mut ctx, "D7", 3);
        sparse_ctor_zero_terms::<D7>(&mut ctx, "D7", 3);
        sparse_pairs::<D7>(&mut ctx, "D7", 3);
        mixed_pairs::<D7>(&mut ctx, "D7", 4, 3);
    }

    // domains: F_17 (radix-2 sizes 1..16, every offset), F_97 (radix-2 <= 32, mixed radix 3*2^k), F_257 (thorough)
    {
        let (doms, sizes) = distinct_domains::<D17, GeneralEvaluationDomain<D17>>(&mut ctx, "D17.general", 16);
        ctx.validate(sizes == vec![1, 2, 4, 8, 16], "F_17 general domains have sizes 1,2,4,8,16");
        let offsets: Vec<u64> = (1..17).collect();
        let cases = domain_cases(17, &sizes, &offsets, Some((4, ctx.t(2, 3))));
        ctx.bound("domains.D17", "sizes 1,2,4,8,16; every offset in F_17^*; operand lengths 0..=5n+2 (structured families) + all polys with <=2 (quick) / <=3 (thorough) coeffs for n<=4");
        vanishing::<D17, _>(&mut ctx, "D17", &doms, &cases);
        eval_domain::<D17, _>(&mut ctx, "D17", &doms, &cases, general_is_radix2);
        let small: Vec<GeneralEvaluationDomain<D17>> = doms.iter().filter(|d| d.size() <= 8).cloned().collect();
        evaluations_ops::<D17, _>(&mut ctx, "D17", &small, &[1, 3, 16, 2], 2);
        ctx.bound("evaluations_ops.D17", "domains of size 1,2,4,8 x offsets {1,3,16,2} x all ordered pairs of polys with <=2 coeffs; thorough: size 4 x offsets {1,3} x all pairs with <=3 coeffs");
        if !q {
            let four: Vec<GeneralEvaluationDomain<D17>> = doms.iter().filter(|d| d.size() == 4).cloned().collect();
            evaluations_ops::<D17, _>(&mut ctx, "D17size4", &four, &[1, 3], 3);
        }
        mul_in_eval_domain::<D17, _>(&mut ctx, "D17general", &doms, &[1, 3], 2);
        // Radix2EvaluationDomain used directly
        let (rdoms, rsizes) = distinct_domains::<D17, Radix2EvaluationDomain<D17>>(&mut ctx, "D17.radix2", 16);
        mul_in_eval_domain::<D17, _>(&mut ctx, "D17radix2", &rdoms, &[1, 2], 1);
        ctx.bound("mul_in_eval_domain", "every listed domain (F_17: sizes 1..16 general and radix-2; F_97 mixed-radix and general) x 2 offsets x all ordered pairs of {0, 5 structured families of every length 1..=n, all polys with <=2 (F_17 general) / <=1 coeffs}");
        let rcases = domain_cases(17, &rsizes, &[1, 3, 2], None);
        vanishing::<D17, _>(&mut ctx, "D17radix2", &rdoms, &rcases);
        eval_domain::<D17, _>(&mut ctx, "D17radix2", &rdoms, &rcases, always_radix2);
    }
    {
        let offsets = [1u64, 5, 96, 2, 35];
        let (doms, sizes) = distinct_domains::<D97, MixedRadixEvaluationDomain<D97>>(&mut ctx, "D97.mixed", 96);
        ctx.validate(sizes.contains(&3) && sizes.contains(&96) && sizes.contains(&12), "F_97 mixed-radix domains include sizes 3, 12, 96");
        let keep: Vec<usize> = if q { vec![1, 3, 6, 12, 24] } else { sizes.clone() };
        let doms: Vec<_> = doms.into_iter().filter(|d| keep.contains(&d.size())).collect();
        let sizes: Vec<usize> = doms.iter().map(|d| d.size()).collect();
        ctx.bound("domains.D97.mixed", format!("sizes {sizes:?}, offsets {offsets:?}"));
        let cases = domain_cases(97, &sizes, &offsets, None);
        vanishing::<D97, _>(&mut ctx, "D97mixed", &doms, &cases);
        eval_domain::<D97, _>(&mut ctx, "D97mixed", &doms, &cases, never_radix2);
        let msmall: Vec<_> = doms.iter().filter(|d| d.size() <= ctx.t(24, 48)).cloned().collect();
        mul_in_eval_domain::<D97, _>(&mut ctx, "D97mixed", &msmall, &[1, 5], 1);
        let (gdoms, gsizes) = distinct_domains::<D97, GeneralEvaluationDomain<D97>>(&mut ctx, "D97.general", 96);
        let keep: Vec<usize> = if q { vec![4, 32, 48] } else { gsizes.clone() };
        let gdoms: Vec<_> = gdoms.into_iter().filter(|d| keep.contains(&d.size())).collect();
        let gsizes: Vec<usize> = gdoms.iter().map(|d| d.size()).collect();
        ctx.bound("domains.D97.general", format!("sizes {gsizes:?}, offsets {offsets:?}"));
        let gcases = domain_cases(97, &gsizes, &offsets, None);
        vanishing::<D97, _>(&mut ctx, "D97general", &gdoms, &gcases);
        eval_domain::<D97, _>(&mut ctx, "D97general", &gdoms, &gcases, general_is_radix2);
        let gsmall: Vec<_> = gdoms.iter().filter(|d| d.size() <= 32).cloned().collect();
        mul_in_eval_domain::<D97, _>(&mut ctx, "D97general", &gsmall, &[1, 35], 1);
    }
    if !q {
        let offsets = [1u64, 3, 256, 2];
        let (doms, sizes) = distinct_domains::<D257, GeneralEvaluationDomain<D257>>(&mut ctx, "D257.general", 256);
        ctx.bound("domains.D257.general", format!("sizes {sizes:?}, offsets {offsets:?}"));
        let cases = domain_cases(257, &sizes, &offsets, None);
        vanishing::<D257, _>(&mut ctx, "D257general", &doms, &cases);
        eval_domain::<D257, _>(&mut ctx, "D257general", &doms, &cases, general_is_radix2);
    }

    // FFT product on structured operands
    fft_mul::<D17>(&mut ctx, "D17", &(1..=8).collect::<Vec<_>>());
    fft_mul::<D97>(&mut ctx, "D97", &(1..=48).collect::<Vec<_>>());
    let l257: Vec<usize> = if q { vec![1, 2, 3, 4, 5, 8, 9, 16, 17, 32, 33, 64, 65, 100, 127, 128] } else { (1..=128).collect() };
    fft_mul::<D257>(&mut ctx, "D257", &l257);
    ctx.bound("fft_mul", "F_17: lengths 1..8 x 1..8; F_97: 1..48 x 1..48 (radix-2 and mixed-radix domains); F_257: boundary lengths (quick) / 1..128 (thorough); 5 operand families each");

    seq_models(&mut ctx);
    std::process::exit(ctx.finish());
}
