//! C07 - FFT/IFFT over every evaluation domain equal naive evaluation /
//! interpolation; domain construction is minimal for its kind; element access,
//! iteration, vanishing polynomial, Lagrange coefficients (and the filter
//! polynomial / sub-domain re-indexing helpers) agree with their definitions.
//!
//! Reference model: arithmetic mod p on u64 (toy fields) - naive DFT by Horner
//! at h*g^j, product definitions of the vanishing / Lagrange / filter
//! polynomials, brute-force minimum over {2^i} resp. {2^i q^j}.  For the shipped
//! 255..753-bit fields the model arithmetic is the field's own add/mul (field
//! arithmetic is C01's job) inside the same naive O(n^2) definitions.
use algebra_mc::core::*;
use algebra_mc::refmodel::zmod::is_prime_small;
use algebra_mc::toy::gen_fields as tf;
use ark_ff::{BigInteger, FftField, PrimeField};
use ark_poly::univariate::DensePolynomial;
use ark_poly::{
    DenseUVPolynomial, EvaluationDomain, Evaluations, GeneralEvaluationDomain, MixedRadixEvaluationDomain, Polynomial,
    Radix2EvaluationDomain,
};
use num_bigint::BigUint;
use num_traits::{ToPrimitive, Zero as _};
use std::marker::PhantomData;
use std::panic::{catch_unwind, AssertUnwindSafe};

// ---------------------------------------------------------------------------
// two more toy fields, declared here: small subgroups q^2 with q = 5 and q = 7, so that the q-ary merge pass
// of the mixed-radix transform runs twice with q > 3 (the generated toy fields have q = 3, or q = 5 with k = 1)
//   401 - 1 = 2^4 * 5^2, smallest primitive root 3;   197 - 1 = 2^2 * 7^2, smallest primitive root 2
// (primality, the factorisations and the primitive roots are re-verified at start-up, see `validate_extra_fields`)
// ---------------------------------------------------------------------------
mod extra_fields {
    #![allow(non_camel_case_types, dead_code)]
    use ark_ff::fields::{Fp, MontBackend, MontConfig};

    #[derive(ark_ff::MontConfig)]
    #[modulus = "401"]
    #[generator = "3"]
    #[small_subgroup_base = "5"]
    #[small_subgroup_power = "2"]
    pub struct D401Cfg;
    pub type D401 = Fp<MontBackend<D401Cfg, 1>, 1>;

    #[derive(ark_ff::MontConfig)]
    #[modulus = "197"]
    #[generator = "2"]
    #[small_subgroup_base = "7"]
    #[small_subgroup_power = "2"]
    pub struct D197Cfg;
    pub type D197 = Fp<MontBackend<D197Cfg, 1>, 1>;
}
use extra_fields::{D197, D401};

fn validate_extra_fields(ctx: &mut Ctx) {
    fn one<F: PrimeField + FftField>(ctx: &mut Ctx, p: u64, two: u32, q: u64, k: u32, g: u64) {
        let powmod = |b: u64, mut e: u64| {
            let (mut r, mut b) = (1u64, b % p);
            while e > 0 {
                if e & 1 == 1 {
                    r = r * b % p;
                }
                b = b * b % p;
                e >>= 1;
            }
            r
        };
        ctx.validate(F::MODULUS.as_ref() == [p] && (2..p).all(|d| p % d != 0), &format!("D{p}: modulus {p} is prime"));
        ctx.validate(p - 1 == (1u64 << two) * q.pow(k) && (2..q).all(|d| q % d != 0), &format!("D{p}: p-1 = 2^{two} * {q}^{k} with {q} prime"));
        ctx.validate(
            F::TWO_ADICITY == two && F::SMALL_SUBGROUP_BASE == Some(q as u32) && F::SMALL_SUBGROUP_BASE_ADICITY == Some(k),
            &format!("D{p}: derived TWO_ADICITY / SMALL_SUBGROUP_BASE / SMALL_SUBGROUP_BASE_ADICITY are {two} / {q} / {k}"),
        );
        ctx.validate(F::GENERATOR.into_bigint().as_ref() == [g] && powmod(g, (p - 1) / 2) != 1 && powmod(g, (p - 1) / q) != 1 && powmod(g, p - 1) == 1, &format!("D{p}: generator {g} is a primitive root"));
        // the configured large-subgroup root has order exactly p-1 = 2^two * q^k
        let r = F::LARGE_SUBGROUP_ROOT_OF_UNITY.map(|r| r.into_bigint().as_ref()[0]);
        ctx.validate(r.is_some_and(|r| powmod(r, p - 1) == 1 && powmod(r, (p - 1) / 2) != 1 && powmod(r, (p - 1) / q) != 1), &format!("D{p}: LARGE_SUBGROUP_ROOT_OF_UNITY has order {}", p - 1));
    }
    one::<D401>(ctx, 401, 4, 5, 2, 3);
    one::<D197>(ctx, 197, 2, 7, 2, 2);
}

// ---------------------------------------------------------------------------
// FFT-friendliness of EXTENSION fields: `QuadExtField` / `CubicExtField` implement `FftField` by handing down the
// parameters of the base prime field, so radix-2 and mixed-radix domains are constructible over them too.  For toy
// towers over prime fields that declare a small subgroup (base != adicity, so a swapped constant shows): the
// inherited constants, the exact order of `get_root_of_unity(n)` for every n up to 2 * (p - 1) + 2, the size chosen
// by the three domain kinds, and transforms of unit vectors against direct evaluation at the domain elements
// (computed with the tower's own multiplication, which C02 checks against the schoolbook model).
// ---------------------------------------------------------------------------
mod ext_towers {
    use super::extra_fields::D401;
    use algebra_mc::toy::gen_fields::D97;
    use ark_ff::fields::{Fp2, Fp2Config, Fp3, Fp3Config};
    use ark_ff::{AdditiveGroup, Field, MontFp};
    pub struct Q97Cfg;
    impl Fp2Config for Q97Cfg {
        type Fp = D97;
        /// 5 generates F_97^*
        const NONRESIDUE: D97 = MontFp!("5");
        const FROBENIUS_COEFF_FP2_C1: &'static [D97] = &[MontFp!("1"), MontFp!("96")];
    }
    pub type Q97 = Fp2<Q97Cfg>;
    pub struct Q401Cfg;
    impl Fp2Config for Q401Cfg {
        type Fp = D401;
        /// 3 generates F_401^*
        const NONRESIDUE: D401 = MontFp!("3");
        const FROBENIUS_COEFF_FP2_C1: &'static [D401] = &[MontFp!("1"), MontFp!("400")];
    }
    pub type Q401 = Fp2<Q401Cfg>;
    pub struct C97Cfg;
    impl Fp3Config for C97Cfg {
        type Fp = D97;
        /// 5 generates F_97^* and 3 | 96, so 5 is not a cube
        const NONRESIDUE: D97 = MontFp!("5");
        const TWO_ADICITY: u32 = 5;
        const TRACE_MINUS_ONE_DIV_TWO: &'static [u64] = &[(97 * 97 * 97 - 1) / 32 / 2];
        const QUADRATIC_NONRESIDUE_TO_T: Fp3<Self> = Fp3::new(D97::ZERO, D97::ZERO, D97::ZERO);
        // 5^((97-1)/3) = 35, 5^(2(97-1)/3) = 61 mod 97
        const FROBENIUS_COEFF_FP3_C1: &'static [D97] = &[MontFp!("1"), MontFp!("35"), MontFp!("61")];
        const FROBENIUS_COEFF_FP3_C2: &'static [D97] = &[MontFp!("1"), MontFp!("61"), MontFp!("35")];
    }
    pub type C97 = Fp3<C97Cfg>;
    pub fn embed2<P: Fp2Config>(x: P::Fp) -> Fp2<P> {
        Fp2::new(x, P::Fp::ZERO)
    }
    pub fn embed3<P: Fp3Config>(x: P::Fp) -> Fp3<P> {
        Fp3::new(x, P::Fp::ZERO, P::Fp::ZERO)
    }
    pub fn _unused<F: Field>() {}
}

fn sweep_ext_fft<T: FftField, B: PrimeField + FftField>(ctx: &mut Ctx, name: &str, embed: fn(B) -> T) {
    let p = B::MODULUS.as_ref()[0];
    let (s, q, k) = (B::TWO_ADICITY, B::SMALL_SUBGROUP_BASE.expect("toy base declares a small subgroup") as u64, B::SMALL_SUBGROUP_BASE_ADICITY.unwrap());
    // every n = 2^i q^j
    let mut shaped: Vec<u64> = Vec::new();
    for i in 0..=s {
        for j in 0..=k {
            shaped.push((1u64 << i) * q.pow(j));
        }
    }
    shaped.sort();
    let r2: Vec<u64> = (0..=s).map(|i| 1u64 << i).collect();
    let top = 2 * (p - 1) + 2;
    ctx.sweep(&format!("ext_fft/{name}"), top + 1, |n, loc| {
        if n == 0 {
            // inherited parameters
            loc.class("ext_fft:inherited_constants");
            loc.check_at(
                "constants",
                T::TWO_ADICITY == s && T::SMALL_SUBGROUP_BASE == B::SMALL_SUBGROUP_BASE && T::SMALL_SUBGROUP_BASE_ADICITY == B::SMALL_SUBGROUP_BASE_ADICITY,
                || {
                    format!(
                        "{name}: TWO_ADICITY {} SMALL_SUBGROUP_BASE {:?} SMALL_SUBGROUP_BASE_ADICITY {:?}; base prime field: {s} {:?} {:?}",
                        T::TWO_ADICITY, T::SMALL_SUBGROUP_BASE, T::SMALL_SUBGROUP_BASE_ADICITY, B::SMALL_SUBGROUP_BASE, B::SMALL_SUBGROUP_BASE_ADICITY
                    )
                },
            );
            loc.check_at("constants", T::TWO_ADIC_ROOT_OF_UNITY == embed(B::TWO_ADIC_ROOT_OF_UNITY), || format!("{name}: TWO_ADIC_ROOT_OF_UNITY is not the base field's"));
            loc.check_at("constants", T::LARGE_SUBGROUP_ROOT_OF_UNITY == B::LARGE_SUBGROUP_ROOT_OF_UNITY.map(embed), || format!("{name}: LARGE_SUBGROUP_ROOT_OF_UNITY is not the base field's"));
            return;
        }
        let is_shaped = shaped.contains(&n);
        loc.class_if(is_shaped && n % q == 0, "ext_fft:size_divisible_by_q");
        loc.class_if(!is_shaped, "ext_fft:no_subgroup_of_the_declared_shape");
        // exact order of the root
        let root = T::get_root_of_unity(n);
        match root {
            Some(r) => {
                let mut ok = r.pow([n]) == T::ONE;
                for pr in (2..=n).filter(|d| n % d == 0 && (2..*d).all(|e| d % e != 0)) {
                    ok &= r.pow([n / pr]) != T::ONE;
                }
                // a root of exact order n is acceptable also outside the declared shape (C07 only demands the order)
                loc.check_at("get_root_of_unity", ok, || format!("{name}::get_root_of_unity({n}) does not have exact order {n}"));
            },
            None => {
                loc.check_at("get_root_of_unity", !is_shaped, || format!("{name}::get_root_of_unity({n}) = None although the base field has a subgroup of order {n} of the declared shape"));
            },
        }
        // domains: size and generator order, unit-vector transforms against direct evaluation
        let want_mixed = shaped.iter().copied().find(|x| *x >= n);
        let want_r2 = r2.iter().copied().find(|x| *x >= n);
        let check_domain = |loc: &mut Loc, kind: &str, size: Option<u64>, want: &[Option<u64>], gen: Option<T>, elems: Option<Vec<T>>, fft_e1: Option<Vec<T>>| {
            loc.check_at("new", want.contains(&size), || format!("{name} {kind}::new({n}): size {size:?}, minimal sizes of the admissible kinds {want:?}"));
            if let (Some(sz), Some(g), Some(el), Some(f1)) = (size, gen, elems, fft_e1) {
                let mut ok = g.pow([sz]) == T::ONE;
                for pr in [2u64, q] {
                    if sz % pr == 0 {
                        ok &= g.pow([sz / pr]) != T::ONE;
                    }
                }
                loc.check_at("group_gen", ok, || format!("{name} {kind}::new({n}): group_gen does not have exact order {sz}"));
                let mut cur = T::ONE;
                let mut okel = el.len() as u64 == sz;
                for e in &el {
                    okel &= *e == cur;
                    cur *= g;
                }
                loc.check_at("elements", okel, || format!("{name} {kind}::new({n}): elements() is not 1, g, g^2, .."));
                // fft of X (coefficients [0, 1]) = the domain elements themselves
                if sz >= 2 {
                    loc.check_at("fft", f1 == el, || format!("{name} {kind} size {sz}: fft([0,1]) is not the list of domain elements"));
                }
            }
        };
        if n <= p + 1 {
            let d = MixedRadixEvaluationDomain::<T>::new(n as usize);
            check_domain(loc, "mixed", d.map(|d| d.size() as u64), &[want_mixed], d.map(|d| d.group_gen()), d.map(|d| d.elements().collect()), d.map(|d| d.fft(&[T::ZERO, T::ONE])));
            let d = Radix2EvaluationDomain::<T>::new(n as usize);
            check_domain(loc, "radix2", d.map(|d| d.size() as u64), &[want_r2], d.map(|d| d.group_gen()), d.map(|d| d.elements().collect()), d.map(|d| d.fft(&[T::ZERO, T::ONE])));
            let d = GeneralEvaluationDomain::<T>::new(n as usize);
            check_domain(loc, "general", d.map(|d| d.size() as u64), &[want_r2.or(want_mixed), want_mixed], d.map(|d| d.group_gen()), d.map(|d| d.elements().collect()), d.map(|d| d.fft(&[T::ZERO, T::ONE])));
            // round trip of a dense vector of full length
            if let Some(d) = MixedRadixEvaluationDomain::<T>::new(n as usize) {
                let v: Vec<T> = (0..d.size() as u64).map(|i| embed(B::from(i * i + 3))).collect();
                let e = d.fft(&v);
                let direct: Vec<T> = d.elements().map(|x| v.iter().rev().fold(T::ZERO, |acc, c| acc * x + c)).collect();
                loc.check_at("fft", e == direct, || format!("{name} mixed size {}: fft != Horner evaluation at the domain elements", d.size()));
                loc.check_at("ifft", d.ifft(&e) == v, || format!("{name} mixed size {}: ifft(fft(v)) != v", d.size()));
            }
        }
    });
}

// ---------------------------------------------------------------------------
// the harness's copies of the library's transform thresholds (they only LABEL cases) are compared with the
// constants in the library source the harness is built against; a stale copy is a machinery error
// ---------------------------------------------------------------------------
// defaults (the values at the pinned commit); `validate_threshold_copies` replaces them by the constants read from the
// library source that the harness is built against, so that the LABELS follow a library whose thresholds changed
static T_DEGREE_AWARE_FACTOR: std::sync::atomic::AtomicU64 = std::sync::atomic::AtomicU64::new(4);
static T_MIN_NUM_CHUNKS_FOR_COMPACTION: std::sync::atomic::AtomicU64 = std::sync::atomic::AtomicU64::new(128);
static T_MIN_INPUT_SIZE_FOR_PARALLELIZATION: std::sync::atomic::AtomicU64 = std::sync::atomic::AtomicU64::new(1024);
static THRESHOLDS_ARE_DEFAULT: std::sync::atomic::AtomicBool = std::sync::atomic::AtomicBool::new(true);
fn th(a: &std::sync::atomic::AtomicU64) -> u64 {
    a.load(std::sync::atomic::Ordering::Relaxed)
}

fn validate_threshold_copies(ctx: &mut Ctx) {
    let root = std::env::var("VERIF_REPO_OVERRIDE").unwrap_or_else(|_| "/repo".to_string());
    fn read_const(text: &str, name: &str) -> Option<u64> {
        // `const NAME: usize = <int>;` or `= 1 << <int>;`
        for l in text.lines() {
            let t = l.trim();
            let Some(rest) = t.strip_prefix("pub(crate) const ").or_else(|| t.strip_prefix("pub const ")).or_else(|| t.strip_prefix("const ")) else { continue };
            let Some(rest) = rest.strip_prefix(name) else { continue };
            if !rest.trim_start().starts_with(':') {
                continue;
            }
            let expr = rest.split('=').nth(1)?.trim().trim_end_matches(';').trim();
            let num = |x: &str| x.trim().replace('_', "").parse::<u64>().ok();
            return match expr.split_once("<<") {
                Some((a, b)) => Some(num(a)? << num(b)?),
                None => num(expr),
            };
        }
        None
    }
    for (file, name, cell) in [
        ("poly/src/domain/radix2/mod.rs", "DEGREE_AWARE_FFT_THRESHOLD_FACTOR", &T_DEGREE_AWARE_FACTOR),
        ("poly/src/domain/radix2/fft.rs", "MIN_NUM_CHUNKS_FOR_COMPACTION", &T_MIN_NUM_CHUNKS_FOR_COMPACTION),
        ("poly/src/domain/radix2/fft.rs", "MIN_INPUT_SIZE_FOR_PARALLELIZATION", &T_MIN_INPUT_SIZE_FOR_PARALLELIZATION),
    ] {
        // the thresholds only LABEL cases (which transform path a case takes); every case is judged against the naive
        // definition whatever its label.  A library whose thresholds changed (a legitimate tuning) is therefore not an
        // error: the labels follow the value read, and the label classes stop being mandatory (see `main`).
        let got = std::fs::read_to_string(format!("{root}/{file}")).ok().and_then(|t| read_const(&t, name));
        match got {
            Some(v) if v == th(cell) => {},
            Some(v) => {
                ctx.bound(&format!("library_threshold/{name}"), format!("{v} (default copy {}): labels follow the library value", th(cell)));
                cell.store(v, std::sync::atomic::Ordering::Relaxed);
                THRESHOLDS_ARE_DEFAULT.store(false, std::sync::atomic::Ordering::Relaxed);
            },
            None => {
                ctx.bound(&format!("library_threshold/{name}"), format!("not found in {root}/{file}: default copy {} used for labels", th(cell)));
                THRESHOLDS_ARE_DEFAULT.store(false, std::sync::atomic::Ordering::Relaxed);
            },
        }
    }
}

// ---------------------------------------------------------------------------
// reference arithmetic
// ---------------------------------------------------------------------------
trait Mdl<F>: Sync + Send {
    type E: Copy + PartialEq + std::fmt::Debug + Send + Sync;
    fn to_m(&self, x: &F) -> Self::E;
    fn to_f(&self, e: Self::E) -> F;
    fn from_u64(&self, v: u64) -> Self::E;
    fn add(&self, a: Self::E, b: Self::E) -> Self::E;
    fn sub(&self, a: Self::E, b: Self::E) -> Self::E;
    fn mul(&self, a: Self::E, b: Self::E) -> Self::E;
    fn inv(&self, a: Self::E) -> Self::E;
    /// Some(p) when every element of the field can be enumerated
    fn all_elements(&self) -> Option<u64>;
    fn zero(&self) -> Self::E {
        self.from_u64(0)
    }
    fn one(&self) -> Self::E {
        self.from_u64(1)
    }
    fn pow(&self, a: Self::E, mut e: u64) -> Self::E {
        let mut r = self.one();
        let mut b = a;
        while e > 0 {
            if e & 1 == 1 {
                r = self.mul(r, b);
            }
            b = self.mul(b, b);
            e >>= 1;
        }
        r
    }
}

/// integers mod p on u64 / u128
struct Zp {
    p: u64,
}
impl<F: PrimeField> Mdl<F> for Zp {
    type E = u64;
    fn to_m(&self, x: &F) -> u64 {
        x.into_bigint().as_ref()[0]
    }
    fn to_f(&self, e: u64) -> F {
        F::from(e)
    }
    fn from_u64(&self, v: u64) -> u64 {
        v % self.p
    }
    #[inline]
    fn add(&self, a: u64, b: u64) -> u64 {
        // a, b < p
        let (s, c) = a.overflowing_add(b);
        if c || s >= self.p {
            s.wrapping_sub(self.p)
        } else {
            s
        }
    }
    #[inline]
    fn sub(&self, a: u64, b: u64) -> u64 {
        // a, b < p
        if a >= b {
            a - b
        } else {
            a.wrapping_sub(b).wrapping_add(self.p)
        }
    }
    #[inline]
    fn mul(&self, a: u64, b: u64) -> u64 {
        if self.p < (1 << 32) {
            a * b % self.p
        } else {
            ((a as u128 * b as u128) % self.p as u128) as u64
        }
    }
    fn inv(&self, a: u64) -> u64 {
        assert!(a % self.p != 0, "model: inverse of zero");
        <Zp as Mdl<F>>::pow(self, a, self.p - 2)
    }
    fn all_elements(&self) -> Option<u64> {
        (self.p <= 70_000).then_some(self.p)
    }
}

/// the field's own arithmetic as model arithmetic (shipped fields only)
struct FM<F>(PhantomData<F>);
impl<F: PrimeField> Mdl<F> for FM<F> {
    type E = F;
    fn to_m(&self, x: &F) -> F {
        *x
    }
    fn to_f(&self, e: F) -> F {
        e
    }
    fn from_u64(&self, v: u64) -> F {
        F::from(v)
    }
    fn add(&self, a: F, b: F) -> F {
        a + b
    }
    fn sub(&self, a: F, b: F) -> F {
        a - b
    }
    fn mul(&self, a: F, b: F) -> F {
        a * b
    }
    fn inv(&self, a: F) -> F {
        a.inverse().expect("model: inverse of zero")
    }
    fn all_elements(&self) -> Option<u64> {
        None
    }
}

fn horner<F, M: Mdl<F>>(m: &M, v: &[M::E], x: M::E) -> M::E {
    let mut acc = m.zero();
    for c in v.iter().rev() {
        acc = m.add(m.mul(acc, x), *c);
    }
    acc
}

fn showv<E: std::fmt::Debug>(v: &[E]) -> String {
    if v.len() <= 20 {
        format!("{v:?}")
    } else {
        format!("[len {}] {:?}..{:?}", v.len(), &v[..8], &v[v.len() - 2..])
    }
}

// ---------------------------------------------------------------------------
// field description and the construction oracle
// ---------------------------------------------------------------------------
#[derive(Clone, Copy, PartialEq, Eq, Debug)]
enum Kind {
    R2,
    Mixed,
    General,
}
impl Kind {
    fn name(self) -> &'static str {
        match self {
            Kind::R2 => "radix2",
            Kind::Mixed => "mixed",
            Kind::General => "general",
        }
    }
}

struct FInfo {
    name: &'static str,
    /// true two-adicity of p-1 (computed from the modulus)
    s: u32,
    q: Option<u64>,
    /// declared small-subgroup power (checked to divide p-1)
    k: u32,
    r2: Vec<u64>,
    mixed: Vec<u64>,
}

fn min_ge(set: &[u64], n: u64) -> Option<u64> {
    // brute force over the whole set
    set.iter().copied().filter(|e| *e >= n).min()
}

impl FInfo {
    fn oracle(&self, kind: Kind, n: u64) -> Option<u64> {
        match kind {
            Kind::R2 => min_ge(&self.r2, n),
            Kind::Mixed => min_ge(&self.mixed, n),
            // documented: "tries to build a radix-2 domain and falls back to a mixed-radix domain if the
            // radix-2 multiplicative subgroup is too small"
            Kind::General => min_ge(&self.r2, n).or_else(|| min_ge(&self.mixed, n)),
        }
    }
    /// all sizes a domain of this kind can have
    fn sizes(&self, kind: Kind) -> Vec<u64> {
        let mut all: Vec<u64> = self.r2.iter().chain(self.mixed.iter()).filter_map(|n| self.oracle(kind, *n)).collect();
        all.sort();
        all.dedup();
        all
    }
    /// is a domain of `kind` and this size backed by the radix-2 implementation?
    fn is_r2_variant(&self, kind: Kind, size: u64) -> bool {
        match kind {
            Kind::R2 => true,
            Kind::Mixed => false,
            Kind::General => self.r2.contains(&size),
        }
    }
    fn adicity(&self, size: u64) -> (u32, u32) {
        let two = size.trailing_zeros();
        let mut qa = 0;
        if let Some(q) = self.q {
            let mut t = size >> two;
            while t > 1 && t % q == 0 {
                t /= q;
                qa += 1;
            }
        }
        (two, qa)
    }
    fn prime_divisors(&self, size: u64) -> Vec<u64> {
        let mut v = Vec::new();
        if size % 2 == 0 {
            v.push(2);
        }
        if let Some(q) = self.q {
            if size % q == 0 {
                v.push(q);
            }
        }
        v
    }
}

fn finfo<F: PrimeField + FftField>(ctx: &mut Ctx, name: &'static str, toy: bool) -> FInfo {
    let p = BigUint::from_bytes_le(&F::MODULUS.to_bytes_le());
    let pm1 = &p - 1u32;
    let s = pm1.trailing_zeros().unwrap() as u32;
    let q = F::SMALL_SUBGROUP_BASE.map(u64::from);
    let mut k = 0u32;
    if let Some(q) = q {
        let decl = F::SMALL_SUBGROUP_BASE_ADICITY.unwrap_or(0);
        let mut t = pm1.clone();
        while k < decl && (&t % q).is_zero() {
            t /= q;
            k += 1;
        }
        if toy {
            ctx.validate(k == decl && decl > 0, &format!("{name}: declared small subgroup {q}^{decl} divides p-1"));
            ctx.validate(q % 2 == 1 && is_prime_small(q), &format!("{name}: small subgroup base is an odd prime"));
        }
    }
    if toy {
        ctx.validate(F::TWO_ADICITY == s, &format!("{name}: TWO_ADICITY constant equals the 2-adicity of p-1"));
        if let Some(pp) = p.to_u64() {
            if pp < (1 << 40) {
                ctx.validate(is_prime_small(pp), &format!("{name}: modulus is prime"));
            }
        }
    }
    let r2: Vec<u64> = (0..=s.min(62)).map(|i| 1u64 << i).collect();
    let mut mixed = Vec::new();
    if let Some(q) = q {
        for i in 0..=s.min(62) {
            let mut qp: u64 = 1;
            for j in 0..=k {
                if j > 0 {
                    qp = match qp.checked_mul(q) {
                        Some(x) => x,
                        None => break,
                    };
                }
                if let Some(v) = qp.checked_mul(1u64 << i) {
                    if v < (1 << 63) {
                        mixed.push(v);
                    }
                }
            }
        }
        mixed.sort();
    }
    FInfo { name, s, q, k, r2, mixed }
}

#[derive(Clone, Copy)]
struct Cfg {
    /// every L, every unit vector up to this size
    small_b: u64,
    /// selected L / unit vectors up to this size
    large_b: u64,
    /// full set of dense vectors in the large sweep up to this size (above it: one dense vector,
    /// offsets 1 and g, L in {size/4, size/4+1, size})
    dense_b: u64,
    /// vanishing / Lagrange for all tau up to this size
    poly_b: u64,
    /// filter polynomial up to this (outer) size
    filt_b: u64,
    /// element()/elements() compared on at most this many leading elements
    elem_b: u64,
}

struct Env<F, M: Mdl<F>> {
    fi: FInfo,
    m: M,
    /// offsets in the model; index 0 is "no coset" (offset 1)
    offs: Vec<M::E>,
    cfg: Cfg,
    _f: PhantomData<fn() -> F>,
}

fn make_env<F: PrimeField + FftField, M: Mdl<F>>(fi: FInfo, m: M, cfg: Cfg) -> Env<F, M> {
    let g = m.to_m(&F::GENERATOR);
    let cands = [m.one(), g, m.mul(g, g), m.from_u64(2), m.sub(m.zero(), m.one())];
    let mut offs: Vec<M::E> = vec![m.one()];
    for c in cands.iter().skip(1) {
        if !offs.contains(c) && *c != m.zero() {
            offs.push(*c);
        }
    }
    Env { fi, m, offs, cfg, _f: PhantomData }
}

/// Build the domain of exactly `size` elements with offset number `off`, and
/// its points h*g^j in the model.
fn build<F: PrimeField + FftField, M: Mdl<F>, D: EvaluationDomain<F> + Send + Sync>(
    env: &Env<F, M>,
    size: u64,
    off: usize,
) -> Result<(D, Vec<M::E>), String> {
    let m = &env.m;
    let d = D::new(size as usize).ok_or_else(|| format!("{}: new({size}) returned None", env.fi.name))?;
    if d.size() as u64 != size {
        return Err(format!("{}: new({size}) has size {}", env.fi.name, d.size()));
    }
    let d = if off == 0 {
        d
    } else {
        d.get_coset(m.to_f(env.offs[off])).ok_or_else(|| format!("{}: get_coset({:?}) returned None", env.fi.name, env.offs[off]))?
    };
    let g = m.to_m(&d.group_gen());
    let mut pts = Vec::with_capacity(size as usize);
    let mut cur = env.offs[off];
    for _ in 0..size {
        pts.push(cur);
        cur = m.mul(cur, g);
    }
    Ok((d, pts))
}

fn label_transform<F, M: Mdl<F>>(loc: &mut Loc, env: &Env<F, M>, kind: Kind, size: u64, off: usize, l: usize) {
    loc.class_if(l == 0, "len=0");
    loc.class_if(l as u64 == size, "len=size");
    loc.class_if(off != 0, "coset");
    if env.fi.is_r2_variant(kind, size) {
        if (l as u64) * th(&T_DEGREE_AWARE_FACTOR) <= size {
            loc.class("fft:degree_aware");
            loc.class_if(!l.is_power_of_two(), "fft:degree_aware_len_not_pow2");
        } else {
            loc.class("fft:in_order");
        }
        // first butterfly pass: gap = 1, num_chunks = size / 2
        loc.class_if(size / 2 >= th(&T_MIN_NUM_CHUNKS_FOR_COMPACTION), "roots:compaction");
        loc.class_if(size > th(&T_MIN_INPUT_SIZE_FOR_PARALLELIZATION), "size>MIN_INPUT_SIZE_FOR_PARALLELIZATION");
    } else {
        let (two, qa) = env.fi.adicity(size);
        loc.class_if(qa > 0 && two > 0, "mixed:q_adicity>0∧two_adicity>0");
        loc.class_if(qa > 0 && two == 0, "mixed:pure_q");
        loc.class_if(qa == 0, "mixed:pure_2");
        loc.class_if(qa >= 2 && env.fi.q == Some(5), "mixed:q=5_two_q_passes");
        loc.class_if(qa >= 2 && env.fi.q == Some(7), "mixed:q=7_two_q_passes");
    }
}

// ---------------------------------------------------------------------------
// construction
// ---------------------------------------------------------------------------
fn sweep_new<F: PrimeField + FftField, M: Mdl<F>, D: EvaluationDomain<F> + Send + Sync>(ctx: &mut Ctx, env: &Env<F, M>, kind: Kind) {
    let fi = &env.fi;
    let sizes = fi.sizes(kind);
    let maxs = *sizes.last().unwrap();
    let mut ns: Vec<u64> = Vec::new();
    if maxs <= 1 << 17 {
        ns.extend(0..=maxs + 2);
    } else {
        ns.extend(0..=130);
        for e in fi.r2.iter().chain(fi.mixed.iter()) {
            ns.extend([e - 1, *e, e + 1]);
        }
    }
    ns.extend([2 * maxs, 2 * maxs + 1, 1 << 40, (1 << 40) + 1, 1 << 62, 1 << 63, (1 << 63) + 1, 3 << 62, u64::MAX]);
    let ns = dedup_sorted(ns);
    ctx.sweep(&format!("new/{}/{}", fi.name, kind.name()), ns.len() as u64, |i, loc| {
        let n = ns[i as usize];
        let want = fi.oracle(kind, n);
        loc.class_if(want.is_none(), "new:none_expected");
        loc.class_if(n == 0, "new:n=0");
        loc.class_if(n > 1 << 63, "new:n>2^63");
        loc.class_if(want == Some(n), "new:n_is_a_size");
        loc.class_if(n > 1 && fi.oracle(kind, n - 1) == Some(n - 1), "new:n=size+1");
        if loc.sampling() {
            loc.sample(format!("{} {}::new({n}) want size {want:?}", fi.name, kind.name()));
        }
        // a general domain is "minimal for its kind" when it is the minimal radix-2 OR the minimal mixed-radix
        // domain (the library documents and today implements: radix-2 whenever one fits); `want` is the documented
        // choice, `alt` the other admissible one
        let alt = if kind == Kind::General && want.is_some() { min_ge(&fi.mixed, n) } else { None };
        let admissible = |x: Option<u64>| x == want || (alt.is_some() && x == alt);
        let got = D::new(n as usize);
        let gs = got.map(|d| d.size() as u64);
        loc.class_if(alt.is_some() && alt != want, "new:general_two_admissible_sizes");
        loc.class_if(gs != want && admissible(gs), "observed:general_new_prefers_the_mixed_radix_minimum");
        loc.check_at("new", admissible(gs), || {
            format!("{} {}::new({n}): got size {gs:?}, minimal subgroup of this kind with >= {n} elements: {want:?}{}", fi.name, kind.name(), alt.map(|a| format!(" (or mixed-radix minimum {a})")).unwrap_or_default())
        });
        let cs = D::compute_size_of_domain(n as usize).map(|x| x as u64);
        loc.check_at("compute_size_of_domain", admissible(cs), || {
            format!("{} {}::compute_size_of_domain({n}) = {cs:?} want {want:?}{}", fi.name, kind.name(), alt.map(|a| format!(" (or mixed-radix minimum {a})")).unwrap_or_default())
        });
        if let (Some(d), Some(w), true) = (got, want, gs == want) {
            // the domain obtained for n is the domain obtained when asking for its size
            // (whose generator order etc. is checked exhaustively in `domain/..`)
            let e = D::new(w as usize);
            loc.check_at("new", e == Some(d), || format!("{} {}::new({n}) != new({w})", fi.name, kind.name()));
        }
    });
}

/// `MixedRadixEvaluationDomain::new` on a field that declares no small
/// subgroup: there is no subgroup "of the kind", construction has to fail with
/// `None` (as `compute_size_of_domain` does) or fall back to a minimal 2^i
/// domain - not panic.
fn sweep_mixed_without_small_subgroup<F: PrimeField + FftField>(ctx: &mut Ctx, fi: &FInfo) {
    ctx.sweep(&format!("mixed_new_without_small_subgroup/{}", fi.name), 40, |n, loc| {
        loc.class("new:mixed_kind_on_field_without_small_subgroup");
        let cs = MixedRadixEvaluationDomain::<F>::compute_size_of_domain(n as usize);
        let r = catch_unwind(AssertUnwindSafe(|| MixedRadixEvaluationDomain::<F>::new(n as usize).map(|d| d.size() as u64)));
        match r {
            Err(_) => loc.fail_at(
                "new",
                format!(
                    "{}: MixedRadixEvaluationDomain::new({n}) panics (field declares no SMALL_SUBGROUP_BASE); compute_size_of_domain({n}) = {cs:?}; expected None",
                    fi.name
                ),
            ),
            Ok(got) => {
                let ok = got.is_none() || got == min_ge(&fi.r2, n);
                loc.check_at("new", ok && got.map(|x| x as usize) == cs, || {
                    format!("{}: MixedRadixEvaluationDomain::new({n}) size {got:?}, compute_size_of_domain {cs:?}", fi.name)
                });
            },
        }
    });
}

fn sweep_roots<F: PrimeField + FftField, M: Mdl<F>>(ctx: &mut Ctx, env: &Env<F, M>) {
    let fi = &env.fi;
    let m = &env.m;
    let set: &Vec<u64> = if fi.q.is_some() { &fi.mixed } else { &fi.r2 };
    let maxs = *set.last().unwrap();
    let mut ns: Vec<u64> = Vec::new();
    ns.extend(0..=(2 * maxs + 2).min((1 << 17) + 2));
    for e in set {
        ns.extend([e - 1, *e, e + 1, 2 * e, 3 * e]);
    }
    ns.extend([1 << 40, 1 << 62, 1 << 63, 3 << 61]);
    let ns = dedup_sorted(ns);
    ctx.sweep(&format!("get_root_of_unity/{}", fi.name), ns.len() as u64, |i, loc| {
        let n = ns[i as usize];
        let want_some = set.contains(&n);
        loc.class_if(!want_some, "root:none_expected");
        loc.class_if(want_some && fi.adicity(n).1 > 0, "root:q_part");
        let got = F::get_root_of_unity(n);
        // for an n of the declared shape 2^i q^j a root must be returned; outside it the documented answer is
        // None, but "a root of unity of order n, if one exists" also admits a genuine root: Some(r) is accepted
        // when r has order exactly n (all prime divisors of n by trial division)
        if want_some && !loc.check_at("get_root_of_unity", got.is_some(), || format!("{}::get_root_of_unity({n}) is None but a subgroup of order {n} of the declared shape exists", fi.name)) {
            return;
        }
        if let Some(r) = got {
            let r = m.to_m(&r);
            let primes: Option<Vec<u64>> = if want_some {
                Some(fi.prime_divisors(n))
            } else {
                loc.class("observed:root_of_unity_outside_the_declared_shape");
                let (mut t, mut ps, mut d) = (n, Vec::new(), 2u64);
                while d * d <= t && d < (1 << 20) {
                    if t % d == 0 {
                        ps.push(d);
                        while t % d == 0 {
                            t /= d;
                        }
                    }
                    d += 1;
                }
                if t > 1 && t < (1 << 40) {
                    ps.push(t); // no divisor below 2^20: prime
                    Some(ps)
                } else if t == 1 {
                    Some(ps)
                } else {
                    None // cofactor cannot be certified prime here: not judged
                }
            };
            if let Some(primes) = primes {
                let mut ok = n > 0 && m.pow(r, n) == m.one();
                for l in primes {
                    ok &= m.pow(r, n / l) != m.one();
                }
                loc.check_at("get_root_of_unity", ok, || format!("{}::get_root_of_unity({n}) = {r:?} does not have order exactly {n}", fi.name));
            }
        }
    });
}

/// Per (size, offset): generator order, inverses, element access, iteration,
/// coset fields, vanishing polynomial shape.
fn sweep_domain<F: PrimeField + FftField, M: Mdl<F>, D: EvaluationDomain<F> + Send + Sync>(ctx: &mut Ctx, env: &Env<F, M>, kind: Kind) {
    let fi = &env.fi;
    let m = &env.m;
    let sizes = fi.sizes(kind);
    let noff = env.offs.len() as u64;
    // sizes above elem_b whose iteration end is checked: the three smallest ones and the largest one <= 2^20
    let above: Vec<u64> = sizes.iter().copied().filter(|x| *x > env.cfg.elem_b && *x <= 1 << 20).collect();
    let mut end_sizes: Vec<u64> = above.iter().copied().take(3).collect();
    end_sizes.extend(above.last());
    // distribute_powers: every length 0..=40 and 1023..=1025 on one toy field, a few lengths elsewhere
    let dp_lens: Vec<usize> = if fi.name == "D97" { (0..=40).chain(1023..=1025).collect() } else { vec![0, 1, 5] };
    ctx.sweep(&format!("domain/{}/{}", fi.name, kind.name()), sizes.len() as u64 * noff, |i, loc| {
        let [io, is] = unrank(i, [noff, sizes.len() as u64]);
        let (size, off) = (sizes[is as usize], io as usize);
        let h = env.offs[off];
        let tag = || format!("{} {} size={size} offset={h:?}", fi.name, kind.name());
        if loc.sampling() {
            loc.sample(tag());
        }
        loc.class_if(off != 0, "coset");
        loc.class_if(size == 1, "size=1");
        let (two, qa) = fi.adicity(size);
        if !fi.is_r2_variant(kind, size) {
            loc.class_if(qa > 0 && two > 0, "mixed:q_adicity>0∧two_adicity>0");
            loc.class_if(qa > 0 && two == 0, "mixed:pure_q");
        }
        let d0 = match D::new(size as usize) {
            Some(d) if d.size() as u64 == size => d,
            other => {
                loc.fail_at("new", format!("{}: new({size}) gives {:?}", tag(), other.map(|d| d.size())));
                return;
            },
        };
        let d = if off == 0 {
            let e = d0.get_coset(m.to_f(m.one()));
            loc.check_at("get_coset", e == Some(d0), || format!("{}: get_coset(1) differs from the subgroup domain", tag()));
            // offset 0 is no coset: no panic, and never a domain whose offset is 0 (the library answers None)
            loc.class("coset:zero_offset_requested");
            let zf = m.to_f(m.zero());
            for (what, r) in [
                ("get_coset(0)", catch_unwind(AssertUnwindSafe(|| d0.get_coset(zf)))),
                ("new_coset(size, 0)", catch_unwind(AssertUnwindSafe(|| D::new_coset(size as usize, zf)))),
                ("new_coset(size - 1, 0)", catch_unwind(AssertUnwindSafe(|| D::new_coset(size as usize - 1, zf)))),
            ] {
                match r {
                    Err(_) => loc.fail_at("get_coset_zero_offset", format!("{}: {what} panics", tag())),
                    Ok(None) => loc.op(),
                    Ok(Some(z)) => {
                        loc.class("observed:zero_offset_gives_a_domain");
                        loc.check_at("get_coset_zero_offset", m.to_m(&z.coset_offset()) != m.zero(), || format!("{}: {what} returned a domain with offset 0", tag()));
                    },
                }
            }
            d0
        } else {
            let hf = m.to_f(h);
            let Some(d) = d0.get_coset(hf) else {
                loc.fail_at("get_coset", format!("{}: get_coset returned None", tag()));
                return;
            };
            loc.check_at("new_coset", D::new_coset(size as usize, hf) == Some(d), || format!("{}: new_coset != new().get_coset()", tag()));
            if fi.oracle(kind, size - 1) == Some(size) {
                loc.check_at("new_coset", D::new_coset(size as usize - 1, hf) == Some(d), || format!("{}: new_coset(size-1) != new(size).get_coset()", tag()));
            }
            d
        };
        let g = m.to_m(&d.group_gen());
        // generator has exactly the reported order
        let mut ord_ok = m.pow(g, size) == m.one();
        for l in fi.prime_divisors(size) {
            ord_ok &= m.pow(g, size / l) != m.one();
        }
        loc.check_at("group_gen", ord_ok, || format!("{}: group_gen {g:?} does not have order exactly {size}", tag()));
        loc.check_at("group_gen_inv", m.mul(g, m.to_m(&d.group_gen_inv())) == m.one(), || format!("{}: group_gen*group_gen_inv != 1", tag()));
        let size_m = m.from_u64(size);
        loc.check_at("size_inv", m.mul(size_m, m.to_m(&d.size_inv())) == m.one(), || format!("{}: size*size_inv != 1", tag()));
        loc.check_at("size_as_field_element", m.to_m(&d.size_as_field_element()) == size_m, || format!("{}: size_as_field_element", tag()));
        loc.check_at("size", d.size() as u64 == size, || format!("{}: size() = {}", tag(), d.size()));
        if size.is_power_of_two() {
            loc.check_at("log_size_of_group", d.log_size_of_group() == size.trailing_zeros() as u64, || {
                format!("{}: log_size_of_group = {}", tag(), d.log_size_of_group())
            });
        }
        loc.check_at("coset_offset", m.to_m(&d.coset_offset()) == h, || format!("{}: coset_offset = {:?}", tag(), d.coset_offset()));
        loc.check_at("coset_offset_inv", m.mul(h, m.to_m(&d.coset_offset_inv())) == m.one(), || format!("{}: offset*offset_inv != 1", tag()));
        loc.check_at("coset_offset_pow_size", m.to_m(&d.coset_offset_pow_size()) == m.pow(h, size), || {
            format!("{}: coset_offset_pow_size = {:?} want {:?}", tag(), d.coset_offset_pow_size(), m.pow(h, size))
        });
        // iteration and element access
        let lim = size.min(env.cfg.elem_b);
        let mut it = d.elements();
        let mut cur = h;
        let mut bad: Option<(u64, String)> = None;
        for j in 0..lim {
            match it.next() {
                Some(x) if m.to_m(&x) == cur => {},
                other => {
                    bad = Some((j, format!("{other:?}")));
                    break;
                },
            }
            if j < 4096 || j + 4 >= lim {
                let e = m.to_m(&d.element(j as usize));
                if e != cur {
                    loc.fail_at("element", format!("{}: element({j}) = {e:?} want {cur:?}", tag()));
                    break;
                }
                loc.op();
            }
            cur = m.mul(cur, g);
        }
        loc.check_at("elements", bad.is_none(), || format!("{}: elements() item {:?} (want h*g^j)", tag(), bad));
        if lim == size {
            let extra = it.next();
            loc.check_at("elements", extra.is_none(), || format!("{}: elements() yields more than size items", tag()));
        } else if off < 2 && size <= 1 << 20 && (end_sizes.contains(&size)) {
            // sizes above elem_b: the END of the iteration through nth (a few sizes up to 2^20, offsets 1 and g)
            loc.class("elements:end_checked_with_nth");
            let mut it = d.elements();
            let last = it.nth(size as usize - 1).map(|x| m.to_m(&x));
            let want_last = m.mul(h, m.pow(g, size - 1));
            loc.check_at("elements", last == Some(want_last), || format!("{}: elements().nth(size-1) = {last:?} want h*g^(size-1) = {want_last:?}", tag()));
            let extra = it.next();
            loc.check_at("elements", extra.is_none(), || format!("{}: elements() yields more than size items", tag()));
            if size <= 1 << 16 {
                let skipped = d.elements().nth(size as usize);
                loc.check_at("elements", skipped.is_none(), || format!("{}: elements().nth(size) is Some", tag()));
            }
        }
        for j in [size - 1, size / 2, size / 2 + 1, size, size + 1, 2 * size + 3] {
            let want = m.mul(h, m.pow(g, j));
            let e = m.to_m(&d.element(j as usize));
            loc.check_at("element", e == want, || format!("{}: element({j}) = {e:?} want {want:?}", tag()));
        }
        // vanishing polynomial is X^size - h^size
        let vp = d.vanishing_polynomial();
        let terms: Vec<(usize, M::E)> = vp.iter().map(|(k, c)| (*k, m.to_m(c))).collect();
        let want_terms = vec![(0usize, m.sub(m.zero(), m.pow(h, size))), (size as usize, m.one())];
        loc.check_at("vanishing_polynomial", terms == want_terms, || format!("{}: vanishing_polynomial terms {terms:?} want {want_terms:?}", tag()));
        // distribute_powers
        loc.class_if(dp_lens.len() > 3, "distribute_powers:all_lengths_0..=40_and_1023..=1025");
        for &len in &dp_lens {
            let base: Vec<M::E> = (0..len).map(|t| m.from_u64(3 * t as u64 + 2)).collect();
            let mut v: Vec<F> = base.iter().map(|e| m.to_f(*e)).collect();
            D::distribute_powers(&mut v, m.to_f(h));
            let want: Vec<M::E> = base.iter().enumerate().map(|(t, e)| m.mul(*e, m.pow(h, t as u64))).collect();
            let got: Vec<M::E> = v.iter().map(|x| m.to_m(x)).collect();
            loc.check_at("distribute_powers", got == want, || format!("{}: distribute_powers len {len}: {} want {}", tag(), showv(&got), showv(&want)));
            let mut v: Vec<F> = base.iter().map(|e| m.to_f(*e)).collect();
            D::distribute_powers_and_mul_by_const(&mut v, m.to_f(g), m.to_f(h));
            let want: Vec<M::E> = base.iter().enumerate().map(|(t, e)| m.mul(m.mul(*e, h), m.pow(g, t as u64))).collect();
            let got: Vec<M::E> = v.iter().map(|x| m.to_m(x)).collect();
            loc.check_at("distribute_powers_and_mul_by_const", got == want, || format!("{}: len {len}: {} want {}", tag(), showv(&got), showv(&want)));
        }
    });
}

// ---------------------------------------------------------------------------
// transforms
// ---------------------------------------------------------------------------
fn strip<F: PrimeField>(mut v: Vec<F>) -> Vec<F> {
    while v.last().is_some_and(|c| c.is_zero()) {
        v.pop();
    }
    v
}

/// forward transform of the coefficient vector `v` (model) against `want`, and
/// the inverse transform back.
fn check_fft<F: PrimeField + FftField, M: Mdl<F>, D: EvaluationDomain<F> + Send + Sync>(
    loc: &mut Loc,
    m: &M,
    d: &D,
    tag: &dyn Fn() -> String,
    v: &[M::E],
    want: &[M::E],
) {
    let n = want.len();
    let vf: Vec<F> = v.iter().map(|e| m.to_f(*e)).collect();
    let got = d.fft(&vf);
    let gm: Vec<M::E> = got.iter().map(|x| m.to_m(x)).collect();
    let ok = loc.check_at("fft", gm.as_slice() == want, || {
        let j = gm.iter().zip(want).position(|(a, b)| a != b);
        format!("{} coeffs={}: fft differs from evaluation at element(j), first j={j:?}: got {} want {}", tag(), showv(v), showv(&gm), showv(want))
    });
    let mut w = vf.clone();
    d.fft_in_place(&mut w);
    loc.check_at("fft_in_place", w == got, || format!("{} coeffs={}: fft_in_place != fft", tag(), showv(v)));
    let ev = DensePolynomial::from_coefficients_vec(vf.clone()).evaluate_over_domain(*d);
    loc.check_at("evaluate_over_domain", ev.evals == got && ev.domain() == *d, || {
        format!("{} coeffs={}: DensePolynomial::evaluate_over_domain != fft", tag(), showv(v))
    });
    if !ok {
        return;
    }
    // inverse transform returns the original coefficients
    let mut padded = v.to_vec();
    padded.resize(n, m.zero());
    let back = d.ifft(&got);
    let bm: Vec<M::E> = back.iter().map(|x| m.to_m(x)).collect();
    loc.check_at("ifft", bm == padded, || format!("{} coeffs={}: ifft(fft(v)) = {}", tag(), showv(v), showv(&bm)));
    let mut b = got.clone();
    d.ifft_in_place(&mut b);
    loc.check_at("ifft_in_place", b == back, || format!("{} coeffs={}: ifft_in_place != ifft", tag(), showv(v)));
    let stripped = strip(vf);
    let e = Evaluations::from_vec_and_domain(got, *d);
    let p1 = e.interpolate_by_ref();
    let p2 = e.interpolate();
    loc.check_at("interpolate", p1.coeffs == stripped && p2.coeffs == stripped, || {
        format!("{} coeffs={}: Evaluations::interpolate gives {:?}", tag(), showv(v), showv(&p2.coeffs))
    });
}

/// inverse transform of the evaluation vector `e`; `want` = coefficients if the
/// caller knows them, otherwise the result is verified by naive evaluation.
fn check_ifft<F: PrimeField + FftField, M: Mdl<F>, D: EvaluationDomain<F> + Send + Sync>(
    loc: &mut Loc,
    m: &M,
    d: &D,
    tag: &dyn Fn() -> String,
    pts: &[M::E],
    e: &[M::E],
    want: Option<&[M::E]>,
) {
    let n = pts.len();
    let ef: Vec<F> = e.iter().map(|x| m.to_f(*x)).collect();
    if e.len() != n {
        // an evaluation vector shorter than the domain is not an input the property (or the rustdoc of ifft,
        // "Compute a IFFT") speaks about: not judged; what the library does is counted
        loc.op();
        match catch_unwind(AssertUnwindSafe(|| d.ifft(&ef))) {
            Err(_) => loc.class("observed:ifft_short_input_panics"),
            Ok(c) => {
                let cm: Vec<M::E> = c.iter().map(|x| m.to_m(x)).collect();
                let padded = match want {
                    Some(w) => cm.as_slice() == w,
                    None => cm.len() == n && (0..n).all(|j| horner::<F, M>(m, &cm, pts[j]) == if j < e.len() { e[j] } else { m.zero() }),
                };
                loc.class(if padded { "observed:ifft_short_input_is_zero_padded" } else { "observed:ifft_short_input_other_result" });
            },
        }
        return;
    }
    let site = "ifft";
    let c = d.ifft(&ef);
    let cm: Vec<M::E> = c.iter().map(|x| m.to_m(x)).collect();
    let ok = match want {
        Some(w) => cm.as_slice() == w,
        None => cm.len() == n && (0..n).all(|j| horner::<F, M>(m, &cm, pts[j]) == if j < e.len() { e[j] } else { m.zero() }),
    };
    loc.check_at(site, ok, || {
        format!(
            "{} evals={} (zero padded to the domain size): ifft = {} is not the interpolating polynomial{}",
            tag(),
            showv(e),
            showv(&cm),
            want.map(|w| format!(", want {}", showv(w))).unwrap_or_default()
        )
    });
    let mut b = ef.clone();
    d.ifft_in_place(&mut b);
    loc.check_at("ifft_in_place", b == c, || format!("{} evals={}: ifft_in_place != ifft", tag(), showv(e)));
    if e.len() == n {
        let p = Evaluations::from_vec_and_domain(ef, *d).interpolate();
        loc.check_at("interpolate", p.coeffs == strip(c), || format!("{} evals={}: Evaluations::interpolate != ifft", tag(), showv(e)));
    }
}

fn dense_vec<F, M: Mdl<F>>(m: &M, which: u8, len: usize) -> Vec<M::E> {
    (0..len as u64)
        .map(|i| match which {
            0 => m.one(),
            1 => m.from_u64(i + 1),
            2 => {
                if i % 2 == 0 {
                    m.sub(m.zero(), m.one())
                } else {
                    m.one()
                }
            },
            _ => m.from_u64((i * i * 7 + 3 * i + 1) ^ 0x5a5a),
        })
        .collect()
}

/// every L in 0..=size, every unit vector e_i (i < L), four dense vectors; both directions.
fn sweep_fft_small<F: PrimeField + FftField, M: Mdl<F>, D: EvaluationDomain<F> + Send + Sync>(ctx: &mut Ctx, env: &Env<F, M>, kind: Kind) {
    let fi = &env.fi;
    let m = &env.m;
    let mut cases: Vec<(u64, usize, usize)> = Vec::new();
    for size in fi.sizes(kind) {
        if size <= env.cfg.small_b {
            for off in 0..env.offs.len() {
                for l in 0..=size as usize {
                    cases.push((size, off, l));
                }
            }
        }
    }
    cases.sort_by_key(|c| std::cmp::Reverse(c.0));
    ctx.sweep(&format!("fft_small/{}/{}", fi.name, kind.name()), cases.len() as u64, |i, loc| {
        let (size, off, l) = cases[i as usize];
        let n = size as usize;
        label_transform(loc, env, kind, size, off, l);
        let (d, pts): (D, Vec<M::E>) = match build(env, size, off) {
            Ok(x) => x,
            Err(e) => {
                loc.fail_at("new", e);
                return;
            },
        };
        let base = format!("{} {} size={size} offset={:?} L={l}", fi.name, kind.name(), env.offs[off]);
        if loc.sampling() {
            loc.sample(format!("{base}: unit vectors e_0..e_{{L-1}}, 4 dense vectors, both directions"));
        }
        let tag = || base.clone();
        let ninv = m.inv(m.from_u64(size));
        let ginv = m.inv(m.to_m(&d.group_gen()));
        let hinv = m.inv(env.offs[off]);
        // forward: fft(e_i)[j] = pts[j]^i
        let mut cur: Vec<M::E> = vec![m.one(); n];
        let mut ipt = hinv; // 1/pts[i]
        for iu in 0..l {
            let mut v = vec![m.zero(); l];
            v[iu] = m.one();
            check_fft(loc, m, &d, &tag, &v, &cur);
            // inverse on the evaluation unit vector e_iu: c[t] = pts[iu]^{-t} / n
            let mut w = Vec::with_capacity(n);
            let mut acc = ninv;
            for _ in 0..n {
                w.push(acc);
                acc = m.mul(acc, ipt);
            }
            check_ifft(loc, m, &d, &tag, &pts, &v, Some(&w));
            for j in 0..n {
                cur[j] = m.mul(cur[j], pts[j]);
            }
            ipt = m.mul(ipt, ginv);
        }
        for which in 0..4u8 {
            if l == 0 && which > 0 {
                break;
            }
            let v = dense_vec::<F, M>(m, which, l);
            let want: Vec<M::E> = pts.iter().map(|x| horner::<F, M>(m, &v, *x)).collect();
            check_fft(loc, m, &d, &tag, &v, &want);
            check_ifft(loc, m, &d, &tag, &pts, &v, None);
        }
    });
}

#[derive(Clone, Copy, Debug)]
enum VecSpec {
    Unit(usize),
    Dense(u8),
    IUnit(usize),
    IDense(u8),
}

/// sizes above `small_b`: L on both sides of the degree-aware threshold, selected unit vectors, dense vectors.
fn sweep_fft_large<F: PrimeField + FftField, M: Mdl<F>, D: EvaluationDomain<F> + Send + Sync>(ctx: &mut Ctx, env: &Env<F, M>, kind: Kind) {
    let fi = &env.fi;
    let m = &env.m;
    let mut cases: Vec<(u64, usize, usize, VecSpec)> = Vec::new();
    for size in fi.sizes(kind) {
        if size <= env.cfg.small_b || size > env.cfg.large_b {
            continue;
        }
        let n = size as usize;
        let ls = dedup_sorted(vec![0, 1, 2, 3, n / 16, n / 8 + 1, n / 4 - 1, n / 4, n / 4 + 1, n / 2, n / 2 + 1, n - 1, n]);
        for off in 0..env.offs.len() {
            for &l in &ls {
                if l > n {
                    continue;
                }
                let mut units = vec![0usize, 1, l / 2, l.saturating_sub(1)];
                let mut t = 2;
                while t < l {
                    units.push(t);
                    t *= 2;
                }
                for iu in dedup_sorted(units) {
                    if iu < l {
                        cases.push((size, off, l, VecSpec::Unit(iu)));
                        if l == n || l == n / 2 {
                            cases.push((size, off, l, VecSpec::IUnit(iu)));
                        }
                    }
                }
                if l == 0 {
                    cases.push((size, off, 0, VecSpec::Dense(0)));
                } else if size <= env.cfg.dense_b {
                    for which in [1u8, 2, 3] {
                        cases.push((size, off, l, VecSpec::Dense(which)));
                    }
                    if l == n || l == n / 2 {
                        cases.push((size, off, l, VecSpec::IDense(3)));
                    }
                } else if off < 2 && (l == n / 4 || l == n / 4 + 1 || l == n) {
                    // above dense_b the O(n^2) model is only affordable for a few dense vectors
                    cases.push((size, off, l, VecSpec::Dense(3)));
                    if l == n {
                        cases.push((size, off, l, VecSpec::IDense(3)));
                    }
                }
            }
        }
    }
    // heaviest cases first (load balance)
    cases.sort_by_key(|c| std::cmp::Reverse(c.0));
    ctx.sweep(&format!("fft_large/{}/{}", fi.name, kind.name()), cases.len() as u64, |i, loc| {
        let (size, off, l, spec) = cases[i as usize];
        let n = size as usize;
        label_transform(loc, env, kind, size, off, l);
        let (d, pts): (D, Vec<M::E>) = match build(env, size, off) {
            Ok(x) => x,
            Err(e) => {
                loc.fail_at("new", e);
                return;
            },
        };
        let base = format!("{} {} size={size} offset={:?} L={l} vector={spec:?}", fi.name, kind.name(), env.offs[off]);
        if loc.sampling() {
            loc.sample(base.clone());
        }
        let tag = || base.clone();
        match spec {
            VecSpec::Unit(iu) => {
                let mut v = vec![m.zero(); l];
                v[iu] = m.one();
                // element(j)^iu = h^iu * (g^iu)^j
                let step = m.pow(m.to_m(&d.group_gen()), iu as u64);
                let mut cur = m.pow(env.offs[off], iu as u64);
                let mut want: Vec<M::E> = Vec::with_capacity(n);
                for _ in 0..n {
                    want.push(cur);
                    cur = m.mul(cur, step);
                }
                debug_assert!(want[n - 1] == m.pow(pts[n - 1], iu as u64));
                check_fft(loc, m, &d, &tag, &v, &want);
            },
            VecSpec::Dense(which) => {
                let v = dense_vec::<F, M>(m, which, l);
                let want: Vec<M::E> = pts.iter().map(|x| horner::<F, M>(m, &v, *x)).collect();
                check_fft(loc, m, &d, &tag, &v, &want);
            },
            VecSpec::IUnit(iu) => {
                let mut v = vec![m.zero(); l];
                v[iu] = m.one();
                let ipt = m.inv(pts[iu]);
                let mut w = Vec::with_capacity(n);
                let mut acc = m.inv(m.from_u64(size));
                for _ in 0..n {
                    w.push(acc);
                    acc = m.mul(acc, ipt);
                }
                check_ifft(loc, m, &d, &tag, &pts, &v, Some(&w));
            },
            VecSpec::IDense(which) => {
                let v = dense_vec::<F, M>(m, which, l);
                check_ifft(loc, m, &d, &tag, &pts, &v, None);
            },
        }
    });
}

struct Flat {
    starts: Vec<u64>,
    total: u64,
}
impl Flat {
    fn new(counts: &[u64]) -> Flat {
        let mut starts = Vec::with_capacity(counts.len());
        let mut t = 0;
        for c in counts {
            starts.push(t);
            t += c;
        }
        Flat { starts, total: t }
    }
    fn locate(&self, i: u64) -> (usize, u64) {
        let g = self.starts.partition_point(|s| *s <= i) - 1;
        (g, i - self.starts[g])
    }
}

/// ALL coefficient vectors of length <= max_len over an enumerable field, on every domain size <= max_size.
fn sweep_all_vectors<F: PrimeField + FftField, M: Mdl<F>, D: EvaluationDomain<F> + Send + Sync>(
    ctx: &mut Ctx,
    env: &Env<F, M>,
    kind: Kind,
    max_len: usize,
    max_size: u64,
) {
    let fi = &env.fi;
    let m = &env.m;
    let p = m.all_elements().expect("enumerable field");
    let mut groups: Vec<(u64, usize, usize)> = Vec::new();
    let mut counts = Vec::new();
    for size in fi.sizes(kind) {
        if size > max_size {
            continue;
        }
        for off in 0..env.offs.len() {
            for l in 0..=max_len.min(size as usize) {
                groups.push((size, off, l));
                counts.push(p.pow(l as u32));
            }
        }
    }
    let flat = Flat::new(&counts);
    ctx.sweep(&format!("fft_all_vectors/{}/{}/len<={max_len}", fi.name, kind.name()), flat.total, |i, loc| {
        let (g, vi) = flat.locate(i);
        let (size, off, l) = groups[g];
        label_transform(loc, env, kind, size, off, l);
        let (d, pts): (D, Vec<M::E>) = match build(env, size, off) {
            Ok(x) => x,
            Err(e) => {
                loc.fail_at("new", e);
                return;
            },
        };
        let v: Vec<M::E> = unrank_vec(vi, &vec![p; l]).into_iter().map(|c| m.from_u64(c)).collect();
        let base = format!("{} {} size={size} offset={:?} L={l}", fi.name, kind.name(), env.offs[off]);
        if loc.sampling() {
            loc.sample(format!("{base} coeffs={v:?}"));
        }
        let tag = || base.clone();
        let want: Vec<M::E> = pts.iter().map(|x| horner::<F, M>(m, &v, *x)).collect();
        check_fft(loc, m, &d, &tag, &v, &want);
        if l as u64 == size {
            check_ifft(loc, m, &d, &tag, &pts, &v, None);
        }
    });
}

// ---------------------------------------------------------------------------
// vanishing polynomial, Lagrange coefficients, filter polynomial, reindexing
// ---------------------------------------------------------------------------
fn taus<F: PrimeField + FftField, M: Mdl<F>>(env: &Env<F, M>) -> Vec<M::E> {
    let m = &env.m;
    if let Some(p) = m.all_elements() {
        return (0..p).map(|x| m.from_u64(x)).collect();
    }
    // not enumerable: boundary values, every point of the largest small radix-2 / mixed domain and of its cosets
    let g = m.to_m(&F::GENERATOR);
    let mut out = vec![m.zero(), m.one(), m.sub(m.zero(), m.one()), m.from_u64(2), g, m.from_u64(GENERIC64)];
    let mut roots = Vec::new();
    let r2 = 1u64 << env.fi.s.min(6);
    if let Some(d) = Radix2EvaluationDomain::<F>::new(r2 as usize) {
        roots.push((m.to_m(&d.group_gen()), r2));
    }
    if let Some(ms) = env.fi.mixed.iter().copied().filter(|x| *x <= 72 && env.fi.adicity(*x).1 == env.fi.k.min(2)).max() {
        if let Some(d) = MixedRadixEvaluationDomain::<F>::new(ms as usize) {
            if d.size() as u64 == ms {
                roots.push((m.to_m(&d.group_gen()), ms));
            }
        }
    }
    for (w, n) in roots {
        for h in &env.offs {
            let mut cur = *h;
            for _ in 0..n {
                out.push(cur);
                out.push(m.add(cur, m.one()));
                cur = m.mul(cur, w);
            }
        }
    }
    let mut ded: Vec<M::E> = Vec::new();
    for x in out {
        if !ded.contains(&x) {
            ded.push(x);
        }
    }
    ded
}

/// mirror of the engine's --only / --replay filter, used to skip expensive per-sweep precomputation
fn wanted(ctx: &Ctx, name: &str) -> bool {
    if let Some((c, _)) = &ctx.replay {
        if !algebra_mc::core::replay_matches(c, name) {
            return false;
        }
    }
    if let Some(o) = &ctx.only {
        if !name.contains(o.as_str()) {
            return false;
        }
    }
    true
}

struct PolyCfg<D, E> {
    d: D,
    size: u64,
    off: usize,
    pts: Vec<E>,
    /// 1 / prod_{j != i} (pts[i] - pts[j])
    dinv: Vec<E>,
}

fn sweep_poly<F: PrimeField + FftField, M: Mdl<F>, D: EvaluationDomain<F> + Send + Sync>(ctx: &mut Ctx, env: &Env<F, M>, kind: Kind, taus: &[M::E]) {
    let fi = &env.fi;
    let m = &env.m;
    let sweep_name = format!("vanishing_lagrange/{}/{}", fi.name, kind.name());
    if !wanted(ctx, &sweep_name) {
        return;
    }
    let mut cfgs: Vec<PolyCfg<D, M::E>> = Vec::new();
    for size in fi.sizes(kind) {
        if size > env.cfg.poly_b {
            continue;
        }
        for off in 0..env.offs.len() {
            let Ok((d, pts)) = build::<F, M, D>(env, size, off) else {
                ctx.add_violation(&format!("vanishing_lagrange/{}/{}/new", fi.name, kind.name()), 0, format!("cannot build size {size} offset #{off}"));
                continue;
            };
            let n = pts.len();
            let prods: Vec<M::E> = (0..n)
                .map(|i| {
                    let mut acc = m.one();
                    for j in 0..n {
                        if j != i {
                            acc = m.mul(acc, m.sub(pts[i], pts[j]));
                        }
                    }
                    acc
                })
                .collect();
            if prods.iter().any(|x| *x == m.zero()) {
                // h*g^i are not pairwise distinct: the generator's order is smaller than the reported size
                ctx.add_violation(
                    &format!("vanishing_lagrange/{}/{}/new", fi.name, kind.name()),
                    0,
                    format!("size {size} offset #{off}: the domain elements h*g^i (i < size) are not pairwise distinct, group_gen has order < size"),
                );
                continue;
            }
            let dinv: Vec<M::E> = prods.into_iter().map(|x| m.inv(x)).collect();
            cfgs.push(PolyCfg { d, size, off, pts, dinv });
        }
    }
    let nt = taus.len() as u64;
    ctx.sweep(&sweep_name, cfgs.len() as u64 * nt, |i, loc| {
        let [it, ic] = unrank(i, [nt, cfgs.len() as u64]);
        let c = &cfgs[ic as usize];
        let tau = taus[it as usize];
        let tf = m.to_f(tau);
        let n = c.pts.len();
        let tag = || format!("{} {} size={} offset={:?} tau={tau:?}", fi.name, kind.name(), c.size, env.offs[c.off]);
        if loc.sampling() {
            loc.sample(tag());
        }
        // prefix / suffix products of (tau - pts[j])
        let mut pre = Vec::with_capacity(n + 1);
        pre.push(m.one());
        for j in 0..n {
            pre.push(m.mul(pre[j], m.sub(tau, c.pts[j])));
        }
        let mut suf = vec![m.one(); n + 1];
        for j in (0..n).rev() {
            suf[j] = m.mul(suf[j + 1], m.sub(tau, c.pts[j]));
        }
        let z = pre[n];
        let in_dom = z == m.zero();
        loc.class_if(c.off != 0, "coset");
        loc.class_if(in_dom, "lagrange:tau_in_domain");
        loc.class_if(in_dom && c.off != 0, "lagrange:tau_in_coset");
        let got = m.to_m(&c.d.evaluate_vanishing_polynomial(tf));
        loc.check_at("evaluate_vanishing_polynomial", got == z, || format!("{}: got {got:?} want prod(tau - h g^i) = {z:?}", tag()));
        let got = m.to_m(&c.d.vanishing_polynomial().evaluate(&tf));
        loc.check_at("vanishing_polynomial", got == z, || format!("{}: vanishing_polynomial().evaluate = {got:?} want {z:?}", tag()));
        let lag = c.d.evaluate_all_lagrange_coefficients(tf);
        let lm: Vec<M::E> = lag.iter().map(|x| m.to_m(x)).collect();
        let want: Vec<M::E> = (0..n).map(|i| m.mul(m.mul(pre[i], suf[i + 1]), c.dinv[i])).collect();
        loc.check_at("evaluate_all_lagrange_coefficients", lm == want, || format!("{}: got {} want {}", tag(), showv(&lm), showv(&want)));
    });
}

struct FiltCfg<D, E> {
    outer: D,
    sub: D,
    n: u64,
    msz: u64,
    outer_off: usize,
    sub_h: E,
    /// points of outer \ sub
    compl: Vec<E>,
    sub_pts: Vec<E>,
    /// 1 / prod_{x in compl} (s - x), the same for every s in sub (validated)
    norm: E,
    proper: bool,
}

fn filter_cfgs<F: PrimeField + FftField, M: Mdl<F>, D: EvaluationDomain<F> + Send + Sync>(ctx: &mut Ctx, env: &Env<F, M>, kind: Kind) -> Vec<FiltCfg<D, M::E>> {
    let fi = &env.fi;
    let m = &env.m;
    let sizes = fi.sizes(kind);
    let mut cfgs = Vec::new();
    for &n in sizes.iter().filter(|n| **n <= env.cfg.filt_b) {
        for outer_off in 0..env.offs.len().min(2) {
            let Ok((outer, pts)) = build::<F, M, D>(env, n, outer_off) else { continue };
            for &msz in sizes.iter().filter(|x| n % **x == 0) {
                let period = n / msz;
                for t in 0..period {
                    // the coset pts[t] * <g^period>
                    let sub_h = pts[t as usize];
                    let sub_pts: Vec<M::E> = (0..msz).map(|r| pts[(t + r * period) as usize]).collect();
                    let compl: Vec<M::E> = (0..n).filter(|j| j % period != t).map(|j| pts[j as usize]).collect();
                    let Some(sub) = D::new(msz as usize).and_then(|d| d.get_coset(m.to_f(sub_h))) else { continue };
                    if sub.size() as u64 != msz {
                        continue;
                    }
                    let prod_at = |s: M::E| compl.iter().fold(m.one(), |a, x| m.mul(a, m.sub(s, *x)));
                    let p0 = prod_at(sub_pts[0]);
                    ctx.validate(
                        p0 != m.zero() && sub_pts.iter().all(|s| prod_at(*s) == p0),
                        "filter definition: prod over outer\\sub is a non-zero constant on sub",
                    );
                    // the library's sub-domain is the same point set (precondition "subdomain contained in self")
                    let sg = m.to_m(&sub.group_gen());
                    ctx.validate(sub_pts.contains(&m.mul(sub_h, sg)) || msz == 1, "filter precondition: sub-domain generator lies in the outer group");
                    let proper = m.pow(sub_h, msz) != m.one();
                    cfgs.push(FiltCfg { outer, sub, n, msz, outer_off, sub_h, compl, sub_pts, norm: m.inv(p0), proper });
                }
            }
        }
    }
    cfgs
}

fn sweep_filter<F: PrimeField + FftField, M: Mdl<F>, D: EvaluationDomain<F> + Send + Sync>(ctx: &mut Ctx, env: &Env<F, M>, kind: Kind, taus: &[M::E]) {
    let fi = &env.fi;
    let m = &env.m;
    if !["filter_eval", "filter_eval_outer_coset", "filter_poly", "filter_poly_outer_coset"]
        .iter()
        .any(|f| wanted(ctx, &format!("{f}/{}/{}", fi.name, kind.name())))
    {
        return;
    }
    let all = filter_cfgs::<F, M, D>(ctx, env, kind);
    let (sub_outer, coset_outer): (Vec<_>, Vec<_>) = all.into_iter().partition(|c| c.outer_off == 0);
    // outer = subgroup and outer = coset are separate spaces (separate sweep names)
    for (cfgs, suffix) in [(sub_outer, ""), (coset_outer, "_outer_coset")] {
    let nt = taus.len() as u64;
    let label = |loc: &mut Loc, c: &FiltCfg<D, M::E>| {
        loc.class_if(c.proper, "filter:sub_is_proper_coset");
        loc.class_if(c.outer_off != 0, "filter:outer_is_coset");
        loc.class_if(c.msz == c.n, "filter:sub=outer");
    };
    ctx.sweep(&format!("filter_eval{suffix}/{}/{}", fi.name, kind.name()), cfgs.len() as u64 * nt, |i, loc| {
        let [it, ic] = unrank(i, [nt, cfgs.len() as u64]);
        let c = &cfgs[ic as usize];
        let tau = taus[it as usize];
        label(loc, c);
        let in_sub = c.sub_pts.contains(&tau);
        let in_outer = in_sub || c.compl.contains(&tau);
        loc.class_if(in_sub, "filter:tau_in_sub");
        loc.class_if(in_outer && !in_sub, "filter:tau_in_outer_not_sub");
        loc.class_if(!in_outer, "filter:tau_outside");
        let want = m.mul(c.compl.iter().fold(m.one(), |a, x| m.mul(a, m.sub(tau, *x))), c.norm);
        let got = m.to_m(&c.outer.evaluate_filter_polynomial(&c.sub, m.to_f(tau)));
        if loc.sampling() {
            loc.sample(format!("{} {} outer size={} off={:?} sub size={} off={:?} tau={tau:?}", fi.name, kind.name(), c.n, env.offs[c.outer_off], c.msz, c.sub_h));
        }
        loc.check_at("evaluate_filter_polynomial", got == want, || {
            format!(
                "{} {}: outer size={} offset={:?}, sub size={} offset={:?}, tau={tau:?}: got {got:?}, the polynomial of degree {} that is 1 on sub and 0 on outer\\sub gives {want:?}",
                fi.name,
                kind.name(),
                c.n,
                env.offs[c.outer_off],
                c.msz,
                c.sub_h,
                c.n - c.msz
            )
        });
    });
    ctx.sweep(&format!("filter_poly{suffix}/{}/{}", fi.name, kind.name()), cfgs.len() as u64, |i, loc| {
        let c = &cfgs[i as usize];
        label(loc, c);
        // multiply out norm * prod (X - x)
        let mut poly = vec![c.norm];
        for x in &c.compl {
            let mut next = vec![m.zero(); poly.len() + 1];
            for (k, a) in poly.iter().enumerate() {
                next[k + 1] = m.add(next[k + 1], *a);
                next[k] = m.sub(next[k], m.mul(*a, *x));
            }
            poly = next;
        }
        let got: Vec<M::E> = c.outer.filter_polynomial(&c.sub).coeffs.iter().map(|x| m.to_m(x)).collect();
        loc.check_at("filter_polynomial", got == poly, || {
            format!(
                "{} {}: outer size={} offset={:?}, sub size={} offset={:?}: filter_polynomial = {} want {}",
                fi.name,
                kind.name(),
                c.n,
                env.offs[c.outer_off],
                c.msz,
                c.sub_h,
                showv(&got),
                showv(&poly)
            )
        });
    });
    }
}

fn sweep_reindex<F: PrimeField + FftField, M: Mdl<F>, D: EvaluationDomain<F> + Send + Sync>(ctx: &mut Ctx, env: &Env<F, M>, kind: Kind) {
    let fi = &env.fi;
    let m = &env.m;
    let sizes = fi.sizes(kind);
    let mut cases = Vec::new();
    for &n in sizes.iter().filter(|n| **n <= env.cfg.small_b) {
        for &s in sizes.iter().filter(|x| n % **x == 0) {
            for off in 0..env.offs.len().min(2) {
                cases.push((n, s, off));
            }
        }
    }
    ctx.sweep(&format!("reindex_by_subdomain/{}/{}", fi.name, kind.name()), cases.len() as u64, |i, loc| {
        let (n, s, off) = cases[i as usize];
        let (Ok((outer, _)), Ok((sub, sub_pts))) = (build::<F, M, D>(env, n, off), build::<F, M, D>(env, s, off)) else {
            loc.fail_at("new", format!("{}: cannot build sizes {n}, {s}", fi.name));
            return;
        };
        loc.class_if(n == s, "reindex:same_size");
        loc.class_if(off != 0, "coset");
        let period = n / s;
        // model: first the sub-domain's elements (positions k*period), then the remaining positions in order
        let mut want: Vec<u64> = (0..s).map(|k| k * period).collect();
        want.extend((0..n).filter(|j| j % period != 0));
        let got: Vec<u64> = (0..n).map(|idx| outer.reindex_by_subdomain(sub, idx as usize) as u64).collect();
        // documented: the first |sub| indices are the sub-domain's elements; the rest only has to enumerate the
        // remaining positions (a permutation of 0..size); their ascending order is an implementation choice that
        // is observed, and only demanded under VERIF_EXTRAS
        let mut sorted = got.clone();
        sorted.sort();
        let perm = sorted == (0..n).collect::<Vec<u64>>();
        loc.check_at("reindex_by_subdomain", perm && got[..s as usize] == want[..s as usize], || {
            format!("{} {} outer size={n} sub size={s}: got {} is not a permutation of 0..{n} starting with the sub-domain's positions {}", fi.name, kind.name(), showv(&got), showv(&want[..s as usize]))
        });
        loc.class(if got == want { "observed:reindex_rest_in_ascending_order" } else { "observed:reindex_rest_in_other_order" });
        if std::env::var("VERIF_EXTRAS").is_ok() {
            loc.check_at("reindex_by_subdomain_order", got == want, || format!("{} {} outer size={n} sub size={s}: got {} want {}", fi.name, kind.name(), showv(&got), showv(&want)));
        }
        // and the first |sub| positions really are the sub-domain's elements
        let ok = (0..s).all(|k| m.to_m(&outer.element(want[k as usize] as usize)) == sub_pts[k as usize]);
        loc.check_at("reindex_by_subdomain", ok, || format!("{} {} outer size={n} sub size={s}: outer.element(k*period) != sub.element(k)", fi.name, kind.name()));
    });
}

// ---------------------------------------------------------------------------
// drivers
// ---------------------------------------------------------------------------
macro_rules! each_kind {
    ($f:ident, $ctx:expr, $env:expr $(, $a:expr)*) => {{
        $f::<F, M, Radix2EvaluationDomain<F>>($ctx, $env, Kind::R2 $(, $a)*);
        if $env.fi.q.is_some() {
            $f::<F, M, MixedRadixEvaluationDomain<F>>($ctx, $env, Kind::Mixed $(, $a)*);
        }
        $f::<F, M, GeneralEvaluationDomain<F>>($ctx, $env, Kind::General $(, $a)*);
    }};
}

fn run_field<F: PrimeField + FftField, M: Mdl<F>>(ctx: &mut Ctx, env: &Env<F, M>) {
    each_kind!(sweep_new, ctx, env);
    if env.fi.q.is_none() {
        sweep_mixed_without_small_subgroup::<F>(ctx, &env.fi);
    }
    sweep_roots(ctx, env);
    each_kind!(sweep_domain, ctx, env);
    each_kind!(sweep_fft_small, ctx, env);
    each_kind!(sweep_fft_large, ctx, env);
    let ts = taus(env);
    each_kind!(sweep_poly, ctx, env, &ts);
    // The filter polynomial is not named by property C07 (and has no precise documented
    // definition for coset sub/outer domains); its sweeps only run when VERIF_EXTRAS is set
    // and are not part of the registered check (see DESIGN.md, observations).
    if std::env::var("VERIF_EXTRAS").is_ok() {
        each_kind!(sweep_filter, ctx, env, &ts);
    }
    each_kind!(sweep_reindex, ctx, env);
}

fn toy<F: PrimeField + FftField>(ctx: &mut Ctx, name: &'static str) -> Env<F, Zp> {
    let sb = ctx.t(64, 256);
    toy_with::<F>(ctx, name, sb)
}
fn toy_with<F: PrimeField + FftField>(ctx: &mut Ctx, name: &'static str, small_b: u64) -> Env<F, Zp> {
    let fi = finfo::<F>(ctx, name, true);
    let p = F::MODULUS.as_ref()[0];
    let cfg = Cfg {
        small_b,
        large_b: ctx.t(1 << 13, 1 << 15),
        dense_b: ctx.t(1 << 11, 1 << 13),
        poly_b: 32,
        filt_b: ctx.t(16, 32),
        elem_b: 1 << 16,
    };
    make_env::<F, Zp>(fi, Zp { p }, cfg)
}

fn shipped<F: PrimeField + FftField>(ctx: &mut Ctx, name: &'static str, small_b: u64, large_b: u64, dense_b: u64) -> Env<F, FM<F>> {
    let fi = finfo::<F>(ctx, name, false);
    let cfg = Cfg { small_b, large_b, dense_b, poly_b: ctx.t(16, 32), filt_b: ctx.t(8, 16), elem_b: ctx.t(1 << 8, 1 << 12) };
    make_env::<F, FM<F>>(fi, FM(PhantomData), cfg)
}

fn main() {
    let mut ctx = Ctx::from_args("C07");
    ctx.require(&[
        "len=0",
        "len=size",
        "coset",
        "mixed:q_adicity>0∧two_adicity>0",
        "mixed:pure_q",
        "lagrange:tau_in_domain",
        "lagrange:tau_in_coset",
        "new:none_expected",
        "ext_fft:inherited_constants",
        "ext_fft:size_divisible_by_q",
        "ext_fft:no_subgroup_of_the_declared_shape",
        "new:n>2^63",
        "new:n=size+1",
        "mixed:q=5_two_q_passes",
        "mixed:q=7_two_q_passes",
        "coset:zero_offset_requested",
        "elements:end_checked_with_nth",
        "distribute_powers:all_lengths_0..=40_and_1023..=1025",
        "new:general_two_admissible_sizes",
    ]);
    validate_extra_fields(&mut ctx);
    validate_threshold_copies(&mut ctx);
    // classes that label which transform path a case takes: mandatory while the library's thresholds are the ones the
    // sweep sizes were chosen around; with other thresholds they are reported but a zero count is not a vacuous run
    if THRESHOLDS_ARE_DEFAULT.load(std::sync::atomic::Ordering::Relaxed) {
        ctx.require(&["fft:degree_aware", "fft:in_order", "roots:compaction", "fft:degree_aware_len_not_pow2", "size>MIN_INPUT_SIZE_FOR_PARALLELIZATION"]);
    }
    ctx.assume("oracle: u64/u128 arithmetic mod p (toy fields) with F::from(u64) / into_bigint() as trusted conversions; for the shipped 255..753-bit fields the model arithmetic is the field's own +,-,*,inverse (C01) inside naive O(n^2) definitions");
    ctx.assume("transforms are linear and their control flow depends only on (domain, input length): unit vectors e_i for every i < L determine the map for (domain, L); dense vectors and all vectors of length <= 4 over F_17 are checked in addition");
    ctx.assume("domain order is h*g^j with g = group_gen(); element(j), elements() and the exact order of g are checked separately for every domain size");
    ctx.assume("documented conventions encoded, not flagged: inputs longer than the domain are outside the property; GeneralEvaluationDomain: the radix-2 minimum (documented preference) or the mixed-radix minimum are both accepted as 'minimal for its kind'; ifft on a vector shorter than the domain is not judged (counted in classes observed:ifft_short_input_*); get_root_of_unity(n) for n outside 2^i q^j may be None or a root of exact order n; reindex_by_subdomain: only 'permutation whose first |sub| entries are the sub-domain' is demanded (the order of the rest under VERIF_EXTRAS); a zero coset offset must not panic and must not yield a domain with offset 0");
    ctx.assume("harness is built without the `parallel` feature (thread-count independence is C14)");
    ctx.bound("toy_fields", "F_17, 97, 193, 241, 257, 433, 769, 3889, 7681, 12289, 40961, 65537, Goldilocks; F_401 (2^4 5^2) and F_197 (2^2 7^2) declared in c07.rs with fft_small up to size 100 (quick) / 400 (thorough)");
    ctx.bound("shipped_fields", "bls12_381 Fr, bn384_small_two_adicity Fq and Fr, mnt4_753 Fr, mnt6_753 Fr");
    ctx.bound("construction", "every n in 0..=max+2 when the largest subgroup of the kind has <= 2^17 elements, else 0..=130 and size-1,size,size+1 for every size; plus 2max, 2^40, 2^62, 2^63; get_root_of_unity(n) for every n <= min(2max+2, 2^17+2) plus size-1,size,size+1,2size,3size");
    ctx.bound("offsets", "1, g, g^2, 2, -1 (g = multiplicative generator)");
    ctx.bound("fft_small", if ctx.quick() { "toy: all sizes <= 64, every L in 0..=size, every unit vector i < L, 4 dense vectors, both directions" } else { "toy: all sizes <= 256, every L, every unit vector, 4 dense vectors, both directions" });
    ctx.bound("fft_large", if ctx.quick() { "toy: sizes up to 2^13; 13 values of L around 0, size/16, size/8, size/4, size/2, size; unit vectors 0,1,L/2,L-1,2^t; 3 dense vectors per L up to size 2^11, above: 1 dense vector for offsets 1,g and L in {size/4, size/4+1, size}" } else { "toy: sizes up to 2^15; same L / unit vectors; 3 dense vectors per L up to 2^13, reduced dense set above" });
    ctx.bound("all_vectors", if ctx.quick() { "F_17: all vectors of length <= 4 (17^4) on every domain/offset; F_97 mixed: all vectors of length <= 2 on sizes <= 12" } else { "F_17: length <= 4; F_97 mixed sizes <= 12: length <= 3" });
    ctx.bound("vanishing_lagrange", "all tau in F for toy fields (p <= 65537), sizes <= 32, 5 offsets; boundary tau + all points of size-64 domains/cosets otherwise");
    ctx.bound("filter", if ctx.quick() { "outer size <= 16 (offset 1, g), every sub-size, every coset of it inside outer, all tau" } else { "outer size <= 32, every sub-size, every coset, all tau" });

    macro_rules! toy_field {
        ($t:ty, $name:expr) => {{
            let env = toy::<$t>(&mut ctx, $name);
            run_field(&mut ctx, &env);
        }};
    }
    // all coefficient vectors over small fields
    {
        let env = toy::<tf::D17>(&mut ctx, "D17");
        sweep_all_vectors::<tf::D17, Zp, Radix2EvaluationDomain<tf::D17>>(&mut ctx, &env, Kind::R2, 4, 16);
        sweep_all_vectors::<tf::D17, Zp, GeneralEvaluationDomain<tf::D17>>(&mut ctx, &env, Kind::General, 4, 16);
        let env = toy::<tf::D97>(&mut ctx, "D97");
        let l = ctx.t(2, 3);
        sweep_all_vectors::<tf::D97, Zp, MixedRadixEvaluationDomain<tf::D97>>(&mut ctx, &env, Kind::Mixed, l, 12);
    }
    toy_field!(tf::D17, "D17");
    toy_field!(tf::D97, "D97");
    toy_field!(tf::D193, "D193");
    toy_field!(tf::D241, "D241");
    toy_field!(tf::D257, "D257");
    toy_field!(tf::D433, "D433");
    toy_field!(tf::D769, "D769");
    toy_field!(tf::D3889, "D3889");
    toy_field!(tf::D7681, "D7681");
    toy_field!(tf::D12289, "D12289");
    toy_field!(tf::D40961, "D40961");
    toy_field!(tf::D65537, "D65537");
    toy_field!(tf::DGold, "DGold");
    // q = 5 and q = 7 with two q-ary passes: exhaustive lengths / unit vectors up to size 100 (quick) / all sizes
    {
        let sb = ctx.t(100, 400);
        let env = toy_with::<D401>(&mut ctx, "D401", sb);
        run_field(&mut ctx, &env);
        let env = toy_with::<D197>(&mut ctx, "D197", sb);
        run_field(&mut ctx, &env);
    }

    sweep_ext_fft::<ext_towers::Q97, tf::D97>(&mut ctx, "Fp2(D97,u^2=5)", ext_towers::embed2::<ext_towers::Q97Cfg>);
    sweep_ext_fft::<ext_towers::Q401, D401>(&mut ctx, "Fp2(D401,u^2=3)", ext_towers::embed2::<ext_towers::Q401Cfg>);
    sweep_ext_fft::<ext_towers::C97, tf::D97>(&mut ctx, "Fp3(D97,u^3=5)", ext_towers::embed3::<ext_towers::C97Cfg>);

    macro_rules! shipped_field {
        ($t:ty, $name:expr, $sq:expr, $st:expr, $lq:expr, $lt:expr, $dq:expr, $dt:expr) => {{
            let (s, l, d) = (ctx.t($sq, $st), ctx.t($lq, $lt), ctx.t($dq, $dt));
            let env = shipped::<$t>(&mut ctx, $name, s, l, d);
            run_field(&mut ctx, &env);
        }};
    }
    shipped_field!(ark_bls12_381::Fr, "bls12_381::Fr", 32, 64, 1 << 10, 1 << 12, 1 << 8, 1 << 10);
    shipped_field!(ark_test_curves::bn384_small_two_adicity::Fq, "bn384_small_two_adicity::Fq", 32, 64, 1 << 9, 1 << 11, 1 << 7, 1 << 9);
    shipped_field!(ark_test_curves::bn384_small_two_adicity::Fr, "bn384_small_two_adicity::Fr", 32, 64, 1 << 9, 1 << 11, 1 << 7, 1 << 9);
    shipped_field!(ark_mnt4_753::Fr, "mnt4_753::Fr", 16, 32, 1 << 7, 1 << 10, 1 << 6, 1 << 8);
    shipped_field!(ark_mnt6_753::Fr, "mnt6_753::Fr", 16, 32, 1 << 7, 1 << 10, 1 << 6, 1 << 8);
    std::process::exit(ctx.finish());
}
