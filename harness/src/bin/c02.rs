//! C02 - extension towers implement the arithmetic of F_p[X]/(X^k - beta).
//!
//! E: whole universes of toy towers (gen/towers.py -> toy::gen_towers) instantiating the real generic code.
//! A: alphabet products on every shipped Fq2/Fq3/Fq4/Fq6/Fq12.
//! S: stateright model over in-place operation sequences on toy Fp2 / Fp6.
//!
//! Oracle: a generic tower on coordinate vectors over a base ring (u64 mod p for the toys, the C01-checked
//! prime field for shipped towers) built bottom-up exactly as the tower is defined, schoolbook multiplication
//! modulo the binomials, x^(p^k) by square-and-multiply.  The library is never used to compute a wanted value
//! (only the trusted conversions F::from(u64) / into_bigint / to_base_prime_field_elements).
#![allow(dead_code, unused_imports)]
use algebra_mc::core::*;
use rayon::prelude::*;
use algebra_mc::fpaccess::FpAccess;
use algebra_mc::seq::run_seq;
use algebra_mc::toy::gen_towers::TOWER_TABLE;
use ark_ff::fields::models::{fp12_2over3over2 as m12, fp2 as m2, fp3 as m3, fp4 as m4, fp6_2over3 as m623, fp6_3over2 as m632};
use ark_ff::{
    AdditiveGroup, CubicExtConfig, CubicExtField, CyclotomicMultSubgroup, Field, One, PrimeField, QuadExtConfig, QuadExtField, Zero,
};
use num_bigint::{BigInt as SBig, BigUint};
use num_traits::{One as NOne, ToPrimitive, Zero as NZero};
use std::fmt::Debug;
use std::marker::PhantomData;
use std::sync::Arc;

const MAXD: usize = 12;
const ZC: [&str; 12] = [
    "zero_coordinate:0",
    "zero_coordinate:1",
    "zero_coordinate:2",
    "zero_coordinate:3",
    "zero_coordinate:4",
    "zero_coordinate:5",
    "zero_coordinate:6",
    "zero_coordinate:7",
    "zero_coordinate:8",
    "zero_coordinate:9",
    "zero_coordinate:10",
    "zero_coordinate:11",
];
const IDX: [usize; 12] = [0, 1, 2, 3, 4, 5, 6, 7, 8, 9, 10, 11];

// ------------------------------------------------------------------------------------------------ base rings
trait Base: Clone + Send + Sync + 'static {
    type C: Copy + PartialEq + Debug + Send + Sync + 'static;
    type F: PrimeField;
    fn zero(&self) -> Self::C;
    fn one(&self) -> Self::C;
    fn add(&self, a: Self::C, b: Self::C) -> Self::C;
    fn sub(&self, a: Self::C, b: Self::C) -> Self::C;
    fn neg(&self, a: Self::C) -> Self::C;
    fn mul(&self, a: Self::C, b: Self::C) -> Self::C;
    fn small(&self, n: u64) -> Self::C;
    fn from_big(&self, n: &BigUint) -> Self::C;
    fn to_lib(&self, c: &Self::C) -> Self::F;
    fn from_lib(&self, f: &Self::F) -> Self::C;
    fn p_limbs(&self) -> Vec<u64>;
    fn show(&self, c: &Self::C) -> String;
    fn p_big(&self) -> BigUint {
        algebra_mc::refmodel::zmod::from_limbs(&self.p_limbs())
    }
}

/// integers mod a small prime on u64 (the toy oracle)
struct Zp<F> {
    p: u64,
    _f: PhantomData<fn() -> F>,
}
impl<F> Clone for Zp<F> {
    fn clone(&self) -> Self {
        Zp { p: self.p, _f: PhantomData }
    }
}
impl<F: PrimeField> Base for Zp<F> {
    type C = u64;
    type F = F;
    fn zero(&self) -> u64 {
        0
    }
    fn one(&self) -> u64 {
        1
    }
    #[inline]
    fn add(&self, a: u64, b: u64) -> u64 {
        let s = a + b;
        if s >= self.p {
            s - self.p
        } else {
            s
        }
    }
    #[inline]
    fn sub(&self, a: u64, b: u64) -> u64 {
        if a >= b {
            a - b
        } else {
            a + self.p - b
        }
    }
    #[inline]
    fn neg(&self, a: u64) -> u64 {
        if a == 0 {
            0
        } else {
            self.p - a
        }
    }
    #[inline]
    fn mul(&self, a: u64, b: u64) -> u64 {
        (a * b) % self.p
    }
    fn small(&self, n: u64) -> u64 {
        n % self.p
    }
    fn from_big(&self, n: &BigUint) -> u64 {
        (n % BigUint::from(self.p)).to_u64().unwrap()
    }
    fn to_lib(&self, c: &u64) -> F {
        F::from(*c)
    }
    fn from_lib(&self, f: &F) -> u64 {
        algebra_mc::refmodel::fieldmodel::prime_to_u64(f)
    }
    fn p_limbs(&self) -> Vec<u64> {
        vec![self.p]
    }
    fn show(&self, c: &u64) -> String {
        c.to_string()
    }
}

/// a (C01-checked) library prime field used only through + - * neg (the shipped-tower oracle)
struct Lp<F>(PhantomData<fn() -> F>);
impl<F> Clone for Lp<F> {
    fn clone(&self) -> Self {
        Lp(PhantomData)
    }
}
impl<F: PrimeField> Base for Lp<F> {
    type C = F;
    type F = F;
    fn zero(&self) -> F {
        F::ZERO
    }
    fn one(&self) -> F {
        F::ONE
    }
    #[inline]
    fn add(&self, a: F, b: F) -> F {
        a + b
    }
    #[inline]
    fn sub(&self, a: F, b: F) -> F {
        a - b
    }
    #[inline]
    fn neg(&self, a: F) -> F {
        -a
    }
    #[inline]
    fn mul(&self, a: F, b: F) -> F {
        a * b
    }
    fn small(&self, n: u64) -> F {
        F::from(n)
    }
    fn from_big(&self, n: &BigUint) -> F {
        F::from(n % self.p_big())
    }
    fn to_lib(&self, c: &F) -> F {
        *c
    }
    fn from_lib(&self, f: &F) -> F {
        *f
    }
    fn p_limbs(&self) -> Vec<u64> {
        F::MODULUS.as_ref().to_vec()
    }
    fn show(&self, c: &F) -> String {
        let v: BigUint = (*c).into();
        let p = self.p_big();
        let lim = BigUint::from(1u64 << 32);
        if v < lim {
            v.to_string()
        } else if &p - &v < lim {
            format!("-{}", &p - &v)
        } else {
            format!("0x{}", v.to_str_radix(16))
        }
    }
}

// ------------------------------------------------------------------------------------------------ the tower oracle
type El<B> = [<B as Base>::C; MAXD];

#[derive(Clone)]
struct Level<C> {
    k: usize,
    bd: usize,     // degree of the base field of this level over F_p
    nr: [C; MAXD], // X^k = nr, nr in the base field of this level (first bd coordinates)
}

#[derive(Clone)]
struct Tower<B: Base> {
    b: B,
    levels: Vec<Level<B::C>>,
    deg: usize,
}

impl<B: Base> Tower<B> {
    /// levels bottom-up: (k, non-residue as coordinates over F_p of the field below)
    fn new(b: B, spec: &[(usize, Vec<B::C>)]) -> Self {
        let mut levels = Vec::new();
        let mut bd = 1;
        for (k, nr) in spec {
            assert_eq!(nr.len(), bd, "non-residue must be an element of the field below");
            let mut a = [b.zero(); MAXD];
            a[..bd].copy_from_slice(nr);
            levels.push(Level { k: *k, bd, nr: a });
            bd *= k;
        }
        assert!(bd <= MAXD);
        Tower { b, levels, deg: bd }
    }
    fn top(&self) -> &Level<B::C> {
        self.levels.last().unwrap()
    }
    fn zero(&self) -> El<B> {
        [self.b.zero(); MAXD]
    }
    fn one(&self) -> El<B> {
        let mut o = self.zero();
        o[0] = self.b.one();
        o
    }
    fn embed_fp(&self, c: B::C) -> El<B> {
        let mut o = self.zero();
        o[0] = c;
        o
    }
    fn is_zero(&self, a: &El<B>) -> bool {
        *a == self.zero()
    }
    fn add(&self, a: &El<B>, b: &El<B>) -> El<B> {
        let mut o = self.zero();
        for i in 0..self.deg {
            o[i] = self.b.add(a[i], b[i]);
        }
        o
    }
    fn sub(&self, a: &El<B>, b: &El<B>) -> El<B> {
        let mut o = self.zero();
        for i in 0..self.deg {
            o[i] = self.b.sub(a[i], b[i]);
        }
        o
    }
    fn neg(&self, a: &El<B>) -> El<B> {
        let mut o = self.zero();
        for i in 0..self.deg {
            o[i] = self.b.neg(a[i]);
        }
        o
    }
    fn scale(&self, a: &El<B>, c: B::C) -> El<B> {
        let mut o = self.zero();
        for i in 0..self.deg {
            o[i] = self.b.mul(a[i], c);
        }
        o
    }
    /// schoolbook product in the field of level `l` (0 = F_p), reduced modulo X^k - nr
    fn mul_at(&self, l: usize, a: &[B::C], b: &[B::C], out: &mut [B::C]) {
        if l == 0 {
            out[0] = self.b.mul(a[0], b[0]);
            return;
        }
        let lev = &self.levels[l - 1];
        let (k, bd) = (lev.k, lev.bd);
        let z = self.b.zero();
        let mut tmp = [z; 2 * MAXD];
        let mut t = [z; MAXD];
        for i in 0..k {
            for j in 0..k {
                self.mul_at(l - 1, &a[i * bd..(i + 1) * bd], &b[j * bd..(j + 1) * bd], &mut t[..bd]);
                for m in 0..bd {
                    tmp[(i + j) * bd + m] = self.b.add(tmp[(i + j) * bd + m], t[m]);
                }
            }
        }
        // X^(k+r) = nr * X^r, r = k-2 .. 0
        for idx in (k..2 * k - 1).rev() {
            let mut hi = [z; MAXD];
            hi[..bd].copy_from_slice(&tmp[idx * bd..(idx + 1) * bd]);
            self.mul_at(l - 1, &hi[..bd], &lev.nr[..bd], &mut t[..bd]);
            for m in 0..bd {
                tmp[(idx - k) * bd + m] = self.b.add(tmp[(idx - k) * bd + m], t[m]);
            }
        }
        out[..k * bd].copy_from_slice(&tmp[..k * bd]);
    }
    /// product of two elements of the level-`l` field given as padded arrays
    fn lmul(&self, l: usize, a: &El<B>, b: &El<B>) -> El<B> {
        let d = if l == 0 { 1 } else { self.levels[l - 1].k * self.levels[l - 1].bd };
        let mut o = self.zero();
        self.mul_at(l, &a[..d], &b[..d], &mut o[..d]);
        o
    }
    fn mul(&self, a: &El<B>, b: &El<B>) -> El<B> {
        self.lmul(self.levels.len(), a, b)
    }
    /// x^e for a little-endian limb exponent, left-to-right square-and-multiply, in the level-`l` field
    fn lpow(&self, l: usize, x: &El<B>, e: &[u64]) -> El<B> {
        let mut r = self.one();
        let mut started = false;
        for limb in e.iter().rev() {
            for bit in (0..64).rev() {
                if started {
                    r = self.lmul(l, &r, &r);
                }
                if (limb >> bit) & 1 == 1 {
                    r = if started { self.lmul(l, &r, x) } else { *x };
                    started = true;
                }
            }
        }
        r
    }
    fn pow(&self, x: &El<B>, e: &[u64]) -> El<B> {
        self.lpow(self.levels.len(), x, e)
    }
    fn pow_big(&self, x: &El<B>, e: &BigUint) -> El<B> {
        self.pow(x, &e.to_u64_digits())
    }
    /// x^(p^k) by k successive p-th powers
    fn frob_direct(&self, x: &El<B>, k: usize) -> El<B> {
        let p = self.b.p_limbs();
        let mut y = *x;
        for _ in 0..k {
            y = self.pow(&y, &p);
        }
        y
    }
    /// the part of `a` at top-level coefficient i, as a padded base-field element
    fn part(&self, a: &El<B>, i: usize) -> El<B> {
        let bd = self.top().bd;
        let mut o = self.zero();
        o[..bd].copy_from_slice(&a[i * bd..(i + 1) * bd]);
        o
    }
    /// coordinate-wise ops on base-field (level below top) elements
    fn badd(&self, a: &El<B>, b: &El<B>) -> El<B> {
        self.add(a, b)
    }
    fn bsub(&self, a: &El<B>, b: &El<B>) -> El<B> {
        self.sub(a, b)
    }
    /// norm to the field below, as the determinant of the multiplication-by-x matrix
    fn norm_det(&self, x: &El<B>) -> El<B> {
        let l = self.levels.len() - 1;
        let top = self.top();
        let nr = top.nr;
        let m = |a: &El<B>, b: &El<B>| self.lmul(l, a, b);
        if top.k == 2 {
            let (c0, c1) = (self.part(x, 0), self.part(x, 1));
            self.bsub(&m(&c0, &c0), &m(&nr, &m(&c1, &c1)))
        } else {
            // c0^3 + nr c1^3 + nr^2 c2^3 - 3 nr c0 c1 c2
            let (c0, c1, c2) = (self.part(x, 0), self.part(x, 1), self.part(x, 2));
            let cube = |a: &El<B>| m(a, &m(a, a));
            let t1 = cube(&c0);
            let t2 = m(&nr, &cube(&c1));
            let t3 = m(&m(&nr, &nr), &cube(&c2));
            let t4 = m(&nr, &m(&c0, &m(&c1, &c2)));
            let t4_3 = self.badd(&t4, &self.badd(&t4, &t4));
            self.bsub(&self.badd(&t1, &self.badd(&t2, &t3)), &t4_3)
        }
    }
    fn to_lib<F: Field<BasePrimeField = B::F>>(&self, x: &El<B>) -> F {
        F::from_base_prime_field_elems(x[..self.deg].iter().map(|c| self.b.to_lib(c))).expect("from_base_prime_field_elems(deg elements)")
    }
    fn from_lib<F: Field<BasePrimeField = B::F>>(&self, f: &F) -> El<B> {
        coords(&self.b, f).0
    }
    fn show(&self, x: &El<B>) -> String {
        let v: Vec<String> = x[..self.deg].iter().map(|c| self.b.show(c)).collect();
        format!("[{}]", v.join(","))
    }
    fn showd(&self, x: &El<B>, d: usize) -> String {
        let v: Vec<String> = x[..d].iter().map(|c| self.b.show(c)).collect();
        format!("[{}]", v.join(","))
    }
}

/// coordinates of any library field element over the base prime field (padded) and their number
fn coords<B: Base, F: Field<BasePrimeField = B::F>>(b: &B, f: &F) -> (El<B>, usize) {
    let mut o = [b.zero(); MAXD];
    let mut n = 0;
    for c in f.to_base_prime_field_elements() {
        o[n] = b.from_lib(&c);
        n += 1;
    }
    (o, n)
}

// ------------------------------------------------------------------------------------------------ finite spaces of elements
enum Uni<B: Base> {
    /// every coordinate vector over the letters (all of F_p when letters = 0..p)
    Alpha { letters: Vec<B::C>, deg: usize },
    List(Arc<Vec<El<B>>>),
    /// lo[..hd] ++ hi[..hd] for every (lo, hi)
    Split { lo: Box<Uni<B>>, hi: Box<Uni<B>>, hd: usize },
}
impl<B: Base> Clone for Uni<B> {
    fn clone(&self) -> Self {
        match self {
            Uni::Alpha { letters, deg } => Uni::Alpha { letters: letters.clone(), deg: *deg },
            Uni::List(v) => Uni::List(v.clone()),
            Uni::Split { lo, hi, hd } => Uni::Split { lo: lo.clone(), hi: hi.clone(), hd: *hd },
        }
    }
}
impl<B: Base> Uni<B> {
    fn len(&self) -> u64 {
        match self {
            Uni::Alpha { letters, deg } => (letters.len() as u64).pow(*deg as u32),
            Uni::List(v) => v.len() as u64,
            Uni::Split { lo, hi, .. } => lo.len() * hi.len(),
        }
    }
    fn get(&self, b: &B, mut i: u64) -> El<B> {
        match self {
            Uni::Alpha { letters, deg } => {
                let mut o = [b.zero(); MAXD];
                let n = letters.len() as u64;
                for k in 0..*deg {
                    o[k] = letters[(i % n) as usize];
                    i /= n;
                }
                o
            }
            Uni::List(v) => v[i as usize],
            Uni::Split { lo, hi, hd } => {
                let n = lo.len();
                let (a, c) = (lo.get(b, i % n), hi.get(b, i / n));
                let mut o = [b.zero(); MAXD];
                o[..*hd].copy_from_slice(&a[..*hd]);
                o[*hd..2 * *hd].copy_from_slice(&c[..*hd]);
                o
            }
        }
    }
    fn list(v: Vec<El<B>>) -> Self {
        Uni::List(Arc::new(v))
    }
    fn to_vec(&self, b: &B) -> Vec<El<B>> {
        (0..self.len()).map(|i| self.get(b, i)).collect()
    }
}

fn dedup_els<B: Base>(t: &Tower<B>, v: Vec<El<B>>) -> Vec<El<B>> {
    // order-preserving dedup (C has no Ord): quadratic only for short lists, keyed by the shown form otherwise
    let mut seen = std::collections::HashSet::new();
    let mut out = Vec::new();
    for e in v {
        if seen.insert(t.show(&e)) {
            out.push(e);
        }
    }
    out
}

struct Fx<B: Base> {
    name: String,
    t: Tower<B>,
    /// fm[k][i] = e_i^(p^k): F_p-linear form of the Frobenius oracle (toys only, validated against frob_direct)
    fm: Option<Vec<Vec<El<B>>>>,
}
impl<B: Base> Fx<B> {
    fn frob_lin(&self, x: &El<B>, k: usize) -> El<B> {
        let fm = self.fm.as_ref().unwrap();
        let mut o = self.t.zero();
        for i in 0..self.t.deg {
            if x[i] != self.t.b.zero() {
                o = self.t.add(&o, &self.t.scale(&fm[k][i], x[i]));
            }
        }
        o
    }
}

struct Plan<B: Base> {
    /// (universe, tag, every element lies in a proper subfield, frobenius powers 0..=kmax or none)
    unary: Vec<(Uni<B>, String, bool, Option<usize>)>,
    /// (left, right, tag, also run every operator impl variant of ff/src/fields/arithmetic.rs)
    pairs: Vec<(Uni<B>, Uni<B>, String, bool)>,
    /// direct oracle x^(p^k) by successive p-th powers up to this k; beyond, x^(p^k) = x^(p^(k mod deg))
    frob_direct_max: usize,
    sparse_left: Uni<B>,
    sparse_left_small: Option<Uni<B>>,
    coef_all: Option<Vec<B::C>>,
    coef_small: Vec<B::C>,
    coef_tiny: Vec<B::C>,
    scalars: Vec<B::C>,
    cyclo: Vec<El<B>>,
    cyclo_out: Vec<El<B>>,
    exps: Vec<Vec<u64>>,
    sparse_budget: u64,
    linear_frob_from: u64,
}
impl<B: Base> Plan<B> {
    /// coefficient letters for a sparse operand of m base-prime-field coordinates
    fn coef(&self, m: usize) -> &Vec<B::C> {
        let fits = |l: &Vec<B::C>| (l.len() as f64).powi(m as i32) * self.sparse_left.len() as f64 <= self.sparse_budget as f64;
        if let Some(all) = &self.coef_all {
            if fits(all) {
                return all;
            }
        }
        if fits(&self.coef_small) {
            return &self.coef_small;
        }
        &self.coef_tiny
    }
}

fn cmp<B: Base, F: Field<BasePrimeField = B::F>>(loc: &mut Loc, t: &Tower<B>, site: &str, got: &F, want: &El<B>, what: impl FnOnce() -> String) -> bool {
    let g = t.from_lib(got);
    loc.check_at(site, g == *want, || format!("{}: got {} want {}", what(), t.show(&g), t.show(want)))
}

// ------------------------------------------------------------------------------------------------ generic checks
fn label<B: Base>(loc: &mut Loc, t: &Tower<B>, x: &El<B>, sub: bool) {
    let z = t.b.zero();
    for i in 0..t.deg {
        if x[i] == z {
            loc.class(ZC[i]);
        }
    }
    let bd = t.top().bd;
    if sub || (!t.is_zero(x) && x[bd..t.deg].iter().all(|c| *c == z)) {
        loc.class("subfield_element");
    }
}

fn unary<B: Base, F: Field<BasePrimeField = B::F>>(ctx: &mut Ctx, fx: &Fx<B>, plan: &Plan<B>) {
    let t = &fx.t;
    let deg = t.deg;
    let top_k = t.top().k;
    let m1 = t.b.neg(t.b.one());
    let nr_is_m1 = deg == 2 && t.levels[0].nr[0] == m1;
    let p = t.b.p_limbs();
    for (uni, tag, sub, kmax) in &plan.unary {
        let linear = fx.fm.is_some() && uni.len() >= plan.linear_frob_from;
        ctx.sweep(&format!("{}/unary/{tag}", fx.name), uni.len(), |i, loc| {
            let x = uni.get(&t.b, i);
            let xl: F = t.to_lib(&x);
            let sx = || format!("{} x={}", fx.name, t.show(&x));
            if loc.sampling() {
                loc.sample(sx());
            }
            label(loc, t, &x, *sub);
            cmp(loc, t, "to_base_prime_field_elements", &xl, &x, || format!("{} round trip", sx()));
            let is_zero = t.is_zero(&x);
            let is_one = x == t.one();
            loc.check_at("is_zero/is_one", xl.is_zero() == is_zero && xl.is_one() == is_one, || sx());
            // neg / double
            let want = t.neg(&x);
            cmp(loc, t, "neg", &(-xl), &want, || format!("{} -x", sx()));
            let mut y = xl;
            y.neg_in_place();
            cmp(loc, t, "neg_in_place", &y, &want, || sx());
            let want = t.add(&x, &x);
            cmp(loc, t, "double", &xl.double(), &want, || sx());
            let mut y = xl;
            y.double_in_place();
            cmp(loc, t, "double_in_place", &y, &want, || sx());
            // square
            if top_k == 2 {
                if deg == 2 {
                    loc.class(if nr_is_m1 { "quad:nonresidue_is_-1" } else { "quad:general" });
                } else {
                    loc.class("quad:general");
                }
            } else {
                loc.class("cubic:square_ch_sqr2");
            }
            let want = t.mul(&x, &x);
            cmp(loc, t, "square", &xl.square(), &want, || sx());
            let mut y = xl;
            y.square_in_place();
            cmp(loc, t, "square_in_place", &y, &want, || sx());
            // inverse
            let inv = xl.inverse();
            let mut y = xl;
            let inv2 = y.inverse_in_place().map(|r| *r);
            if is_zero {
                loc.class("inverse:zero");
                loc.check_at("inverse", inv.is_none() && inv2.is_none() && y == xl, || format!("{} inverse of zero must be None", sx()));
            } else {
                match (inv, inv2) {
                    (Some(a), Some(b)) => {
                        let ae = t.from_lib(&a);
                        loc.check_at("inverse", t.mul(&x, &ae) == t.one(), || format!("{} inverse() = {} and x * that != 1", sx(), t.show(&ae)));
                        loc.check_at("inverse_in_place", a == b && y == b, || format!("{} inverse_in_place differs from inverse", sx()));
                    }
                    _ => loc.fail_at("inverse", format!("{} inverse of a non-zero element is None", sx())),
                }
            }
            // frobenius
            if let Some(kmax) = kmax {
                let mut w = x;
                let mut ws: Vec<El<B>> = Vec::with_capacity(deg);
                for k in 0..=*kmax {
                    if k > plan.frob_direct_max {
                        // the tower is (validated to be) a field of p^deg elements: x -> x^p has period deg
                        w = ws[k % deg];
                    } else if k > 0 {
                        w = if linear { fx.frob_lin(&x, k) } else { t.pow(&w, &p) };
                    }
                    if k < deg {
                        ws.push(w);
                    }
                    loc.class_if(k >= deg, "frob:power>=degree");
                    loc.class_if(k > 2 * deg, "frob:power>2*degree");
                    cmp(loc, t, "frobenius_map", &xl.frobenius_map(k), &w, || format!("{} k={k} (want x^(p^k))", sx()));
                    let mut y = xl;
                    y.frobenius_map_in_place(k);
                    cmp(loc, t, "frobenius_map_in_place", &y, &w, || format!("{} k={k}", sx()));
                }
            }
            // scalars
            for s in &plan.scalars {
                let want = t.scale(&x, *s);
                cmp(loc, t, "mul_by_base_prime_field", &xl.mul_by_base_prime_field(&t.b.to_lib(s)), &want, || format!("{} e={}", sx(), t.b.show(s)));
            }
        });
    }
}

/// The operator impls with a reference on the left (`&a + b`, `&a - &b`, `&a / &mut b`, ...: separate bodies in
/// ff/src/fields/arithmetic.rs) are not named by the `Field` bounds: one forwarding trait for both templates.
trait RefLhs: Field {
    /// [&x op y, &x op &y, &x op &mut y] for op in + - * and (only when asked: y is non-zero) /
    fn ref_lhs(&self, y: &Self, with_div: bool) -> Vec<(&'static str, [Self; 3])>;
}
macro_rules! impl_ref_lhs {
    ($T:ident, $C:ident) => {
        impl<P: $C> RefLhs for $T<P> {
            fn ref_lhs(&self, y: &Self, with_div: bool) -> Vec<(&'static str, [Self; 3])> {
                let x = self;
                let mut ym = *y;
                let mut v = vec![("add", [x + *y, x + y, x + &mut ym]), ("sub", [x - *y, x - y, x - &mut ym]), ("mul", [x * *y, x * y, x * &mut ym])];
                if with_div {
                    v.push(("div", [x / *y, x / y, x / &mut ym]));
                }
                v
            }
        }
    };
}
impl_ref_lhs!(QuadExtField, QuadExtConfig);
impl_ref_lhs!(CubicExtField, CubicExtConfig);

/// every remaining way of writing `x op y` must return what the by-value operator returned (`r`, compared with the oracle by the caller)
fn op_variants<F: Field + RefLhs>(loc: &mut Loc, xl: &F, yl: &F, y_is_zero: bool, r: &[Option<F>; 4], s: &dyn Fn() -> String) {
    let (xl, yl) = (*xl, *yl);
    let mut ym = yl;
    let mut bad: Vec<String> = Vec::new();
    let mut note = |ok: bool, what: &str| {
        if !ok {
            bad.push(what.to_string())
        }
    };
    // by-value LHS
    let (mut a1, mut a2) = (xl, xl);
    a1 += yl;
    a2 += &mut ym;
    note(Some(xl + &yl) == r[0] && Some(xl + &mut ym) == r[0] && Some(a1) == r[0] && Some(a2) == r[0], "a + &b | a + &mut b | a += b | a += &mut b");
    let (mut a1, mut a2) = (xl, xl);
    a1 -= yl;
    a2 -= &mut ym;
    note(Some(xl - &yl) == r[1] && Some(xl - &mut ym) == r[1] && Some(a1) == r[1] && Some(a2) == r[1], "a - &b | a - &mut b | a -= b | a -= &mut b");
    let (mut a1, mut a2) = (xl, xl);
    a1 *= yl;
    a2 *= &mut ym;
    note(Some(xl * &yl) == r[2] && Some(xl * &mut ym) == r[2] && Some(a1) == r[2] && Some(a2) == r[2], "a * &b | a * &mut b | a *= b | a *= &mut b");
    if !y_is_zero {
        let (mut a1, mut a2) = (xl, xl);
        a1 /= yl;
        a2 /= &mut ym;
        note(Some(xl / &yl) == r[3] && Some(xl / &mut ym) == r[3] && Some(a1) == r[3] && Some(a2) == r[3], "a / &b | a / &mut b | a /= b | a /= &mut b");
    }
    // reference LHS
    for (k, (op, v)) in xl.ref_lhs(&yl, !y_is_zero).into_iter().enumerate() {
        note(v.iter().all(|g| Some(*g) == r[k]), &format!("&a {op} b | &a {op} &b | &a {op} &mut b"));
    }
    // Sum / Product over owned and borrowed items
    let (s1, s2): (F, F) = ([xl, yl].into_iter().sum(), [xl, yl].iter().sum());
    note(Some(s1) == r[0] && Some(s2) == r[0], "Sum<Self> | Sum<&Self> of [a, b]");
    let (p1, p2): (F, F) = ([xl, yl].into_iter().product(), [xl, yl].iter().product());
    note(Some(p1) == r[2] && Some(p2) == r[2], "Product<Self> | Product<&Self> of [a, b]");
    drop(note);
    loc.check_at("operator_variants", bad.is_empty(), || format!("{}: differ from the by-value operator: {}", s(), bad.join("; ")));
}

fn pairs<B: Base, F: Field<BasePrimeField = B::F> + RefLhs>(ctx: &mut Ctx, fx: &Fx<B>, plan: &Plan<B>) {
    let t = &fx.t;
    let deg = t.deg;
    let top_k = t.top().k;
    for (left, right, tag, variants) in &plan.pairs {
        let (nl, nr) = (left.len(), right.len());
        ctx.sweep(&format!("{}/pairs/{tag}", fx.name), nl * nr, |i, loc| {
            let [ia, ib] = unrank(i, [nl, nr]);
            let (x, y) = (left.get(&t.b, ia), right.get(&t.b, ib));
            let (xl, yl): (F, F) = (t.to_lib(&x), t.to_lib(&y));
            let s = || format!("{} x={} y={}", fx.name, t.show(&x), t.show(&y));
            if loc.sampling() {
                loc.sample(s());
            }
            if top_k == 2 {
                loc.class(if deg == 2 { "quad:degree2_sop_path" } else { "quad:karatsuba_path" });
            } else {
                loc.class("cubic:karatsuba");
            }
            loc.class_if(t.is_zero(&x) || t.is_zero(&y), "mul:zero_operand");
            loc.class_if(x == y, "mul:x==y");
            // results of the by-value operators, for the operator-variant comparison below
            let mut byval: [Option<F>; 4] = [Some(xl + yl), Some(xl - yl), Some(xl * yl), None];
            let want = t.add(&x, &y);
            cmp(loc, t, "add", &byval[0].unwrap(), &want, || s());
            let mut a = xl;
            a += &yl;
            cmp(loc, t, "add_assign", &a, &want, || s());
            let want = t.sub(&x, &y);
            cmp(loc, t, "sub", &byval[1].unwrap(), &want, || s());
            let mut a = xl;
            a -= &yl;
            cmp(loc, t, "sub_assign", &a, &want, || s());
            let want = t.mul(&x, &y);
            cmp(loc, t, "mul", &byval[2].unwrap(), &want, || s());
            let mut a = xl;
            a *= &yl;
            cmp(loc, t, "mul_assign", &a, &want, || s());
            cmp(loc, t, "sum_of_products", &F::sum_of_products(&[xl, yl], &[yl, xl]), &t.add(&want, &want), || format!("{} x*y + y*x", s()));
            if !t.is_zero(&y) {
                let d = xl / yl;
                let de = t.from_lib(&d);
                loc.check_at("div", t.mul(&de, &y) == x, || format!("{} x/y = {} and (x/y)*y != x", s(), t.show(&de)));
                let mut a = xl;
                a /= &yl;
                loc.check_at("div_assign", a == d, || s());
                byval[3] = Some(d);
            }
            if *variants {
                loc.class("operator_variants");
                op_variants(loc, &xl, &yl, t.is_zero(&y), &byval, &s);
            }
        });
    }
}

fn conversions<B: Base, F: Field<BasePrimeField = B::F>>(ctx: &mut Ctx, fx: &Fx<B>, plan: &Plan<B>) {
    let t = &fx.t;
    let p = t.b.p_big();
    let top_k = t.top().k;
    let mut vals: Vec<SBig> = Vec::new();
    let pb = SBig::from(p.clone());
    for v in [0i128, 1, 2, 3, 127, 128, 255, 256, 32767, 32768, 65535, 65536, i32::MAX as i128, 1 << 31, u32::MAX as i128, 1 << 32, i64::MAX as i128, 1 << 63, u64::MAX as i128, 1 << 64, i128::MAX, GENERIC64 as i128] {
        vals.push(SBig::from(v));
        vals.push(SBig::from(-v));
    }
    vals.push(SBig::from(i128::MIN));
    vals.push(SBig::from(u128::MAX));
    for d in [-1i32, 0, 1] {
        vals.push(&pb + d);
        vals.push(-(&pb + d));
        vals.push(&pb * 2 + d);
    }
    vals.sort();
    vals.dedup();
    let vals = &vals;
    ctx.sweep(&format!("{}/conversions/from_int", fx.name), vals.len() as u64, |i, loc| {
        let v = &vals[i as usize];
        use num_integer::Integer;
        let r = v.mod_floor(&pb).to_biguint().unwrap();
        let want = t.embed_fp(t.b.from_big(&r));
        if loc.sampling() {
            loc.sample(format!("{} From<int>({v})", fx.name));
        }
        loc.class_if(v < &SBig::from(0), "from:negative");
        loc.class_if(v >= &pb, "from:>=p");
        macro_rules! tr {
            ($($ty:ty),*) => {$(
                if let Ok(n) = <$ty>::try_from(v.clone()) {
                    cmp(loc, t, concat!("From<", stringify!($ty), ">"), &F::from(n), &want, || format!("{} From<{}>({n})", fx.name, stringify!($ty)));
                }
            )*};
        }
        tr!(u8, u16, u32, u64, u128, i8, i16, i32, i64, i128);
    });
    let scal = &plan.scalars;
    ctx.sweep(&format!("{}/conversions/misc", fx.name), 1, |_, loc| {
        for s in scal {
            cmp(loc, t, "from_base_prime_field", &F::from_base_prime_field(t.b.to_lib(s)), &t.embed_fp(*s), || format!("{} e={}", fx.name, t.b.show(s)));
        }
        let ch: Vec<u64> = F::characteristic().to_vec();
        loc.check_at("characteristic", algebra_mc::refmodel::zmod::from_limbs(&ch) == p, || format!("{} characteristic() = {ch:x?}", fx.name));
        loc.check_at("extension_degree", F::extension_degree() == t.deg as u64, || format!("{} extension_degree() = {}", fx.name, F::extension_degree()));
        cmp(loc, t, "ZERO", &F::ZERO, &t.zero(), || fx.name.clone());
        cmp(loc, t, "ONE", &F::ONE, &t.one(), || fx.name.clone());
        cmp(loc, t, "zero()", &F::zero(), &t.zero(), || fx.name.clone());
        cmp(loc, t, "one()", &F::one(), &t.one(), || fx.name.clone());
        let one = t.b.to_lib(&t.b.one());
        for n in [0, 1, t.deg - 1, t.deg + 1, 2 * t.deg] {
            let r = F::from_base_prime_field_elems(std::iter::repeat(one).take(n));
            loc.check_at("from_base_prime_field_elems", r.is_none(), || format!("{} accepts {n} coordinates (degree {})", fx.name, t.deg));
        }
        if top_k == 2 {
            // (CubicExtField: From<bool> recurses unconditionally - probed in a child process, see main)
            cmp(loc, t, "From<bool>", &F::from(true), &t.one(), || format!("{} From<bool>(true)", fx.name));
            cmp(loc, t, "From<bool>", &F::from(false), &t.zero(), || format!("{} From<bool>(false)", fx.name));
        }
    });
}

/// NAF of e has a negative digit (own boring recoding)
fn naf_has_negative(e: &[u64]) -> bool {
    let mut n = algebra_mc::refmodel::zmod::from_limbs(e);
    let four = BigUint::from(4u32);
    while !n.is_zero() {
        if n.bit(0) {
            let r = (&n % &four).to_u32().unwrap();
            if r == 3 {
                return true;
            }
            n -= 1u32;
        }
        n >>= 1;
    }
    false
}

fn cyclo<B: Base, F: Field<BasePrimeField = B::F> + CyclotomicMultSubgroup>(ctx: &mut Ctx, fx: &Fx<B>, plan: &Plan<B>) {
    let t = &fx.t;
    let els = &plan.cyclo;
    let exps = &plan.exps;
    let gs = t.deg == 12;
    ctx.sweep(&format!("{}/cyclotomic/subgroup", fx.name), els.len() as u64, |i, loc| {
        let c = els[i as usize];
        let cl: F = t.to_lib(&c);
        let s = || format!("{} c={} (in the cyclotomic subgroup)", fx.name, t.show(&c));
        if loc.sampling() {
            loc.sample(s());
        }
        loc.class_if(gs, "cyclo:granger_scott_square");
        loc.class_if(c == t.one(), "cyclo:identity");
        label(loc, t, &c, false);
        let want = t.mul(&c, &c);
        cmp(loc, t, "cyclotomic_square", &cl.cyclotomic_square(), &want, || s());
        let mut y = cl;
        y.cyclotomic_square_in_place();
        cmp(loc, t, "cyclotomic_square_in_place", &y, &want, || s());
        match cl.cyclotomic_inverse() {
            Some(a) => {
                let ae = t.from_lib(&a);
                loc.check_at("cyclotomic_inverse", t.mul(&ae, &c) == t.one(), || format!("{} cyclotomic_inverse = {} and c * that != 1", s(), t.show(&ae)));
                let mut y = cl;
                let r = y.cyclotomic_inverse_in_place().map(|r| *r);
                loc.check_at("cyclotomic_inverse_in_place", r == Some(a) && y == a, || s());
            }
            None => loc.fail_at("cyclotomic_inverse", format!("{} cyclotomic_inverse is None", s())),
        }
        for e in exps {
            let want = t.pow(&c, e);
            if F::INVERSE_IS_FAST {
                loc.class_if(naf_has_negative(e), "cyclo:naf_negative_digit");
            } else {
                loc.class("cyclo:plain_bits");
            }
            loc.class_if(e.len() > 1 && *e.last().unwrap() == 0, "cyclo:exp_leading_zero_limb");
            loc.class_if(e.len() >= 4, "cyclo:exp_4_or_more_limbs");
            cmp(loc, t, "cyclotomic_exp", &cl.cyclotomic_exp(e), &want, || format!("{} e={e:x?}", s()));
            let mut y = cl;
            y.cyclotomic_exp_in_place(e);
            cmp(loc, t, "cyclotomic_exp_in_place", &y, &want, || format!("{} e={e:x?}", s()));
        }
    });
    // zero is outside the subgroup.  The rustdoc of cyclotomic_inverse[_in_place] promises None for zero; nothing is
    // promised about the other methods on zero: they are called (a panic is reported by the engine), the value is a metric
    ctx.sweep(&format!("{}/cyclotomic/zero", fx.name), 1, |_, loc| {
        let z = F::zero();
        let mut zz = z;
        loc.check_at("cyclotomic_inverse(0)", z.cyclotomic_inverse().is_none() && zz.cyclotomic_inverse_in_place().is_none(), || format!("{} cyclotomic_inverse(0) must be None (documented)", fx.name));
        let r = z.cyclotomic_exp([5u64]);
        let mut zz = z;
        zz.cyclotomic_exp_in_place([5u64]);
        let _ = z.cyclotomic_square();
        loc.class_if(r.is_zero() && zz.is_zero(), "observed:cyclotomic_exp(0)_is_zero");
        loc.op();
    });
    // outside the subgroup nothing is claimed: the calls are made, differences are only counted
    let out = &plan.cyclo_out;
    if !out.is_empty() {
        let (mut dsq, mut dinv, mut panics) = (0u64, 0u64, 0u64);
        for c in out {
            let cl: F = t.to_lib(c);
            QUIET_PANICS.with(|q| q.set(true));
            let r = std::panic::catch_unwind(std::panic::AssertUnwindSafe(|| (cl.cyclotomic_square(), cl.cyclotomic_inverse(), cl.cyclotomic_exp([3u64]))));
            QUIET_PANICS.with(|q| q.set(false));
            match r {
                Ok((sq, inv, _)) => {
                    if t.from_lib(&sq) != t.mul(c, c) {
                        dsq += 1;
                    }
                    if inv.map(|a| t.mul(&t.from_lib(&a), c) != t.one()).unwrap_or(true) {
                        dinv += 1;
                    }
                }
                Err(_) => panics += 1,
            }
        }
        ctx.bound(
            &format!("{}.outside_cyclotomic_subgroup(no claim)", fx.name),
            format!("{} elements: cyclotomic_square != square on {dsq}, cyclotomic_inverse != inverse on {dinv}, panics {panics}", out.len()),
        );
    }
}

/// norm / conjugate of the top quadratic step
fn quad_unary<B: Base, P: QuadExtConfig<BasePrimeField = B::F>>(ctx: &mut Ctx, fx: &Fx<B>, plan: &Plan<B>) {
    let t = &fx.t;
    let bd = t.top().bd;
    for (uni, tag, sub, _) in &plan.unary {
        ctx.sweep(&format!("{}/quad_unary/{tag}", fx.name), uni.len(), |i, loc| {
            let x = uni.get(&t.b, i);
            let xl: QuadExtField<P> = t.to_lib(&x);
            let s = || format!("{} x={}", fx.name, t.show(&x));
            label(loc, t, &x, *sub);
            // coordinate order of new(c0, c1)
            let c0: P::BaseField = P::BaseField::from_base_prime_field_elems(x[..bd].iter().map(|c| t.b.to_lib(c))).unwrap();
            let c1: P::BaseField = P::BaseField::from_base_prime_field_elems(x[bd..2 * bd].iter().map(|c| t.b.to_lib(c))).unwrap();
            loc.check_at("new", QuadExtField::<P>::new(c0, c1) == xl && xl.c0 == c0 && xl.c1 == c1, || format!("{} new(c0,c1) coordinate order", s()));
            let want = t.norm_det(&x);
            let (got, n) = coords(&t.b, &xl.norm());
            loc.check_at("norm", n == bd && got == want, || format!("{} norm() = {} want {} (c0^2 - nr c1^2)", s(), t.showd(&got, n), t.showd(&want, bd)));
            // conjugate = (c0, -c1)
            let mut want = x;
            for j in bd..2 * bd {
                want[j] = t.b.neg(x[j]);
            }
            let mut y = xl;
            y.conjugate_in_place();
            cmp(loc, t, "conjugate_in_place", &y, &want, || s());
        });
    }
}

fn cubic_unary<B: Base, P: CubicExtConfig<BasePrimeField = B::F>>(ctx: &mut Ctx, fx: &Fx<B>, plan: &Plan<B>) {
    let t = &fx.t;
    let bd = t.top().bd;
    for (uni, tag, sub, _) in &plan.unary {
        ctx.sweep(&format!("{}/cubic_unary/{tag}", fx.name), uni.len(), |i, loc| {
            let x = uni.get(&t.b, i);
            let xl: CubicExtField<P> = t.to_lib(&x);
            let s = || format!("{} x={}", fx.name, t.show(&x));
            label(loc, t, &x, *sub);
            let mk = |r: std::ops::Range<usize>| -> P::BaseField { P::BaseField::from_base_prime_field_elems(x[r].iter().map(|c| t.b.to_lib(c))).unwrap() };
            let (c0, c1, c2) = (mk(0..bd), mk(bd..2 * bd), mk(2 * bd..3 * bd));
            loc.check_at("new", CubicExtField::<P>::new(c0, c1, c2) == xl && xl.c0 == c0 && xl.c1 == c1 && xl.c2 == c2, || format!("{} new(c0,c1,c2) coordinate order", s()));
            let want = t.norm_det(&x);
            let (got, n) = coords(&t.b, &xl.norm());
            loc.check_at("norm", n == bd && got == want, || format!("{} norm() = {} want {} (det of mul-by-x)", s(), t.showd(&got, n), t.showd(&want, bd)));
        });
    }
}

/// `apply(x, operand coordinates)` must equal the dense product of x with the element whose coordinates at
/// `positions` are the operand and zero elsewhere; all operands over the coefficient letters x all left operands.
fn sparse_sweep<B: Base, F: Field<BasePrimeField = B::F>>(
    ctx: &mut Ctx,
    fx: &Fx<B>,
    plan: &Plan<B>,
    site: &'static str,
    positions: &[usize],
    apply: impl Fn(&mut F, &[B::F]) + Sync,
) {
    let m = positions.len();
    let letters = plan.coef(m);
    sparse_inner::<B, F>(ctx, fx, &format!("{}/sparse/{site}", fx.name), site, positions, &plan.sparse_left, letters, &apply);
    // all sparse operands x a small structured set of left operands, where the pass above had to fall back to fewer letters
    if let (Some(all), Some(small_left)) = (&plan.coef_all, &plan.sparse_left_small) {
        if letters.len() < all.len() && (all.len() as f64).powi(m as i32) * small_left.len() as f64 <= plan.sparse_budget as f64 {
            sparse_inner::<B, F>(ctx, fx, &format!("{}/sparse/{site}/all_operands", fx.name), site, positions, small_left, all, &apply);
        }
    }
}

fn sparse_inner<B: Base, F: Field<BasePrimeField = B::F>>(
    ctx: &mut Ctx,
    fx: &Fx<B>,
    sweep: &str,
    site: &'static str,
    positions: &[usize],
    left: &Uni<B>,
    letters: &Vec<B::C>,
    apply: &(impl Fn(&mut F, &[B::F]) + Sync),
) {
    let t = &fx.t;
    let m = positions.len();
    let nl = left.len();
    let na = letters.len() as u64;
    let nops = na.pow(m as u32);
    ctx.sweep(sweep, nl * nops, |i, loc| {
        let [il, mut io] = unrank(i, [nl, nops]);
        let x = left.get(&t.b, il);
        let mut sp = t.zero();
        let mut args: Vec<B::F> = Vec::with_capacity(m);
        let mut zeros = 0;
        for j in 0..m {
            let c = letters[(io % na) as usize];
            io /= na;
            sp[positions[j]] = c;
            args.push(t.b.to_lib(&c));
            if c == t.b.zero() {
                zeros += 1;
            }
        }
        loc.class(site);
        loc.class_if(zeros > 0, "sparse:operand_with_zero_coefficient");
        loc.class_if(t.is_zero(&x), "sparse:left_zero");
        let mut xl: F = t.to_lib(&x);
        apply(&mut xl, &args);
        let want = t.mul(&x, &sp);
        if loc.sampling() {
            loc.sample(format!("{} {site} x={} operand={}", fx.name, t.show(&x), t.show(&sp)));
        }
        cmp(loc, t, site, &xl, &want, || format!("{} x={} sparse operand (embedded)={}", fx.name, t.show(&x), t.show(&sp)));
    });
}

// ------------------------------------------------------------------------------------------------ self-validation helpers
fn to_el<B: Base>(t: &Tower<B>, v: &[B::C]) -> El<B> {
    let mut o = t.zero();
    o[..v.len()].copy_from_slice(v);
    o
}

fn factor(mut n: u64) -> Vec<u64> {
    let mut f = Vec::new();
    let mut d = 2;
    while d * d <= n {
        if n % d == 0 {
            f.push(d);
            while n % d == 0 {
                n /= d;
            }
        }
        d += if d == 2 { 1 } else { 2 };
    }
    if n > 1 {
        f.push(n);
    }
    f
}

/// every level's non-residue really is a non-square / non-cube of the field below (so the tower is a field)
fn validate_tower<B: Base>(ctx: &mut Ctx, t: &Tower<B>, name: &str) {
    let p = t.b.p_big();
    for (l, lev) in t.levels.iter().enumerate() {
        let q = num_traits::pow(p.clone(), lev.bd);
        let qm1 = &q - 1u32;
        let one = t.one();
        let ok = if lev.k == 2 {
            let e = &qm1 / 2u32;
            t.lpow(l, &lev.nr, &e.to_u64_digits()) == t.neg(&one)
        } else {
            (&qm1 % 3u32).is_zero() && t.lpow(l, &lev.nr, &(&qm1 / 3u32).to_u64_digits()) != one
        };
        ctx.validate(ok, &format!("{name}: level {} non-residue {} is not a non-{} of the field below", l + 1, t.showd(&lev.nr, lev.bd), if lev.k == 2 { "square" } else { "cube" }));
    }
}

/// gen^(p^k) == table[k] * gen for the adjoined root (gen_pow = 1) or its square (gen_pow = 2): the meaning of a
/// Frobenius coefficient table, checked entry by entry with the oracle (toys: double-check of gen/towers.py)
fn validate_frob_table<B: Base, C: Field<BasePrimeField = B::F>>(ctx: &mut Ctx, fx: &Fx<B>, table: &[C], gen_pow: usize, what: &str) {
    let t = &fx.t;
    ctx.validate(table.len() == t.deg, &format!("{}: {what} has {} entries, degree is {}", fx.name, table.len(), t.deg));
    let mut gen = t.zero();
    gen[gen_pow * t.top().bd] = t.b.one();
    for (k, c) in table.iter().enumerate() {
        let (ce, n) = coords(&t.b, c);
        let ok = n <= t.top().bd && t.mul(&ce, &gen) == t.frob_direct(&gen, k);
        ctx.validate(ok, &format!("{}: {what}[{k}] = {} is not gen^(p^{k}) / gen", fx.name, t.showd(&ce, n)));
    }
}

fn relevant(ctx: &Ctx, name: &str) -> bool {
    if let Some((sweep, _)) = &ctx.replay {
        return sweep.starts_with(&format!("{name}/"));
    }
    if let Some(o) = &ctx.only {
        let o = o.as_str();
        let refers = TOWER_TABLE.iter().map(|r| r.0).chain(SHIPPED_NAMES.iter().copied()).any(|n| n.contains(o) || o.contains(n));
        if refers {
            return name.contains(o) || o.contains(name);
        }
        return !o.starts_with("seq") && !o.starts_with("probe");
    }
    true
}

// ------------------------------------------------------------------------------------------------ toy plans
fn toy_setup<F: PrimeField>(ctx: &mut Ctx, name: &str, p: u64, consts: Vec<(usize, Vec<F>)>) -> Option<(Fx<Zp<F>>, Plan<Zp<F>>)> {
    if !relevant(ctx, name) {
        return None;
    }
    let row = TOWER_TABLE.iter().find(|r| *r.0 == *name).expect("tower in TOWER_TABLE");
    let (_, kind, tp, beta, xa, xb, _) = *row;
    let b = Zp::<F> { p, _f: PhantomData };
    let spec: Vec<(usize, Vec<u64>)> = match kind {
        "fp2" => vec![(2, vec![beta])],
        "fp3" => vec![(3, vec![beta])],
        "fp4" => vec![(2, vec![beta]), (2, vec![0, 1])],
        "fp6_2over3" => vec![(3, vec![beta]), (2, vec![0, 1, 0])],
        "fp6_3over2" => vec![(2, vec![beta]), (3, vec![xa, xb])],
        "fp12" => vec![(2, vec![beta]), (3, vec![xa, xb]), (2, vec![0, 0, 1, 0, 0, 0])],
        _ => panic!("kind"),
    };
    let t = Tower::new(b.clone(), &spec);
    let deg = t.deg;
    ctx.validate(tp == p && p < (1 << 20) && (2..p).take_while(|d| d * d <= p).all(|d| p % d != 0), &format!("{name}: p = {p} must be a small prime"));
    ctx.validate(F::MODULUS.as_ref()[0] == p && F::MODULUS.as_ref()[1..].iter().all(|l| *l == 0), &format!("{name}: base field modulus != {p}"));
    let from_consts: Vec<(usize, Vec<u64>)> = consts.iter().map(|(k, v)| (*k, v.iter().map(|c| b.from_lib(c)).collect())).collect();
    ctx.validate(from_consts == spec, &format!("{name}: NONRESIDUE constants {from_consts:?} differ from TOWER_TABLE {spec:?}"));
    validate_tower(ctx, &t, name);
    let q = p.pow(deg as u32);
    let kmax = 2 * deg;
    // F_p-linear Frobenius oracle from basis images
    let mut fm: Vec<Vec<El<Zp<F>>>> = Vec::new();
    let mut cur: Vec<El<Zp<F>>> = (0..deg)
        .map(|i| {
            let mut e = t.zero();
            e[i] = 1;
            e
        })
        .collect();
    fm.push(cur.clone());
    for _ in 1..=kmax {
        cur = cur.iter().map(|e| t.pow(e, &[p])).collect();
        fm.push(cur.clone());
    }
    let fx = Fx { name: name.to_string(), t, fm: Some(fm) };
    let t = &fx.t;
    // generator of F_p^*, primitive element of F_q^*
    let fs = factor(p - 1);
    let g = (2..p).find(|g| fs.iter().all(|l| PrimeM(p).pow(*g, (p - 1) / l) != 1)).unwrap_or(1);
    let all_letters: Vec<u64> = (0..p).collect();
    let whole = Uni::Alpha { letters: all_letters.clone(), deg };
    let qf = factor(q - 1);
    let one = t.one();
    // candidates: digits of i in reversed coordinate order (top coordinate first) plus 1, so that they do not lie in a subfield
    let gamma = (1..q)
        .map(|i| {
            let d = whole.get(&b, i);
            let mut x = t.zero();
            for k in 0..deg {
                x[deg - 1 - k] = d[k];
            }
            x[0] = b.add(x[0], 1);
            x
        })
        .find(|x| qf.iter().all(|l| t.pow(x, &[(q - 1) / l]) != one))
        .expect("primitive element");
    ctx.validate(t.pow(&gamma, &[q - 1]) == one, &format!("{name}: gamma^(q-1) != 1"));
    let subfield = |d: usize, cap: u64| -> Vec<El<Zp<F>>> {
        let n = p.pow(d as u32) - 1;
        let h = t.pow(&gamma, &[(q - 1) / n]);
        let stride = (n / cap.min(n)).max(1);
        let hs = t.pow(&h, &[stride]);
        let mut v = vec![t.zero()];
        let mut c = one;
        for _ in 0..(n / stride) {
            v.push(c);
            c = t.mul(&c, &hs);
        }
        v
    };
    let divisors: Vec<usize> = (1..deg).filter(|d| deg % d == 0).collect();
    // structured list S
    let mut l4 = vec![0, 1, p - 1, g];
    l4.dedup();
    let mut l4u = Vec::new();
    for x in l4 {
        if !l4u.contains(&x) {
            l4u.push(x);
        }
    }
    let l4 = l4u;
    let mut s: Vec<El<Zp<F>>> = Vec::new();
    let l_alpha: Vec<u64> = if ctx.quick() && deg >= 6 { vec![0, 1, g] } else { l4.clone() };
    if (l_alpha.len() as u64).pow(deg as u32) <= 5000 {
        s.extend(Uni::<Zp<F>>::Alpha { letters: l_alpha.clone(), deg }.to_vec(&b));
    } else {
        let bases: Vec<(u64, usize)> = if ctx.quick() { vec![(0, 2), (g, 1)] } else { vec![(0, 2), (g, 2), (1, 2)] };
        for (base, d) in bases {
            for v in deviation_ball(&vec![base; deg], &l4, d) {
                s.push(to_el(t, &v));
            }
        }
    }
    let sub_cap = if ctx.quick() && deg >= 6 { 100 } else { 400 };
    for d in &divisors {
        s.extend(subfield(*d, sub_cap));
    }
    s.push(gamma);
    let s = dedup_els(t, s);
    let bad: Vec<String> = s
        .par_iter()
        .take(1500)
        .filter_map(|x| {
            // Frobenius oracle: linear form == repeated p-th powers; it is the identity at k = deg
            let mut w = *x;
            for k in 0..=kmax {
                if k > 0 {
                    w = t.pow(&w, &[p]);
                }
                if fx.frob_lin(x, k) != w {
                    return Some(format!("{name}: linear Frobenius oracle != x^(p^{k}) at {}", t.show(x)));
                }
                if k == deg && w != *x {
                    return Some(format!("{name}: x^(p^deg) != x at {}", t.show(x)));
                }
            }
            // norm oracle: determinant form == product of conjugates
            let bd = t.top().bd;
            let mut prod = one;
            for i in 0..t.top().k {
                prod = t.mul(&prod, &fx.frob_lin(x, i * bd));
            }
            if t.norm_det(x) != prod {
                return Some(format!("{name}: norm oracle (determinant) != product of conjugates at {}", t.show(x)));
            }
            None
        })
        .collect();
    ctx.validate(bad.is_empty(), &bad.first().cloned().unwrap_or_default());
    let s_uni = Uni::list(s.clone());
    // unary universes
    let umax: u64 = ctx.t(3_000_000, 300_000_000);
    let mut un: Vec<(Uni<Zp<F>>, String, bool, Option<usize>)> = Vec::new();
    if q <= umax {
        un.push((whole.clone(), "all".into(), false, Some(kmax)));
    } else {
        un.push((s_uni.clone(), "structured".into(), false, Some(kmax)));
    }
    if q > umax && deg == 12 {
        let half = Uni::Alpha { letters: all_letters.clone(), deg: deg / 2 };
        let l3 = vec![0, 1, p - 1];
        let hd = deg / 2;
        let split = |lo: &Uni<Zp<F>>, hi: &Uni<Zp<F>>| Uni::Split { lo: Box::new(lo.clone()), hi: Box::new(hi.clone()), hd };
        let zero_half = Uni::list(vec![t.zero()]);
        if p == 7 {
            un.push((half.clone(), "c1=0(all of Fp6)".into(), true, Some(kmax)));
            if ctx.quick() {
                un.push((Uni::Alpha { letters: l3, deg }, "coords{0,1,-1}".into(), false, Some(deg + 1)));
            } else {
                un.push((Uni::Alpha { letters: l4.clone(), deg }, "coords{0,1,-1,g}".into(), false, Some(kmax)));
                un.push((split(&zero_half, &half), "c0=0".into(), false, Some(kmax)));
                // (every a in Fp6) x (64 structured halves), both orders
                let mut s64 = Vec::new();
                let trip = Uni::<Zp<F>>::Alpha { letters: vec![1, p - 1, g, 2], deg: 3 }.to_vec(&b);
                for (j, sb) in trip.iter().enumerate() {
                    let mut e = t.zero();
                    for c in 0..3 {
                        e[2 * c + j % 2] = sb[c];
                    }
                    s64.push(e);
                }
                let s64 = Uni::list(s64);
                un.push((split(&half, &s64), "allFp6_x_64".into(), false, Some(kmax)));
                un.push((split(&s64, &half), "64_x_allFp6".into(), false, Some(kmax)));
            }
        } else if ctx.thorough() {
            un.push((Uni::Alpha { letters: l3, deg }, "coords{0,1,-1}".into(), false, Some(kmax)));
            un.push((half.clone(), "c1=0(all of Fp6)".into(), true, Some(kmax)));
        }
    }
    // every proper subfield (most are not coordinate subspaces) as its own universe
    for d in &divisors {
        let n = p.pow(*d as u32);
        let half_pushed = q > umax && deg == 12 && (p == 7 || ctx.thorough()) && *d == deg / 2;
        if n <= ctx.t(200_000, 6_000_000) && n < q && !half_pushed {
            un.push((Uni::list(subfield(*d, u64::MAX)), format!("subfield_p^{d}"), true, Some(kmax)));
        }
    }
    // pairs
    let pmax: f64 = ctx.t(4e7, 1.2e9);
    let mut pr: Vec<(Uni<Zp<F>>, Uni<Zp<F>>, String, bool)> = Vec::new();
    if (q as f64) * (q as f64) <= pmax {
        pr.push((whole.clone(), whole.clone(), "all_pairs".into(), q <= 400));
    } else {
        pr.push((s_uni.clone(), s_uni.clone(), "structured_pairs".into(), false));
        if q <= ctx.t(250_000, 6_000_000) {
            let mut s8 = vec![t.zero(), one, gamma, to_el(t, &vec![g; deg]), t.neg(&one)];
            let mut mixed = t.zero();
            for i in 0..deg {
                mixed[i] = [1, p - 1, g, 0, 2 % p][i % 5];
            }
            s8.push(mixed);
            let mut genel = t.zero();
            genel[t.top().bd] = 1;
            s8.push(genel);
            s8.push(subfield(divisors[divisors.len() - 1], 3)[2]);
            let s8 = Uni::list(dedup_els(t, s8));
            pr.push((whole.clone(), s8.clone(), "all_x_8".into(), false));
            pr.push((s8, whole.clone(), "8_x_all".into(), false));
        }
    }
    let sparse_left = if q <= 250_000 { whole.clone() } else { s_uni.clone() };
    let mut sl: Vec<El<Zp<F>>> = vec![gamma];
    for base in [0, g] {
        for v in deviation_ball(&vec![base; deg], &l4, 1) {
            sl.push(to_el(t, &v));
        }
    }
    let sparse_left_small = Some(Uni::list(dedup_els(t, sl)));
    if q > 400 {
        // every operator impl variant on (gamma + dev<=1 balls around 0..0 and g..g)^2
        let v = sparse_left_small.clone().unwrap();
        pr.push((v.clone(), v, "operator_variants".into(), true));
    }
    let scalars: Vec<u64> = if (q as f64) * (p as f64) <= 5e7 {
        all_letters.clone()
    } else {
        let mut v = l4.clone();
        if !v.contains(&(2 % p)) {
            v.push(2 % p);
        }
        v
    };
    // cyclotomic subgroup of order Phi_deg(p), enumerated entirely
    let phi: u64 = match deg {
        2 => p + 1,
        3 => p * p + p + 1,
        4 => p * p + 1,
        6 => p * p - p + 1,
        12 => p.pow(4) - p * p + 1,
        _ => unreachable!(),
    };
    ctx.validate((q - 1) % phi == 0, &format!("{name}: Phi does not divide q-1"));
    let h = t.pow(&gamma, &[(q - 1) / phi]);
    let mut cyc = Vec::with_capacity(phi as usize);
    let mut c = one;
    for _ in 0..phi {
        cyc.push(c);
        c = t.mul(&c, &h);
    }
    ctx.validate(c == one, &format!("{name}: h^Phi != 1"));
    ctx.validate(dedup_els(t, cyc.clone()).len() as u64 == phi, &format!("{name}: cyclotomic subgroup enumeration is not {phi} distinct elements"));
    ctx.validate(cyc.par_iter().all(|c| t.pow(c, &[phi]) == one), &format!("{name}: some enumerated element has c^Phi != 1"));
    let cyclo_out: Vec<El<Zp<F>>> = s.iter().filter(|x| !t.is_zero(x) && t.pow(x, &[phi]) != one).take(300).copied().collect();
    let mut exps: Vec<Vec<u64>> = vec![vec![0], vec![1], vec![2], vec![3], vec![5], vec![7], vec![phi - 1], vec![phi], vec![phi + 1], vec![3, 0], vec![0, 0]];
    exps.push(vec![u64::MAX]);
    if !(ctx.quick() && phi > 5000) {
        exps.push(vec![GENERIC64]);
        exps.push(vec![0, 1]);
        exps.push(vec![u64::MAX, 1]);
        exps.push(vec![GENERIC64, 0]);
    }
    ctx.bound(&format!("{name}.universe"), format!("p={p} deg={deg} |F|={q} structured={} cyclotomic(Phi_{deg})={phi}", s.len()));
    let plan = Plan {
        unary: un,
        pairs: pr,
        sparse_left,
        sparse_left_small,
        coef_all: Some(all_letters),
        coef_tiny: vec![0, 1, g],
        coef_small: l4,
        scalars,
        cyclo: cyc,
        cyclo_out,
        exps,
        sparse_budget: (ctx.t(1.2e8, 6e9) / (deg as f64).powf(1.5)) as u64,
        linear_frob_from: 50_000,
        frob_direct_max: usize::MAX,
    };
    Some((fx, plan))
}

#[derive(Clone, Copy)]
struct PrimeM(u64);
impl PrimeM {
    fn pow(&self, mut b: u64, mut e: u64) -> u64 {
        let mut r = 1;
        while e > 0 {
            if e & 1 == 1 {
                r = r * b % self.0;
            }
            b = b * b % self.0;
            e >>= 1;
        }
        r
    }
}

// ------------------------------------------------------------------------------------------------ shipped plans
fn shipped_setup<F: PrimeField>(ctx: &mut Ctx, name: &str, consts: Vec<(usize, Vec<F>)>) -> Option<(Fx<Lp<F>>, Plan<Lp<F>>)> {
    if !relevant(ctx, name) {
        return None;
    }
    let b = Lp::<F>(PhantomData);
    let t = Tower::new(b.clone(), &consts);
    let deg = t.deg;
    validate_tower(ctx, &t, name);
    let fx = Fx { name: name.to_string(), t, fm: None };
    let t = &fx.t;
    let p = b.p_big();
    let g = F::GENERATOR;
    let half = F::from((&p - 1u32) / 2u32);
    let beta = t.levels[0].nr[0];
    let mut letters: Vec<F> = Vec::new();
    for c in [F::ZERO, F::ONE, -F::ONE, F::from(2u64), g, half, beta] {
        if !letters.contains(&c) {
            letters.push(c);
        }
    }
    let ball = |d: usize| -> Vec<El<Lp<F>>> {
        let mut v = Vec::new();
        for base in [F::ZERO, g] {
            for e in deviation_ball(&vec![base; deg], &letters, d) {
                v.push(to_el(t, &e));
            }
        }
        dedup_els(t, v)
    };
    let du = ctx.t(2, 3);
    let u = ball(du);
    let d1 = ball(1);
    // frobenius subset: 12 elements spread over the dev-2 list + one with all letters
    let d2 = if du == 2 { u.clone() } else { ball(2) };
    let nf = ctx.t(63usize, 127);
    let mut fsub: Vec<El<Lp<F>>> = (0..nf).map(|i| d2[(i * (d2.len() - 1)) / (nf - 1)]).collect();
    let mut mixed = t.zero();
    for i in 0..deg {
        mixed[i] = letters[(i + 1) % letters.len()];
    }
    fsub.push(mixed);
    let fsub = dedup_els(t, fsub);
    // powers 0..=2*deg+1: by successive p-th powers up to deg+1 (quick) / 2*deg (thorough), the rest through the period deg
    let kmax = 2 * deg + 1;
    let frob_direct_max = ctx.t(deg + 1, 2 * deg);
    let mut un = vec![(Uni::list(u.clone()), format!("dev{du}"), false, None), (Uni::list(fsub.clone()), "frobenius_subset".into(), false, Some(kmax))];
    // elements of the embedded base field (coordinate subspace) are in the dev sets; label comes from `label`
    let _ = &mut un;
    let mut pr = Vec::new();
    let s12: Vec<El<Lp<F>>> = fsub.iter().step_by((fsub.len() / 12).max(1)).copied().chain(std::iter::once(mixed)).collect();
    let s12 = Uni::list(dedup_els(t, s12));
    if ctx.quick() {
        pr.push((Uni::list(d1.clone()), Uni::list(d1.clone()), "dev1_x_dev1".into(), false));
        pr.push((Uni::list(u.clone()), s12.clone(), format!("dev{du}_x_12"), false));
        pr.push((s12.clone(), Uni::list(u.clone()), format!("12_x_dev{du}"), false));
    } else if deg <= 6 {
        pr.push((Uni::list(d2.clone()), Uni::list(d2.clone()), "dev2_x_dev2".into(), false));
    } else {
        pr.push((Uni::list(d2.clone()), Uni::list(d1.clone()), "dev2_x_dev1".into(), false));
        pr.push((Uni::list(d1.clone()), Uni::list(d2.clone()), "dev1_x_dev2".into(), false));
    }
    // every operator impl variant on dev<=1 x 12 and 12 x dev<=1
    pr.push((Uni::list(d1.clone()), s12.clone(), "operator_variants/dev1_x_12".into(), true));
    pr.push((s12, Uni::list(d1.clone()), "operator_variants/12_x_dev1".into(), true));
    // cyclotomic subgroup members x^((p^deg - 1)/Phi_deg(p)) for structured x
    let pp = |k: u32| num_traits::pow(p.clone(), k as usize);
    let phi: BigUint = match deg {
        2 => &p + 1u32,
        3 => pp(2) + &p + 1u32,
        4 => pp(2) + 1u32,
        6 => pp(2) - &p + 1u32,
        12 => pp(4) - pp(2) + 1u32,
        _ => unreachable!(),
    };
    let e = (pp(deg as u32) - 1u32) / &phi;
    let mut xs = vec![mixed, to_el(t, &vec![g; deg]), to_el(t, &vec![F::ONE; deg])];
    let mut genel = t.zero();
    genel[t.top().bd] = F::ONE;
    genel[0] = g;
    xs.push(genel);
    let mut alt = t.zero();
    for i in 0..deg {
        alt[i] = if i % 2 == 0 { -F::ONE } else { half };
    }
    xs.push(alt);
    xs.push(d2[d2.len() / 3]);
    let computed: Vec<(El<Lp<F>>, bool, bool)> = xs
        .par_iter()
        .filter(|x| !t.is_zero(x))
        .map(|x| {
            let c = t.pow_big(x, &e);
            (c, t.pow_big(&c, &phi) == t.one(), t.pow_big(x, &phi) != t.one())
        })
        .collect();
    let mut cyc = Vec::new();
    for (c, ok, _) in &computed {
        ctx.validate(*ok, &format!("{name}: x^((q-1)/Phi) is not in the subgroup of order Phi"));
        cyc.push(*c);
    }
    cyc.push(t.one());
    let cyc = dedup_els(t, cyc);
    ctx.validate(cyc.len() >= 4, &format!("{name}: fewer than 4 distinct cyclotomic elements"));
    let cyclo_out: Vec<El<Lp<F>>> = xs.iter().filter(|x| !t.is_zero(x)).zip(computed.iter()).filter(|(_, c)| c.2).map(|(x, _)| *x).take(4).collect();
    let exps: Vec<Vec<u64>> = vec![
        vec![0],
        vec![1],
        vec![2],
        vec![3],
        vec![7],
        vec![GENERIC64],
        vec![u64::MAX],
        vec![3, 0],
        vec![u64::MAX, 1],
        vec![0, 1],
        // 3 limbs with a zero high limb, 4 limbs, 6 limbs (wider than one Fp of most towers; zero limbs inside)
        vec![GENERIC64, u64::MAX, 0],
        vec![GENERIC64, 1, u64::MAX, GENERIC64 >> 1],
        vec![u64::MAX, 0, GENERIC64, 1, 0, (1 << 63) | 5],
    ];
    let coef_small = if ctx.quick() { vec![F::ZERO, F::ONE, g] } else { vec![F::ZERO, F::ONE, -F::ONE, g] };
    ctx.bound(&format!("{name}.alphabet"), format!("deg={deg} letters={} unary=dev<={du} ({} elements) frobenius_subset={} k<={kmax} cyclotomic={}", letters.len(), u.len(), fsub.len(), cyc.len()));
    let plan = Plan {
        unary: un,
        pairs: pr,
        sparse_left: Uni::list(d1),
        sparse_left_small: None,
        coef_all: Some(letters.clone()),
        coef_tiny: vec![F::ZERO, F::ONE, g],
        coef_small,
        scalars: letters,
        cyclo: cyc,
        cyclo_out,
        exps,
        sparse_budget: ctx.t(150_000, 3_000_000),
        linear_frob_from: u64::MAX,
        frob_direct_max,
    };
    Some((fx, plan))
}

// ------------------------------------------------------------------------------------------------ per-kind runners
fn common<B: Base, F: Field<BasePrimeField = B::F> + CyclotomicMultSubgroup + RefLhs>(ctx: &mut Ctx, fx: &Fx<B>, plan: &Plan<B>) {
    unary::<B, F>(ctx, fx, plan);
    pairs::<B, F>(ctx, fx, plan);
    conversions::<B, F>(ctx, fx, plan);
    cyclo::<B, F>(ctx, fx, plan);
}

fn lib_vec<F: Field>(f: &F) -> Vec<F::BasePrimeField> {
    f.to_base_prime_field_elements().collect()
}

fn consts_fp2<P: m2::Fp2Config>() -> Vec<(usize, Vec<P::Fp>)> {
    vec![(2, vec![P::NONRESIDUE])]
}
fn consts_fp3<P: m3::Fp3Config>() -> Vec<(usize, Vec<P::Fp>)> {
    vec![(3, vec![P::NONRESIDUE])]
}
fn consts_fp4<P: m4::Fp4Config>() -> Vec<(usize, Vec<<P::Fp2Config as m2::Fp2Config>::Fp>)> {
    vec![(2, vec![<P::Fp2Config as m2::Fp2Config>::NONRESIDUE]), (2, lib_vec(&P::NONRESIDUE))]
}
fn consts_fp6_23<P: m623::Fp6Config>() -> Vec<(usize, Vec<<P::Fp3Config as m3::Fp3Config>::Fp>)> {
    vec![(3, vec![<P::Fp3Config as m3::Fp3Config>::NONRESIDUE]), (2, lib_vec(&P::NONRESIDUE))]
}
fn consts_fp6_32<P: m632::Fp6Config>() -> Vec<(usize, Vec<<P::Fp2Config as m2::Fp2Config>::Fp>)> {
    vec![(2, vec![<P::Fp2Config as m2::Fp2Config>::NONRESIDUE]), (3, lib_vec(&P::NONRESIDUE))]
}
type Fp12Fp<P> = <<<P as m12::Fp12Config>::Fp6Config as m632::Fp6Config>::Fp2Config as m2::Fp2Config>::Fp;
type Fp12Fp2Cfg<P> = <<P as m12::Fp12Config>::Fp6Config as m632::Fp6Config>::Fp2Config;
fn consts_fp12<P: m12::Fp12Config>() -> Vec<(usize, Vec<Fp12Fp<P>>)> {
    let mut v = consts_fp6_32::<P::Fp6Config>();
    v.push((2, lib_vec(&P::NONRESIDUE)));
    v
}

fn run_fp2<B: Base, P: m2::Fp2Config<Fp = B::F>>(ctx: &mut Ctx, fx: &Fx<B>, plan: &Plan<B>) {
    if fx.fm.is_some() {
        validate_frob_table(ctx, fx, P::FROBENIUS_COEFF_FP2_C1, 1, "FROBENIUS_COEFF_FP2_C1");
    }
    common::<B, m2::Fp2<P>>(ctx, fx, plan);
    quad_unary::<B, m2::Fp2ConfigWrapper<P>>(ctx, fx, plan);
    sparse_sweep::<B, m2::Fp2<P>>(ctx, fx, plan, "fp2.mul_assign_by_fp", &[0], |x, a| x.mul_assign_by_fp(&a[0]));
    sparse_sweep::<B, m2::Fp2<P>>(ctx, fx, plan, "quad.mul_assign_by_basefield", &IDX[..1], |x, a| x.mul_assign_by_basefield(&a[0]));
}

fn run_fp3<B: Base, P: m3::Fp3Config<Fp = B::F>>(ctx: &mut Ctx, fx: &Fx<B>, plan: &Plan<B>) {
    if fx.fm.is_some() {
        validate_frob_table(ctx, fx, P::FROBENIUS_COEFF_FP3_C1, 1, "FROBENIUS_COEFF_FP3_C1");
        validate_frob_table(ctx, fx, P::FROBENIUS_COEFF_FP3_C2, 2, "FROBENIUS_COEFF_FP3_C2");
        // sqrt constants: p^3 - 1 = 2^s t, t odd; (t-1)/2; qnr^t has order exactly 2^s
        let t = &fx.t;
        let q = num_traits::pow(t.b.p_big(), 3);
        let s = P::TWO_ADICITY;
        let tt = (&q - 1u32) >> (s as usize);
        ctx.validate((&tt << (s as usize)) == &q - 1u32 && tt.bit(0), &format!("{}: TWO_ADICITY", fx.name));
        ctx.validate(algebra_mc::refmodel::zmod::from_limbs(P::TRACE_MINUS_ONE_DIV_TWO) == (&tt - 1u32) >> 1, &format!("{}: TRACE_MINUS_ONE_DIV_TWO", fx.name));
        let z = t.from_lib(&P::QUADRATIC_NONRESIDUE_TO_T);
        let e = BigUint::one() << (s as usize - 1);
        ctx.validate(t.pow_big(&z, &e) == t.neg(&t.one()), &format!("{}: QUADRATIC_NONRESIDUE_TO_T does not have order 2^s", fx.name));
    }
    common::<B, m3::Fp3<P>>(ctx, fx, plan);
    cubic_unary::<B, m3::Fp3ConfigWrapper<P>>(ctx, fx, plan);
    sparse_sweep::<B, m3::Fp3<P>>(ctx, fx, plan, "fp3.mul_assign_by_fp", &[0], |x, a| x.mul_assign_by_fp(&a[0]));
    sparse_sweep::<B, m3::Fp3<P>>(ctx, fx, plan, "cubic.mul_assign_by_base_field", &IDX[..1], |x, a| x.mul_assign_by_base_field(&a[0]));
}

fn run_fp4<B: Base, P: m4::Fp4Config>(ctx: &mut Ctx, fx: &Fx<B>, plan: &Plan<B>)
where
    P::Fp2Config: m2::Fp2Config<Fp = B::F>,
{
    if fx.fm.is_some() {
        validate_frob_table(ctx, fx, P::FROBENIUS_COEFF_FP4_C1, 1, "FROBENIUS_COEFF_FP4_C1");
    }
    ctx.validate(P::NONRESIDUE == m2::Fp2::<P::Fp2Config>::new(B::F::ZERO, B::F::ONE), &format!("{}: Fp4Config::NONRESIDUE must equal (0, 1)", fx.name));
    type F2<P> = m2::Fp2<<P as m4::Fp4Config>::Fp2Config>;
    common::<B, m4::Fp4<P>>(ctx, fx, plan);
    quad_unary::<B, m4::Fp4ConfigWrapper<P>>(ctx, fx, plan);
    sparse_sweep::<B, m4::Fp4<P>>(ctx, fx, plan, "fp4.mul_by_fp", &[0], |x, a| x.mul_by_fp(&a[0]));
    sparse_sweep::<B, m4::Fp4<P>>(ctx, fx, plan, "fp4.mul_by_fp2", &[0, 1], |x, a| x.mul_by_fp2(&F2::<P>::new(a[0], a[1])));
    sparse_sweep::<B, m4::Fp4<P>>(ctx, fx, plan, "quad.mul_assign_by_basefield", &IDX[..2], |x, a| x.mul_assign_by_basefield(&F2::<P>::new(a[0], a[1])));
}

fn run_fp6_23<B: Base, P: m623::Fp6Config>(ctx: &mut Ctx, fx: &Fx<B>, plan: &Plan<B>)
where
    P::Fp3Config: m3::Fp3Config<Fp = B::F>,
{
    if fx.fm.is_some() {
        validate_frob_table(ctx, fx, P::FROBENIUS_COEFF_FP6_C1, 1, "FROBENIUS_COEFF_FP6_C1 (2 over 3)");
    }
    type F3<P> = m3::Fp3<<P as m623::Fp6Config>::Fp3Config>;
    ctx.validate(P::NONRESIDUE == F3::<P>::new(B::F::ZERO, B::F::ONE, B::F::ZERO), &format!("{}: fp6_2over3 NONRESIDUE must equal (0, 1, 0)", fx.name));
    common::<B, m623::Fp6<P>>(ctx, fx, plan);
    quad_unary::<B, m623::Fp6ConfigWrapper<P>>(ctx, fx, plan);
    sparse_sweep::<B, m623::Fp6<P>>(ctx, fx, plan, "fp6_2over3.mul_by_034", &[0, 3, 4], |x, a| x.mul_by_034(&a[0], &a[1], &a[2]));
    sparse_sweep::<B, m623::Fp6<P>>(ctx, fx, plan, "fp6_2over3.mul_by_014", &[0, 1, 4], |x, a| x.mul_by_014(&a[0], &a[1], &a[2]));
    sparse_sweep::<B, m623::Fp6<P>>(ctx, fx, plan, "quad.mul_assign_by_basefield", &IDX[..3], |x, a| x.mul_assign_by_basefield(&F3::<P>::new(a[0], a[1], a[2])));
}

fn run_fp6_32<B: Base, P: m632::Fp6Config>(ctx: &mut Ctx, fx: &Fx<B>, plan: &Plan<B>)
where
    P::Fp2Config: m2::Fp2Config<Fp = B::F>,
{
    if fx.fm.is_some() {
        validate_frob_table(ctx, fx, P::FROBENIUS_COEFF_FP6_C1, 1, "FROBENIUS_COEFF_FP6_C1 (3 over 2)");
        validate_frob_table(ctx, fx, P::FROBENIUS_COEFF_FP6_C2, 2, "FROBENIUS_COEFF_FP6_C2 (3 over 2)");
    }
    type F2<P> = m2::Fp2<<P as m632::Fp6Config>::Fp2Config>;
    common::<B, m632::Fp6<P>>(ctx, fx, plan);
    cubic_unary::<B, m632::Fp6ConfigWrapper<P>>(ctx, fx, plan);
    sparse_sweep::<B, m632::Fp6<P>>(ctx, fx, plan, "fp6_3over2.mul_by_fp", &[0], |x, a| x.mul_by_fp(&a[0]));
    sparse_sweep::<B, m632::Fp6<P>>(ctx, fx, plan, "fp6_3over2.mul_by_fp2", &[0, 1], |x, a| x.mul_by_fp2(&F2::<P>::new(a[0], a[1])));
    sparse_sweep::<B, m632::Fp6<P>>(ctx, fx, plan, "fp6_3over2.mul_assign_by_fp2", &[0, 1], |x, a| x.mul_assign_by_fp2(F2::<P>::new(a[0], a[1])));
    sparse_sweep::<B, m632::Fp6<P>>(ctx, fx, plan, "cubic.mul_assign_by_base_field", &IDX[..2], |x, a| x.mul_assign_by_base_field(&F2::<P>::new(a[0], a[1])));
    sparse_sweep::<B, m632::Fp6<P>>(ctx, fx, plan, "fp6_3over2.mul_by_1", &[2, 3], |x, a| x.mul_by_1(&F2::<P>::new(a[0], a[1])));
    sparse_sweep::<B, m632::Fp6<P>>(ctx, fx, plan, "fp6_3over2.mul_by_01", &[0, 1, 2, 3], |x, a| x.mul_by_01(&F2::<P>::new(a[0], a[1]), &F2::<P>::new(a[2], a[3])));
}

fn run_fp12<B: Base, P: m12::Fp12Config>(ctx: &mut Ctx, fx: &Fx<B>, plan: &Plan<B>)
where
    Fp12Fp2Cfg<P>: m2::Fp2Config<Fp = B::F>,
{
    if fx.fm.is_some() {
        validate_frob_table(ctx, fx, P::FROBENIUS_COEFF_FP12_C1, 1, "FROBENIUS_COEFF_FP12_C1");
    }
    type F2<P> = m2::Fp2<Fp12Fp2Cfg<P>>;
    type F6<P> = m632::Fp6<<P as m12::Fp12Config>::Fp6Config>;
    let (z2, o2) = (F2::<P>::new(B::F::ZERO, B::F::ZERO), F2::<P>::new(B::F::ONE, B::F::ZERO));
    ctx.validate(P::NONRESIDUE == F6::<P>::new(z2, o2, z2), &format!("{}: Fp12Config::NONRESIDUE must equal (0, 1, 0)", fx.name));
    common::<B, m12::Fp12<P>>(ctx, fx, plan);
    quad_unary::<B, m12::Fp12ConfigWrapper<P>>(ctx, fx, plan);
    sparse_sweep::<B, m12::Fp12<P>>(ctx, fx, plan, "fp12.mul_by_fp", &[0], |x, a| x.mul_by_fp(&a[0]));
    sparse_sweep::<B, m12::Fp12<P>>(ctx, fx, plan, "fp12.mul_by_034", &[0, 1, 6, 7, 8, 9], |x, a| {
        x.mul_by_034(&F2::<P>::new(a[0], a[1]), &F2::<P>::new(a[2], a[3]), &F2::<P>::new(a[4], a[5]))
    });
    sparse_sweep::<B, m12::Fp12<P>>(ctx, fx, plan, "fp12.mul_by_014", &[0, 1, 2, 3, 8, 9], |x, a| {
        x.mul_by_014(&F2::<P>::new(a[0], a[1]), &F2::<P>::new(a[2], a[3]), &F2::<P>::new(a[4], a[5]))
    });
    sparse_sweep::<B, m12::Fp12<P>>(ctx, fx, plan, "quad.mul_assign_by_basefield", &IDX[..6], |x, a| {
        x.mul_assign_by_basefield(&F6::<P>::new(F2::<P>::new(a[0], a[1]), F2::<P>::new(a[2], a[3]), F2::<P>::new(a[4], a[5])))
    });
}

// ------------------------------------------------------------------------------------------------ glue: toys and shipped towers
fn toy_fp2<P: m2::Fp2Config>(ctx: &mut Ctx, name: &str, p: u64) {
    if let Some((fx, plan)) = toy_setup::<P::Fp>(ctx, name, p, consts_fp2::<P>()) {
        run_fp2::<Zp<P::Fp>, P>(ctx, &fx, &plan);
    }
}
fn toy_fp3<P: m3::Fp3Config>(ctx: &mut Ctx, name: &str, p: u64) {
    if let Some((fx, plan)) = toy_setup::<P::Fp>(ctx, name, p, consts_fp3::<P>()) {
        run_fp3::<Zp<P::Fp>, P>(ctx, &fx, &plan);
    }
}
fn toy_fp4<P: m4::Fp4Config>(ctx: &mut Ctx, name: &str, p: u64) {
    if let Some((fx, plan)) = toy_setup::<<P::Fp2Config as m2::Fp2Config>::Fp>(ctx, name, p, consts_fp4::<P>()) {
        run_fp4::<Zp<_>, P>(ctx, &fx, &plan);
    }
}
fn toy_fp6_23<P: m623::Fp6Config>(ctx: &mut Ctx, name: &str, p: u64) {
    if let Some((fx, plan)) = toy_setup::<<P::Fp3Config as m3::Fp3Config>::Fp>(ctx, name, p, consts_fp6_23::<P>()) {
        run_fp6_23::<Zp<_>, P>(ctx, &fx, &plan);
    }
}
fn toy_fp6_32<P: m632::Fp6Config>(ctx: &mut Ctx, name: &str, p: u64) {
    if let Some((fx, plan)) = toy_setup::<<P::Fp2Config as m2::Fp2Config>::Fp>(ctx, name, p, consts_fp6_32::<P>()) {
        run_fp6_32::<Zp<_>, P>(ctx, &fx, &plan);
    }
}
fn toy_fp12<P: m12::Fp12Config>(ctx: &mut Ctx, name: &str, p: u64) {
    if let Some((fx, plan)) = toy_setup::<Fp12Fp<P>>(ctx, name, p, consts_fp12::<P>()) {
        run_fp12::<Zp<_>, P>(ctx, &fx, &plan);
    }
}
fn ship_fp2<P: m2::Fp2Config>(ctx: &mut Ctx, name: &str) {
    if let Some((fx, plan)) = shipped_setup::<P::Fp>(ctx, name, consts_fp2::<P>()) {
        run_fp2::<Lp<P::Fp>, P>(ctx, &fx, &plan);
    }
}
fn ship_fp3<P: m3::Fp3Config>(ctx: &mut Ctx, name: &str) {
    if let Some((fx, plan)) = shipped_setup::<P::Fp>(ctx, name, consts_fp3::<P>()) {
        run_fp3::<Lp<P::Fp>, P>(ctx, &fx, &plan);
    }
}
fn ship_fp4<P: m4::Fp4Config>(ctx: &mut Ctx, name: &str) {
    if let Some((fx, plan)) = shipped_setup::<<P::Fp2Config as m2::Fp2Config>::Fp>(ctx, name, consts_fp4::<P>()) {
        run_fp4::<Lp<_>, P>(ctx, &fx, &plan);
    }
}
fn ship_fp6_23<P: m623::Fp6Config>(ctx: &mut Ctx, name: &str) {
    if let Some((fx, plan)) = shipped_setup::<<P::Fp3Config as m3::Fp3Config>::Fp>(ctx, name, consts_fp6_23::<P>()) {
        run_fp6_23::<Lp<_>, P>(ctx, &fx, &plan);
    }
}
fn ship_fp6_32<P: m632::Fp6Config>(ctx: &mut Ctx, name: &str) {
    if let Some((fx, plan)) = shipped_setup::<<P::Fp2Config as m2::Fp2Config>::Fp>(ctx, name, consts_fp6_32::<P>()) {
        run_fp6_32::<Lp<_>, P>(ctx, &fx, &plan);
    }
}
fn ship_fp12<P: m12::Fp12Config>(ctx: &mut Ctx, name: &str) {
    if let Some((fx, plan)) = shipped_setup::<Fp12Fp<P>>(ctx, name, consts_fp12::<P>()) {
        run_fp12::<Lp<_>, P>(ctx, &fx, &plan);
    }
}

const SHIPPED_NAMES: &[&str] = &[
    "bls12_377/Fq2", "bls12_377/Fq6", "bls12_377/Fq12", "bls12_381/Fq2", "bls12_381/Fq6", "bls12_381/Fq12", "bn254/Fq2", "bn254/Fq6", "bn254/Fq12",
    "bw6_761/Fq3", "bw6_761/Fq6", "bw6_767/Fq3", "bw6_767/Fq6", "cp6_782/Fq3", "cp6_782/Fq6", "mnt4_298/Fq2", "mnt4_298/Fq4", "mnt4_753/Fq2",
    "mnt4_753/Fq4", "mnt6_298/Fq3", "mnt6_298/Fq6", "mnt6_753/Fq3", "mnt6_753/Fq6", "test_bls12_381/Fq2", "test_bls12_381/Fq6", "test_bls12_381/Fq12",
    "test_mnt6_753/Fq3",
];

fn shipped(ctx: &mut Ctx) {
    ship_fp2::<ark_bls12_377::Fq2Config>(ctx, "bls12_377/Fq2");
    ship_fp6_32::<ark_bls12_377::Fq6Config>(ctx, "bls12_377/Fq6");
    ship_fp12::<ark_bls12_377::Fq12Config>(ctx, "bls12_377/Fq12");
    ship_fp2::<ark_bls12_381::Fq2Config>(ctx, "bls12_381/Fq2");
    ship_fp6_32::<ark_bls12_381::Fq6Config>(ctx, "bls12_381/Fq6");
    ship_fp12::<ark_bls12_381::Fq12Config>(ctx, "bls12_381/Fq12");
    ship_fp2::<ark_bn254::Fq2Config>(ctx, "bn254/Fq2");
    ship_fp6_32::<ark_bn254::Fq6Config>(ctx, "bn254/Fq6");
    ship_fp12::<ark_bn254::Fq12Config>(ctx, "bn254/Fq12");
    ship_fp3::<ark_bw6_761::Fq3Config>(ctx, "bw6_761/Fq3");
    ship_fp6_23::<ark_bw6_761::Fq6Config>(ctx, "bw6_761/Fq6");
    ship_fp3::<ark_bw6_767::Fq3Config>(ctx, "bw6_767/Fq3");
    ship_fp6_23::<ark_bw6_767::Fq6Config>(ctx, "bw6_767/Fq6");
    ship_fp3::<ark_cp6_782::Fq3Config>(ctx, "cp6_782/Fq3");
    ship_fp6_23::<ark_cp6_782::Fq6Config>(ctx, "cp6_782/Fq6");
    ship_fp2::<ark_mnt4_298::Fq2Config>(ctx, "mnt4_298/Fq2");
    ship_fp4::<ark_mnt4_298::Fq4Config>(ctx, "mnt4_298/Fq4");
    ship_fp2::<ark_mnt4_753::Fq2Config>(ctx, "mnt4_753/Fq2");
    ship_fp4::<ark_mnt4_753::Fq4Config>(ctx, "mnt4_753/Fq4");
    ship_fp3::<ark_mnt6_298::Fq3Config>(ctx, "mnt6_298/Fq3");
    ship_fp6_23::<ark_mnt6_298::Fq6Config>(ctx, "mnt6_298/Fq6");
    ship_fp3::<ark_mnt6_753::Fq3Config>(ctx, "mnt6_753/Fq3");
    ship_fp6_23::<ark_mnt6_753::Fq6Config>(ctx, "mnt6_753/Fq6");
    use ark_test_curves as tc;
    ship_fp2::<tc::bls12_381::Fq2Config>(ctx, "test_bls12_381/Fq2");
    ship_fp6_32::<tc::bls12_381::Fq6Config>(ctx, "test_bls12_381/Fq6");
    ship_fp12::<tc::bls12_381::Fq12Config>(ctx, "test_bls12_381/Fq12");
    ship_fp3::<tc::mnt6_753::Fq3Config>(ctx, "test_mnt6_753/Fq3");
}

// ------------------------------------------------------------------------------------------------ S: in-place operation sequences
fn seq_model<F: Field>(ctx: &mut Ctx, name: &str, depth: u8)
where
    F::BasePrimeField: FpAccess,
{
    let sname = format!("seq/{name}");
    if let Some((c, _)) = &ctx.replay {
        if *c != sname {
            return;
        }
    }
    if let Some(o) = &ctx.only {
        if !sname.contains(o.as_str()) {
            return;
        }
    }
    let row = TOWER_TABLE.iter().find(|r| r.0 == name).unwrap();
    let (_, kind, p, beta, xa, xb, _) = *row;
    let spec: Vec<(usize, Vec<u64>)> = match kind {
        "fp2" => vec![(2, vec![beta])],
        "fp6_2over3" => vec![(3, vec![beta]), (2, vec![0, 1, 0])],
        "fp6_3over2" => vec![(2, vec![beta]), (3, vec![xa, xb])],
        "fp12" => vec![(2, vec![beta]), (3, vec![xa, xb]), (2, vec![0, 0, 1, 0, 0, 0])],
        _ => panic!("seq kind"),
    };
    let t = Tower::new(Zp::<F::BasePrimeField> { p, _f: PhantomData }, &spec);
    let deg = t.deg;
    let q = p.pow(deg as u32);
    let mut a0 = t.zero();
    let mut a1 = t.zero();
    for i in 0..deg {
        a0[i] = ((i * i + 2) as u64) % p;
        a1[i] = [0, 1, 0, p - 1][i % 4];
    }
    let a2 = t.embed_fp(p - 1);
    let ops = [a0, a1, a2];
    let raw_of = |f: &F| -> Vec<u64> { f.to_base_prime_field_elements().map(|c| c.raw()[0]).collect() };
    let init: Vec<(Vec<u64>, [u64; MAXD])> = [t.zero(), t.one(), a0].iter().map(|e| (raw_of(&t.to_lib::<F>(e)), *e)).collect();
    let names = move |a: usize| -> String {
        match a {
            0..=2 => format!("+=a{a}"),
            3..=5 => format!("-=a{}", a - 3),
            6..=8 => format!("*=a{}", a - 6),
            9 => "square_in_place".into(),
            10 => "inverse_in_place".into(),
            11 => "frobenius_map_in_place(1)".into(),
            12 => "double_in_place".into(),
            _ => "neg_in_place".into(),
        }
    };
    let tt = t.clone();
    let step = move |v: &(Vec<u64>, [u64; MAXD]), a: usize| -> Result<Option<(Vec<u64>, [u64; MAXD])>, String> {
        let t = &tt;
        let mut x: F = F::from_base_prime_field_elems(v.0.iter().map(|r| <F::BasePrimeField as FpAccess>::from_raw(&[*r]))).unwrap();
        let m = v.1;
        let want = match a {
            0..=2 => {
                x += &t.to_lib::<F>(&ops[a]);
                t.add(&m, &ops[a])
            }
            3..=5 => {
                x -= &t.to_lib::<F>(&ops[a - 3]);
                t.sub(&m, &ops[a - 3])
            }
            6..=8 => {
                x *= &t.to_lib::<F>(&ops[a - 6]);
                t.mul(&m, &ops[a - 6])
            }
            9 => {
                x.square_in_place();
                t.mul(&m, &m)
            }
            10 => {
                let r = x.inverse_in_place().is_some();
                if t.is_zero(&m) {
                    if r {
                        return Err("inverse_in_place of zero returned Some".into());
                    }
                    m
                } else {
                    if !r {
                        return Err("inverse_in_place of a non-zero element returned None".into());
                    }
                    t.pow(&m, &[q - 2])
                }
            }
            11 => {
                x.frobenius_map_in_place(1);
                t.pow(&m, &[p])
            }
            12 => {
                x.double_in_place();
                t.add(&m, &m)
            }
            _ => {
                x.neg_in_place();
                t.neg(&m)
            }
        };
        let raw = raw_of(&x);
        if raw.iter().any(|r| *r >= p) {
            return Err(format!("non-canonical coordinate: raw limbs {raw:?} (p = {p})"));
        }
        let got = t.from_lib(&x);
        if got != want {
            return Err(format!("impl {} but model {}", t.show(&got), t.show(&want)));
        }
        Ok(Some((raw, want)))
    };
    run_seq(ctx, &sname, init, 14, depth, names, step);
}

// ------------------------------------------------------------------------------------------------ probe: CubicExtField: From<bool>
fn probe_child() -> ! {
    use algebra_mc::toy::gen_towers::T7Fq3;
    let h = std::thread::Builder::new()
        .stack_size(256 * 1024)
        .spawn(|| {
            let x = <T7Fq3 as From<bool>>::from(std::hint::black_box(true));
            println!("returned {x}");
        })
        .unwrap();
    let _ = h.join();
    std::process::exit(0)
}

/// runs the probe in a child PROCESS (a stack overflow cannot be caught in-process), watched by a thread that
/// kills it after 2 s; joined at the end of main
fn probe_start(ctx: &Ctx) -> Option<std::thread::JoinHandle<String>> {
    if ctx.replay.is_some() || ctx.only.as_deref().map(|o| !"probe/cubic_from_bool".contains(o)).unwrap_or(false) {
        return None;
    }
    let exe = std::env::current_exe().ok()?;
    let mut child = std::process::Command::new(exe).arg("--probe-cubic-from-bool").stdout(std::process::Stdio::piped()).stderr(std::process::Stdio::null()).spawn().ok()?;
    Some(std::thread::spawn(move || {
        let t0 = std::time::Instant::now();
        loop {
            match child.try_wait() {
                Ok(Some(st)) => {
                    use std::os::unix::process::ExitStatusExt;
                    let mut out = String::new();
                    if let Some(mut so) = child.stdout.take() {
                        use std::io::Read;
                        let _ = so.read_to_string(&mut out);
                    }
                    return if let Some(sig) = st.signal() {
                        format!("child killed by signal {sig} (stack overflow: the impl calls itself unconditionally)")
                    } else if out.starts_with("returned") {
                        format!("returned: {}", out.trim())
                    } else {
                        format!("child exit status {:?}, no value returned", st.code())
                    };
                }
                Ok(None) => {
                    if t0.elapsed().as_millis() >= 2000 {
                        let _ = child.kill();
                        let _ = child.wait();
                        return "did not return within 2 s (the unconditional self-call was compiled to an endless loop); child killed".to_string();
                    }
                    std::thread::sleep(std::time::Duration::from_millis(20));
                }
                Err(e) => return format!("wait failed: {e}"),
            }
        }
    }))
}

fn probe_finish(ctx: &mut Ctx, probe: Option<std::thread::JoinHandle<String>>) {
    let Some(h) = probe else { return };
    let outcome = h.join().unwrap_or_else(|_| "probe thread panicked".into());
    println!("PROBE (outside the property text, not a verdict): <CubicExtField<P> as From<bool>>::from(true) on T7Fq3: {outcome}");
    ctx.add_sample("probe/cubic_from_bool", outcome.clone());
    ctx.bound("probe.CubicExtField::from(bool)", outcome);
}

// ------------------------------------------------------------------------------------------------ main
macro_rules! t2 {
    ($P:ty, $name:expr, $p:expr, $ctx:expr) => {
        toy_fp2::<$P>($ctx, $name, $p);
    };
}
macro_rules! t3 {
    ($P:ty, $name:expr, $p:expr, $ctx:expr) => {
        toy_fp3::<$P>($ctx, $name, $p);
    };
}
macro_rules! t4 {
    ($P:ty, $name:expr, $p:expr, $ctx:expr) => {
        toy_fp4::<$P>($ctx, $name, $p);
    };
}
macro_rules! t623 {
    ($P:ty, $name:expr, $p:expr, $ctx:expr) => {
        toy_fp6_23::<$P>($ctx, $name, $p);
    };
}
macro_rules! t632 {
    ($P:ty, $name:expr, $p:expr, $ctx:expr) => {
        toy_fp6_32::<$P>($ctx, $name, $p);
    };
}
macro_rules! t12 {
    ($P:ty, $name:expr, $p:expr, $ctx:expr) => {
        toy_fp12::<$P>($ctx, $name, $p);
    };
}

fn main() {
    if std::env::args().any(|a| a == "--probe-cubic-from-bool") {
        probe_child();
    }
    let mut ctx = Ctx::from_args("C02");
    let probe = probe_start(&ctx);
    ctx.require(&[
        "quad:nonresidue_is_-1",
        "quad:general",
        "quad:degree2_sop_path",
        "quad:karatsuba_path",
        "cubic:karatsuba",
        "cubic:square_ch_sqr2",
        "subfield_element",
        "frob:power>=degree",
        "cyclo:naf_negative_digit",
        "cyclo:plain_bits",
        "cyclo:granger_scott_square",
        "cyclo:exp_leading_zero_limb",
        "cyclo:exp_4_or_more_limbs",
        "frob:power>2*degree",
        "operator_variants",
        "inverse:zero",
        "sparse:operand_with_zero_coefficient",
        "fp2.mul_assign_by_fp",
        "fp3.mul_assign_by_fp",
        "fp4.mul_by_fp",
        "fp4.mul_by_fp2",
        "fp6_2over3.mul_by_034",
        "fp6_2over3.mul_by_014",
        "fp6_3over2.mul_by_fp",
        "fp6_3over2.mul_by_fp2",
        "fp6_3over2.mul_assign_by_fp2",
        "fp6_3over2.mul_by_1",
        "fp6_3over2.mul_by_01",
        "fp12.mul_by_fp",
        "fp12.mul_by_034",
        "fp12.mul_by_014",
        "quad.mul_assign_by_basefield",
        "cubic.mul_assign_by_base_field",
        "from:negative",
        "from:>=p",
    ]);
    ctx.require(&ZC);
    ctx.assume("oracle: coordinate vectors over Z/p (u64) resp. over the C01-checked shipped prime field, schoolbook products reduced modulo the binomials level by level, x^(p^k) by k successive square-and-multiply p-th powers; inverse/division checked by multiplying back; norm = determinant of the multiplication-by-x matrix");
    ctx.assume("conversions F::from(u64), into_bigint, from_base_prime_field_elems / to_base_prime_field_elements are trusted (C01 / coordinate order re-checked against new(c0, c1[, c2]))");
    ctx.assume("for universes of more than 50000 elements the toy Frobenius oracle uses F_p-linearity of x -> x^(p^k) (basis images by square-and-multiply), validated at start-up against direct exponentiation on the structured subset");
    ctx.assume("the library's tower model (Frobenius coefficient of Fp4/Fp6_2over3 in F_p, of Fp6_3over2/Fp12 in Fp2, multiplying c1/c2) only exists for p = 1 mod 4 (Fp4) resp. p = 1 mod 3 (any cubic step): no Fp3/Fp6/Fp12 over F_5 and no Fp4 over F_7 can be instantiated; the toy list uses p = 5, 13, 17 (Fp4) and p = 7, 13 (Fp6, Fp12) instead");
    ctx.assume("shipped NONRESIDUE constants define the shipped towers (their correctness is C16's job); they are validated to be non-squares / non-cubes so that the quotient is a field");
    ctx.assume("cyclotomic claims are made only on the subgroup of order Phi_deg(p); outside it the calls are made and differences are reported as a metric");
    ctx.bound("toy_towers", TOWER_TABLE.iter().map(|r| r.0).collect::<Vec<_>>().join(","));
    ctx.bound("shipped_towers", SHIPPED_NAMES.join(","));
    ctx.bound("frobenius_powers", "toys: k = 0..=2*deg on every element of every unary universe; shipped: k = 0..=2*deg+1 on a 64 (quick) / 128 (thorough) element subset, oracle by successive p-th powers up to k = deg+1 (quick) / 2*deg (thorough) and through the period deg beyond");
    ctx.bound("operator_variants", "a op &b, a op &mut b, a op= b, a op= &mut b, &a op b, &a op &b, &a op &mut b (op in + - * /), Sum/Product over owned and borrowed items: toys on all pairs (|F| <= 400) or (gamma + dev<=1 balls)^2, shipped on dev<=1 x 12 and 12 x dev<=1");
    ctx.assume("for k > deg+1 (quick) / 2*deg (thorough) the shipped-tower Frobenius oracle uses x^(p^k) = x^(p^(k mod deg)): the tower is validated to be a field of p^deg elements; the directly computed powers cover more than one full period");

    algebra_mc::toy_fp2_towers!(t2, &mut ctx);
    algebra_mc::toy_fp3_towers!(t3, &mut ctx);
    algebra_mc::toy_fp4_towers!(t4, &mut ctx);
    algebra_mc::toy_fp6_2over3_towers!(t623, &mut ctx);
    algebra_mc::toy_fp6_3over2_towers!(t632, &mut ctx);
    algebra_mc::toy_fp12_towers!(t12, &mut ctx);
    shipped(&mut ctx);

    use algebra_mc::toy::gen_towers as gt;
    let d = ctx.t(4u8, 5);
    seq_model::<gt::T29Fq2>(&mut ctx, "T29Fq2", d);
    seq_model::<gt::T31Fq2>(&mut ctx, "T31Fq2", d);
    let d6 = ctx.t(3u8, 4);
    seq_model::<gt::T7Fq6x32>(&mut ctx, "T7Fq6x32", d6);
    seq_model::<gt::T7Fq6x23>(&mut ctx, "T7Fq6x23", d6);
    seq_model::<gt::T7Fq12>(&mut ctx, "T7Fq12", 3);
    probe_finish(&mut ctx, probe);
    std::process::exit(ctx.finish());
}
