//! C05 - multi-scalar multiplication equals sum k_i * P_i for every shape and history.
//!
//! Spaces (DESIGN section 3, C05):
//!  * E  (toy groups SwA0P103B5 r=97, SwA0P103B3 r=31 cofactor 4, TeP101 r=13 cofactor 8): every entry point
//!       (`msm`, `msm_unchecked`, `msm_bigint`, `msm_chunks`, `SWCurveConfig::msm`/`TECurveConfig::msm`, and
//!       through the hooks the plain-bucket and the signed-digit method) on ALL (B x K)^n vectors for n <= 3,
//!       on deviation balls around long base vectors on both sides of every window-size switch, on all
//!       length pairs, and on streams with different chunkings; oracle = addition table of the textbook
//!       affine law (`GroupTable`) with k*P by repeated table addition.
//!  * E  `make_digits`: the digit contract on every (a, w, num_bits) of the stated grid.
//!  * A  real 255-bit recoding on bls12_381 G1/G2, ed_on_bls12_381 and the bls12_381 target group; oracle =
//!       double-and-add written here on the group's generic `+`.
//!  * S  `ChunkedPippenger` / `HashMapPippenger`: stateright BFS over add-histories, the real accumulator is
//!       rebuilt by replay in every state, every buffer size is its own model.
#![allow(clippy::all)]
use algebra_mc::core::*;
use algebra_mc::refmodel::curve::GroupTable;
use algebra_mc::seq::run_seq;
use algebra_mc::toy::gen_curves::{SwA0P103B3, SwA0P103B5, SwP1009A3B2, SwP61A0B2, TeP101};
use algebra_mc::toycurve::{SwToy, TeToy};
use ark_ec::pairing::PairingOutput;
use ark_ec::scalar_mul::variable_base::verif_hooks::{make_digits_vec, msm_bigint_plain, msm_bigint_signed};
use ark_ec::scalar_mul::variable_base::{ChunkedPippenger, HashMapPippenger};
use ark_ec::short_weierstrass as sw;
use ark_ec::twisted_edwards as te;
use ark_ec::{PrimeGroup, ScalarMul, VariableBaseMSM};
use ark_ff::{BigInt, PrimeField};
use ark_std::iterable::{Iterable, Reverse};
use num_bigint::{BigInt as SBig, BigUint};
use num_traits::{One, ToPrimitive};
use std::borrow::Borrow;
use std::collections::BTreeMap;
use std::panic::{catch_unwind, AssertUnwindSafe};
use std::sync::atomic::{AtomicU64, Ordering};
use std::sync::Arc;

type Base<G> = <G as ScalarMul>::MulBase;
type Sc<G> = <G as PrimeGroup>::ScalarField;
type Big<G> = <Sc<G> as PrimeField>::BigInt;

// =====================================================================================================
// model of the window choice and of the signed-digit recoding (used for branch-class labels only; the
// verdicts never depend on it)
// =====================================================================================================
fn ceil_log2(x: usize) -> usize {
    if x <= 1 {
        0
    } else {
        (usize::BITS - (x - 1).leading_zeros()) as usize
    }
}
/// window size used by both bucket methods for `size` pairs
fn window_c(size: usize) -> usize {
    if size < 32 {
        3
    } else {
        ceil_log2(size) * 69 / 100 + 2
    }
}
/// textbook signed radix-2^w recoding of `a` into `dc` digits, the final carry folded into the last
/// digit; returns (digits, carry entering the last digit)
fn model_recode(a: &BigUint, w: usize, dc: usize) -> (Vec<i128>, bool) {
    let mask = (BigUint::one() << w) - BigUint::one();
    let half = 1u128 << (w - 1);
    let mut carry = 0u128;
    let mut out = Vec::with_capacity(dc);
    let mut carry_last = false;
    for i in 0..dc {
        let win = ((a >> (w * i)) & &mask).to_u128().unwrap();
        let coef = win + carry;
        if i == dc - 1 {
            carry_last = carry == 1;
            out.push(coef as i128);
        } else if coef >= half {
            out.push(coef as i128 - (1i128 << w));
            carry = 1;
        } else {
            out.push(coef as i128);
            carry = 0;
        }
    }
    (out, carry_last)
}
fn carries_into_last(a: &BigUint, w: usize, num_bits: usize) -> bool {
    let dc = num_bits.div_ceil(w);
    dc >= 2 && model_recode(a, w, dc).1
}

// =====================================================================================================
// toy groups
// =====================================================================================================
trait Toy: Send + Sync + 'static {
    type G: VariableBaseMSM;
    fn name(&self) -> &str;
    fn tab(&self) -> &GroupTable<u64>;
    fn r(&self) -> u64;
    fn gen(&self) -> usize;
    fn insub(&self, i: usize) -> bool;
    fn base(&self, i: usize) -> Base<Self::G>;
    fn idx(&self, g: &Self::G) -> Option<usize>;
    /// the curve configuration's own `msm` (SWCurveConfig::msm / TECurveConfig::msm)
    fn cfg_msm(b: &[Base<Self::G>], s: &[Sc<Self::G>]) -> Result<Self::G, usize>;
}
impl<P: sw::SWCurveConfig> Toy for SwToy<P>
where
    P::BaseField: PrimeField,
    P::ScalarField: PrimeField,
{
    type G = sw::Projective<P>;
    fn name(&self) -> &str {
        &self.name
    }
    fn tab(&self) -> &GroupTable<u64> {
        &self.g
    }
    fn r(&self) -> u64 {
        self.r
    }
    fn gen(&self) -> usize {
        self.gen
    }
    fn insub(&self, i: usize) -> bool {
        self.in_subgroup[i]
    }
    fn base(&self, i: usize) -> sw::Affine<P> {
        self.aff(i)
    }
    fn idx(&self, g: &Self::G) -> Option<usize> {
        self.idx_proj(g)
    }
    fn cfg_msm(b: &[sw::Affine<P>], s: &[P::ScalarField]) -> Result<Self::G, usize> {
        <P as sw::SWCurveConfig>::msm(b, s)
    }
}
impl<P: te::TECurveConfig> Toy for TeToy<P>
where
    P::BaseField: PrimeField,
    P::ScalarField: PrimeField,
{
    type G = te::Projective<P>;
    fn name(&self) -> &str {
        &self.name
    }
    fn tab(&self) -> &GroupTable<u64> {
        &self.g
    }
    fn r(&self) -> u64 {
        self.r
    }
    fn gen(&self) -> usize {
        self.gen
    }
    fn insub(&self, i: usize) -> bool {
        self.in_subgroup[i]
    }
    fn base(&self, i: usize) -> te::Affine<P> {
        self.aff(i)
    }
    fn idx(&self, g: &Self::G) -> Option<usize> {
        self.idx_proj(g)
    }
    fn cfg_msm(b: &[te::Affine<P>], s: &[P::ScalarField]) -> Result<Self::G, usize> {
        <P as te::TECurveConfig>::msm(b, s)
    }
}

/// toy group + oracle tables + the alphabets of the design
struct TG<T: Toy> {
    t: T,
    /// kp[i][k] = k * P_i for 0 <= k < r, by repeated table addition
    kp: Vec<Vec<usize>>,
    /// bit size of r
    nb: usize,
    /// carry[c][k]: the textbook recoding of k with window c carries into the last digit
    carry: Vec<Vec<bool>>,
    /// lastfull[c][k]: the last digit of that recoding is 2^c (needs the 2^c-th bucket)
    lastfull: Vec<Vec<bool>>,
    /// negdig[c][k]: that recoding has a negative digit
    negdig: Vec<Vec<bool>>,
    /// negall[k] / carryall[k]: the textbook recoding of k has a negative digit / a carry into the last digit for EVERY
    /// window size 2..=min(16, nb-1) - labels that do not depend on which window the implementation picks
    negall: Vec<bool>,
    carryall: Vec<bool>,
    /// B = {O, G, -G, 5G, (a point outside the subgroup)}
    bset: Vec<usize>,
    /// K = {0, 1, 2, r-1, (r-1)/2, kcarry}
    kset: Vec<u64>,
    kcarry: u64,
    /// B x K
    alpha: Vec<(usize, u64)>,
    outside: Option<usize>,
}
impl<T: Toy> TG<T> {
    fn new(t: T, ctx: &mut Ctx) -> Self {
        let g = t.tab();
        let r = t.r();
        let n = g.n();
        let mut kp = vec![vec![g.id; r as usize]; n];
        for i in 0..n {
            for k in 1..r as usize {
                kp[i][k] = g.add[kp[i][k - 1]][i];
            }
        }
        ctx.validate(kp.iter().all(|row| row.iter().all(|x| *x != usize::MAX)), &format!("{}: oracle law defined on every multiple", t.name()));
        // cross-check of the repeated-addition table against the oracle's double-and-add
        ctx.validate((0..n).all(|i| (0..r).all(|k| g.mul(k, i) == Some(kp[i][k as usize]))), &format!("{}: k*P table", t.name()));
        let nb = (64 - r.leading_zeros()) as usize;
        ctx.validate(<Sc<T::G> as PrimeField>::MODULUS_BIT_SIZE as usize == nb, &format!("{}: scalar bit size", t.name()));
        ctx.validate(
            (0..r).all(|k| Sc::<T::G>::from(k).into_bigint() == Big::<T::G>::from(k)) && Sc::<T::G>::MODULUS == Big::<T::G>::from(r),
            &format!("{}: scalars 0..r map to the integers 0..r", t.name()),
        );
        let mut carry = vec![Vec::new(); 17];
        let mut lastfull = vec![Vec::new(); 17];
        let mut negdig = vec![Vec::new(); 17];
        for c in 2..=16 {
            carry[c] = (0..r).map(|k| carries_into_last(&BigUint::from(k), c, nb)).collect();
            lastfull[c] = (0..r).map(|k| model_recode(&BigUint::from(k), c, nb.div_ceil(c)).0.last().copied() == Some(1i128 << c)).collect();
            negdig[c] = (0..r).map(|k| model_recode(&BigUint::from(k), c, nb.div_ceil(c)).0.iter().any(|d| *d < 0)).collect();
        }
        let cmax = 16.min(nb - 1);
        let negall: Vec<bool> = (0..r as usize).map(|k| (2..=cmax).all(|c| negdig[c][k])).collect();
        let carryall: Vec<bool> = (0..r as usize).map(|k| (2..=cmax).all(|c| carry[c][k])).collect();
        ctx.validate(negall.iter().any(|x| *x) && carryall.iter().any(|x| *x), &format!("{}: some scalar has a negative digit / a carry into the last digit for every window size", t.name()));
        let gen = t.gen();
        // a point outside the prime-order subgroup, of maximal order
        let outside = (0..n).filter(|i| !t.insub(*i)).max_by_key(|i| (g.order(*i).unwrap_or(0), usize::MAX - *i));
        let mut bset = vec![g.id, gen, g.neg(gen), kp[gen][5 % r as usize]];
        if let Some(o) = outside {
            bset.push(o);
        }
        let mut kset = vec![0, 1, 2, r - 1, (r - 1) / 2];
        // the value whose c = 3 recoding carries into the top window with the largest top digit
        let kcarry = (0..r)
            .filter(|k| !kset.contains(k) && carry[3][*k as usize])
            .max_by_key(|k| (model_recode(&BigUint::from(*k), 3, nb.div_ceil(3)).0.last().copied().unwrap(), *k))
            .expect("no carrying scalar");
        kset.push(kcarry);
        let mut sorted = kset.clone();
        sorted.sort();
        sorted.dedup();
        ctx.validate(sorted.len() == kset.len() && nb.div_ceil(3) >= 2, &format!("{}: scalar alphabet distinct", t.name()));
        let alpha: Vec<(usize, u64)> = bset.iter().flat_map(|b| kset.iter().map(move |k| (*b, *k))).collect();
        TG { t, kp, nb, carry, lastfull, negdig, negall, carryall, bset, kset, kcarry, alpha, outside }
    }
    fn n(&self) -> usize {
        self.t.tab().n()
    }
    /// sum k_i * P_i over the integers k_i, by the oracle
    fn sum(&self, pts: &[usize], ks: &[u64]) -> usize {
        let g = self.t.tab();
        let mut acc = g.id;
        for (p, k) in pts.iter().zip(ks) {
            acc = g.add[acc][self.kp[*p][*k as usize]];
        }
        acc
    }
    fn bases(&self, pts: &[usize]) -> Vec<Base<T::G>> {
        pts.iter().map(|i| self.t.base(*i)).collect()
    }
    fn pt(&self, i: usize) -> String {
        format!("{:?}", self.t.tab().pts[i])
    }
    fn show(&self, pts: &[usize], ks: &[u64]) -> String {
        let v: Vec<String> = pts.iter().zip(ks).map(|(p, k)| format!("{}*{}", k, self.pt(*p))).collect();
        format!("[{}]", v.join(", "))
    }
    /// branch classes of one equal-length instance, from the inputs and the model only
    fn classify(&self, loc: &mut Loc, pts: &[usize], ks: &[u64], want: usize) {
        let n = pts.len();
        let g = self.t.tab();
        if n == 0 {
            loc.class("n=0");
        } else if n < 32 {
            loc.class("n<32");
        } else {
            loc.class("n>=32");
        }
        let c = window_c(n);
        if c <= 16 && ks.iter().any(|k| self.carry[c][*k as usize]) {
            loc.class("digit_carry_into_last_window");
        }
        if c <= 16 && ks.iter().any(|k| self.lastfull[c][*k as usize]) {
            loc.class("last_digit=2^c");
        }
        if c <= 16 && ks.iter().any(|k| self.negdig[c][*k as usize]) {
            loc.class(if n < 32 { "negative_digit(c=3)" } else if n <= 64 { "negative_digit(c=5,6)" } else { "negative_digit(c>=7)" });
        }
        // the same two facts without reference to the window rule (true for every window size 2..=min(16, bits-1))
        loc.class_if(ks.iter().any(|k| self.negall[*k as usize]), "negative_digit(every_window_size)");
        loc.class_if(ks.iter().any(|k| self.carryall[*k as usize]), "digit_carry_into_last_window(every_window_size)");
        loc.class_if(ks.iter().any(|k| *k == 1), "unit_scalar_shortcut");
        loc.class_if(ks.iter().any(|k| *k == 0), "zero_scalar");
        loc.class_if(pts.iter().any(|p| *p == g.id), "identity_base");
        loc.class_if(pts.iter().any(|p| !self.t.insub(*p)), "base_outside_subgroup");
        let mut s = pts.to_vec();
        s.sort();
        loc.class_if(s.windows(2).any(|w| w[0] == w[1]), "repeated_base");
        loc.class_if(n > 0 && want == g.id && pts.iter().zip(ks).any(|(p, k)| self.kp[*p][*k as usize] != g.id), "terms_cancel_to_identity");
    }
}

/// every entry point on one equal-length instance
fn check_all<T: Toy>(tg: &TG<T>, loc: &mut Loc, pts: &[usize], ks: &[u64], desc: &dyn Fn() -> String) {
    let want = tg.sum(pts, ks);
    tg.classify(loc, pts, ks, want);
    loc.class("plain_bucket_variant");
    let bases = tg.bases(pts);
    let scalars: Vec<Sc<T::G>> = ks.iter().map(|k| Sc::<T::G>::from(*k)).collect();
    let bigs: Vec<Big<T::G>> = ks.iter().map(|k| Big::<T::G>::from(*k)).collect();
    let cmp = |loc: &mut Loc, site: &str, got: &T::G| {
        let gi = tg.t.idx(got);
        loc.check_at(site, gi == Some(want), || {
            format!("{} {}: got {:?} (oracle index {:?}) want {} ", tg.t.name(), desc(), got, gi, tg.pt(want))
        });
    };
    match <T::G as VariableBaseMSM>::msm(&bases, &scalars) {
        Ok(v) => cmp(loc, "msm", &v),
        Err(e) => {
            loc.fail_at("msm", format!("{} {}: equal lengths but Err({e})", tg.t.name(), desc()));
        }
    }
    match T::cfg_msm(&bases, &scalars) {
        Ok(v) => cmp(loc, "config_msm", &v),
        Err(e) => {
            loc.fail_at("config_msm", format!("{} {}: equal lengths but Err({e})", tg.t.name(), desc()));
        }
    }
    cmp(loc, "msm_unchecked", &<T::G as VariableBaseMSM>::msm_unchecked(&bases, &scalars));
    cmp(loc, "msm_bigint", &<T::G as VariableBaseMSM>::msm_bigint(&bases, &bigs));
    cmp(loc, "msm_bigint_plain", &msm_bigint_plain::<T::G>(&bases, &bigs));
    cmp(loc, "msm_bigint_signed", &msm_bigint_signed::<T::G>(&bases, &bigs));
    let (bs, ss) = (bases.as_slice(), scalars.as_slice());
    cmp(loc, "msm_chunks", &<T::G as VariableBaseMSM>::msm_chunks(&bs, &ss));
}

/// n in 0..=3, ALL (B x K)^n
fn toy_small<T: Toy>(ctx: &mut Ctx, tg: &TG<T>) {
    let a = tg.alpha.len() as u64;
    for n in 0..=ctx.t(3usize, 4usize) {
        let total = a.pow(n as u32);
        ctx.sweep(&format!("small/{}/n={n}", tg.t.name()), total, |i, loc| {
            let d = unrank_vec(i, &vec![a; n]);
            let pts: Vec<usize> = d.iter().map(|x| tg.alpha[*x as usize].0).collect();
            let ks: Vec<u64> = d.iter().map(|x| tg.alpha[*x as usize].1).collect();
            if loc.sampling() {
                loc.sample(format!("{} n={n} {}", tg.t.name(), tg.show(&pts, &ks)));
            }
            check_all(tg, loc, &pts, &ks, &|| format!("n={n} {}", tg.show(&pts, &ks)));
        });
    }
}

const LARGE_N: [usize; 9] = [31, 32, 33, 63, 64, 255, 256, 257, 1024];

/// the long base vectors of the design (+ one running over every curve point where there is a cofactor)
fn base_vectors<T: Toy>(tg: &TG<T>, n: usize) -> Vec<(&'static str, Vec<usize>, Vec<u64>)> {
    let g = tg.t.tab();
    let r = tg.t.r();
    let gen = tg.t.gen();
    let mut out = vec![
        ("all(G,1)", vec![gen; n], vec![1u64; n]),
        ("all(G,r-1)", vec![gen; n], vec![r - 1; n]),
        ("all(O,0)", vec![g.id; n], vec![0u64; n]),
        ("(iG,i)", (0..n).map(|i| tg.kp[gen][i % r as usize]).collect(), (0..n).map(|i| i as u64 % r).collect()),
    ];
    if tg.outside.is_some() {
        // every point of E(F_p) in turn (2-torsion and other points outside the subgroup included)
        out.push(("(P_i,7i+3)", (0..n).map(|i| i % tg.n()).collect(), (0..n).map(|i| (7 * i as u64 + 3) % r).collect()));
    }
    out
}

/// all deviations of at most `d` positions out of `pos`, each replaced by a member of B x K different from
/// the base value there
fn deviations<T: Toy>(tg: &TG<T>, pts: &[usize], ks: &[u64], pos: &[usize], d: usize) -> Vec<Vec<(usize, usize)>> {
    let mut out: Vec<Vec<(usize, usize)>> = vec![vec![]];
    let differs = |p: usize, a: usize| tg.alpha[a] != (pts[p], ks[p]);
    if d >= 1 {
        for p in pos {
            for a in 0..tg.alpha.len() {
                if differs(*p, a) {
                    out.push(vec![(*p, a)]);
                }
            }
        }
    }
    if d >= 2 {
        for (x, p) in pos.iter().enumerate() {
            for q in &pos[x + 1..] {
                for a in 0..tg.alpha.len() {
                    for b in 0..tg.alpha.len() {
                        if differs(*p, a) && differs(*q, b) {
                            out.push(vec![(*p, a), (*q, b)]);
                        }
                    }
                }
            }
        }
    }
    out
}

fn toy_large<T: Toy>(ctx: &mut Ctx, tg: &TG<T>) {
    for n in LARGE_N {
        ctx.validate(ark_std::log2(n) as usize == ceil_log2(n), "ceil_log2 model");
        let mut pos = if ctx.quick() { vec![0, 1, n / 2, n - 1] } else { vec![0, 1, 2, n / 2 - 1, n / 2, n - 2, n - 1] };
        pos.dedup();
        let d = if ctx.quick() && n > 257 { 1 } else { 2 };
        for (bname, bp, bk) in base_vectors(tg, n) {
            let devs = deviations(tg, &bp, &bk, &pos, d);
            ctx.sweep(&format!("large/{}/n={n}/{bname}/dev<={d}", tg.t.name()), devs.len() as u64, |i, loc| {
                let dv = &devs[i as usize];
                let mut pts = bp.clone();
                let mut ks = bk.clone();
                for (p, a) in dv {
                    pts[*p] = tg.alpha[*a].0;
                    ks[*p] = tg.alpha[*a].1;
                }
                let desc = || {
                    let v: Vec<String> = dv.iter().map(|(p, a)| format!("[{}]:={}*{}", p, tg.alpha[*a].1, tg.pt(tg.alpha[*a].0))).collect();
                    format!("n={n} base vector {bname} with {}", if v.is_empty() { "no deviation".to_string() } else { v.join(" ") })
                };
                if loc.sampling() {
                    loc.sample(format!("{} {}", tg.t.name(), desc()));
                }
                loc.class_if(!dv.is_empty(), "large:deviating");
                check_all(tg, loc, &pts, &ks, &desc);
            });
        }
    }
}

/// content of the length-mismatch vectors: position i holds (point, scalar); built so that different
/// truncations give different sums
fn content<T: Toy>(tg: &TG<T>, variant: usize, len: usize) -> (Vec<usize>, Vec<u64>) {
    let r = tg.t.r();
    let gen = tg.t.gen();
    match variant {
        0 => ((0..len).map(|i| tg.kp[gen][(3 * i + 1) % r as usize]).collect(), (0..len).map(|i| (5 * i as u64 + 2) % r).collect()),
        1 => ((0..len).map(|i| tg.bset[(i + 1) % tg.bset.len()]).collect(), (0..len).map(|i| tg.kset[(2 * i + 1) % tg.kset.len()]).collect()),
        _ => ((0..len).map(|i| (11 * i + 1) % tg.n()).collect(), (0..len).map(|i| if i % 3 == 0 { 1 } else { (i as u64 * i as u64 + 1) % r }).collect()),
    }
}

fn toy_len_mismatch<T: Toy>(ctx: &mut Ctx, tg: &TG<T>) {
    let mut pairs: Vec<(usize, usize)> = Vec::new();
    for a in 0..=4 {
        for b in 0..=4 {
            pairs.push((a, b));
        }
    }
    for a in [31, 32, 33] {
        for b in [31, 32, 33] {
            pairs.push((a, b));
        }
    }
    pairs.extend([(0, 32), (32, 0), (1, 33), (33, 1), (64, 31), (31, 64), (257, 33), (33, 257), (70, 33), (33, 70), (129, 128)]);
    // self-validation: with content 0 every truncation length 0..=4 gives a different sum
    {
        let (p, k) = content(tg, 0, 4);
        let sums: Vec<usize> = (0..=4).map(|m| tg.sum(&p[..m], &k[..m])).collect();
        let mut s = sums.clone();
        s.sort();
        s.dedup();
        ctx.validate(s.len() == 5, &format!("{}: truncations distinguishable", tg.t.name()));
    }
    let nv = 3u64;
    ctx.sweep(&format!("len_mismatch/{}", tg.t.name()), pairs.len() as u64 * nv, |i, loc| {
        let [ip, v] = unrank(i, [pairs.len() as u64, nv]);
        let (nb, ns) = pairs[ip as usize];
        let (pts, _) = content(tg, v as usize, nb);
        let (_, ks) = content(tg, v as usize, ns);
        let m = nb.min(ns);
        let want = tg.sum(&pts[..m], &ks[..m]);
        let bases = tg.bases(&pts);
        let scalars: Vec<Sc<T::G>> = ks.iter().map(|k| Sc::<T::G>::from(*k)).collect();
        let bigs: Vec<Big<T::G>> = ks.iter().map(|k| Big::<T::G>::from(*k)).collect();
        let desc = || {
            if nb.max(ns) <= 4 {
                format!("{} |bases|={nb} |scalars|={ns} bases={:?} scalars={:?}", tg.t.name(), pts.iter().map(|p| tg.pt(*p)).collect::<Vec<_>>(), ks)
            } else {
                format!("{} |bases|={nb} |scalars|={ns} content variant {v}", tg.t.name())
            }
        };
        if loc.sampling() {
            loc.sample(desc());
        }
        tg.classify(loc, &pts[..m], &ks[..m], want);
        // checked entry points: Err(min) exactly when the lengths differ
        let checked: [(&str, Result<T::G, usize>); 2] = [("msm", <T::G as VariableBaseMSM>::msm(&bases, &scalars)), ("config_msm", T::cfg_msm(&bases, &scalars))];
        for (site, res) in checked {
            if nb != ns {
                loc.class("len_mismatch_checked");
                loc.check_at(site, matches!(res, Err(e) if e == m), || format!("{}: want Err({m}) got {:?}", desc(), res.map(|v| tg.t.idx(&v))));
            } else {
                loc.check_at(site, matches!(&res, Ok(v) if tg.t.idx(v) == Some(want)), || format!("{}: want Ok({}) got {:?}", desc(), tg.pt(want), res));
            }
        }
        // unchecked entry points: the sum over the common prefix
        let unchecked: [(&str, T::G); 4] = [
            ("msm_unchecked", <T::G as VariableBaseMSM>::msm_unchecked(&bases, &scalars)),
            ("msm_bigint", <T::G as VariableBaseMSM>::msm_bigint(&bases, &bigs)),
            ("msm_bigint_plain", msm_bigint_plain::<T::G>(&bases, &bigs)),
            ("msm_bigint_signed", msm_bigint_signed::<T::G>(&bases, &bigs)),
        ];
        loc.class("plain_bucket_variant");
        for (site, got) in unchecked {
            loc.class_if(nb != ns, "len_mismatch_unchecked");
            let gi = tg.t.idx(&got);
            loc.check_at(site, gi == Some(want), || format!("{}: got {:?} (oracle index {:?}) want {} = sum over the first {m} pairs", desc(), got, gi, tg.pt(want)));
        }
        // msm_chunks: streams are aligned at their ENDS (code comment "align the streams"; the skipped prefix of
        // the longer base stream is the library's stream convention); more scalars than bases is refused by assert
        let (bs, ss) = (bases.as_slice(), scalars.as_slice());
        if ns <= nb {
            // which end of a LONGER base stream the scalars are paired with is not documented (only a code comment
            // "align the streams"): pairing with the last ns bases or with the first ns bases are both accepted, the
            // one observed is recorded
            let want_tail = tg.sum(&pts[nb - ns..], &ks);
            let want_front = tg.sum(&pts[..ns], &ks);
            loc.class_if(ns < nb, "msm_chunks:bases_longer");
            loc.class_if(ns < nb && ns >= 32, "msm_chunks:bases_longer_n>=32");
            let got = <T::G as VariableBaseMSM>::msm_chunks(&bs, &ss);
            let gi = tg.t.idx(&got);
            loc.class_if(ns < nb && want_tail != want_front && gi == Some(want_tail), "observed:msm_chunks_pairs_scalars_with_LAST_bases");
            loc.class_if(ns < nb && want_tail != want_front && gi == Some(want_front), "observed:msm_chunks_pairs_scalars_with_FIRST_bases");
            loc.check_at(if ns == nb { "msm_chunks" } else { "msm_chunks_bases_longer" }, gi == Some(want_tail) || gi == Some(want_front), || {
                format!("{}: got {:?} (oracle index {:?}) want {} (scalars against the last {ns} bases) or {} (against the first {ns})", desc(), got, gi, tg.pt(want_tail), tg.pt(want_front))
            });
        } else {
            let res = catch_unwind(AssertUnwindSafe(|| <T::G as VariableBaseMSM>::msm_chunks(&bs, &ss)));
            // not demanded by the property: recorded only
            loc.class_if(res.is_err(), "msm_chunks:more_scalars_than_bases_refused");
        }
    });
}

// ---- streams with different chunkings -----------------------------------------------------------------
#[derive(Clone)]
struct ChunkedStream<T> {
    chunks: Arc<Vec<Vec<T>>>,
    n: usize,
}
struct ChunkedIter<T> {
    chunks: Arc<Vec<Vec<T>>>,
    c: usize,
    i: usize,
}
impl<T: Copy> Iterator for ChunkedIter<T> {
    type Item = T;
    fn next(&mut self) -> Option<T> {
        loop {
            let ch = self.chunks.get(self.c)?;
            if self.i < ch.len() {
                self.i += 1;
                return Some(ch[self.i - 1]);
            }
            self.c += 1;
            self.i = 0;
        }
    }
}
impl<T: Copy + Send + Sync> Iterable for ChunkedStream<T> {
    type Item = T;
    type Iter = ChunkedIter<T>;
    fn iter(&self) -> ChunkedIter<T> {
        ChunkedIter { chunks: self.chunks.clone(), c: 0, i: 0 }
    }
    fn len(&self) -> usize {
        self.n
    }
}
/// split `v` into chunks whose sizes cycle through `pattern` (zeros = empty chunks)
fn chunked<T: Copy>(v: &[T], pattern: &[usize]) -> ChunkedStream<T> {
    let mut chunks = Vec::new();
    let mut at = 0;
    let mut k = 0;
    while at < v.len() {
        let s = pattern[k % pattern.len()].min(v.len() - at);
        chunks.push(v[at..at + s].to_vec());
        at += s;
        k += 1;
    }
    chunks.push(Vec::new());
    ChunkedStream { chunks: Arc::new(chunks), n: v.len() }
}
const STREAM_KINDS: [&str; 6] = ["slice", "&Vec", "chunks(1)", "chunks(2,0,3)", "chunks(7)", "Reverse(reversed)"];
fn chunks_sc<G: VariableBaseMSM, J>(bs: &J, ks: &[Sc<G>], skind: usize) -> G
where
    J: Iterable,
    J::Item: Borrow<Base<G>>,
{
    match skind {
        0 => G::msm_chunks(bs, &ks),
        1 => {
            let v = ks.to_vec();
            G::msm_chunks(bs, &&v)
        }
        2 => G::msm_chunks(bs, &chunked(ks, &[1])),
        3 => G::msm_chunks(bs, &chunked(ks, &[2, 0, 3])),
        4 => G::msm_chunks(bs, &chunked(ks, &[7])),
        _ => {
            let rv: Vec<Sc<G>> = ks.iter().rev().copied().collect();
            G::msm_chunks(bs, &Reverse(rv.as_slice()))
        }
    }
}
fn chunks_any<G: VariableBaseMSM>(bases: &[Base<G>], ks: &[Sc<G>], bkind: usize, skind: usize) -> G {
    match bkind {
        0 => chunks_sc::<G, _>(&bases, ks, skind),
        1 => {
            let v = bases.to_vec();
            chunks_sc::<G, _>(&&v, ks, skind)
        }
        2 => chunks_sc::<G, _>(&chunked(bases, &[1]), ks, skind),
        3 => chunks_sc::<G, _>(&chunked(bases, &[2, 0, 3]), ks, skind),
        4 => chunks_sc::<G, _>(&chunked(bases, &[7]), ks, skind),
        _ => {
            let rv: Vec<Base<G>> = bases.iter().rev().copied().collect();
            chunks_sc::<G, _>(&Reverse(rv.as_slice()), ks, skind)
        }
    }
}

fn toy_streams<T: Toy>(ctx: &mut Ctx, tg: &TG<T>, big_streams: bool) {
    let lens: Vec<(usize, usize)> = vec![(0, 0), (1, 1), (2, 2), (3, 3), (5, 5), (8, 8), (31, 31), (32, 32), (33, 33), (64, 64), (100, 100), (3, 1), (5, 2), (33, 31), (40, 32), (8, 0), (70, 33), (129, 128)];
    let nk = STREAM_KINDS.len() as u64;
    ctx.sweep(&format!("streams/{}", tg.t.name()), lens.len() as u64 * 3 * nk * nk, |i, loc| {
        let [il, v, bkind, skind] = unrank(i, [lens.len() as u64, 3, nk, nk]);
        let (nb, ns) = lens[il as usize];
        let (pts, _) = content(tg, v as usize, nb);
        let (_, ks) = content(tg, v as usize, ns);
        let want = tg.sum(&pts[nb - ns..], &ks);
        let want_front = tg.sum(&pts[..ns], &ks);
        let bases = tg.bases(&pts);
        let scalars: Vec<Sc<T::G>> = ks.iter().map(|k| Sc::<T::G>::from(*k)).collect();
        let desc = || format!("{} msm_chunks |bases|={nb} ({}) |scalars|={ns} ({}) content variant {v}", tg.t.name(), STREAM_KINDS[bkind as usize], STREAM_KINDS[skind as usize]);
        if loc.sampling() {
            loc.sample(desc());
        }
        tg.classify(loc, &pts[nb - ns..], &ks, want);
        loc.class_if(bkind >= 2 || skind >= 2, "msm_chunks:custom_stream");
        loc.class_if(ns < nb, "msm_chunks:bases_longer");
        loc.class_if(ns < nb && ns >= 32, "msm_chunks:bases_longer_n>=32");
        let got = chunks_any::<T::G>(&bases, &scalars, bkind as usize, skind as usize);
        let gi = tg.t.idx(&got);
        // (undocumented alignment of a longer base stream: last-ns and first-ns pairing both accepted, see len_mismatch)
        loc.class_if(ns < nb && want != want_front && gi == Some(want), "observed:msm_chunks_pairs_scalars_with_LAST_bases");
        loc.class_if(ns < nb && want != want_front && gi == Some(want_front), "observed:msm_chunks_pairs_scalars_with_FIRST_bases");
        loc.check_at(if ns == nb { "msm_chunks" } else { "msm_chunks_bases_longer" }, gi == Some(want) || (ns < nb && gi == Some(want_front)), || {
            format!("{}: got {:?} (oracle index {:?}) want {} (or, pairing with the first bases, {})", desc(), got, gi, tg.pt(want), tg.pt(want_front))
        });
    });
    if !big_streams {
        return;
    }
    // more than one 2^20 step
    let step = 1usize << 20;
    let big: Vec<usize> = if ctx.quick() { vec![step - 1, step, step + 1] } else { vec![step - 1, step, step + 1, 2 * step, 2 * step + 1, 3 * step + 5] };
    ctx.sweep(&format!("streams/{}/steps_of_2^20", tg.t.name()), big.len() as u64 * 2, |i, loc| {
        let [il, v] = unrank(i, [big.len() as u64, 2]);
        let n = big[il as usize];
        let (pts, ks) = content(tg, v as usize, n);
        let want = tg.sum(&pts, &ks);
        let bases = tg.bases(&pts);
        let scalars: Vec<Sc<T::G>> = ks.iter().map(|k| Sc::<T::G>::from(*k)).collect();
        loc.class("n>=32");
        loc.class_if(n > step, "msm_chunks:several_steps");
        if loc.sampling() {
            loc.sample(format!("{} msm_chunks n={n} content variant {v}", tg.t.name()));
        }
        let got = if v == 0 { chunks_any::<T::G>(&bases, &scalars, 0, 0) } else { chunks_any::<T::G>(&bases, &scalars, 4, 3) };
        let gi = tg.t.idx(&got);
        loc.check_at("msm_chunks", gi == Some(want), || format!("{} msm_chunks n={n} content variant {v}: got {:?} (oracle index {:?}) want {}", tg.t.name(), got, gi, tg.pt(want)));
        // the slice entry points at this size as well
        let got = <T::G as VariableBaseMSM>::msm_unchecked(&bases, &scalars);
        let gi = tg.t.idx(&got);
        loc.check_at("msm_unchecked", gi == Some(want), || format!("{} msm_unchecked n={n} content variant {v}: got {:?} (oracle index {:?}) want {}", tg.t.name(), got, gi, tg.pt(want)));
    });
}

// =====================================================================================================
// history part: ChunkedPippenger / HashMapPippenger
// =====================================================================================================
#[derive(Clone, Copy, PartialEq, Eq, Debug)]
enum Acc {
    ChunkedNew,
    ChunkedWithSize,
    HashMap,
}
const N_ACTIONS: usize = 6;
/// the action alphabet (point index, scalar): (G,1), (G,r-1), (-G,1), (2G,3), (O,5), (G,0)
fn actions<T: Toy>(tg: &TG<T>) -> [(usize, u64); N_ACTIONS] {
    let g = tg.t.tab();
    let gen = tg.t.gen();
    let r = tg.t.r();
    [(gen, 1), (gen, r - 1), (g.neg(gen), 1), (tg.kp[gen][2], 3), (g.id, 5), (gen, 0)]
}
/// the real accumulator rebuilt from `new`/`with_size` by replaying the history, then finalized
fn replay<T: Toy>(tg: &TG<T>, kind: Acc, buf: usize, acts: &[(usize, u64); N_ACTIONS], h: &[u8]) -> T::G {
    match kind {
        Acc::ChunkedNew | Acc::ChunkedWithSize => {
            let mut p = if kind == Acc::ChunkedNew { ChunkedPippenger::<T::G>::new(buf) } else { ChunkedPippenger::<T::G>::with_size(buf) };
            for a in h {
                let (b, k) = acts[*a as usize];
                p.add(tg.t.base(b), Big::<T::G>::from(k));
            }
            p.finalize()
        }
        Acc::HashMap => {
            let mut p = HashMapPippenger::<T::G>::new(buf);
            for a in h {
                let (b, k) = acts[*a as usize];
                p.add(tg.t.base(b), Sc::<T::G>::from(k));
            }
            p.finalize()
        }
    }
}
#[derive(Default, Debug)]
struct HistInfo {
    flushes: u64,
    finalize_empty: bool,
    merge: bool,
    merged_zero: bool,
}
/// model of the buffering (labels only) - the expected VALUE is the plain oracle sum
fn hist_model(kind: Acc, buf: usize, r: u64, acts: &[(usize, u64); N_ACTIONS], h: &[u8]) -> HistInfo {
    let mut info = HistInfo::default();
    match kind {
        Acc::ChunkedNew | Acc::ChunkedWithSize => {
            let mut pending = 0usize;
            for _ in h {
                pending += 1;
                if pending == buf {
                    info.flushes += 1;
                    pending = 0;
                }
            }
            info.finalize_empty = pending == 0;
        }
        Acc::HashMap => {
            let mut m: BTreeMap<usize, u64> = BTreeMap::new();
            for a in h {
                let (b, k) = acts[*a as usize];
                let merged = m.contains_key(&b);
                let e = m.entry(b).or_insert(0);
                *e = (*e + k) % r;
                if merged {
                    info.merge = true;
                    if *e == 0 {
                        info.merged_zero = true;
                    }
                }
                if m.len() == buf {
                    info.flushes += 1;
                    m.clear();
                }
            }
            info.finalize_empty = m.is_empty();
        }
    }
    info
}

fn history<T: Toy>(ctx: &mut Ctx, tg: &'static TG<T>) {
    let depth: u8 = ctx.t(4, 6);
    let acts = actions(tg);
    let r = tg.t.r();
    let name = tg.t.name().to_string();
    let kinds = [Acc::ChunkedNew, Acc::ChunkedWithSize, Acc::HashMap];
    let bufs: Vec<usize> = (1..=depth as usize + 1).collect();
    // fresh accumulators: finalize without any add
    ctx.sweep(&format!("history/{name}/fresh"), (kinds.len() * bufs.len()) as u64, |i, loc| {
        let [ik, ib] = unrank(i, [kinds.len() as u64, bufs.len() as u64]);
        let (kind, buf) = (kinds[ik as usize], bufs[ib as usize]);
        loc.class("stream:finalize_empty");
        let got = replay(tg, kind, buf, &acts, &[]);
        loc.check_at("finalize", tg.t.idx(&got) == Some(tg.t.tab().id), || format!("{name} {kind:?} buf={buf}: finalize of a fresh accumulator = {got:?}"));
    });
    for kind in kinds {
        for buf in &bufs {
            let buf = *buf;
            let counters: Arc<[AtomicU64; 6]> = Arc::new(Default::default());
            let c2 = counters.clone();
            let acts2 = acts;
            let mname = format!("history/{name}/{kind:?}/buf={buf}");
            let before = ctx.transitions;
            let nm = name.clone();
            run_seq(
                ctx,
                &mname,
                vec![Vec::<u8>::new()],
                N_ACTIONS,
                depth,
                move |a| {
                    let (b, k) = acts2[a];
                    format!("add({:?},{k})", tg.t.tab().pts[b])
                },
                move |h: &Vec<u8>, a: usize| {
                    let mut h2 = h.clone();
                    h2.push(a as u8);
                    let pts: Vec<usize> = h2.iter().map(|x| acts[*x as usize].0).collect();
                    let ks: Vec<u64> = h2.iter().map(|x| acts[*x as usize].1).collect();
                    let want = tg.sum(&pts, &ks);
                    let info = hist_model(kind, buf, r, &acts, &h2);
                    c2[0].fetch_add(1, Ordering::Relaxed);
                    if info.flushes > 0 {
                        c2[1].fetch_add(1, Ordering::Relaxed);
                    }
                    if info.finalize_empty {
                        c2[2].fetch_add(1, Ordering::Relaxed);
                    }
                    if info.merge {
                        c2[3].fetch_add(1, Ordering::Relaxed);
                    }
                    if info.merged_zero {
                        c2[4].fetch_add(1, Ordering::Relaxed);
                    }
                    if info.flushes > 1 {
                        c2[5].fetch_add(1, Ordering::Relaxed);
                    }
                    let got = replay(tg, kind, buf, &acts, &h2);
                    let gi = tg.t.idx(&got);
                    if gi == Some(want) {
                        Ok(Some(h2))
                    } else {
                        Err(format!(
                            "{nm} {kind:?} buf_size={buf} history {}: finalize = {got:?} (oracle index {gi:?}) want {} [model: {info:?}]",
                            tg.show(&pts, &ks),
                            tg.pt(want)
                        ))
                    }
                },
            );
            let single = ctx.transitions - before;
            let all = counters[0].load(Ordering::Relaxed);
            if single > 0 && all % single == 0 {
                let runs = all / single;
                let names = ["", "stream:flush_on_full", "stream:finalize_empty", "hashmap_merge", "merged_scalar_becomes_zero", "stream:flush_more_than_once"];
                for k in 1..6 {
                    let v = counters[k].load(Ordering::Relaxed) / runs;
                    if v > 0 {
                        ctx.add_class(names[k], v);
                    }
                }
            } else if single > 0 {
                ctx.machinery_error(format!("{mname}: class counters inconsistent ({all} vs {single})"));
            }
        }
    }
}

// =====================================================================================================
// make_digits
// =====================================================================================================
fn sbig(a: &[u64]) -> SBig {
    SBig::from(algebra_mc::refmodel::zmod::from_limbs(a))
}
/// the digit contract on one (a, w, num_bits)
fn digits_case<const N: usize>(loc: &mut Loc, a: [u64; N], w: usize, num_bits: usize) {
    let ba = algebra_mc::refmodel::zmod::from_limbs(&a);
    let bits = ba.bits() as usize;
    let eff = if num_bits == 0 { bits } else { num_bits };
    let dc = eff.div_ceil(w);
    let got = make_digits_vec(&BigInt::<N>(a), w, num_bits);
    let desc = || format!("make_digits(a={a:#x?}, w={w}, num_bits={num_bits}) = {got:?}");
    loc.class_if(num_bits == 0, "digits:num_bits=0_means_bits(a)");
    loc.class_if(dc == 0, "digits:empty");
    // the digit count and the digit ranges belong to the PRIVATE recoding behind the hook: observed, not judged
    loc.class_if(got.len() == dc, "observed:digits_count=ceil(num_bits/w)");
    if bits > eff {
        // num_bits does not cover a: msm never does this (scalars are < r < 2^num_bits); nothing is demanded
        loc.class("digits:num_bits_does_not_cover_a");
        return;
    }
    // windows that straddle two limbs (model: a window of w bits starting at i*w crosses a multiple of 64)
    loc.class_if(N > 1 && (0..dc).any(|i| (i * w) / 64 != (i * w + w - 1) / 64 && (i * w + w - 1) / 64 < N), "digits:window_straddles_limbs");
    if dc >= 2 {
        let (model, carry_last) = model_recode(&ba, w, dc);
        loc.class_if(carry_last, "digit_carry_into_last_window");
        loc.class_if(model.iter().any(|d| *d < 0), "digits:negative_digit");
        loc.class_if(*model.last().unwrap() == (1i128 << w), "digits:last_digit=2^w");
    }
    let mut sum = SBig::from(0);
    for (i, d) in got.iter().enumerate() {
        sum += SBig::from(*d) << (w * i);
    }
    loc.check_at("make_digits_sum", sum == SBig::from(ba.clone()), || format!("{}: digits sum to {sum}", desc()));
    let half = 1i64 << (w - 1);
    let ok_inner = got.iter().take(got.len().saturating_sub(1)).all(|d| d.abs() <= half);
    let ok_last = got.last().map(|d| d.abs() <= (1i64 << w)).unwrap_or(true);
    loc.class_if(ok_inner && ok_last, "observed:digits_within_2^(w-1)_(last:2^w)");
}

fn digits_checks(ctx: &mut Ctx, real_scalars: &[[u64; 4]]) {
    // one limb: all a < 2^12, w in 2..=13, num_bits in {0,7,8,12,13,64}
    let nbs = [0usize, 7, 8, 12, 13, 64];
    ctx.sweep("make_digits/1limb", 4096 * 12 * nbs.len() as u64, |i, loc| {
        let [a, iw, inb] = unrank(i, [4096, 12, nbs.len() as u64]);
        let (w, nb) = (iw as usize + 2, nbs[inb as usize]);
        if loc.sampling() {
            loc.sample(format!("make_digits(a={a}, w={w}, num_bits={nb}) = {:?}", make_digits_vec(&BigInt::<1>([a]), w, nb)));
        }
        digits_case::<1>(loc, [a], w, nb);
    });
    // one limb, L10 and neighbours of powers of two, full 64-bit coverage
    let mut v1: Vec<u64> = L10.to_vec();
    for s in [12, 13, 31, 32, 33, 62, 63] {
        v1.extend([(1u64 << s) - 1, 1u64 << s, (1u64 << s) + 1]);
    }
    v1.push(GENERIC64);
    let v1 = dedup_sorted(v1);
    let ws: Vec<usize> = (2..=24).collect();
    let nbs1 = [0usize, 63, 64];
    ctx.sweep("make_digits/1limb_boundary", (v1.len() * ws.len() * nbs1.len()) as u64, |i, loc| {
        let [ia, iw, inb] = unrank(i, [v1.len() as u64, ws.len() as u64, nbs1.len() as u64]);
        digits_case::<1>(loc, [v1[ia as usize]], ws[iw as usize], nbs1[inb as usize]);
    });
    // two limbs: all of L10 x L10 (= deviation <= 2 over two limbs) and generic limbs
    let mut l: Vec<u64> = L10.to_vec();
    l.push(GENERIC64);
    let nbs2 = [0usize, 64, 65, 66, 100, 127, 128];
    ctx.sweep("make_digits/2limbs", (l.len() * l.len() * ws.len() * nbs2.len()) as u64, |i, loc| {
        let [i0, i1, iw, inb] = unrank(i, [l.len() as u64, l.len() as u64, ws.len() as u64, nbs2.len() as u64]);
        let a = [l[i0 as usize], l[i1 as usize]];
        if loc.sampling() {
            loc.sample(format!("make_digits(a={a:#x?}, w={}, num_bits={})", ws[iw as usize], nbs2[inb as usize]));
        }
        digits_case::<2>(loc, a, ws[iw as usize], nbs2[inb as usize]);
    });
    // four limbs: deviation <= 2 over {0000, ffff} with L10, plus the real scalar alphabets
    let mut v4: Vec<Vec<u64>> = Vec::new();
    for base in [0u64, u64::MAX] {
        v4.extend(deviation_ball(&vec![base; 4], &L10, 2));
    }
    v4.extend(real_scalars.iter().map(|a| a.to_vec()));
    let v4 = dedup_sorted(v4);
    let nbs4 = [0usize, 252, 253, 255, 256];
    ctx.sweep("make_digits/4limbs", (v4.len() * ws.len() * nbs4.len()) as u64, |i, loc| {
        let [ia, iw, inb] = unrank(i, [v4.len() as u64, ws.len() as u64, nbs4.len() as u64]);
        let mut a = [0u64; 4];
        a.copy_from_slice(&v4[ia as usize]);
        digits_case::<4>(loc, a, ws[iw as usize], nbs4[inb as usize]);
    });
    let _ = sbig;
}

// =====================================================================================================
// real 255-bit recoding: shipped groups, oracle = double-and-add on the generic `+`
// =====================================================================================================
fn dbl_add<G: PrimeGroup>(p: &G, k: &BigUint) -> G {
    let mut acc = G::zero();
    for i in (0..k.bits()).rev() {
        acc = acc + acc;
        if k.bit(i) {
            acc = acc + *p;
        }
    }
    acc
}
/// normalised representative (through the MulBase form)
fn norm<G: VariableBaseMSM>(a: &G) -> G {
    G::from(Base::<G>::from(*a))
}
fn same<G: VariableBaseMSM>(a: &G, b: &G) -> bool {
    // compare normalised representatives
    Base::<G>::from(*a) == Base::<G>::from(*b)
}

struct Real<G: VariableBaseMSM> {
    name: &'static str,
    r: BigUint,
    nb: usize,
    /// bases (as groups elements and in MulBase form) with names
    bnames: Vec<String>,
    bg: Vec<G>,
    bb: Vec<Base<G>>,
    outside: Vec<bool>,
    /// scalars
    knames: Vec<String>,
    kbig: Vec<BigUint>,
    ksc: Vec<Sc<G>>,
    kbi: Vec<Big<G>>,
    /// prod[b][k] = k * B by the oracle
    prod: Vec<Vec<G>>,
    /// carry[c][k] for c in 0..=8
    carry: Vec<Vec<bool>>,
    /// (i+1)*G and i*((i+1)G)... for the running base vector: run_b[i] = (i+1) G, run_p[i] = (i mod 7 + i) * run_b[i]
    run_b: Vec<G>,
    run_k: Vec<BigUint>,
    run_p: Vec<G>,
    cfg_msm: Option<fn(&[Base<G>], &[Sc<G>]) -> Result<G, usize>>,
}
fn real_scalar_alphabet(r: &BigUint, nb: usize) -> Vec<(String, BigUint)> {
    let one = BigUint::one();
    let two = |e: usize| BigUint::one() << e;
    let top = |c: usize| {
        let dc = nb.div_ceil(c);
        two(nb - 1) + two((dc - 1) * c - 1)
    };
    let generic = algebra_mc::refmodel::zmod::from_limbs(&[GENERIC64, GENERIC64.rotate_left(17), GENERIC64.rotate_left(31), GENERIC64.rotate_left(47)]) % r;
    vec![
        ("0".into(), BigUint::from(0u8)),
        ("1".into(), one.clone()),
        ("2".into(), BigUint::from(2u8)),
        ("r-1".into(), r - &one),
        ("(r-1)/2".into(), (r - &one) >> 1),
        ("2^64-1".into(), two(64) - &one),
        ("2^64".into(), two(64)),
        ("2^128+1".into(), two(128) + &one),
        ("top_carry_c3".into(), top(3)),
        ("top_carry_c5".into(), top(5)),
        ("top_window_max".into(), (r >> (nb - 3)) << (nb - 3)),
        ("generic".into(), generic),
    ]
}
impl<G: VariableBaseMSM> Real<G> {
    fn new(ctx: &mut Ctx, name: &'static str, extra: Option<Base<G>>, cfg_msm: Option<fn(&[Base<G>], &[Sc<G>]) -> Result<G, usize>>) -> Self {
        let r: BigUint = Sc::<G>::MODULUS.into();
        let nb = Sc::<G>::MODULUS_BIT_SIZE as usize;
        ctx.validate(r.bits() as usize == nb, &format!("{name}: modulus bit size"));
        let gen = G::generator();
        let five = gen + gen + gen + gen + gen;
        let mut bnames: Vec<String> = vec!["O".into(), "G".into(), "-G".into(), "5G".into()];
        let gb: Base<G> = gen.into();
        let mut bb: Vec<Base<G>> = vec![G::zero().into(), gb, -gb, five.into()];
        if let Some(x) = extra {
            bnames.push("X(outside the subgroup)".into());
            bb.push(x);
        }
        let bg: Vec<G> = bb.iter().map(|b| G::from(*b)).collect();
        let outside: Vec<bool> = bg.iter().map(|b| !dbl_add(b, &r).is_zero()).collect();
        ctx.validate(!outside[..4].iter().any(|x| *x), &format!("{name}: r*G = O by the oracle"));
        if extra.is_some() {
            ctx.validate(outside[4], &format!("{name}: the extra base is outside the subgroup"));
        }
        let ks = real_scalar_alphabet(&r, nb);
        ctx.validate(ks.iter().all(|(_, k)| k < &r), &format!("{name}: scalar alphabet below r"));
        let knames: Vec<String> = ks.iter().map(|k| k.0.clone()).collect();
        let kbig: Vec<BigUint> = ks.iter().map(|k| k.1.clone()).collect();
        let kbi: Vec<Big<G>> = kbig.iter().map(|k| Big::<G>::try_from(k.clone()).ok().expect("fits")).collect();
        let ksc: Vec<Sc<G>> = kbi.iter().map(|k| Sc::<G>::from_bigint(*k).expect("below r")).collect();
        ctx.validate(ksc.iter().zip(&kbig).all(|(s, k)| Into::<BigUint>::into(s.into_bigint()) == *k), &format!("{name}: scalar conversion"));
        let prod: Vec<Vec<G>> = bg.iter().map(|b| kbig.iter().map(|k| dbl_add(b, k)).collect()).collect();
        let mut carry = vec![Vec::new(); 9];
        for c in 2..=8 {
            carry[c] = kbig.iter().map(|k| carries_into_last(k, c, nb)).collect();
        }
        ctx.validate(carry[3][8] && carry[5][9], &format!("{name}: top-window carry scalars carry (model)"));
        let mut run_b = Vec::new();
        let mut run_k = Vec::new();
        let mut run_p = Vec::new();
        let mut acc = G::zero();
        for i in 0..40usize {
            acc = acc + gen;
            run_b.push(acc);
            // scalars spread over the whole range: i * floor(r / 41) + i
            let k = (&r / BigUint::from(41u8)) * BigUint::from(i) + BigUint::from(i);
            ctx.validate(k < r, "running scalar below r");
            run_p.push(dbl_add(&acc, &k));
            run_k.push(k);
        }
        Real { name, r, nb, bnames, bg, bb, outside, knames, kbig, ksc, kbi, prod, carry, run_b, run_k, run_p, cfg_msm }
    }
    fn na(&self) -> usize {
        self.bb.len() * self.kbig.len()
    }
    /// alphabet member a -> (base index, scalar index)
    fn al(&self, a: usize) -> (usize, usize) {
        (a / self.kbig.len(), a % self.kbig.len())
    }
}

/// one real instance: `items[i]` = Ok((base idx, scalar idx)) from the alphabets or Err(j) = running vector entry j
fn real_case<G: VariableBaseMSM>(rc: &Real<G>, loc: &mut Loc, items: &[Result<(usize, usize), usize>], all_entry_points: bool, desc: &dyn Fn() -> String) {
    let n = items.len();
    let mut want = G::zero();
    let mut bases: Vec<Base<G>> = Vec::with_capacity(n);
    let mut scalars: Vec<Sc<G>> = Vec::with_capacity(n);
    let mut bigs: Vec<Big<G>> = Vec::with_capacity(n);
    let c = window_c(n);
    let mut carry = false;
    let mut unit = false;
    for it in items {
        match it {
            Ok((b, k)) => {
                want = want + rc.prod[*b][*k];
                bases.push(rc.bb[*b]);
                scalars.push(rc.ksc[*k]);
                bigs.push(rc.kbi[*k]);
                carry |= c <= 8 && rc.carry[c][*k];
                unit |= rc.kbig[*k].is_one();
                loc.class_if(rc.outside[*b], "base_outside_subgroup");
                loc.class_if(*b == 0, "identity_base");
            }
            Err(j) => {
                want = want + rc.run_p[*j];
                bases.push(rc.run_b[*j].into());
                let kb = Big::<G>::try_from(rc.run_k[*j].clone()).ok().unwrap();
                scalars.push(Sc::<G>::from_bigint(kb).unwrap());
                bigs.push(kb);
                carry |= c <= 8 && carries_into_last(&rc.run_k[*j], c, rc.nb);
                unit |= rc.run_k[*j].is_one();
            }
        }
    }
    if n == 0 {
        loc.class("n=0");
    } else if n < 32 {
        loc.class("n<32");
    } else {
        loc.class("n>=32");
    }
    loc.class("real_255bit_recoding");
    loc.class_if(carry, "digit_carry_into_last_window");
    loc.class_if(unit, "unit_scalar_shortcut");
    loc.class("plain_bucket_variant");
    let cmp = |loc: &mut Loc, site: &str, got: &G| {
        loc.check_at(site, same(got, &want), || format!("{} {}: got {:?} want {:?}", rc.name, desc(), norm(got), norm(&want)));
    };
    // `msm` runs the whole public chain msm -> (config msm) -> msm_unchecked -> msm_bigint -> signed-digit method
    match G::msm(&bases, &scalars) {
        Ok(v) => cmp(loc, "msm", &v),
        Err(e) => {
            loc.fail_at("msm", format!("{} {}: equal lengths but Err({e})", rc.name, desc()));
        }
    }
    cmp(loc, "msm_bigint_plain", &msm_bigint_plain::<G>(&bases, &bigs));
    if all_entry_points {
        if let Some(f) = rc.cfg_msm {
            match f(&bases, &scalars) {
                Ok(v) => cmp(loc, "config_msm", &v),
                Err(e) => {
                    loc.fail_at("config_msm", format!("{} {}: equal lengths but Err({e})", rc.name, desc()));
                }
            }
        }
        cmp(loc, "msm_unchecked", &G::msm_unchecked(&bases, &scalars));
        cmp(loc, "msm_bigint", &G::msm_bigint(&bases, &bigs));
        cmp(loc, "msm_bigint_signed", &msm_bigint_signed::<G>(&bases, &bigs));
        let (bs, ss) = (bases.as_slice(), scalars.as_slice());
        cmp(loc, "msm_chunks", &G::msm_chunks(&bs, &ss));
    }
}

fn real_checks<G: VariableBaseMSM>(ctx: &mut Ctx, rc: &Real<G>, heavy: bool) {
    let na = rc.na() as u64;
    let show = |items: &[Result<(usize, usize), usize>]| -> String {
        let v: Vec<String> = items
            .iter()
            .map(|it| match it {
                Ok((b, k)) => format!("{}*{}", rc.knames[*k], rc.bnames[*b]),
                Err(j) => format!("{}*{}G", rc.run_k[*j], j + 1),
            })
            .collect();
        format!("[{}]", v.join(", "))
    };
    // n <= 2: all (B x K)^n, every entry point   (for the heavy target group: n = 2 over a reduced alphabet in quick)
    for n in 0..=2usize {
        let full = !(heavy && n == 2 && ctx.quick());
        let red: Vec<usize> = (0..rc.na()).filter(|a| { let (b, k) = rc.al(*a); b != 3 && [0usize, 1, 3, 8, 10].contains(&k) }).collect();
        let m = if full { na } else { red.len() as u64 };
        ctx.sweep(&format!("real/{}/n={n}{}", rc.name, if full { "" } else { "/reduced" }), m.pow(n as u32), |i, loc| {
            let d = unrank_vec(i, &vec![m; n]);
            let items: Vec<Result<(usize, usize), usize>> = d.iter().map(|a| Ok(rc.al(if full { *a as usize } else { red[*a as usize] }))).collect();
            if loc.sampling() {
                loc.sample(format!("{} n={n} {}", rc.name, show(&items)));
            }
            real_case(rc, loc, &items, true, &|| format!("n={n} {}", show(&items)));
        });
    }
    // n = 3 over the reduced alphabet {O, G, -G} x {0, 1, r-1, top-window carry}
    if !heavy || ctx.thorough() {
        let red: Vec<usize> = (0..rc.na()).filter(|a| { let (b, k) = rc.al(*a); b < 3 && [0usize, 1, 3, 8].contains(&k) }).collect();
        let m = red.len() as u64;
        ctx.sweep(&format!("real/{}/n=3/reduced", rc.name), m * m * m, |i, loc| {
            let d = unrank(i, [m, m, m]);
            let items: Vec<Result<(usize, usize), usize>> = d.into_iter().map(|a| Ok(rc.al(red[a as usize]))).collect();
            real_case(rc, loc, &items, false, &|| format!("n=3 {}", show(&items)));
        });
    }
    // checked / unchecked length mismatch on the real group - for EVERY real group: the target group is the only one
    // whose `msm` is the trait default (its `Err` arm is executed nowhere else)
    let side: u64 = if heavy { 4 } else { 5 };
    ctx.sweep(&format!("real/{}/len_mismatch", rc.name), side * side, |i, loc| {
        let [nbs, nsc] = unrank(i, [side, side]);
        let (nbs, nsc) = (nbs as usize, nsc as usize);
        let m = nbs.min(nsc);
        let bases: Vec<Base<G>> = (0..nbs).map(|j| rc.run_b[j].into()).collect();
        let bigs: Vec<Big<G>> = (0..nsc).map(|j| Big::<G>::try_from(rc.run_k[j + 1].clone()).ok().unwrap()).collect();
        let scalars: Vec<Sc<G>> = bigs.iter().map(|b| Sc::<G>::from_bigint(*b).unwrap()).collect();
        let mut want = G::zero();
        for j in 0..m {
            want = want + dbl_add(&rc.run_b[j], &rc.run_k[j + 1]);
        }
        let res = G::msm(&bases, &scalars);
        if nbs != nsc {
            loc.class("len_mismatch_checked");
            loc.class("len_mismatch_unchecked");
            loc.class_if(rc.cfg_msm.is_none(), "len_mismatch:trait_default_msm_Err_arm");
            loc.check_at("msm", matches!(res, Err(e) if e == m), || format!("{} |bases|={nbs} |scalars|={nsc}: want Err({m}) got {:?}", rc.name, res));
        } else {
            loc.check_at("msm", matches!(&res, Ok(v) if same(v, &want)), || format!("{} |bases|={nbs} |scalars|={nsc}: want Ok(sum) got {:?}", rc.name, res));
        }
        if let Some(f) = rc.cfg_msm {
            let res = f(&bases, &scalars);
            if nbs != nsc {
                loc.check_at("config_msm", matches!(res, Err(e) if e == m), || format!("{} |bases|={nbs} |scalars|={nsc}: want Err({m}) got {:?}", rc.name, res));
            } else {
                loc.check_at("config_msm", matches!(&res, Ok(v) if same(v, &want)), || format!("{} |bases|={nbs} |scalars|={nsc}: want Ok(sum) got {:?}", rc.name, res));
            }
        }
        for (site, got) in [("msm_unchecked", G::msm_unchecked(&bases, &scalars)), ("msm_bigint", G::msm_bigint(&bases, &bigs)), ("msm_bigint_plain", msm_bigint_plain::<G>(&bases, &bigs)), ("msm_bigint_signed", msm_bigint_signed::<G>(&bases, &bigs))] {
            loc.check_at(site, same(&got, &want), || format!("{} |bases|={nbs} |scalars|={nsc}: got {:?} want the sum over the first {m} pairs {:?}", rc.name, norm(&got), norm(&want)));
        }
    });
    // n in {31, 32, 33}: deviations at the two ends of the long base vectors
    if heavy {
        return;
    }
    let dmax = ctx.t(1, 2);
    for n in [31usize, 32, 33] {
        let kr1 = 3usize; // r-1
        let basevecs: Vec<(&str, Vec<Result<(usize, usize), usize>>)> = vec![
            ("all(G,1)", vec![Ok((1, 1)); n]),
            ("all(G,r-1)", vec![Ok((1, kr1)); n]),
            ("all(O,0)", vec![Ok((0, 0)); n]),
            ("((i+1)G,k_i)", (0..n).map(Err).collect()),
        ];
        let pos = [0usize, n - 1];
        for (bname, bv) in basevecs {
            let mut devs: Vec<Vec<(usize, usize)>> = vec![vec![]];
            for p in pos {
                for a in 0..rc.na() {
                    if bv[p] != Ok(rc.al(a)) {
                        devs.push(vec![(p, a)]);
                    }
                }
            }
            if dmax >= 2 {
                for a in 0..rc.na() {
                    for b in 0..rc.na() {
                        if bv[pos[0]] != Ok(rc.al(a)) && bv[pos[1]] != Ok(rc.al(b)) {
                            devs.push(vec![(pos[0], a), (pos[1], b)]);
                        }
                    }
                }
            }
            ctx.sweep(&format!("real/{}/n={n}/{bname}/dev<={dmax}", rc.name), devs.len() as u64, |i, loc| {
                let dv = &devs[i as usize];
                let mut items = bv.clone();
                for (p, a) in dv {
                    items[*p] = Ok(rc.al(*a));
                }
                let desc = || {
                    let v: Vec<String> = dv.iter().map(|(p, a)| format!("[{}]:={}", p, show(&[Ok(rc.al(*a))]))).collect();
                    format!("n={n} base vector {bname} with {}", if v.is_empty() { "no deviation".to_string() } else { v.join(" ") })
                };
                if loc.sampling() {
                    loc.sample(format!("{} {}", rc.name, desc()));
                }
                // every entry point on the undeviated vectors, the public chain + the plain method elsewhere
                real_case(rc, loc, &items, dv.is_empty(), &desc);
            });
        }
    }
    let _ = (&rc.r, &rc.bg);
}

// =====================================================================================================
// real groups, long vectors: scalars cycled over a boundary alphabet, bases from a small set (identity and repeated
// bases included); every slice entry point and BOTH kernels behind the hooks; oracle = naive sum of k*B terms taken
// from a table built with the reference double-and-add
// =====================================================================================================
fn real_cycled<G: VariableBaseMSM>(ctx: &mut Ctx, name: &'static str, ns: &[usize], extra: Option<Base<G>>, cfg_msm: Option<fn(&[Base<G>], &[Sc<G>]) -> Result<G, usize>>) {
    let r: BigUint = Sc::<G>::MODULUS.into();
    let nb = Sc::<G>::MODULUS_BIT_SIZE as usize;
    ctx.validate(r.bits() as usize == nb, &format!("{name}: modulus bit size"));
    let one = BigUint::one();
    let two = |e: usize| BigUint::one() << e;
    let nl = Sc::<G>::MODULUS.as_ref().len();
    let generic = algebra_mc::refmodel::zmod::from_limbs(&(0..nl).map(|i| GENERIC64.rotate_left(11 * i as u32 + 3)).collect::<Vec<_>>()) % &r;
    // (the first eight in this order: the cycle of the work list)
    let mut ks: Vec<(String, BigUint)> = vec![
        ("r-1".into(), &r - &one),
        ("r-2".into(), &r - 2u32),
        ("2^(bits-1)".into(), two(nb - 1)),
        ("2^(bits-1)+1".into(), two(nb - 1) + &one),
        ("(r-1)/2".into(), (&r - &one) >> 1),
        ("1".into(), one.clone()),
        ("0".into(), BigUint::from(0u8)),
        ("generic".into(), generic),
        ("2^64-1".into(), two(64) - &one),
        ("2^64".into(), two(64)),
        ("2^(bits-1)-1".into(), two(nb - 1) - &one),
    ];
    ks.retain(|k| k.1 < r);
    ctx.validate(ks.len() == 11, &format!("{name}: cycled scalar alphabet below r"));
    let gen = G::generator();
    let mut bg: Vec<G> = vec![G::zero(), gen, -gen];
    let mut acc = gen;
    for j in 2..=13usize {
        acc = acc + gen;
        if [2, 3, 5, 8, 13].contains(&j) {
            bg.push(acc);
        }
    }
    let mut bnames: Vec<String> = ["O", "G", "-G", "2G", "3G", "5G", "8G", "13G"].iter().map(|x| x.to_string()).collect();
    if let Some(x) = extra {
        bg.push(G::from(x));
        bnames.push("X(outside the subgroup)".into());
    }
    let bb: Vec<Base<G>> = bg.iter().map(|b| (*b).into()).collect();
    let outside: Vec<bool> = bg.iter().map(|b| !dbl_add(b, &r).is_zero()).collect();
    ctx.validate(!outside[..8].iter().any(|x| *x) && (extra.is_none() || outside[8]), &format!("{name}: r*B = O exactly for the subgroup bases (oracle)"));
    let kbi: Vec<Big<G>> = ks.iter().map(|k| Big::<G>::try_from(k.1.clone()).ok().expect("fits")).collect();
    let ksc: Vec<Sc<G>> = kbi.iter().map(|k| Sc::<G>::from_bigint(*k).expect("below r")).collect();
    ctx.validate(ksc.iter().zip(&ks).all(|(s, k)| Into::<BigUint>::into(s.into_bigint()) == k.1), &format!("{name}: scalar conversion"));
    let prod: Vec<Vec<G>> = bg.iter().map(|b| ks.iter().map(|k| dbl_add(b, &k.1)).collect()).collect();
    let (nbases, nks) = (bb.len(), ks.len());
    let nv = 3u64;
    ctx.bound(&format!("real_cycled.{name}"), format!("n in {ns:?} x {nv} arrangements; scalars cycled over {:?}; bases {:?}; bits(r) = {nb} ({} limbs)", ks.iter().map(|k| k.0.clone()).collect::<Vec<_>>(), bnames, nl));
    ctx.sweep(&format!("real_cycled/{name}"), ns.len() as u64 * nv, |i, loc| {
        let [v, ni] = unrank(i, [nv, ns.len() as u64]);
        let n = ns[ni as usize];
        let v = v as usize;
        // arrangement v: scalar i -> alphabet[(i + v) % |K|], base i -> B[(3i + v + i / |K|) % |B|]
        let item = |i: usize| ((3 * i + v + i / nks) % nbases, (i + v) % nks);
        let mut want = G::zero();
        let mut bases: Vec<Base<G>> = Vec::with_capacity(n);
        let mut scalars: Vec<Sc<G>> = Vec::with_capacity(n);
        let mut bigs: Vec<Big<G>> = Vec::with_capacity(n);
        let c = window_c(n);
        let dc = nb.div_ceil(c);
        let (mut carry, mut neg, mut top) = (false, false, false);
        for i in 0..n {
            let (b, k) = item(i);
            want = want + prod[b][k];
            bases.push(bb[b]);
            scalars.push(ksc[k]);
            bigs.push(kbi[k]);
            if i < nks {
                let (digits, cl) = model_recode(&ks[k].1, c, dc);
                carry |= dc >= 2 && cl;
                neg |= digits.iter().any(|d| *d < 0);
            }
            top |= ks[k].1.bit(nb as u64 - 1);
            loc.class_if(outside[b], "base_outside_subgroup");
            loc.class_if(b == 0, "identity_base");
        }
        loc.class(if n < 32 { "n<32" } else { "n>=32" });
        loc.class_if(n > nbases, "repeated_base");
        loc.class("plain_bucket_variant");
        loc.class("real_cycled_scalars");
        loc.class_if(carry, "digit_carry_into_last_window");
        loc.class_if(c >= 7 && dc >= 3, "real:c>=7_three_or_more_windows");
        loc.class_if(c >= 7 && neg, "real:negative_digit(c>=7)");
        loc.class_if(nb % 64 == 0, "real:scalar_bits_multiple_of_64");
        loc.class_if(nl > 4, "real:scalar_field_of_more_than_4_limbs");
        loc.class_if((nb - 1) % c == 0, "real:(bits-1)_divisible_by_window");
        loc.class_if((nb + 1) % c == 0, "real:(bits+1)_divisible_by_window");
        loc.class_if(nb % c == 0, "real:bits_divisible_by_window");
        loc.class_if(top && n < 32, "real:top_bit_scalar_n<32");
        loc.class_if(top && n == 32, "real:top_bit_scalar_n=32");
        let desc = || format!("{name} n={n} arrangement {v} (scalar i = alphabet[(i+{v}) % {nks}], base i = B[(3i+{v}+i/{nks}) % {nbases}]; first terms {:?})", (0..n.min(4)).map(|i| format!("{}*{}", ks[item(i).1].0, bnames[item(i).0])).collect::<Vec<_>>());
        if loc.sampling() {
            loc.sample(desc());
        }
        let cmp = |loc: &mut Loc, site: &str, got: &G| {
            loc.check_at(site, same(got, &want), || format!("{}: got {:?} want {:?}", desc(), norm(got), norm(&want)));
        };
        match G::msm(&bases, &scalars) {
            Ok(g) => cmp(loc, "msm", &g),
            Err(e) => loc.fail_at("msm", format!("{}: equal lengths but Err({e})", desc())),
        }
        if let Some(f) = cfg_msm {
            match f(&bases, &scalars) {
                Ok(g) => cmp(loc, "config_msm", &g),
                Err(e) => loc.fail_at("config_msm", format!("{}: equal lengths but Err({e})", desc())),
            }
        }
        cmp(loc, "msm_unchecked", &G::msm_unchecked(&bases, &scalars));
        cmp(loc, "msm_bigint", &G::msm_bigint(&bases, &bigs));
        cmp(loc, "msm_bigint_plain", &msm_bigint_plain::<G>(&bases, &bigs));
        cmp(loc, "msm_bigint_signed", &msm_bigint_signed::<G>(&bases, &bigs));
        let (bs, ss) = (bases.as_slice(), scalars.as_slice());
        cmp(loc, "msm_chunks", &G::msm_chunks(&bs, &ss));
    });
}

/// the incremental accumulators on a real curve: 100 adds over 80 distinct bases (every tenth add repeats the base
/// of the add before it), buffer sizes 1, 32, 33 (several flushes), `add` by value and by reference
fn real_accumulators<G: VariableBaseMSM>(ctx: &mut Ctx, name: &'static str) {
    let r: BigUint = Sc::<G>::MODULUS.into();
    let nb = Sc::<G>::MODULUS_BIT_SIZE as usize;
    let one = BigUint::one();
    let kv: Vec<BigUint> = vec![&r - &one, one.clone(), BigUint::from(0u8), (&r - &one) >> 1, (BigUint::one() << 64usize) - &one, BigUint::one() << (nb - 1), BigUint::from(GENERIC64) * BigUint::from(GENERIC64) % &r];
    let gen = G::generator();
    let mut pts: Vec<G> = Vec::new();
    let mut acc = G::zero();
    for _ in 0..80 {
        acc = acc + gen;
        pts.push(acc);
    }
    let nadds = 100usize;
    let mut seq: Vec<(usize, usize)> = Vec::new(); // (base index, scalar index)
    let mut next = 0usize;
    for i in 0..nadds {
        let b = if i % 10 == 9 { seq[i - 1].0 } else { next % 80 };
        if i % 10 != 9 {
            next += 1;
        }
        seq.push((b, i % kv.len()));
    }
    let mut want = G::zero();
    for (b, k) in &seq {
        want = want + dbl_add(&pts[*b], &kv[*k]);
    }
    let bb: Vec<Base<G>> = pts.iter().map(|p| (*p).into()).collect();
    let kbi: Vec<Big<G>> = kv.iter().map(|k| Big::<G>::try_from(k.clone()).ok().expect("fits")).collect();
    let ksc: Vec<Sc<G>> = kbi.iter().map(|k| Sc::<G>::from_bigint(*k).expect("below r")).collect();
    let kinds = [Acc::ChunkedNew, Acc::ChunkedWithSize, Acc::HashMap];
    let bufs = [1usize, 32, 33];
    ctx.bound(&format!("real_accumulators.{name}"), format!("{nadds} adds over 80 distinct bases (i+1)G, every tenth add repeats the previous base; scalars cycled over r-1, 1, 0, (r-1)/2, 2^64-1, 2^(bits-1), generic; ChunkedPippenger::new / with_size / HashMapPippenger x buffer sizes {bufs:?} x add by value / by reference"));
    ctx.sweep(&format!("real_accumulators/{name}"), (kinds.len() * bufs.len() * 2) as u64, |i, loc| {
        let [ik, ib, byref] = unrank(i, [kinds.len() as u64, bufs.len() as u64, 2]);
        let (kind, buf, byref) = (kinds[ik as usize], bufs[ib as usize], byref == 1);
        // model of the buffering (labels only)
        let flushes = match kind {
            Acc::HashMap => {
                let mut m = std::collections::BTreeSet::new();
                let mut f = 0;
                for (b, _) in &seq {
                    m.insert(*b);
                    if m.len() == buf {
                        f += 1;
                        m.clear();
                    }
                }
                f
            }
            _ => nadds / buf,
        };
        loc.class_if(flushes >= 1, "stream:flush_on_full");
        loc.class_if(flushes >= 2, "stream:flush_more_than_once");
        loc.class_if(flushes >= 2 && buf > 1, "stream:real_curve_two_flushes_of_a_buffer>=32");
        loc.class_if(byref, "stream:add_by_reference");
        loc.class("repeated_base");
        loc.class_if(kind == Acc::HashMap, "hashmap_merge");
        if loc.sampling() {
            loc.sample(format!("{name}: {kind:?} buf_size={buf} by_reference={byref}: {nadds} adds, model flushes before finalize = {flushes}"));
        }
        let got: G = match kind {
            Acc::ChunkedNew | Acc::ChunkedWithSize => {
                let mut p = if kind == Acc::ChunkedNew { ChunkedPippenger::<G>::new(buf) } else { ChunkedPippenger::<G>::with_size(buf) };
                for (b, k) in &seq {
                    if byref {
                        p.add(&bb[*b], &kbi[*k]);
                    } else {
                        p.add(bb[*b], kbi[*k]);
                    }
                }
                p.finalize()
            }
            Acc::HashMap => {
                let mut p = HashMapPippenger::<G>::new(buf);
                for (b, k) in &seq {
                    if byref {
                        p.add(&bb[*b], &ksc[*k]);
                    } else {
                        p.add(bb[*b], ksc[*k]);
                    }
                }
                p.finalize()
            }
        };
        loc.ops(nadds as u64);
        loc.check_at("finalize", same(&got, &want), || format!("{name}: {kind:?} buf_size={buf} by_reference={byref} after {nadds} adds: finalize = {:?} want {:?}", norm(&got), norm(&want)));
    });
}

// =====================================================================================================
fn toy_group<T: Toy>(ctx: &mut Ctx, t: T, with_history: bool, big_streams: bool) {
    let tg: &'static TG<T> = Box::leak(Box::new(TG::new(t, ctx)));
    ctx.bound(
        &format!("{}.alphabets", tg.t.name()),
        format!(
            "B = {:?}; K = {:?} (kcarry = {}); r = {}, #E = {}",
            tg.bset.iter().map(|b| tg.pt(*b)).collect::<Vec<_>>(),
            tg.kset,
            tg.kcarry,
            tg.t.r(),
            tg.n()
        ),
    );
    toy_small(ctx, tg);
    toy_len_mismatch(ctx, tg);
    toy_streams(ctx, tg, big_streams);
    toy_large(ctx, tg);
    if with_history {
        history(ctx, tg);
    }
}

fn main() {
    let mut ctx = Ctx::from_args("C05");
    ctx.require(&[
        "n=0",
        "n<32",
        "n>=32",
        "digit_carry_into_last_window",
        "plain_bucket_variant",
        "unit_scalar_shortcut",
        "len_mismatch_checked",
        "len_mismatch_unchecked",
        "stream:flush_on_full",
        "stream:finalize_empty",
        "hashmap_merge",
        "merged_scalar_becomes_zero",
        "repeated_base",
        "identity_base",
        "base_outside_subgroup",
        "msm_chunks:custom_stream",
        "msm_chunks:several_steps",
        "digits:window_straddles_limbs",
        "real_255bit_recoding",
        // (last_digit=2^c, negative_digit(c=3 | c=5,6 | c>=7) stay as classes; they are keyed to a transcription of
        // the window rule, so the mandatory versions are the ones that hold for every window size)
        "negative_digit(every_window_size)",
        "digit_carry_into_last_window(every_window_size)",
        "stream:flush_more_than_once",
        "stream:real_curve_two_flushes_of_a_buffer>=32",
        "stream:add_by_reference",
        "len_mismatch:trait_default_msm_Err_arm",
        "msm_chunks:bases_longer_n>=32",
        "real_cycled_scalars",
        "real:c>=7_three_or_more_windows",
        "real:negative_digit(c>=7)",
        "real:scalar_bits_multiple_of_64",
        "real:scalar_field_of_more_than_4_limbs",
        "real:(bits-1)_divisible_by_window",
        "real:(bits+1)_divisible_by_window",
        "real:top_bit_scalar_n<32",
        "real:top_bit_scalar_n=32",
    ]);
    ctx.assume("oracle (toy groups): index addition table of the textbook affine group law (GroupTable), k*P by repeated table addition; projective results decoded with model arithmetic");
    ctx.assume("oracle (shipped groups): double-and-add written in the harness on the group's generic `+` (C03's subject), results compared after normalisation");
    ctx.assume("scalars are canonical (k < r); for bases outside the prime-order subgroup the sum is over the integers k_i");
    ctx.assume("msm_chunks with fewer scalars than bases: which end of the base stream the scalars are paired with is not documented (only a code comment 'align the streams'); pairing with the LAST or with the FIRST |scalars| bases is accepted and the observed one recorded (classes observed:msm_chunks_*); more scalars than bases is refused by an assert (recorded, not demanded)");
    ctx.assume("make_digits (private recoding behind the hook): only 'the digits reconstruct the scalar' (sum d_i 2^(w i) = a) is demanded, and only when num_bits covers a (msm never does otherwise); digit count and digit ranges are recorded as observed:* classes");
    ctx.assume("no group with ScalarMul::NEGATION_IS_CHEAP == false exists in the repository (short Weierstrass, twisted Edwards: true; PairingOutput: TargetField::INVERSE_IS_FAST, true for every shipped pairing - validated at start-up), so the plain-bucket dispatch arm of msm_bigint is reachable only through the verification hook, which is how it is exercised here");
    ctx.assume("history part: bases inside the prime-order subgroup (HashMapPippenger merges scalars mod r)");
    ctx.bound("small", format!("n in 0..={}, all (B x K)^n", ctx.t(3, 4)));
    ctx.bound("large", format!("n in {LARGE_N:?}; deviation positions {} x alphabet B x K; deviation <= {}", if ctx.quick() { "{0, 1, n/2, n-1}" } else { "{0, 1, 2, n/2-1, n/2, n-2, n-1}" }, if ctx.quick() { "2 for n <= 257, <= 1 above" } else { "2" }));
    ctx.bound("len_mismatch", "(|bases|,|scalars|) in {0..4}^2 + {31,32,33}^2 + 11 far pairs (incl. (70,33), (33,70), (129,128)), 3 content variants; real groups: {0..4}^2 (bls12_381 target group, trait-default msm: {0..3}^2)");
    ctx.bound("history.depth", ctx.t(4u64, 6u64));
    ctx.bound("history.buffer_sizes", format!("1..={}", ctx.t(5, 7)));
    ctx.bound("make_digits", "1 limb: a < 2^12, w 2..=13, num_bits {0,7,8,12,13,64}; boundary values/2 limbs (L10^2)/4 limbs (dev<=2 L10): w 2..=24");

    let th = ctx.thorough();
    toy_group(&mut ctx, SwToy::<SwA0P103B5>::new("SwA0P103B5"), true, true);
    toy_group(&mut ctx, SwToy::<SwA0P103B3>::new("SwA0P103B3"), false, th);
    toy_group(&mut ctx, TeToy::<TeP101>::new("TeP101"), true, true);
    // r = 337 (9 bits, cofactor 3, a != 0): two signed digits for every window size up to c = 8, so the long vectors
    // exercise negative buckets at n >= 255 as well (with 7-bit scalars a window of c >= 7 bits is a single digit)
    toy_group(&mut ctx, SwToy::<SwP1009A3B2>::new("SwP1009A3B2"), false, th);
    // r = 61 = 0b111101: with c = 3 the top window is full, so r-1 recodes with last digit 2^c (the extra bucket)
    toy_group(&mut ctx, SwToy::<SwP61A0B2>::new("SwP61A0B2"), false, th);
    {
        let t = SwToy::<SwP1009A3B2>::new("SwP1009A3B2");
        t.validate(&mut ctx);
        let t = SwToy::<SwP61A0B2>::new("SwP61A0B2");
        t.validate(&mut ctx);
        let t = SwToy::<SwA0P103B5>::new("SwA0P103B5");
        t.validate(&mut ctx);
        let t = SwToy::<SwA0P103B3>::new("SwA0P103B3");
        t.validate(&mut ctx);
        let t = TeToy::<TeP101>::new("TeP101");
        t.validate(&mut ctx);
        ctx.validate(t.complete, "TeP101 complete");
    }

    // ---- shipped groups -------------------------------------------------------------------------------
    use ark_ff::Field;
    // first curve point from x = 0, 1, 2, .. (with overwhelming probability outside the subgroup; validated by the oracle)
    let g1x = (0u64..).find_map(|x| ark_bls12_381::G1Affine::get_point_from_x_unchecked(ark_bls12_381::Fq::from(x), false).filter(|p| p.is_on_curve() && !p.infinity)).unwrap();
    let g2x = (0u64..)
        .find_map(|x| ark_bls12_381::G2Affine::get_point_from_x_unchecked(ark_bls12_381::Fq2::new(ark_bls12_381::Fq::from(x), ark_bls12_381::Fq::ONE), false).filter(|p| p.is_on_curve() && !p.infinity))
        .unwrap();
    let edx = (2u64..).find_map(|y| ark_ed_on_bls12_381::EdwardsAffine::get_point_from_y_unchecked(ark_ed_on_bls12_381::Fq::from(y), false).filter(|p| p.is_on_curve())).unwrap();
    let g1 = Real::<ark_bls12_381::G1Projective>::new(&mut ctx, "bls12_381_g1", Some(g1x), Some(<ark_bls12_381::g1::Config as sw::SWCurveConfig>::msm));
    let g2 = Real::<ark_bls12_381::G2Projective>::new(&mut ctx, "bls12_381_g2", Some(g2x), Some(<ark_bls12_381::g2::Config as sw::SWCurveConfig>::msm));
    let ed = Real::<ark_ed_on_bls12_381::EdwardsProjective>::new(&mut ctx, "ed_on_bls12_381", Some(edx), Some(<ark_ed_on_bls12_381::JubjubConfig as te::TECurveConfig>::msm));
    // target group of bls12_381: the trait-default `msm` (no configuration override) on a group whose MulBase is itself
    let gt = Real::<PairingOutput<ark_bls12_381::Bls12_381>>::new(&mut ctx, "bls12_381_gt", None, None);
    {
        // the assumption above, checked for every shipped pairing target group and the two curve models
        let cheap = [
            <PairingOutput<ark_bls12_381::Bls12_381> as ScalarMul>::NEGATION_IS_CHEAP,
            <PairingOutput<ark_bls12_377::Bls12_377> as ScalarMul>::NEGATION_IS_CHEAP,
            <PairingOutput<ark_bn254::Bn254> as ScalarMul>::NEGATION_IS_CHEAP,
            <PairingOutput<ark_bw6_761::BW6_761> as ScalarMul>::NEGATION_IS_CHEAP,
            <PairingOutput<ark_bw6_767::BW6_767> as ScalarMul>::NEGATION_IS_CHEAP,
            <PairingOutput<ark_cp6_782::CP6_782> as ScalarMul>::NEGATION_IS_CHEAP,
            <PairingOutput<ark_mnt4_298::MNT4_298> as ScalarMul>::NEGATION_IS_CHEAP,
            <PairingOutput<ark_mnt4_753::MNT4_753> as ScalarMul>::NEGATION_IS_CHEAP,
            <PairingOutput<ark_mnt6_298::MNT6_298> as ScalarMul>::NEGATION_IS_CHEAP,
            <PairingOutput<ark_mnt6_753::MNT6_753> as ScalarMul>::NEGATION_IS_CHEAP,
            <PairingOutput<ark_test_curves::bls12_381::Bls12_381> as ScalarMul>::NEGATION_IS_CHEAP,
            <ark_bls12_381::G1Projective as ScalarMul>::NEGATION_IS_CHEAP,
            <ark_ed_on_bls12_381::EdwardsProjective as ScalarMul>::NEGATION_IS_CHEAP,
        ];
        ctx.validate(cheap.into_iter().all(|c| c), "assumption: every shipped group has NEGATION_IS_CHEAP == true (the plain-bucket arm is reachable through the hook only)");
    }
    let mut real_scalars: Vec<[u64; 4]> = Vec::new();
    for k in g1.kbi.iter() {
        real_scalars.push(k.0);
    }
    for k in ed.kbi.iter() {
        real_scalars.push(k.0);
    }
    digits_checks(&mut ctx, &real_scalars);
    real_checks(&mut ctx, &g1, false);
    real_checks(&mut ctx, &ed, false);
    real_checks(&mut ctx, &g2, false);
    real_checks(&mut ctx, &gt, true);
    // ---- long vectors with cycled boundary scalars; scalar fields of 4 full limbs (256 bits), 6 and 12 limbs
    let long_ns: Vec<usize> = vec![129, 1025];
    real_cycled::<ark_bls12_381::G1Projective>(&mut ctx, "bls12_381_g1", &long_ns, Some(g1x), Some(<ark_bls12_381::g1::Config as sw::SWCurveConfig>::msm));
    real_cycled::<ark_ed_on_bls12_381::EdwardsProjective>(&mut ctx, "ed_on_bls12_381", &long_ns, Some(edx), Some(<ark_ed_on_bls12_381::JubjubConfig as te::TECurveConfig>::msm));
    // window-boundary arithmetic depends on bits(r) mod c: secp256k1 (256 bits: bits-1 = 3*5*17), secp384r1 (384 bits:
    // bits+1 = 5*7*11; c = 11 needs n > 8192: thorough)
    let sec_ns: Vec<usize> = vec![1, 2, 31, 32, 33, 129, 200, 256];
    let mut sec384_ns = sec_ns.clone();
    if th {
        sec384_ns.push(8193);
    }
    real_cycled::<ark_secp256k1::Projective>(&mut ctx, "secp256k1", &sec_ns, None, Some(<ark_secp256k1::Config as sw::SWCurveConfig>::msm));
    real_cycled::<ark_secp384r1::Projective>(&mut ctx, "secp384r1", &sec384_ns, None, Some(<ark_secp384r1::Config as sw::SWCurveConfig>::msm));
    let small_ns: Vec<usize> = vec![1, 2, 31, 32, 33];
    real_cycled::<ark_bw6_761::G1Projective>(&mut ctx, "bw6_761_g1", &small_ns, None, Some(<ark_bw6_761::g1::Config as sw::SWCurveConfig>::msm));
    real_cycled::<ark_mnt4_753::G1Projective>(&mut ctx, "mnt4_753_g1", &small_ns, None, Some(<ark_mnt4_753::g1::Config as sw::SWCurveConfig>::msm));
    real_accumulators::<ark_bls12_381::G1Projective>(&mut ctx, "bls12_381_g1");
    ctx.bound("real", format!("bls12_381 G1/G2, ed_on_bls12_381: n<=2 all (B x K)^n with |B|=5, |K|=12; n=3 over 12^3; n in {{31,32,33}} dev<={} at positions {{0,n-1}}; bls12_381 target group: n<=2", ctx.t(1, 2)));
    std::process::exit(ctx.finish());
}
