//! C18 - container and derived serializations round-trip, size exactly, fail cleanly.
//!
//! Oracle: a byte-level format model written here (`Spec::enc` / `Spec::dec`): LE integers,
//! u64 LE length prefix, 1-byte option tag, bool as 0/1, String as length-prefixed UTF-8,
//! maps as length + (k,v) pairs in key order, field elements as canonical LE integers,
//! BLS12-381 G1 in the big-endian flagged format, twisted Edwards points as y + sign bit.
//! Malformed inputs are run in child processes (`--child`) under a counting allocator.
#![allow(clippy::all)]
use algebra_mc::core::*;
use ark_bls12_381::{Fq, Fr, G1Affine, G1Projective};
use ark_ec::twisted_edwards::TECurveConfig;
use ark_ec::{AffineRepr, CurveConfig, CurveGroup};
use ark_ed_on_bls12_381::{EdwardsAffine, EdwardsConfig, Fq as EdFq, Fr as EdFr};
use ark_ff::{BigInt, Field, One, PrimeField, Zero};
use ark_serialize::{
    CanonicalDeserialize, CanonicalSerialize, Compress, CompressedChecked, CompressedUnchecked, Read, SerializationError,
    UncompressedChecked, UncompressedUnchecked, Valid, Validate, Write,
};
use num_bigint::BigUint;
use std::alloc::{GlobalAlloc, Layout, System};
use std::borrow::Cow;
use std::collections::{BTreeMap, BTreeSet, LinkedList, VecDeque};
use std::io::{BufRead, BufReader};
use std::marker::PhantomData;
use std::panic::{catch_unwind, AssertUnwindSafe};
use std::process::{Child, ChildStdin, ChildStdout, Command, Stdio};
use std::rc::Rc;
use std::sync::atomic::{AtomicBool, AtomicUsize, Ordering};
use std::sync::{Arc, Mutex, OnceLock};

// ------------------------------------------------------------------------------------------
// counting allocator (active only in --child mode)
// ------------------------------------------------------------------------------------------
struct Counting;
static CHILD_MODE: AtomicBool = AtomicBool::new(false);
static PEAK: AtomicUsize = AtomicUsize::new(0);
const ALLOC_CAP: usize = 64 << 20;

fn report_toobig(size: usize) {
    // no allocation here: format into a stack buffer and write to fd 1 directly
    let mut buf = [0u8; 40];
    let head = b"toobig ";
    buf[..head.len()].copy_from_slice(head);
    let mut digits = [0u8; 24];
    let mut n = size;
    let mut k = 0;
    loop {
        digits[k] = b'0' + (n % 10) as u8;
        n /= 10;
        k += 1;
        if n == 0 {
            break;
        }
    }
    let mut pos = head.len();
    while k > 0 {
        k -= 1;
        buf[pos] = digits[k];
        pos += 1;
    }
    buf[pos] = b'\n';
    pos += 1;
    use std::os::fd::FromRawFd;
    let mut f = std::mem::ManuallyDrop::new(unsafe { std::fs::File::from_raw_fd(1) });
    let _ = f.write_all(&buf[..pos]);
}

#[inline]
fn note(size: usize) -> bool {
    if CHILD_MODE.load(Ordering::Relaxed) {
        PEAK.fetch_max(size, Ordering::Relaxed);
        if size > ALLOC_CAP {
            report_toobig(size);
            return false;
        }
    }
    true
}

unsafe impl GlobalAlloc for Counting {
    unsafe fn alloc(&self, l: Layout) -> *mut u8 {
        if !note(l.size()) {
            return std::ptr::null_mut();
        }
        System.alloc(l)
    }
    unsafe fn dealloc(&self, p: *mut u8, l: Layout) {
        System.dealloc(p, l)
    }
    unsafe fn alloc_zeroed(&self, l: Layout) -> *mut u8 {
        if !note(l.size()) {
            return std::ptr::null_mut();
        }
        System.alloc_zeroed(l)
    }
    unsafe fn realloc(&self, p: *mut u8, l: Layout, new: usize) -> *mut u8 {
        if !note(new) {
            return std::ptr::null_mut();
        }
        System.realloc(p, l, new)
    }
}
#[global_allocator]
static GLOBAL: Counting = Counting;

// ------------------------------------------------------------------------------------------
// small helpers: hex, base64 (standard alphabet, no padding), LE integers
// ------------------------------------------------------------------------------------------
fn hex(b: &[u8]) -> String {
    let mut s = String::with_capacity(2 * b.len());
    for x in b {
        s.push(char::from_digit((*x >> 4) as u32, 16).unwrap());
        s.push(char::from_digit((*x & 15) as u32, 16).unwrap());
    }
    s
}
fn unhex(s: &str) -> Vec<u8> {
    let b = s.as_bytes();
    let d = |c: u8| (c as char).to_digit(16).unwrap() as u8;
    (0..b.len() / 2).map(|i| d(b[2 * i]) << 4 | d(b[2 * i + 1])).collect()
}
const B64: &[u8; 64] = b"ABCDEFGHIJKLMNOPQRSTUVWXYZabcdefghijklmnopqrstuvwxyz0123456789+/";
fn b64(b: &[u8]) -> String {
    let mut s = String::new();
    for ch in b.chunks(3) {
        let n = (ch[0] as u32) << 16 | (*ch.get(1).unwrap_or(&0) as u32) << 8 | *ch.get(2).unwrap_or(&0) as u32;
        let take = ch.len() + 1;
        for k in 0..take {
            s.push(B64[((n >> (18 - 6 * k)) & 63) as usize] as char);
        }
    }
    s
}
fn unb64(s: &str) -> Option<Vec<u8>> {
    let mut out = Vec::new();
    let mut acc = 0u32;
    let mut bits = 0;
    for c in s.bytes() {
        let v = B64.iter().position(|x| *x == c)? as u32;
        acc = acc << 6 | v;
        bits += 6;
        if bits >= 8 {
            bits -= 8;
            out.push((acc >> bits) as u8);
            acc &= (1 << bits) - 1;
        }
    }
    Some(out)
}
fn put_le(out: &mut Vec<u8>, x: u128, n: usize) {
    for k in 0..n {
        out.push(((x >> (8 * k)) & 0xff) as u8);
    }
}
fn get_le(s: &[u8]) -> u128 {
    let mut a = 0u128;
    for (k, b) in s.iter().enumerate() {
        a |= (*b as u128) << (8 * k);
    }
    a
}

static MACHINERY: Mutex<Vec<String>> = Mutex::new(Vec::new());
/// evidence keeps at most 60 samples: spread them over the three kinds of sweep
static SAMPLES: [AtomicUsize; 3] = [AtomicUsize::new(0), AtomicUsize::new(0), AtomicUsize::new(0)];
fn sample_slot(kind: usize, every: usize, max: usize) -> bool {
    let n = SAMPLES[kind].fetch_add(1, Ordering::Relaxed);
    n % every == 0 && n / every < max
}
fn machinery(s: String) {
    let mut m = MACHINERY.lock().unwrap();
    if m.len() < 20 {
        m.push(s);
    }
}

// ------------------------------------------------------------------------------------------
// the format model
// ------------------------------------------------------------------------------------------
#[derive(Default)]
struct E {
    out: Vec<u8>,
    /// (offset, value) of every length prefix written
    lens: Vec<(usize, u64)>,
}
impl E {
    fn len_prefix(&mut self, n: usize) {
        self.lens.push((self.out.len(), n as u64));
        put_le(&mut self.out, n as u128, 8);
    }
}
struct D<'a> {
    r: &'a [u8],
    depth: u32,
    why: &'static str,
    /// an element of a container started with >= 1 byte available but could not be completed
    inside: bool,
    /// kind of the first length-prefixed container whose prefix exceeds the bytes that remain (this is where an
    /// implementation that trusts the prefix would reserve memory)
    culprit: Option<&'static str>,
    /// nesting depth (sequence / array / option) at which `bad` was raised
    fail_depth: u32,
}
impl<'a> D<'a> {
    fn new(r: &'a [u8]) -> Self {
        D { r, depth: 0, why: "", inside: false, culprit: None, fail_depth: 0 }
    }
    fn take(&mut self, n: usize) -> Result<&'a [u8], ()> {
        if self.r.len() < n {
            self.why = "truncated";
            return Err(());
        }
        let (a, b) = self.r.split_at(n);
        self.r = b;
        Ok(a)
    }
    fn bad<T>(&mut self, why: &'static str) -> Result<T, ()> {
        self.why = why;
        self.fail_depth = self.depth;
        Err(())
    }
}
/// Err(()) = the model says deserialization must fail; Ok(None) = the bytes have been consumed but
/// the model does not decide the value (curve points outside the harness alphabet); Ok(Some(v)) = must
/// succeed with value v.
type R<T> = Result<Option<T>, ()>;

trait Spec: Sized {
    fn enc(&self, c: bool, e: &mut E);
    /// model of `Valid::check`
    fn ok(&self) -> bool {
        true
    }
    fn dec(d: &mut D, c: bool, v: bool) -> R<Self>;
    /// validation mode that is effectively applied to the top-level value (mode-pinning wrappers override)
    fn eff_v(v: bool) -> bool {
        v
    }
    /// length-prefixed sequences: in-memory size of one element (the deserializers reserve at most 4096 bytes
    /// = 4096 / size_of::<element>() elements before reading; used only to LABEL values whose length is beyond
    /// that reservation); 0 = not a length-prefixed sequence
    fn elem_mem() -> usize {
        0
    }
}
const PREALLOC_CAP_BYTES: usize = 4096;
fn model_bytes<T: Spec>(x: &T, c: bool) -> E {
    let mut e = E::default();
    x.enc(c, &mut e);
    e
}

macro_rules! spec_int { ($($t:ty : $n:expr),*) => {$(
    impl Spec for $t {
        fn enc(&self, _c: bool, e: &mut E) { put_le(&mut e.out, (*self as i128) as u128, $n) }
        fn dec(d: &mut D, _c: bool, _v: bool) -> R<Self> { let s = d.take($n)?; Ok(Some(get_le(s) as $t)) }
    }
)*} }
spec_int!(u8:1, u16:2, u32:4, u64:8, i8:1, i16:2, i32:4, i64:8, usize:8, isize:8);

impl Spec for bool {
    fn enc(&self, _c: bool, e: &mut E) {
        e.out.push(if *self { 1 } else { 0 })
    }
    fn dec(d: &mut D, _c: bool, _v: bool) -> R<Self> {
        match d.take(1)?[0] {
            0 => Ok(Some(false)),
            1 => Ok(Some(true)),
            _ => d.bad("bool"),
        }
    }
}
impl<T: Spec> Spec for Option<T> {
    fn enc(&self, c: bool, e: &mut E) {
        match self {
            None => e.out.push(0),
            Some(x) => {
                e.out.push(1);
                x.enc(c, e)
            },
        }
    }
    fn ok(&self) -> bool {
        self.as_ref().map(|x| x.ok()).unwrap_or(true)
    }
    fn dec(d: &mut D, c: bool, v: bool) -> R<Self> {
        match d.take(1)?[0] {
            0 => Ok(Some(None)),
            1 => {
                d.depth += 1;
                let before = d.r.len();
                let r = T::dec(d, c, v);
                if r.is_err() && d.why == "truncated" && before > 0 {
                    d.inside = true;
                }
                d.depth -= 1;
                Ok(r?.map(Some))
            },
            _ => d.bad("option_tag"),
        }
    }
}
impl<T> Spec for PhantomData<T> {
    fn enc(&self, _c: bool, _e: &mut E) {}
    fn dec(_d: &mut D, _c: bool, _v: bool) -> R<Self> {
        Ok(Some(PhantomData))
    }
}
macro_rules! spec_tuple { ($($T:ident : $i:tt),*) => {
    impl<$($T: Spec),*> Spec for ($($T,)*) {
        #[allow(unused)]
        fn enc(&self, c: bool, e: &mut E) { $(self.$i.enc(c, e);)* }
        fn ok(&self) -> bool { true $(&& self.$i.ok())* }
        #[allow(unused, non_snake_case)]
        fn dec(d: &mut D, c: bool, v: bool) -> R<Self> {
            $(let $T = $T::dec(d, c, v)?;)*
            Ok((|| Some(($($T?,)*)))())
        }
    }
} }
spec_tuple!();
spec_tuple!(A:0);
spec_tuple!(A:0, B:1);
spec_tuple!(A:0, B:1, C:2);
spec_tuple!(A:0, B:1, C:2, D4:3);
spec_tuple!(A:0, B:1, C:2, D4:3, E5:4);

/// elements read unchecked, then validated as a batch
fn dec_elems<T: Spec>(d: &mut D, n: u64, c: bool, v: bool) -> R<Vec<T>> {
    let mut out = Some(Vec::new());
    d.depth += 1;
    let mut i = 0u64;
    while i < n {
        let before = d.r.len();
        match T::dec(d, c, false) {
            Err(()) => {
                if d.why == "truncated" && before > 0 {
                    d.inside = true;
                }
                d.depth -= 1;
                return Err(());
            },
            Ok(Some(x)) => {
                if let Some(o) = out.as_mut() {
                    o.push(x)
                }
            },
            Ok(None) => out = None,
        }
        if d.r.len() == before && n > 1 << 16 {
            // zero-sized elements with an absurd count: not modelled
            d.depth -= 1;
            return Ok(None);
        }
        i += 1;
    }
    d.depth -= 1;
    if v {
        if let Some(o) = &out {
            if !o.iter().all(|x| x.ok()) {
                return d.bad("invalid");
            }
        }
    }
    Ok(out)
}
fn dec_seq<T: Spec>(d: &mut D, c: bool, v: bool, kind: &'static str) -> R<Vec<T>> {
    let n = get_le(d.take(8)?) as u64;
    if n > d.r.len() as u64 && d.culprit.is_none() {
        d.culprit = Some(kind);
    }
    dec_elems(d, n, c, v)
}
fn enc_seq<'a, T: Spec + 'a>(it: impl ExactSizeIterator<Item = &'a T>, c: bool, e: &mut E) {
    e.len_prefix(it.len());
    for x in it {
        x.enc(c, e);
    }
}
impl<T: Spec, const N: usize> Spec for [T; N] {
    fn enc(&self, c: bool, e: &mut E) {
        for x in self {
            x.enc(c, e);
        }
    }
    fn ok(&self) -> bool {
        self.iter().all(|x| x.ok())
    }
    fn dec(d: &mut D, c: bool, v: bool) -> R<Self> {
        Ok(dec_elems::<T>(d, N as u64, c, v)?.map(|o| o.try_into().ok().unwrap()))
    }
}
impl<T: Spec> Spec for Vec<T> {
    fn enc(&self, c: bool, e: &mut E) {
        enc_seq(self.iter(), c, e)
    }
    fn ok(&self) -> bool {
        self.iter().all(|x| x.ok())
    }
    fn elem_mem() -> usize {
        std::mem::size_of::<T>().max(1)
    }
    fn dec(d: &mut D, c: bool, v: bool) -> R<Self> {
        dec_seq(d, c, v, "vec")
    }
}
impl<T: Spec> Spec for VecDeque<T> {
    fn enc(&self, c: bool, e: &mut E) {
        enc_seq(self.iter(), c, e)
    }
    fn ok(&self) -> bool {
        self.iter().all(|x| x.ok())
    }
    fn elem_mem() -> usize {
        std::mem::size_of::<T>().max(1)
    }
    fn dec(d: &mut D, c: bool, v: bool) -> R<Self> {
        Ok(dec_seq::<T>(d, c, v, "vecdeque")?.map(|o| o.into_iter().collect()))
    }
}
impl<T: Spec> Spec for LinkedList<T> {
    fn enc(&self, c: bool, e: &mut E) {
        enc_seq(self.iter(), c, e)
    }
    fn ok(&self) -> bool {
        self.iter().all(|x| x.ok())
    }
    fn elem_mem() -> usize {
        std::mem::size_of::<T>().max(1)
    }
    fn dec(d: &mut D, c: bool, v: bool) -> R<Self> {
        Ok(dec_seq::<T>(d, c, v, "linkedlist")?.map(|o| o.into_iter().collect()))
    }
}
impl<T: Spec + Ord> Spec for BTreeSet<T> {
    fn enc(&self, c: bool, e: &mut E) {
        enc_seq(self.iter(), c, e)
    }
    fn ok(&self) -> bool {
        self.iter().all(|x| x.ok())
    }
    fn elem_mem() -> usize {
        std::mem::size_of::<T>().max(1)
    }
    fn dec(d: &mut D, c: bool, v: bool) -> R<Self> {
        Ok(dec_seq::<T>(d, c, v, "btreeset")?.map(|o| o.into_iter().collect()))
    }
}
impl<K: Spec + Ord, V: Spec> Spec for BTreeMap<K, V> {
    fn enc(&self, c: bool, e: &mut E) {
        e.len_prefix(self.len());
        for (k, v) in self {
            k.enc(c, e);
            v.enc(c, e);
        }
    }
    fn ok(&self) -> bool {
        self.iter().all(|(k, v)| k.ok() && v.ok())
    }
    fn elem_mem() -> usize {
        std::mem::size_of::<(K, V)>().max(1)
    }
    fn dec(d: &mut D, c: bool, v: bool) -> R<Self> {
        // later duplicates overwrite earlier ones
        let Some(entries) = dec_seq::<(K, V)>(d, c, false, "btreemap")? else { return Ok(None) };
        let all_ok = entries.iter().all(|x| x.ok());
        let map: BTreeMap<K, V> = entries.into_iter().collect();
        if !v || all_ok {
            return Ok(Some(map));
        }
        if !map.ok() {
            return d.bad("invalid");
        }
        // an invalid entry that is shadowed by a later entry with the same key (no serializer writes this): a reader
        // that validates entry by entry refuses the input, a reader that validates the collected map accepts it; the
        // value it returns is valid either way - both outcomes are admissible, the model does not decide
        Ok(None)
    }
}
impl Spec for String {
    fn enc(&self, _c: bool, e: &mut E) {
        e.len_prefix(self.as_bytes().len());
        e.out.extend_from_slice(self.as_bytes());
    }
    fn elem_mem() -> usize {
        1
    }
    fn dec(d: &mut D, c: bool, v: bool) -> R<Self> {
        let b = dec_seq::<u8>(d, c, v, "string")?.unwrap();
        match String::from_utf8(b) {
            Ok(s) => Ok(Some(s)),
            Err(_) => d.bad("utf8"),
        }
    }
}
impl Spec for BigUint {
    fn enc(&self, _c: bool, e: &mut E) {
        // minimal little-endian base-256 digits; zero is the single digit 0
        let mut digits = Vec::new();
        let mut x = self.clone();
        let b = BigUint::from(256u32);
        loop {
            let r = &x % &b;
            digits.push(r.to_u32_digits().first().copied().unwrap_or(0) as u8);
            x = &x / &b;
            if x.is_zero() {
                break;
            }
        }
        e.len_prefix(digits.len());
        e.out.extend_from_slice(&digits);
    }
    fn elem_mem() -> usize {
        1
    }
    fn dec(d: &mut D, c: bool, v: bool) -> R<Self> {
        let b = dec_seq::<u8>(d, c, v, "biguint")?.unwrap();
        let mut x = BigUint::zero();
        for (k, byte) in b.iter().enumerate() {
            x += BigUint::from(*byte) << (8 * k);
        }
        Ok(Some(x))
    }
}
impl<const N: usize> Spec for BigInt<N> {
    fn enc(&self, _c: bool, e: &mut E) {
        for l in self.0 {
            put_le(&mut e.out, l as u128, 8);
        }
    }
    fn dec(d: &mut D, _c: bool, _v: bool) -> R<Self> {
        let mut a = [0u64; N];
        for l in a.iter_mut() {
            *l = get_le(d.take(8)?) as u64;
        }
        Ok(Some(BigInt(a)))
    }
}
impl<T: Spec> Spec for Arc<T> {
    fn enc(&self, c: bool, e: &mut E) {
        (**self).enc(c, e)
    }
    fn ok(&self) -> bool {
        (**self).ok()
    }
    fn dec(d: &mut D, c: bool, v: bool) -> R<Self> {
        Ok(T::dec(d, c, v)?.map(Arc::new))
    }
}
impl<T: Spec + Clone> Spec for Cow<'static, T> {
    fn enc(&self, c: bool, e: &mut E) {
        self.as_ref().enc(c, e)
    }
    fn ok(&self) -> bool {
        self.as_ref().ok()
    }
    fn dec(d: &mut D, c: bool, v: bool) -> R<Self> {
        Ok(T::dec(d, c, v)?.map(Cow::Owned))
    }
}
macro_rules! spec_wrap { ($W:ident, $c:expr, $v:expr) => {
    impl<T: Spec> Spec for $W<T> {
        fn enc(&self, _c: bool, e: &mut E) { self.0.enc($c, e) }
        fn ok(&self) -> bool { self.0.ok() }
        fn dec(d: &mut D, _c: bool, _v: bool) -> R<Self> { Ok(T::dec(d, $c, $v)?.map($W)) }
        fn eff_v(_v: bool) -> bool { $v }
    }
} }
spec_wrap!(CompressedChecked, true, true);
spec_wrap!(CompressedUnchecked, true, false);
spec_wrap!(UncompressedChecked, false, true);
spec_wrap!(UncompressedUnchecked, false, false);

// ------------------------------------------------------------------------------------------
// field / curve element types: independent byte model from the integer coordinates
// ------------------------------------------------------------------------------------------
fn limbs_le_bytes(l: &[u64], n: usize) -> Vec<u8> {
    let mut out = Vec::new();
    for x in l {
        put_le(&mut out, *x as u128, 8);
    }
    out.truncate(n);
    out
}
fn big_of(l: &[u64]) -> BigUint {
    let mut x = BigUint::zero();
    for (k, w) in l.iter().enumerate() {
        x += BigUint::from(*w) << (64 * k);
    }
    x
}
/// canonical integer > (p-1)/2, i.e. 2x > p
fn upper_half(x: &[u64], p: &[u64]) -> bool {
    big_of(x) * 2u32 > big_of(p)
}
fn dec_prime_field<F: PrimeField>(d: &mut D, n: usize) -> R<F> {
    let s = d.take(n)?;
    let mut x = BigUint::zero();
    for (k, b) in s.iter().enumerate() {
        x += BigUint::from(*b) << (8 * k);
    }
    let p = big_of(F::MODULUS.as_ref());
    if x >= p {
        return d.bad("noncanonical_field");
    }
    // build the element from small pieces with field arithmetic only (Horner in base 2^16)
    let mut acc = F::zero();
    let base = F::from(65536u64);
    for ch in s.chunks(2).rev() {
        acc = acc * base + F::from(get_le(ch) as u64);
    }
    Ok(Some(acc))
}
impl Spec for Fr {
    fn enc(&self, _c: bool, e: &mut E) {
        e.out.extend(limbs_le_bytes(&self.into_bigint().0, 32));
    }
    fn dec(d: &mut D, _c: bool, _v: bool) -> R<Self> {
        dec_prime_field::<Fr>(d, 32)
    }
}

type G1Row = (G1Affine, bool, Vec<u8>, Vec<u8>);
type EdRow = (EdwardsAffine, bool, Vec<u8>, Vec<u8>);
static G1TAB: OnceLock<Vec<G1Row>> = OnceLock::new();
static EDTAB: OnceLock<Vec<EdRow>> = OnceLock::new();

fn naive_mul<G: CurveGroup>(p: G::Affine, k: &[u64]) -> G {
    let mut acc = G::zero();
    for i in (0..64 * k.len()).rev() {
        acc.double_in_place();
        if (k[i / 64] >> (i % 64)) & 1 == 1 {
            acc += p;
        }
    }
    acc
}
fn g1_on_curve(p: &G1Affine) -> bool {
    p.infinity || p.y * p.y == p.x * p.x * p.x + Fq::from(4u64)
}
fn g1_valid_naive(p: &G1Affine) -> bool {
    g1_on_curve(p) && naive_mul::<G1Projective>(*p, Fr::MODULUS.as_ref()).is_zero()
}
fn ed_on_curve(p: &EdwardsAffine) -> bool {
    let (x2, y2) = (p.x * p.x, p.y * p.y);
    <EdwardsConfig as TECurveConfig>::COEFF_A * x2 + y2 == EdFq::one() + <EdwardsConfig as TECurveConfig>::COEFF_D * x2 * y2
}
fn ed_valid_naive(p: &EdwardsAffine) -> bool {
    ed_on_curve(p) && naive_mul::<ark_ed_on_bls12_381::EdwardsProjective>(*p, EdFr::MODULUS.as_ref()).is_zero()
}
fn fq_be(x: &Fq) -> Vec<u8> {
    let mut b = limbs_le_bytes(&x.into_bigint().0, 48);
    b.reverse();
    b
}
fn g1_enc(p: &G1Affine, c: bool) -> Vec<u8> {
    let n = if c { 48 } else { 96 };
    if p.infinity {
        let mut b = vec![0u8; n];
        b[0] = if c { 0xc0 } else { 0x40 };
        return b;
    }
    let mut b = fq_be(&p.x);
    if c {
        b[0] |= 0x80;
        if upper_half(&p.y.into_bigint().0, Fq::MODULUS.as_ref()) {
            b[0] |= 0x20;
        }
    } else {
        b.extend(fq_be(&p.y));
    }
    b
}
fn ed_enc(p: &EdwardsAffine, c: bool) -> Vec<u8> {
    let mut y = limbs_le_bytes(&p.y.into_bigint().0, 32);
    if c {
        if upper_half(&p.x.into_bigint().0, EdFq::MODULUS.as_ref()) {
            y[31] |= 0x80;
        }
        y
    } else {
        let mut b = limbs_le_bytes(&p.x.into_bigint().0, 32);
        b.extend(y);
        b
    }
}
impl Spec for G1Affine {
    fn enc(&self, c: bool, e: &mut E) {
        e.out.extend(g1_enc(self, c));
    }
    fn ok(&self) -> bool {
        match G1TAB.get().and_then(|t| t.iter().find(|r| r.0 == *self)) {
            Some(r) => r.1,
            None => g1_valid_naive(self),
        }
    }
    fn dec(d: &mut D, c: bool, v: bool) -> R<Self> {
        let s = d.take(if c { 48 } else { 96 })?;
        match G1TAB.get().and_then(|t| t.iter().find(|r| (if c { &r.2 } else { &r.3 })[..] == *s)) {
            Some(r) => {
                if v && !r.1 {
                    return d.bad("invalid");
                }
                Ok(Some(r.0))
            },
            None => Ok(None),
        }
    }
}
fn jac_to_affine(p: &G1Projective) -> G1Affine {
    if p.z.is_zero() {
        return G1Affine::identity();
    }
    let zi = p.z.inverse().unwrap();
    let zi2 = zi * zi;
    G1Affine::new_unchecked(p.x * zi2, p.y * zi2 * zi)
}
impl Spec for G1Projective {
    fn enc(&self, c: bool, e: &mut E) {
        e.out.extend(g1_enc(&jac_to_affine(self), c));
    }
    fn ok(&self) -> bool {
        jac_to_affine(self).ok()
    }
    fn dec(d: &mut D, c: bool, v: bool) -> R<Self> {
        Ok(G1Affine::dec(d, c, v)?.map(|a| if a.infinity { G1Projective::zero() } else { G1Projective::new_unchecked(a.x, a.y, Fq::one()) }))
    }
}
impl Spec for EdwardsAffine {
    fn enc(&self, c: bool, e: &mut E) {
        e.out.extend(ed_enc(self, c));
    }
    fn ok(&self) -> bool {
        match EDTAB.get().and_then(|t| t.iter().find(|r| r.0 == *self)) {
            Some(r) => r.1,
            None => ed_valid_naive(self),
        }
    }
    fn dec(d: &mut D, c: bool, v: bool) -> R<Self> {
        let s = d.take(if c { 32 } else { 64 })?;
        match EDTAB.get().and_then(|t| t.iter().find(|r| (if c { &r.2 } else { &r.3 })[..] == *s)) {
            Some(r) => {
                if v && !r.1 {
                    return d.bad("invalid");
                }
                Ok(Some(r.0))
            },
            None => Ok(None),
        }
    }
}

/// point alphabets: [O, G, -2G, B] with B on the curve but outside the prime-order subgroup
fn build_tables(ctx: &mut Ctx) {
    let g = G1Affine::generator();
    let h = jac_to_affine(&-(G1Projective::zero() + g + g));
    let mut bad = None;
    for x in 0..64u64 {
        if let Some(p) = G1Affine::get_point_from_x_unchecked(Fq::from(x), false) {
            if !naive_mul::<G1Projective>(p, Fr::MODULUS.as_ref()).is_zero() {
                bad = Some(p);
                break;
            }
        }
    }
    let bad = bad.expect("no out-of-subgroup G1 point found");
    ctx.validate(g1_valid_naive(&g) && g1_valid_naive(&h) && h != g && !h.infinity, "G1 alphabet: G, -2G on curve and r*P = O");
    let rb = naive_mul::<G1Projective>(bad, Fr::MODULUS.as_ref());
    let cof = <ark_bls12_381::g1::Config as CurveConfig>::COFACTOR;
    ctx.validate(
        g1_on_curve(&bad) && !rb.is_zero() && naive_mul::<G1Projective>(jac_to_affine(&rb), cof).is_zero(),
        "G1 alphabet: B on curve, r*B != O, h*r*B = O",
    );
    let rows: Vec<G1Row> =
        [(G1Affine::identity(), true), (g, true), (h, true), (bad, false)].into_iter().map(|(p, ok)| (p, ok, g1_enc(&p, true), g1_enc(&p, false))).collect();
    G1TAB.set(rows).ok();

    let eg = EdwardsAffine::generator();
    let eh = -((eg + eg).into_affine());
    let mut ebad = None;
    for y in 2..64u64 {
        if let Some(p) = EdwardsAffine::get_point_from_y_unchecked(EdFq::from(y), false) {
            if !naive_mul::<ark_ed_on_bls12_381::EdwardsProjective>(p, EdFr::MODULUS.as_ref()).is_zero() {
                ebad = Some(p);
                break;
            }
        }
    }
    let ebad = ebad.expect("no out-of-subgroup Edwards point found");
    ctx.validate(ed_valid_naive(&eg) && ed_valid_naive(&eh) && eh != eg, "Edwards alphabet: G, -2G on curve and r*P = O");
    let erb = naive_mul::<ark_ed_on_bls12_381::EdwardsProjective>(ebad, EdFr::MODULUS.as_ref());
    ctx.validate(
        ed_on_curve(&ebad) && !erb.is_zero() && naive_mul::<ark_ed_on_bls12_381::EdwardsProjective>(erb.into_affine(), &[8]).is_zero(),
        "Edwards alphabet: B on curve, r*B != O, 8*r*B = O",
    );
    let erows: Vec<EdRow> =
        [(EdwardsAffine::zero(), true), (eg, true), (eh, true), (ebad, false)].into_iter().map(|(p, ok)| (p, ok, ed_enc(&p, true), ed_enc(&p, false))).collect();
    EDTAB.set(erows).ok();
}
fn g1a() -> Vec<G1Affine> {
    G1TAB.get().unwrap().iter().map(|r| r.0).collect()
}
fn eda() -> Vec<EdwardsAffine> {
    EDTAB.get().unwrap().iter().map(|r| r.0).collect()
}

// ------------------------------------------------------------------------------------------
// harness structs using the derive macros
// ------------------------------------------------------------------------------------------
#[derive(CanonicalSerialize, CanonicalDeserialize, Clone, PartialEq, Debug)]
struct Named {
    tag: u8,
    p: G1Affine,
    f: Fr,
    v: Vec<u16>,
    o: Option<bool>,
    e: EdwardsAffine,
}
#[derive(CanonicalSerialize, CanonicalDeserialize, Clone, PartialEq, Debug)]
struct Tup(Fr, G1Projective, bool, Vec<G1Affine>);
#[derive(CanonicalSerialize, CanonicalDeserialize, Clone, PartialEq, Debug)]
struct Nest {
    a: u16,
    t: (G1Affine, (Fr, u8)),
    u: ((bool,), ()),
    z: u8,
}
#[derive(CanonicalSerialize, CanonicalDeserialize, Clone, PartialEq, Debug)]
struct Gen<T: CanonicalSerialize + CanonicalDeserialize> {
    n: u32,
    t: T,
    l: Vec<T>,
    pair: (T, T),
}
/// small derived struct without curve elements (encodings <= 32 bytes, used for the d = 2 faults)
#[derive(CanonicalSerialize, CanonicalDeserialize, Clone, PartialEq, Debug)]
struct Small {
    a: u8,
    t: (bool, (u16, Option<u8>)),
    s: String,
}
/// derive shapes that nothing else instantiates
#[derive(CanonicalSerialize, CanonicalDeserialize, Clone, PartialEq, Debug)]
struct UnitS;
#[derive(CanonicalSerialize, CanonicalDeserialize, Clone, PartialEq, Debug)]
struct EmptyNamed {}
/// tuple struct whose FIRST field is a nested tuple ((A, B), C)
#[derive(CanonicalSerialize, CanonicalDeserialize, Clone, PartialEq, Debug)]
struct TupNest(((u8, Fr), bool), u16);
/// bounds in a where clause
#[derive(CanonicalSerialize, CanonicalDeserialize, Clone, PartialEq, Debug)]
struct WithWhere<T>
where
    T: CanonicalSerialize + CanonicalDeserialize,
{
    a: T,
    b: u8,
}
/// a generic parameter that only occurs in PhantomData (and is not serializable itself)
#[derive(CanonicalSerialize, CanonicalDeserialize, Clone, PartialEq, Debug)]
struct Ph<T: Send + Sync> {
    n: u16,
    m: PhantomData<T>,
    z: Option<u8>,
}
/// Combine field results: all Some -> Some(build)
macro_rules! fields { ($d:ident, $c:ident, $v:ident; $($n:ident : $t:ty),*; $build:expr) => {{
    $(let $n = <$t as Spec>::dec($d, $c, $v)?;)*
    Ok((|| { $(let $n = $n?;)* Some($build) })())
}} }
impl Spec for Named {
    fn enc(&self, c: bool, e: &mut E) {
        self.tag.enc(c, e);
        self.p.enc(c, e);
        self.f.enc(c, e);
        self.v.enc(c, e);
        self.o.enc(c, e);
        self.e.enc(c, e);
    }
    fn ok(&self) -> bool {
        self.p.ok() && self.e.ok()
    }
    fn dec(d: &mut D, c: bool, v: bool) -> R<Self> {
        fields!(d, c, v; tag: u8, p: G1Affine, f: Fr, vv: Vec<u16>, o: Option<bool>, e: EdwardsAffine; Named { tag, p, f, v: vv, o, e })
    }
}
impl Spec for Tup {
    fn enc(&self, c: bool, e: &mut E) {
        self.0.enc(c, e);
        self.1.enc(c, e);
        self.2.enc(c, e);
        self.3.enc(c, e);
    }
    fn ok(&self) -> bool {
        self.1.ok() && self.3.ok()
    }
    fn dec(d: &mut D, c: bool, v: bool) -> R<Self> {
        fields!(d, c, v; a: Fr, b: G1Projective, cc: bool, dd: Vec<G1Affine>; Tup(a, b, cc, dd))
    }
}
impl Spec for Nest {
    fn enc(&self, c: bool, e: &mut E) {
        self.a.enc(c, e);
        self.t.0.enc(c, e);
        (self.t.1).0.enc(c, e);
        (self.t.1).1.enc(c, e);
        ((self.u.0).0).enc(c, e);
        self.z.enc(c, e);
    }
    fn ok(&self) -> bool {
        self.t.0.ok()
    }
    fn dec(d: &mut D, c: bool, v: bool) -> R<Self> {
        fields!(d, c, v; a: u16, p: G1Affine, f: Fr, b: u8, u: bool, z: u8; Nest { a, t: (p, (f, b)), u: ((u,), ()), z })
    }
}
impl<T: Spec + CanonicalSerialize + CanonicalDeserialize> Spec for Gen<T> {
    fn enc(&self, c: bool, e: &mut E) {
        self.n.enc(c, e);
        self.t.enc(c, e);
        self.l.enc(c, e);
        self.pair.0.enc(c, e);
        self.pair.1.enc(c, e);
    }
    fn ok(&self) -> bool {
        self.t.ok() && self.l.ok() && self.pair.0.ok() && self.pair.1.ok()
    }
    fn dec(d: &mut D, c: bool, v: bool) -> R<Self> {
        fields!(d, c, v; n: u32, t: T, l: Vec<T>, p0: T, p1: T; Gen { n, t, l, pair: (p0, p1) })
    }
}
impl Spec for UnitS {
    fn enc(&self, _c: bool, _e: &mut E) {}
    fn dec(_d: &mut D, _c: bool, _v: bool) -> R<Self> {
        Ok(Some(UnitS))
    }
}
impl Spec for EmptyNamed {
    fn enc(&self, _c: bool, _e: &mut E) {}
    fn dec(_d: &mut D, _c: bool, _v: bool) -> R<Self> {
        Ok(Some(EmptyNamed {}))
    }
}
impl Spec for TupNest {
    fn enc(&self, c: bool, e: &mut E) {
        ((self.0).0).0.enc(c, e);
        ((self.0).0).1.enc(c, e);
        (self.0).1.enc(c, e);
        self.1.enc(c, e);
    }
    fn dec(d: &mut D, c: bool, v: bool) -> R<Self> {
        fields!(d, c, v; a: u8, f: Fr, b: bool, w: u16; TupNest(((a, f), b), w))
    }
}
impl<T: Spec + CanonicalSerialize + CanonicalDeserialize> Spec for WithWhere<T> {
    fn enc(&self, c: bool, e: &mut E) {
        self.a.enc(c, e);
        self.b.enc(c, e);
    }
    fn ok(&self) -> bool {
        self.a.ok()
    }
    fn dec(d: &mut D, c: bool, v: bool) -> R<Self> {
        fields!(d, c, v; a: T, b: u8; WithWhere { a, b })
    }
}
impl<T: Send + Sync> Spec for Ph<T> {
    fn enc(&self, c: bool, e: &mut E) {
        self.n.enc(c, e);
        self.z.enc(c, e);
    }
    fn dec(d: &mut D, c: bool, v: bool) -> R<Self> {
        fields!(d, c, v; n: u16, z: Option<u8>; Ph { n, m: PhantomData, z })
    }
}
impl Spec for Small {
    fn enc(&self, c: bool, e: &mut E) {
        self.a.enc(c, e);
        self.t.0.enc(c, e);
        (self.t.1).0.enc(c, e);
        (self.t.1).1.enc(c, e);
        self.s.enc(c, e);
    }
    fn dec(d: &mut D, c: bool, v: bool) -> R<Self> {
        fields!(d, c, v; a: u8, b: bool, w: u16, o: Option<u8>, s: String; Small { a, t: (b, (w, o)), s })
    }
}

/// A user-defined ordered key whose encoding depends on the mode (like a curve point, which is not `Ord`): the value
/// as u16 when compressed; the value followed by its bitwise complement when uncompressed (a mismatch is malformed).
/// Ordered maps and sets keyed by it have different sizes in the two modes (seeded change C18-m9).
#[derive(Clone, Copy, PartialEq, Eq, PartialOrd, Ord, Debug)]
struct ModeKey(u16);
impl CanonicalSerialize for ModeKey {
    fn serialize_with_mode<Wr: Write>(&self, mut w: Wr, c: Compress) -> Result<(), SerializationError> {
        w.write_all(&self.0.to_le_bytes())?;
        if c == Compress::No {
            w.write_all(&(!self.0).to_le_bytes())?;
        }
        Ok(())
    }
    fn serialized_size(&self, c: Compress) -> usize {
        if c == Compress::Yes {
            2
        } else {
            4
        }
    }
}
impl Valid for ModeKey {
    fn check(&self) -> Result<(), SerializationError> {
        Ok(())
    }
}
impl CanonicalDeserialize for ModeKey {
    fn deserialize_with_mode<Rd: Read>(mut r: Rd, c: Compress, _v: Validate) -> Result<Self, SerializationError> {
        let mut b = [0u8; 2];
        r.read_exact(&mut b)?;
        let x = u16::from_le_bytes(b);
        if c == Compress::No {
            r.read_exact(&mut b)?;
            if u16::from_le_bytes(b) != !x {
                return Err(SerializationError::InvalidData);
            }
        }
        Ok(ModeKey(x))
    }
}
impl Spec for ModeKey {
    fn enc(&self, c: bool, e: &mut E) {
        put_le(&mut e.out, self.0 as u128, 2);
        if !c {
            put_le(&mut e.out, (!self.0) as u128, 2);
        }
    }
    fn dec(d: &mut D, c: bool, _v: bool) -> R<Self> {
        let x = get_le(d.take(2)?) as u16;
        if !c && get_le(d.take(2)?) as u16 != !x {
            return d.bad("modekey_complement");
        }
        Ok(Some(ModeKey(x)))
    }
}

// ------------------------------------------------------------------------------------------
// the serde path of the mode-pinning wrappers, presented as a Canonical* type so that the generic
// machinery (valid sweep, malformed sweep in the child) applies to it: bytes <-> JSON base64 string
// ------------------------------------------------------------------------------------------
#[derive(Clone, PartialEq, Debug)]
struct ViaSerde<W>(W);
impl<W: serde::Serialize> ViaSerde<W> {
    fn payload(&self) -> Result<Vec<u8>, SerializationError> {
        let js = serde_json::to_string(&self.0).map_err(|_| SerializationError::InvalidData)?;
        let inner = js.strip_prefix('"').and_then(|s| s.strip_suffix('"')).ok_or(SerializationError::InvalidData)?;
        unb64(inner).ok_or(SerializationError::InvalidData)
    }
}
impl<W: serde::Serialize> CanonicalSerialize for ViaSerde<W> {
    fn serialize_with_mode<Wr: Write>(&self, mut w: Wr, _c: Compress) -> Result<(), SerializationError> {
        Ok(w.write_all(&self.payload()?)?)
    }
    fn serialized_size(&self, _c: Compress) -> usize {
        self.payload().map(|p| p.len()).unwrap_or(usize::MAX)
    }
}
impl<W: Valid> Valid for ViaSerde<W> {
    fn check(&self) -> Result<(), SerializationError> {
        self.0.check()
    }
}
impl<W: Valid + serde::de::DeserializeOwned> CanonicalDeserialize for ViaSerde<W> {
    fn deserialize_with_mode<Rd: Read>(mut r: Rd, _c: Compress, _v: Validate) -> Result<Self, SerializationError> {
        let mut buf = Vec::new();
        r.read_to_end(&mut buf)?;
        let js = format!("\"{}\"", b64(&buf));
        serde_json::from_str::<W>(&js).map(ViaSerde).map_err(|_| SerializationError::InvalidData)
    }
}
impl<W: Spec> Spec for ViaSerde<W> {
    fn enc(&self, c: bool, e: &mut E) {
        self.0.enc(c, e)
    }
    fn ok(&self) -> bool {
        self.0.ok()
    }
    fn dec(d: &mut D, c: bool, v: bool) -> R<Self> {
        let r = W::dec(d, c, v)?;
        d.r = &[]; // the serde path hands the whole payload over; trailing bytes are ignored
        Ok(r.map(ViaSerde))
    }
    fn eff_v(v: bool) -> bool {
        W::eff_v(v)
    }
}

// ------------------------------------------------------------------------------------------
// type registry
// ------------------------------------------------------------------------------------------
const MODES: [(bool, bool); 4] = [(true, true), (true, false), (false, true), (false, false)];
fn cm(c: bool) -> Compress {
    if c {
        Compress::Yes
    } else {
        Compress::No
    }
}
fn vm(v: bool) -> Validate {
    if v {
        Validate::Yes
    } else {
        Validate::No
    }
}
fn mode_str(c: bool, v: bool) -> String {
    format!("Compress::{}/Validate::{}", if c { "Yes" } else { "No" }, if v { "Yes" } else { "No" })
}

const LENP: u32 = 1; // outermost encoding starts with a u64 length prefix
const NESTED: u32 = 2; // container of containers
const DNT: u32 = 4; // derived struct with a nested-tuple field
const DERIVED: u32 = 8;
const BIG: u32 = 16;
const MIXED: u32 = 64; // containers of curve points: values with exactly one invalid member in each position + all-valid twins
const NOSHORT: u32 = 128; // not in the "all byte strings of length <= 2" sweep (their short inputs only exercise the outer length prefix / first scalar, as for the plain types)
const NOMAL: u32 = 32; // valid values only (containers of zero-sized elements) // contains curve elements: few seeds, long encodings allowed

trait Ser: Spec + CanonicalSerialize + CanonicalDeserialize + PartialEq + std::fmt::Debug + Clone + Send + Sync + 'static {}
impl<T: Spec + CanonicalSerialize + CanonicalDeserialize + PartialEq + std::fmt::Debug + Clone + Send + Sync + 'static> Ser for T {}

struct Seed {
    bytes: Vec<u8>,
    lens: Vec<(usize, u64)>,
}
struct ModelOut {
    /// Err = must fail, Ok(None) = undecided, Ok(Some(bytes)) = must succeed and re-serialize to `bytes`
    res: Result<Option<Vec<u8>>, ()>,
    consumed: usize,
    why: &'static str,
    inside: bool,
    culprit: Option<&'static str>,
    fail_depth: u32,
}
struct Ty {
    name: &'static str,
    site: &'static str,
    flags: u32,
    nvalues: usize,
    valid: Box<dyn Fn(u64, &mut Loc) + Send + Sync>,
    elem_mem: usize,
    seeds: Vec<Seed>,
    child: fn(&[u8], bool, bool) -> String,
    model: fn(&[u8], bool, bool) -> ModelOut,
    eff_v: fn(bool) -> bool,
}

fn model_run<T: Spec>(input: &[u8], c: bool, v: bool) -> ModelOut {
    let mut d = D::new(input);
    let r = T::dec(&mut d, c, v);
    let consumed = input.len() - d.r.len();
    ModelOut { res: r.map(|o| o.map(|x| model_bytes(&x, c).out)), consumed, why: d.why, inside: d.inside, culprit: d.culprit, fail_depth: d.fail_depth }
}

thread_local! {
    static PANIC_INFO: std::cell::RefCell<String> = std::cell::RefCell::new(String::new());
}
fn panic_text(p: Box<dyn std::any::Any + Send>) -> String {
    let m = if let Some(s) = p.downcast_ref::<&str>() {
        s.to_string()
    } else if let Some(s) = p.downcast_ref::<String>() {
        s.clone()
    } else {
        "<non-string panic>".into()
    };
    let at = PANIC_INFO.with(|c| c.borrow().clone());
    format!("{} @ {}", m.replace('\n', " "), at)
}

/// Runs in the child: one deserialization of attacker-chosen bytes.  Response (one line):
/// `<peak alloc> ok <consumed> <hex of re-serialization> <check ok> <size ok> <stable>` | `<peak> err <variant>` | `<peak> panic <msg>`
fn child_run<T: Ser>(bytes: &[u8], c: bool, v: bool) -> String {
    let mut r = bytes;
    PEAK.store(0, Ordering::Relaxed);
    let res = catch_unwind(AssertUnwindSafe(|| T::deserialize_with_mode(&mut r, cm(c), vm(v))));
    let peak = PEAK.load(Ordering::Relaxed);
    match res {
        Err(p) => format!("{peak} panic {}", panic_text(p)),
        Ok(Err(e)) => format!(
            "{peak} err {}",
            match e {
                SerializationError::NotEnoughSpace => "NotEnoughSpace",
                SerializationError::InvalidData => "InvalidData",
                SerializationError::UnexpectedFlags => "UnexpectedFlags",
                SerializationError::IoError(_) => "IoError",
            }
        ),
        Ok(Ok(val)) => {
            let consumed = bytes.len() - r.len();
            let post = catch_unwind(AssertUnwindSafe(|| {
                let mut out = Vec::new();
                let s = val.serialize_with_mode(&mut out, cm(c)).is_ok();
                let size_ok = s && val.serialized_size(cm(c)) == out.len();
                let chk = val.check().is_ok();
                let stable = match T::deserialize_with_mode(&out[..], cm(c), Validate::No) {
                    Ok(w) => w == val,
                    Err(_) => false,
                };
                (out, chk, size_ok, stable)
            }));
            match post {
                Ok((out, chk, size_ok, stable)) => format!("{peak} ok {consumed} {}- {} {} {}", hex(&out), chk as u8, size_ok as u8, stable as u8),
                Err(p) => format!("{peak} panic (after successful deserialization) {}", panic_text(p)),
            }
        },
    }
}

fn reg<T: Ser>(out: &mut Vec<Ty>, with_values: bool, name: &'static str, site: &'static str, flags: u32, values: impl FnOnce() -> Vec<T>) {
    let vals: Vec<T> = if with_values { values() } else { Vec::new() };
    let mut seeds = Vec::new();
    for x in &vals {
        for c in [true, false] {
            let e = model_bytes(x, c);
            seeds.push(Seed { bytes: e.out, lens: e.lens });
        }
    }
    seeds.sort_by(|a, b| (a.bytes.len(), &a.bytes).cmp(&(b.bytes.len(), &b.bytes)));
    seeds.dedup_by(|a, b| a.bytes == b.bytes);
    let nvalues = vals.len();
    let valid = Box::new(move |i: u64, loc: &mut Loc| {
        let x = &vals[(i / 4) as usize];
        let (c, v) = MODES[(i % 4) as usize];
        valid_case::<T>(name, site, flags, x, c, v, loc);
    });
    out.push(Ty { name, site, flags, nvalues, valid, elem_mem: T::elem_mem(), seeds, child: child_run::<T>, model: model_run::<T>, eff_v: T::eff_v });
}

/// all sequences of length <= maxlen over the alphabet
fn seqs<T: Clone>(alpha: &[T], maxlen: usize) -> Vec<Vec<T>> {
    let mut out: Vec<Vec<T>> = vec![vec![]];
    let mut layer: Vec<Vec<T>> = vec![vec![]];
    for _ in 0..maxlen {
        let mut next = Vec::new();
        for s in &layer {
            for a in alpha {
                let mut t = s.clone();
                t.push(a.clone());
                next.push(t);
            }
        }
        out.extend(next.iter().cloned());
        layer = next;
    }
    out
}
/// every sequence in two physical layouts: contiguous, and wrapped around the ring buffer
fn deques<T: Clone>(alpha: &[T], maxlen: usize) -> Vec<VecDeque<T>> {
    let mut out = Vec::new();
    for s in seqs(alpha, maxlen) {
        out.push(s.iter().cloned().collect::<VecDeque<T>>());
        if s.len() >= 2 {
            let mut d = VecDeque::with_capacity(s.len());
            let h = s.len() / 2;
            for x in &s[h..] {
                d.push_back(x.clone());
            }
            for x in s[..h].iter().rev() {
                d.push_front(x.clone());
            }
            out.push(d);
        }
    }
    out
}
/// all shapes of Vec<Vec<u16>> with at most `leaves` leaves and at most `leaves` inner vectors
fn nested_shapes(leaves: usize) -> Vec<Vec<Vec<u16>>> {
    fn rec(cur: &mut Vec<usize>, left: usize, max_outer: usize, out: &mut Vec<Vec<usize>>) {
        out.push(cur.clone());
        if cur.len() == max_outer {
            return;
        }
        for k in 0..=left {
            cur.push(k);
            rec(cur, left - k, max_outer, out);
            cur.pop();
        }
    }
    let mut shapes = Vec::new();
    rec(&mut Vec::new(), leaves, leaves, &mut shapes);
    shapes
        .into_iter()
        .map(|sh| {
            let mut n = 0u16;
            sh.iter()
                .map(|k| {
                    (0..*k)
                        .map(|_| {
                            n += 1;
                            0x0100u16.wrapping_mul(n) | (0xf0 + n)
                        })
                        .collect()
                })
                .collect()
        })
        .collect()
}
fn subsets<T: Clone>(keys: &[T]) -> Vec<Vec<T>> {
    (0..1u32 << keys.len()).map(|m| keys.iter().enumerate().filter(|(i, _)| m >> i & 1 == 1).map(|(_, k)| k.clone()).collect()).collect()
}

fn registry(wv: bool, thorough: bool) -> Vec<Ty> {
    let mut o: Vec<Ty> = Vec::new();
    let ml = if thorough { 4 } else { 3 }; // max sequence length
    let u16a: Vec<u16> = vec![0, 0x0102, 0xffff];
    let u8a: Vec<u8> = vec![0, 1, 0xff];
    let fra = || vec![Fr::zero(), Fr::one(), -Fr::one(), Fr::from(GENERIC64)];
    // --- primitives
    reg::<bool>(&mut o, wv, "bool", "bool", 0, || vec![false, true]);
    reg::<u8>(&mut o, wv, "u8", "u8", 0, || vec![0, 1, 0x7f, 0x80, 0xff]);
    reg::<u16>(&mut o, wv, "u16", "u16", 0, || vec![0, 1, 0x0102, 0x7fff, 0x8000, 0xffff]);
    reg::<u32>(&mut o, wv, "u32", "u32", 0, || vec![0, 1, 0x01020304, 0x7fffffff, 0x80000000, u32::MAX]);
    reg::<u64>(&mut o, wv, "u64", "u64", 0, || vec![0, 1, 0x0102030405060708, i64::MAX as u64, 1 << 63, u64::MAX]);
    reg::<i8>(&mut o, wv, "i8", "i8", 0, || vec![0, 1, -1, i8::MIN, i8::MAX]);
    reg::<i16>(&mut o, wv, "i16", "i16", 0, || vec![0, 1, -1, 0x0102, i16::MIN, i16::MAX]);
    reg::<i32>(&mut o, wv, "i32", "i32", 0, || vec![0, 1, -1, 0x01020304, i32::MIN, i32::MAX]);
    reg::<i64>(&mut o, wv, "i64", "i64", 0, || vec![0, 1, -1, 0x0102030405060708, i64::MIN, i64::MAX]);
    reg::<usize>(&mut o, wv, "usize", "usize", 0, || vec![0, 1, 0x0102030405060708, isize::MAX as usize, 1 << 63, usize::MAX]);
    reg::<isize>(&mut o, wv, "isize", "isize", 0, || vec![0, 1, -1, 0x0102030405060708, isize::MIN, isize::MAX]);
    reg::<PhantomData<u64>>(&mut o, wv, "PhantomData<u64>", "phantom", 0, || vec![PhantomData]);
    // --- options
    reg::<Option<u8>>(&mut o, wv, "Option<u8>", "option", 0, || vec![None, Some(0), Some(1), Some(0xff)]);
    reg::<Option<bool>>(&mut o, wv, "Option<bool>", "option", 0, || vec![None, Some(false), Some(true)]);
    reg::<Option<Option<u16>>>(&mut o, wv, "Option<Option<u16>>", "option", NESTED, || vec![None, Some(None), Some(Some(0)), Some(Some(0x0102))]);
    reg::<Option<Vec<u8>>>(&mut o, wv, "Option<Vec<u8>>", "option", NESTED, {
        let a = u8a.clone();
        move || std::iter::once(None).chain(seqs(&a, 2).into_iter().map(Some)).collect()
    });
    reg::<Option<G1Affine>>(&mut o, wv, "Option<G1Affine>", "option", BIG, || std::iter::once(None).chain(g1a().into_iter().map(Some)).collect());
    // --- tuples of arity 0..5
    reg::<()>(&mut o, wv, "()", "tuple", 0, || vec![()]);
    reg::<(u8,)>(&mut o, wv, "(u8,)", "tuple", 0, || vec![(0,), (0xfe,)]);
    reg::<(u8, u16)>(&mut o, wv, "(u8,u16)", "tuple", 0, || vec![(0, 0), (1, 0x0203), (0xff, 0xffff)]);
    reg::<(bool, u8, u16)>(&mut o, wv, "(bool,u8,u16)", "tuple", 0, || vec![(false, 0, 0), (true, 2, 0x0304), (true, 0xff, 0xffff)]);
    reg::<(u8, u16, u32, u64)>(&mut o, wv, "(u8,u16,u32,u64)", "tuple", 0, || vec![(0, 0, 0, 0), (1, 0x0203, 0x04050607, 0x08090a0b0c0d0e0f), (0xff, 0xffff, u32::MAX, u64::MAX)]);
    reg::<(u8, bool, u16, Option<u8>, i32)>(&mut o, wv, "(u8,bool,u16,Option<u8>,i32)", "tuple", 0, || {
        vec![(0, false, 0, None, 0), (1, true, 0x0203, Some(4), -2), (0xff, true, 0xffff, Some(0xff), i32::MIN)]
    });
    reg::<(G1Affine, Fr)>(&mut o, wv, "(G1Affine,Fr)", "tuple", BIG, move || g1a().into_iter().flat_map(|p| fra().into_iter().map(move |f| (p, f))).collect());
    reg::<(Vec<u8>, (u8, Vec<u16>))>(&mut o, wv, "(Vec<u8>,(u8,Vec<u16>))", "tuple", NESTED, || {
        vec![(vec![], (0, vec![])), (vec![1], (2, vec![])), (vec![], (3, vec![0x0405])), (vec![1, 2], (3, vec![0x0405, 0x0607]))]
    });
    // --- arrays
    reg::<[u16; 0]>(&mut o, wv, "[u16;0]", "array", 0, || vec![[]]);
    reg::<[u16; 1]>(&mut o, wv, "[u16;1]", "array", 0, {
        let a = u16a.clone();
        move || a.iter().map(|x| [*x]).collect()
    });
    reg::<[u16; 2]>(&mut o, wv, "[u16;2]", "array", 0, {
        let a = u16a.clone();
        move || seqs(&a, 2).into_iter().filter(|s| s.len() == 2).map(|s| [s[0], s[1]]).collect()
    });
    reg::<[u16; 3]>(&mut o, wv, "[u16;3]", "array", 0, {
        let a = u16a.clone();
        move || seqs(&a, 3).into_iter().filter(|s| s.len() == 3).map(|s| [s[0], s[1], s[2]]).collect()
    });
    reg::<[bool; 3]>(&mut o, wv, "[bool;3]", "array", 0, || seqs(&[false, true], 3).into_iter().filter(|s| s.len() == 3).map(|s| [s[0], s[1], s[2]]).collect());
    reg::<[G1Affine; 2]>(&mut o, wv, "[G1Affine;2]", "array", BIG, || seqs(&g1a(), 2).into_iter().filter(|s| s.len() == 2).map(|s| [s[0], s[1]]).collect());
    reg::<[Vec<u8>; 2]>(&mut o, wv, "[Vec<u8>;2]", "array", NESTED, || vec![[vec![], vec![]], [vec![1], vec![]], [vec![], vec![2, 3]], [vec![4], vec![5]]]);
    // --- sequences
    reg::<Vec<u8>>(&mut o, wv, "Vec<u8>", "vec", LENP, {
        let a = u8a.clone();
        move || {
            let mut v = seqs(&a, ml);
            v.push(vec![0xab; 300]);
            v.push((0..70000u32).map(|i| (i % 251) as u8).collect());
            // around and beyond the 4096 bytes reserved before reading
            for n in [4095usize, 4096, 4097, 5000] {
                v.push((0..n).map(|i| (i % 251) as u8 ^ (i >> 8) as u8).collect());
            }
            v
        }
    });
    reg::<Vec<u16>>(&mut o, wv, "Vec<u16>", "vec", LENP, {
        let a = u16a.clone();
        move || {
            let mut v = seqs(&a, ml);
            v.push((0..1000u16).map(|i| i.wrapping_mul(0x0101)).collect());
            v
        }
    });
    reg::<Vec<bool>>(&mut o, wv, "Vec<bool>", "vec", LENP, move || seqs(&[false, true], ml));
    reg::<Vec<()>>(&mut o, wv, "Vec<()>", "vec", LENP | NOMAL, || vec![vec![], vec![()], vec![(), (), ()]]);
    reg::<Vec<Option<u16>>>(&mut o, wv, "Vec<Option<u16>>", "vec", LENP, move || seqs(&[None, Some(0u16), Some(0x0102)], ml));
    reg::<Vec<Vec<u16>>>(&mut o, wv, "Vec<Vec<u16>>", "vec", LENP | NESTED, move || nested_shapes(if thorough { 5 } else { 4 }));
    reg::<Vec<String>>(&mut o, wv, "Vec<String>", "vec", LENP | NESTED, || seqs(&["".to_string(), "a".to_string(), "\u{e9}\u{1d11e}".to_string()], 2));
    reg::<Vec<Fr>>(&mut o, wv, "Vec<Fr>", "vec", LENP | BIG, move || seqs(&fra()[..3], 2));
    reg::<Vec<G1Affine>>(&mut o, wv, "Vec<G1Affine>", "vec", LENP | BIG, move || {
        let g = g1a();
        let mut v = seqs(&g, ml);
        v.push((0..33).map(|i| g[i % 3]).collect());
        v.push((0..33).map(|i| if i == 17 { g[3] } else { g[i % 3] }).collect());
        // 90 points: beyond the 4096 bytes (39 points) reserved before reading; all valid / the last one invalid
        v.push((0..90).map(|i| g[i % 3]).collect());
        v.push((0..90).map(|i| if i == 89 { g[3] } else { g[i % 3] }).collect());
        v
    });
    reg::<Vec<G1Projective>>(&mut o, wv, "Vec<G1Projective>", "vec", LENP | BIG, || {
        let p: Vec<G1Projective> = g1a().into_iter().map(|a| (G1Projective::from(a) + a) - a).collect();
        seqs(&p, 2)
    });
    reg::<Vec<EdwardsAffine>>(&mut o, wv, "Vec<EdwardsAffine>", "vec", LENP | BIG, move || seqs(&eda(), ml.min(3)));
    reg::<VecDeque<u16>>(&mut o, wv, "VecDeque<u16>", "vecdeque", LENP, {
        let a = u16a.clone();
        move || {
            let mut v = deques(&a, ml);
            let mut d: VecDeque<u16> = (0..600u16).collect();
            d.rotate_left(250);
            for k in 0..100 {
                d.push_front(0xf000 + k);
            }
            v.push(d);
            // beyond the 4096 bytes (2048 elements) reserved before reading, contiguous and wrapped
            let long: VecDeque<u16> = (0..2049u16).map(|i| i.wrapping_mul(31)).collect();
            let mut wrapped = long.clone();
            wrapped.rotate_left(700);
            for k in 0..5 {
                wrapped.push_front(k);
                wrapped.pop_back();
            }
            v.push(long);
            v.push(wrapped);
            v
        }
    });
    reg::<VecDeque<G1Affine>>(&mut o, wv, "VecDeque<G1Affine>", "vecdeque", LENP | BIG, || deques(&g1a(), 3));
    reg::<VecDeque<Vec<u8>>>(&mut o, wv, "VecDeque<Vec<u8>>", "vecdeque", LENP | NESTED, || deques(&[vec![], vec![7u8], vec![8, 9]], 2));
    reg::<LinkedList<u16>>(&mut o, wv, "LinkedList<u16>", "linkedlist", LENP, {
        let a = u16a.clone();
        move || {
            let mut v: Vec<LinkedList<u16>> = seqs(&a, ml).into_iter().map(|s| s.into_iter().collect()).collect();
            v.push((0..500u16).collect());
            v
        }
    });
    reg::<LinkedList<G1Affine>>(&mut o, wv, "LinkedList<G1Affine>", "linkedlist", LENP | BIG, || seqs(&g1a(), 3).into_iter().map(|s| s.into_iter().collect()).collect());
    reg::<String>(&mut o, wv, "String", "string", LENP, move || {
        let mut v: Vec<String> = seqs(&['a', '\u{e9}', '\u{1d11e}', '\0'], ml.min(3)).into_iter().map(|s| s.into_iter().collect()).collect();
        v.push("a\u{e9}\u{1d11e}\0".repeat(150));
        v.push(format!("{}\u{e9}", "xyz\u{1d11e}".repeat(585))); // 585 * 7 + 2 = 4097 bytes
        v
    });
    // --- maps and sets: all subsets of a 4-key set
    let keys: Vec<u8> = vec![0, 1, 0x80, 0xff];
    reg::<BTreeMap<u8, u16>>(&mut o, wv, "BTreeMap<u8,u16>", "btreemap", LENP, {
        let k = keys.clone();
        move || {
            let mut v: Vec<BTreeMap<u8, u16>> = subsets(&k).into_iter().map(|s| s.into_iter().map(|k| (k, 0x0100u16 | k as u16 ^ 0x5a)).collect()).collect();
            v.push((0..=255u8).rev().map(|k| (k, 0xff00 | k as u16)).collect());
            v
        }
    });
    reg::<BTreeSet<u8>>(&mut o, wv, "BTreeSet<u8>", "btreeset", LENP, {
        let k = keys.clone();
        move || {
            let mut v: Vec<BTreeSet<u8>> = subsets(&k).into_iter().map(|s| s.into_iter().collect()).collect();
            v.push((0..=255u8).collect());
            v
        }
    });
    reg::<BTreeMap<u8, Vec<u16>>>(&mut o, wv, "BTreeMap<u8,Vec<u16>>", "btreemap", LENP | NESTED, {
        let k = keys.clone();
        move || subsets(&k[..3]).into_iter().map(|s| s.into_iter().map(|k| (k, vec![k as u16; (k % 3) as usize])).collect()).collect()
    });
    reg::<BTreeMap<u16, G1Affine>>(&mut o, wv, "BTreeMap<u16,G1Affine>", "btreemap", LENP | BIG, || {
        let g = g1a();
        let mut out = vec![BTreeMap::new()];
        for p in &g {
            out.push([(7u16, *p)].into_iter().collect());
            for q in &g {
                out.push([(7u16, *p), (0x0100u16, *q)].into_iter().collect());
            }
        }
        out
    });
    // keys whose encoding depends on the mode (user-defined `Ord` type): all subsets of a 3-key set
    reg::<BTreeMap<ModeKey, u8>>(&mut o, wv, "BTreeMap<ModeKey,u8>", "btreemap", LENP, || subsets(&[ModeKey(0), ModeKey(0x00ff), ModeKey(0xff00)]).into_iter().map(|s| s.into_iter().map(|k| (k, (k.0 >> 4) as u8 ^ 0x3c)).collect()).collect());
    reg::<BTreeMap<ModeKey, Vec<ModeKey>>>(&mut o, wv, "BTreeMap<ModeKey,Vec<ModeKey>>", "btreemap", LENP | NESTED, || {
        subsets(&[ModeKey(1), ModeKey(0x8000)]).into_iter().map(|s| s.into_iter().map(|k| (k, vec![k; (k.0 % 3) as usize])).collect()).collect()
    });
    reg::<BTreeSet<ModeKey>>(&mut o, wv, "BTreeSet<ModeKey>", "btreeset", LENP, || subsets(&[ModeKey(0), ModeKey(0x00ff), ModeKey(0xff00)]).into_iter().map(|s| s.into_iter().collect()).collect());
    reg::<BTreeMap<(u8, ModeKey), Option<ModeKey>>>(&mut o, wv, "BTreeMap<(u8,ModeKey),Option<ModeKey>>", "btreemap", LENP | NESTED, || {
        subsets(&[(0u8, ModeKey(7)), (0xff, ModeKey(0xfffe))]).into_iter().map(|s| s.into_iter().map(|k| (k, if k.0 == 0 { None } else { Some(k.1) })).collect()).collect()
    });
    reg::<BTreeSet<Vec<u8>>>(&mut o, wv, "BTreeSet<Vec<u8>>", "btreeset", LENP | NESTED, || subsets(&[vec![], vec![1u8], vec![1, 2]]).into_iter().map(|s| s.into_iter().collect()).collect());
    // --- big integers
    reg::<BigUint>(&mut o, wv, "BigUint", "biguint", LENP, || {
        vec![BigUint::zero(), BigUint::one(), BigUint::from(255u32), BigUint::from(256u32), BigUint::one() << 64, BigUint::one() << 200, (BigUint::one() << 64) - 1u32, (BigUint::one() << 5000) + 12345u32, (BigUint::one() << (8 * 4096)) + 0xa5u32, (BigUint::from(0x5au32) << (8 * 4999)) + 77u32]
    });
    reg::<BigInt<1>>(&mut o, wv, "BigInt<1>", "bigint", 0, || L10.iter().map(|x| BigInt([*x])).collect());
    reg::<BigInt<2>>(&mut o, wv, "BigInt<2>", "bigint", 0, || L4.iter().flat_map(|a| L4.iter().map(move |b| BigInt([*a, *b]))).chain([BigInt([GENERIC64, 0x0102030405060708])]).collect());
    reg::<BigInt<4>>(&mut o, wv, "BigInt<4>", "bigint", 0, || {
        deviation_ball(&[0u64; 4], &L4, 1).into_iter().chain(deviation_ball(&[u64::MAX; 4], &L4, 1)).chain([vec![1, 2, 3, GENERIC64]]).map(|v| BigInt([v[0], v[1], v[2], v[3]])).collect()
    });
    reg::<BigInt<6>>(&mut o, wv, "BigInt<6>", "bigint", BIG, || vec![BigInt([0; 6]), BigInt([1, 2, 3, 4, 5, 6]), BigInt([u64::MAX; 6]), BigInt([0, 0, 0, 0, 0, 1 << 63])]);
    // --- reference-counted / borrowed wrappers
    reg::<Arc<Vec<u16>>>(&mut o, wv, "Arc<Vec<u16>>", "arc", LENP, {
        let a = u16a.clone();
        move || seqs(&a, 2).into_iter().map(Arc::new).collect()
    });
    reg::<Arc<G1Affine>>(&mut o, wv, "Arc<G1Affine>", "arc", BIG, || g1a().into_iter().map(Arc::new).collect());
    reg::<Cow<'static, Vec<u16>>>(&mut o, wv, "Cow<Vec<u16>>", "cow", LENP, {
        let a = u16a.clone();
        move || seqs(&a, 2).into_iter().map(Cow::Owned).collect()
    });
    reg::<Cow<'static, G1Affine>>(&mut o, wv, "Cow<G1Affine>", "cow", BIG, || g1a().into_iter().map(Cow::Owned).collect());
    // --- field and curve elements
    reg::<Fr>(&mut o, wv, "Fr", "fr", 0, move || fra());
    reg::<G1Affine>(&mut o, wv, "G1Affine", "g1affine", BIG, || g1a());
    reg::<G1Projective>(&mut o, wv, "G1Projective", "g1projective", BIG, || g1a().into_iter().flat_map(|a| [G1Projective::from(a), (G1Projective::from(a) + a) - a]).collect());
    reg::<EdwardsAffine>(&mut o, wv, "EdwardsAffine", "edwardsaffine", BIG, || eda());
    // --- mode-pinning wrappers (CanonicalSerialize/Deserialize impls)
    macro_rules! wrappers { ($W:ident, $site:expr, $vsite:expr) => {
        reg::<$W<G1Affine>>(&mut o, wv, concat!(stringify!($W), "<G1Affine>"), $site, BIG, || g1a().into_iter().map($W).collect());
        reg::<$W<Vec<G1Affine>>>(&mut o, wv, concat!(stringify!($W), "<Vec<G1Affine>>"), $site, LENP | BIG, || seqs(&g1a(), 2).into_iter().map($W).collect());
        reg::<$W<Vec<u8>>>(&mut o, wv, concat!(stringify!($W), "<Vec<u8>>"), $site, LENP, || seqs(&[0u8, 1, 0xff], 2).into_iter().map($W).collect());
        reg::<ViaSerde<$W<G1Affine>>>(&mut o, wv, concat!("serde:", stringify!($W), "<G1Affine>"), $vsite, BIG, || g1a().into_iter().map(|p| ViaSerde($W(p))).collect());
        reg::<ViaSerde<$W<Vec<u8>>>>(&mut o, wv, concat!("serde:", stringify!($W), "<Vec<u8>>"), $vsite, LENP, || seqs(&[0u8, 1, 0xff], 2).into_iter().map(|p| ViaSerde($W(p))).collect());
        reg::<ViaSerde<$W<Named>>>(&mut o, wv, concat!("serde:", stringify!($W), "<Named>"), $vsite, BIG | DERIVED, || named_values().into_iter().step_by(5).map(|p| ViaSerde($W(p))).collect());
    } }
    wrappers!(CompressedChecked, "compressed_checked", "serde_compressed_checked");
    wrappers!(CompressedUnchecked, "compressed_unchecked", "serde_compressed_unchecked");
    wrappers!(UncompressedChecked, "uncompressed_checked", "serde_uncompressed_checked");
    wrappers!(UncompressedUnchecked, "uncompressed_unchecked", "serde_uncompressed_unchecked");
    // --- derived structs
    reg::<Named>(&mut o, wv, "derive:Named", "derive_named", DERIVED | BIG | NESTED, named_values);
    reg::<Tup>(&mut o, wv, "derive:Tup", "derive_tuple_struct", DERIVED | BIG | NESTED, move || {
        let g = g1a();
        let mut out = Vec::new();
        for (i, p) in g.iter().enumerate() {
            for l in seqs(&g, 1).into_iter().chain([vec![g[1], g[3]], vec![g[2], g[1], g[0]]]) {
                out.push(Tup(fra()[i % 4], (G1Projective::from(*p) + g[1]) - g[1], i % 2 == 0, l));
            }
        }
        out
    });
    reg::<Nest>(&mut o, wv, "derive:Nest", "derive_nested_tuple", DERIVED | BIG | DNT, move || {
        let mut out = Vec::new();
        for (i, p) in g1a().into_iter().enumerate() {
            for (j, f) in fra().into_iter().enumerate() {
                out.push(Nest { a: 0x0102 * (i as u16 + 1), t: (p, (f, 0x30 + j as u8)), u: ((j % 2 == 1,), ()), z: 0xee });
            }
        }
        out
    });
    reg::<Gen<Fr>>(&mut o, wv, "derive:Gen<Fr>", "derive_generic", DERIVED | BIG | NESTED, move || {
        let f = fra();
        seqs(&f[..3], 2).into_iter().enumerate().map(|(i, l)| Gen { n: 0x01020304 + i as u32, t: f[i % 4], l, pair: (f[(i + 1) % 4], f[(i + 2) % 4]) }).collect()
    });
    reg::<Gen<G1Affine>>(&mut o, wv, "derive:Gen<G1Affine>", "derive_generic", DERIVED | BIG | NESTED, || {
        let g = g1a();
        let mut out = Vec::new();
        // every position holds every alphabet member (incl. the out-of-subgroup point) at least once
        for (i, l) in seqs(&g, 2).into_iter().enumerate() {
            out.push(Gen { n: i as u32, t: g[i % 3], l, pair: (g[(i + 1) % 3], g[(i + 2) % 3]) });
        }
        for k in 0..3 {
            let mut x = Gen { n: 0xffffffff, t: g[1], l: vec![g[2]], pair: (g[0], g[1]) };
            match k {
                0 => x.t = g[3],
                1 => x.pair.0 = g[3],
                _ => x.pair.1 = g[3],
            }
            out.push(x);
        }
        out
    });
    reg::<Gen<EdwardsAffine>>(&mut o, wv, "derive:Gen<EdwardsAffine>", "derive_generic", DERIVED | BIG | NESTED, || {
        let g = eda();
        let mut out = Vec::new();
        for (i, l) in seqs(&g, 1).into_iter().enumerate() {
            out.push(Gen { n: i as u32, t: g[i % 3], l, pair: (g[(i + 1) % 3], g[(i + 2) % 3]) });
        }
        for k in 0..3 {
            let mut x = Gen { n: 7, t: g[1], l: vec![], pair: (g[0], g[2]) };
            match k {
                0 => x.t = g[3],
                1 => x.pair.0 = g[3],
                _ => x.pair.1 = g[3],
            }
            out.push(x);
        }
        out
    });
    reg::<Gen<Vec<u8>>>(&mut o, wv, "derive:Gen<Vec<u8>>", "derive_generic", DERIVED | NESTED | BIG, || {
        let a = seqs(&[1u8, 0xff], 1);
        let mut out = Vec::new();
        for (i, t) in a.iter().enumerate() {
            for l in seqs(&a, 1) {
                out.push(Gen { n: i as u32, t: t.clone(), l, pair: (a[(i + 1) % 3].clone(), a[(i + 2) % 3].clone()) });
            }
        }
        out
    });
    reg::<Small>(&mut o, wv, "derive:Small", "derive_nested_tuple", DERIVED | DNT, || {
        let mut out = Vec::new();
        for (i, s) in ["", "a", "\u{e9}\u{1d11e}"].iter().enumerate() {
            for (j, op) in [None, Some(0u8), Some(0xff)].into_iter().enumerate() {
                out.push(Small { a: (i * 3 + j) as u8, t: (j % 2 == 0, (0x0102 << i, op)), s: s.to_string() });
            }
        }
        out
    });
    // --- mixed batches: containers of curve points whose `batch_check` receives valid and invalid members together.
    // g[3] is on the curve but outside the prime-order subgroup; every position of every shape holds it exactly once
    // (checked deserialization must fail, unchecked must succeed), and every shape also occurs with valid members only.
    {
        /// all ways of putting `bad` into exactly one of `n` slots otherwise filled with g[1], g[2], g[0], g[1], .. - and the all-valid filling
        fn fillings(n: usize) -> Vec<Vec<G1Affine>> {
            let g = g1a();
            let base: Vec<G1Affine> = (0..n).map(|i| g[[1, 2, 0][i % 3]]).collect();
            let mut out = vec![base.clone()];
            for k in 0..n {
                let mut v = base.clone();
                v[k] = g[3];
                out.push(v);
            }
            out
        }
        reg::<Vec<Option<G1Affine>>>(&mut o, wv, "Vec<Option<G1Affine>>", "vec", LENP | BIG | NESTED | MIXED | NOSHORT, || {
            let mut out = vec![vec![], vec![None]];
            // shapes: [None, Some], [Some, None, Some], [Some, Some, None], [Some]
            for shape in [&[false, true][..], &[true, false, true], &[true, true, false], &[true]] {
                for f in fillings(shape.iter().filter(|s| **s).count()) {
                    let mut it = f.into_iter();
                    out.push(shape.iter().map(|s| if *s { it.next() } else { None }).collect());
                }
            }
            out
        });
        reg::<Vec<Vec<G1Affine>>>(&mut o, wv, "Vec<Vec<G1Affine>>", "vec", LENP | BIG | NESTED | MIXED | NOSHORT, || {
            let mut out = vec![vec![], vec![vec![]]];
            for shape in [&[1usize, 2][..], &[0, 2, 1], &[3], &[1, 0, 1]] {
                for f in fillings(shape.iter().sum()) {
                    let mut it = f.into_iter();
                    out.push(shape.iter().map(|k| (0..*k).map(|_| it.next().unwrap()).collect()).collect());
                }
            }
            out
        });
        reg::<Option<Vec<G1Affine>>>(&mut o, wv, "Option<Vec<G1Affine>>", "option", BIG | NESTED | MIXED | NOSHORT, || {
            let mut out = vec![None, Some(vec![])];
            for n in 1..=3 {
                out.extend(fillings(n).into_iter().map(Some));
            }
            out
        });
        reg::<Vec<[G1Affine; 2]>>(&mut o, wv, "Vec<[G1Affine;2]>", "vec", LENP | BIG | MIXED | NOSHORT, || {
            let mut out = vec![vec![]];
            for n in 1..=2 {
                out.extend(fillings(2 * n).into_iter().map(|f| f.chunks(2).map(|c| [c[0], c[1]]).collect::<Vec<_>>()));
            }
            out
        });
        reg::<Vec<Named>>(&mut o, wv, "Vec<derive:Named>", "vec", LENP | BIG | NESTED | DERIVED | MIXED | NOSHORT, || {
            let e = eda();
            let named = |k: usize, p: G1Affine, q: EdwardsAffine| Named { tag: k as u8, p, f: Fr::from(7u64 + k as u64), v: vec![k as u16; k % 2], o: if k % 2 == 0 { None } else { Some(true) }, e: q };
            let mut out = vec![vec![]];
            for n in 1..=3usize {
                // the G1 field of exactly one member invalid
                for f in fillings(n) {
                    out.push(f.into_iter().enumerate().map(|(k, p)| named(k, p, e[1 + k % 2])).collect());
                }
                // the Edwards field of exactly one member invalid
                for bad in 0..n {
                    out.push((0..n).map(|k| named(k, g1a()[1 + k % 2], if k == bad { e[3] } else { e[1 + k % 2] })).collect());
                }
            }
            out
        });
        reg::<(G1Affine, Vec<G1Affine>)>(&mut o, wv, "(G1Affine,Vec<G1Affine>)", "tuple", BIG | NESTED | MIXED | NOSHORT, || {
            let mut out = vec![(g1a()[1], vec![])];
            for n in 1..=3 {
                out.extend(fillings(n).into_iter().map(|f| (f[0], f[1..].to_vec())));
            }
            out
        });
        reg::<BTreeMap<u8, G1Affine>>(&mut o, wv, "BTreeMap<u8,G1Affine>", "btreemap", LENP | BIG | MIXED | NOSHORT, || {
            let mut out = vec![BTreeMap::new()];
            for n in 1..=3 {
                out.extend(fillings(n).into_iter().map(|f| f.into_iter().enumerate().map(|(k, p)| ([3u8, 0x80, 0xff][k], p)).collect::<BTreeMap<u8, G1Affine>>()));
            }
            out
        });
    }
    // --- sequences LONGER than what the deserializers reserve before reading (4096 bytes of elements): a read loop
    // bounded by the reserved capacity instead of the length prefix would return a short container / leave input behind
    {
        reg::<Vec<u64>>(&mut o, wv, "Vec<u64>", "vec", LENP | NOSHORT, || {
            let mut v: Vec<Vec<u64>> = vec![vec![], vec![GENERIC64], vec![0, u64::MAX]];
            v.extend([511usize, 512, 513, 600].iter().map(|n| (0..*n as u64).map(|i| i.wrapping_mul(GENERIC64)).collect::<Vec<u64>>()));
            v
        });
        reg::<Vec<[u8; 32]>>(&mut o, wv, "Vec<[u8;32]>", "vec", LENP | NOSHORT, || {
            let el = |k: usize| -> [u8; 32] { std::array::from_fn(|j| (k * 37 + j) as u8) };
            vec![vec![], vec![el(1)], (0..127).map(el).collect(), (0..128).map(el).collect(), (0..129).map(el).collect()]
        });
        reg::<Vec<[u64; 600]>>(&mut o, wv, "Vec<[u64;600]>", "vec", LENP | NOSHORT | BIG, || {
            let el = |k: u64| -> [u64; 600] { std::array::from_fn(|j| (k << 32) | j as u64) };
            vec![vec![], vec![el(1)], vec![el(2), el(3)]]
        });
        reg::<BTreeMap<u32, u64>>(&mut o, wv, "BTreeMap<u32,u64>", "btreemap", LENP | NOSHORT, || {
            vec![BTreeMap::new(), [(7u32, 8u64)].into_iter().collect(), (0..400u32).map(|k| (k.wrapping_mul(0x01000193), (k as u64) << 20 | 5)).collect()]
        });
    }
    // --- bool bytes / option tags as ELEMENTS of the remaining sequence kinds (Vec<bool>, [bool;3], Vec<Option<u16>>, tuples
    // and derived structs with bool / Option fields are registered above): the fault enumeration puts 0x02 / 0x7f / 0x80 / 0xff
    // on every byte of every encoding
    reg::<VecDeque<bool>>(&mut o, wv, "VecDeque<bool>", "vecdeque", LENP | NOSHORT, || deques(&[false, true], 3));
    reg::<LinkedList<Option<u8>>>(&mut o, wv, "LinkedList<Option<u8>>", "linkedlist", LENP | NESTED | NOSHORT, || seqs(&[None, Some(0u8), Some(0xff)], 3).into_iter().map(|s| s.into_iter().collect()).collect());
    reg::<[Option<bool>; 2]>(&mut o, wv, "[Option<bool>;2]", "array", NOSHORT, || seqs(&[None, Some(false), Some(true)], 2).into_iter().filter(|s| s.len() == 2).map(|s| [s[0], s[1]]).collect());
    reg::<Vec<(u8, bool)>>(&mut o, wv, "Vec<(u8,bool)>", "vec", LENP | NOSHORT, || seqs(&[(0u8, false), (0xff, true)], 3));
    reg::<LinkedList<bool>>(&mut o, wv, "LinkedList<bool>", "linkedlist", LENP | NOSHORT, || seqs(&[false, true], 3).into_iter().map(|s| s.into_iter().collect()).collect());
    // --- derive shapes not instantiated above: unit struct, empty named struct, tuple struct with a nested-tuple field,
    // where-clause bounds, a generic parameter used in PhantomData only
    reg::<UnitS>(&mut o, wv, "derive:UnitS", "derive_unit", DERIVED | NOSHORT, || vec![UnitS]);
    reg::<EmptyNamed>(&mut o, wv, "derive:EmptyNamed", "derive_empty_named", DERIVED | NOSHORT, || vec![EmptyNamed {}]);
    reg::<TupNest>(&mut o, wv, "derive:TupNest", "derive_tuple_struct_nested_tuple", DERIVED | DNT | NOSHORT, move || {
        let mut out = Vec::new();
        for (i, f) in fra().into_iter().enumerate() {
            for b in [false, true] {
                out.push(TupNest(((0x11 * i as u8, f), b), 0x0102 << i));
            }
        }
        out
    });
    reg::<WithWhere<G1Affine>>(&mut o, wv, "derive:WithWhere<G1Affine>", "derive_where_clause", DERIVED | BIG | NOSHORT, || g1a().into_iter().enumerate().map(|(i, a)| WithWhere { a, b: 0x40 + i as u8 }).collect());
    reg::<WithWhere<Vec<bool>>>(&mut o, wv, "derive:WithWhere<Vec<bool>>", "derive_where_clause", DERIVED | NESTED | NOSHORT, || seqs(&[false, true], 2).into_iter().enumerate().map(|(i, a)| WithWhere { a, b: i as u8 }).collect());
    reg::<Ph<std::time::Duration>>(&mut o, wv, "derive:Ph<Duration>", "derive_phantom_generic", DERIVED | NOSHORT, || {
        vec![Ph { n: 0, m: PhantomData, z: None }, Ph { n: 0x0102, m: PhantomData, z: Some(0) }, Ph { n: 0xffff, m: PhantomData, z: Some(0xff) }]
    });
    // --- arrays longer than 3
    reg::<[u8; 32]>(&mut o, wv, "[u8;32]", "array", NOSHORT, || vec![[0u8; 32], [0xff; 32], std::array::from_fn(|j| j as u8), std::array::from_fn(|j| if j == 31 { 0x80 } else { 0 })]);
    reg::<[u64; 48]>(&mut o, wv, "[u64;48]", "array", BIG | NOSHORT, || vec![[0u64; 48], [u64::MAX; 48], std::array::from_fn(|j| GENERIC64.wrapping_mul(j as u64 + 1))]);
    reg::<[G1Affine; 5]>(&mut o, wv, "[G1Affine;5]", "array", BIG | MIXED | NOSHORT, || {
        let g = g1a();
        let base: [G1Affine; 5] = std::array::from_fn(|i| g[[1, 2, 0][i % 3]]);
        let mut out = vec![base];
        // the out-of-subgroup point in each of the 5 positions
        for k in 0..5 {
            let mut v = base;
            v[k] = g[3];
            out.push(v);
        }
        out
    });
    o
}
fn named_values() -> Vec<Named> {
    let (g, e) = (g1a(), eda());
    let f = [Fr::zero(), -Fr::one()];
    let mut out = Vec::new();
    for (i, p) in g.iter().enumerate() {
        for (j, q) in e.iter().enumerate() {
            for (k, v) in [vec![], vec![1u16, 0x0203]].into_iter().enumerate() {
                for op in [None, Some(true)] {
                    out.push(Named { tag: (16 * i + j) as u8, p: *p, f: f[(i + j + k) % 2], v: v.clone(), o: op, e: *q });
                }
            }
        }
    }
    out
}

// ------------------------------------------------------------------------------------------
// valid values: bytes == model, size == bytes written, round trip, check / batch_check, ref wrappers
// ------------------------------------------------------------------------------------------
fn trunc(s: String) -> String {
    if s.len() > 300 {
        let mut k = 300;
        while !s.is_char_boundary(k) {
            k -= 1;
        }
        format!("{}...", &s[..k])
    } else {
        s
    }
}
/// a library call whose panic is reported at the call site (instead of aborting the whole case)
fn guarded<T>(f: impl FnOnce() -> T) -> Result<T, String> {
    catch_unwind(AssertUnwindSafe(f)).map_err(|p| panic_text(p))
}
fn ser<T: CanonicalSerialize + ?Sized>(x: &T, c: bool) -> Option<Vec<u8>> {
    let mut b = Vec::new();
    x.serialize_with_mode(&mut b, cm(c)).ok().map(|_| b)
}
fn valid_case<T: Ser>(name: &'static str, site: &'static str, flags: u32, x: &T, c: bool, v: bool, loc: &mut Loc) {
    let e = model_bytes(x, c);
    let m = e.out;
    let what = || trunc(format!("{name} value={x:?} mode={}", mode_str(c, v)));
    if loc.sampling() && sample_slot(0, 17, 16) {
        loc.sample(format!("{} model_bytes={}", what(), hex(&m)));
    }
    // classes (from the model only)
    if flags & LENP != 0 && e.lens.first().map(|l| l.1) == Some(0) {
        loc.class("empty_container");
    } else if flags & NESTED != 0 && e.lens.iter().any(|l| l.1 == 0) {
        loc.class("empty_container");
    }
    loc.class_if(flags & NESTED != 0, "nested");
    loc.class_if(flags & DNT != 0, "derive:nested_tuple");
    loc.class_if(flags & DERIVED != 0, "derive");
    let okm = x.ok();
    loc.class_if(!okm, "value_invalid(out_of_subgroup)");
    loc.class_if(m.len() >= 256, "large(>=256 bytes)");
    // the outermost sequence is longer than what the deserializer reserves before reading (4096 bytes of elements)
    if T::elem_mem() > 0 {
        if let Some((0, n)) = e.lens.first() {
            loc.class_if(*n as usize > PREALLOC_CAP_BYTES / T::elem_mem(), "len_beyond_preallocation_cap");
            loc.class_if(*n as usize == PREALLOC_CAP_BYTES / T::elem_mem(), "len_at_preallocation_cap");
        }
    }
    loc.class_if(flags & MIXED != 0 && !okm, "mixed_batch:one_invalid_member");
    loc.class_if(flags & MIXED != 0 && okm && !e.lens.iter().all(|l| l.1 == 0), "mixed_batch:all_valid_twin");

    // serialize
    let b = ser(x, c);
    loc.check_at(&format!("{site}_serialize"), b.as_deref() == Some(&m[..]), || format!("{}: serialize_with_mode wrote {:?} want {}", what(), b.as_ref().map(|b| hex(b)), hex(&m)));
    let mut b2 = Vec::new();
    let r2 = if c { x.serialize_compressed(&mut b2) } else { x.serialize_uncompressed(&mut b2) };
    loc.check_at(&format!("{site}_serialize"), r2.is_ok() && b2 == m, || format!("{}: serialize_(un)compressed wrote {} want {}", what(), hex(&b2), hex(&m)));
    // sizes
    let sz = x.serialized_size(cm(c));
    let sz2 = if c { x.compressed_size() } else { x.uncompressed_size() };
    let written = b.as_ref().map(|b| b.len());
    loc.check_at(&format!("{site}_serialized_size"), sz == m.len() && sz2 == m.len() && Some(sz) == written, || {
        format!("{}: serialized_size={sz} (un)compressed_size={sz2} bytes written={written:?} model={}", what(), m.len())
    });
    // a writer that is one byte short must produce an error, not a panic
    if !m.is_empty() {
        let mut buf = vec![0u8; m.len() - 1];
        let r = x.serialize_with_mode(&mut buf[..], cm(c));
        loc.check_at(&format!("{site}_serialize"), r.is_err(), || format!("{}: serializing into a {}-byte buffer succeeded", what(), m.len() - 1));
    }
    // Valid
    let chk = x.check().is_ok();
    let pair = [x.clone(), x.clone()];
    let bchk = T::batch_check(pair.iter()).is_ok();
    let bempty = T::batch_check(pair[..0].iter()).is_ok();
    loc.check_at(&format!("{site}_check"), chk == okm && bchk == okm && bempty, || format!("{}: check={chk} batch_check={bchk} batch_check(empty)={bempty} want {okm}", what()));

    // deserialize (three sentinel bytes follow the encoding: exactly the encoding must be consumed)
    let mut input = m.clone();
    input.extend_from_slice(&[0xa5, 0x5a, 0xc3]);
    let mut d = D::new(&input);
    let want = T::dec(&mut d, c, v);
    let want_consumed = input.len() - d.r.len();
    match &want {
        Ok(Some(y)) if y == x => {},
        Err(()) if !okm && d.why == "invalid" => {},
        _ => machinery(format!("model decoder does not invert model encoder: {}", what())),
    }
    let mut r = &input[..];
    let got = T::deserialize_with_mode(&mut r, cm(c), vm(v));
    let consumed = input.len() - r.len();
    let dsite = format!("{site}_deserialize");
    match (&want, &got) {
        (Err(()), Err(_)) => {
            loc.op();
        },
        (Err(()), Ok(z)) => loc.fail_at(&dsite, format!("{}: checked deserialization accepted an invalid value: {}", what(), trunc(format!("{z:?}")))),
        (Ok(_), Err(er)) => loc.fail_at(&dsite, format!("{}: deserialization of its own serialization {} failed: {er:?}", what(), hex(&m))),
        (Ok(_), Ok(z)) => {
            loc.check_at(&dsite, z == x, || format!("{}: round trip returned {}", what(), trunc(format!("{z:?}"))));
            loc.check_at(&dsite, consumed == want_consumed, || format!("{}: consumed {consumed} bytes, encoding has {want_consumed}", what()));
        },
    }
    // the four named helpers
    let got2 = match (c, v) {
        (true, true) => T::deserialize_compressed(&m[..]),
        (true, false) => T::deserialize_compressed_unchecked(&m[..]),
        (false, true) => T::deserialize_uncompressed(&m[..]),
        (false, false) => T::deserialize_uncompressed_unchecked(&m[..]),
    };
    loc.check_at(&dsite, got2.is_ok() == want.is_ok() && got2.as_ref().ok().map(|z| z == x).unwrap_or(true), || format!("{}: named helper deserialize_* disagrees with the mode it stands for", what()));

    // CanonicalSerializeHashExt: the digest of the value is the digest of its serialization; serialize_to_vec!
    if c && v {
        use sha2::Digest as _;
        let mu = model_bytes(x, false).out;
        let hc = guarded(|| ark_serialize::CanonicalSerializeHashExt::hash::<sha2::Sha256>(x).to_vec());
        let hu = guarded(|| ark_serialize::CanonicalSerializeHashExt::hash_uncompressed::<sha2::Sha256>(x).to_vec());
        let (wc, wu) = (sha2::Sha256::digest(&m).to_vec(), sha2::Sha256::digest(&mu).to_vec());
        loc.class("hash_ext");
        loc.check_at("hash_ext", hc.as_ref() == Ok(&wc) && hu.as_ref() == Ok(&wu), || format!("{}: hash::<Sha256>() = {:?}, hash_uncompressed::<Sha256>() = {:?}; SHA-256 of the compressed / uncompressed serialization: {} / {}", what(), hc.as_ref().map(|h| hex(h)), hu.as_ref().map(|h| hex(h)), hex(&wc), hex(&wu)));
        // serialize_to_vec![a, b]: its documentation promises the bytes of `(a, b).serialize_compressed`, its body calls
        // serialize_uncompressed on every item.  Which of the two is intended is not judged: the result must be one of the
        // two concatenations (they coincide for most types); which one it is is recorded.
        let stv = guarded(|| ark_serialize::serialize_to_vec![x, x].ok());
        let (cc, uu) = ([&m[..], &m[..]].concat(), [&mu[..], &mu[..]].concat());
        loc.class_if(cc != uu, "serialize_to_vec:compressed_and_uncompressed_forms_differ");
        loc.class_if(cc == uu, "serialize_to_vec:compressed_and_uncompressed_forms_coincide");
        match &stv {
            Ok(Some(b)) if *b == uu && cc != uu => loc.class("observed:serialize_to_vec_writes_the_uncompressed_form(doc_says_compressed)"),
            Ok(Some(b)) if *b == cc && cc != uu => loc.class("observed:serialize_to_vec_writes_the_compressed_form"),
            _ => {},
        }
        loc.check_at("serialize_to_vec", matches!(&stv, Ok(Some(b)) if *b == cc || *b == uu), || format!("{}: serialize_to_vec![x, x] = {:?}; neither the compressed nor the uncompressed concatenation", what(), stv.as_ref().map(|o| o.as_ref().map(|b| hex(b)))));
    }

    // &T, &mut T, Rc<T> (serialization only), Arc<T>, Cow<T> (round trip): these impls delegate to T, so they are
    // compared with what T itself did above (a defect of T is reported once, under T's site)
    let tb = b.as_deref();
    let t_ok = got.is_ok();
    let rx: &T = x;
    let mut xc = x.clone();
    let mx: &mut T = &mut xc;
    let rc = Rc::new(x.clone());
    loc.check_at("ref_serialize", ser(&rx, c).as_deref() == tb && CanonicalSerialize::serialized_size(&rx, cm(c)) == sz, || format!("&T differs from T: {}", what()));
    loc.check_at("refmut_serialize", ser(&mx, c).as_deref() == tb && CanonicalSerialize::serialized_size(&mx, cm(c)) == sz, || format!("&mut T differs from T: {}", what()));
    loc.check_at("rc_serialize", ser(&rc, c).as_deref() == tb && rc.serialized_size(cm(c)) == sz, || format!("Rc<T> differs from T: {}", what()));
    let arc = Arc::new(x.clone());
    loc.check_at("arc_serialize", ser(&arc, c).as_deref() == tb && arc.serialized_size(cm(c)) == sz, || format!("Arc<T> differs from T: {}", what()));
    let ga = Arc::<T>::deserialize_with_mode(&m[..], cm(c), vm(v));
    loc.check_at("arc_deserialize", ga.is_ok() == t_ok && ga.as_ref().ok().map(|z| Some(&**z) == got.as_ref().ok()).unwrap_or(true), || format!("Arc<T> differs from T: {}", what()));
    loc.check_at("arc_check", arc.check().is_ok() == chk && Arc::<T>::batch_check([arc.clone()].iter()).is_ok() == chk, || format!("Arc<T> differs from T: {}", what()));
    for cow in [Cow::Borrowed(x), Cow::Owned(x.clone())] {
        loc.check_at("cow_serialize", ser(&cow, c).as_deref() == tb && cow.serialized_size(cm(c)) == sz, || format!("Cow<T> differs from T: {}", what()));
        loc.check_at("cow_check", cow.check().is_ok() == chk && Cow::<T>::batch_check([cow.clone()].iter()).is_ok() == chk, || format!("Cow<T> differs from T: {}", what()));
    }
    let gc = Cow::<'static, T>::deserialize_with_mode(&m[..], cm(c), vm(v));
    loc.check_at("cow_deserialize", gc.is_ok() == t_ok && gc.as_ref().ok().map(|z| matches!(z, Cow::Owned(_)) && Some(&**z) == got.as_ref().ok()).unwrap_or(true), || format!("Cow<T> differs from T: {}", what()));
}

/// `&[T]` and `[T]`: serialization only, same format as Vec<T>
fn slices_case<T: Ser>(name: &str, s: &Vec<T>, c: bool, loc: &mut Loc) {
    let m = model_bytes(s, c).out;
    let sl: &[T] = &s[..];
    let mut b = Vec::new();
    let r = <[T] as CanonicalSerialize>::serialize_with_mode(sl, &mut b, cm(c));
    loc.check_at("slice_serialize", r.is_ok() && b == m && <[T] as CanonicalSerialize>::serialized_size(sl, cm(c)) == m.len(), || trunc(format!("[{name}] {s:?} c={c}: wrote {} want {}", hex(&b), hex(&m))));
    let mut b = Vec::new();
    let r = <&[T] as CanonicalSerialize>::serialize_with_mode(&sl, &mut b, cm(c));
    loc.check_at("sliceref_serialize", r.is_ok() && b == m && <&[T] as CanonicalSerialize>::serialized_size(&sl, cm(c)) == m.len(), || trunc(format!("&[{name}] {s:?} c={c}: wrote {} want {}", hex(&b), hex(&m))));
    // nested: a slice of vectors, and the serialize_to_vec! macro (uncompressed concatenation)
    loc.class_if(s.is_empty(), "empty_container");
}

// ------------------------------------------------------------------------------------------
// child process pool
// ------------------------------------------------------------------------------------------
struct Kid {
    proc: Child,
    tx: ChildStdin,
    rx: BufReader<ChildStdout>,
}
static POOL: Mutex<Vec<Kid>> = Mutex::new(Vec::new());
static SPAWNED: AtomicUsize = AtomicUsize::new(0);
static DIED: AtomicUsize = AtomicUsize::new(0);
/// safety valve: after this many aborted children within one sweep the remaining cases of that sweep are skipped and
/// the run is reported as capped (non-exhaustive); the violations found so far are reported as usual
const DEATH_CAP: usize = 1000;
static SWEEP_DEATHS: AtomicUsize = AtomicUsize::new(0);
static SKIPPED: AtomicUsize = AtomicUsize::new(0);

impl Kid {
    /// a spawn failure is a machinery error, never a verdict
    fn spawn() -> Option<Kid> {
        let exe = std::env::current_exe().ok()?;
        for attempt in 0..5 {
            match Command::new(&exe).arg("--child").env("RUST_BACKTRACE", "0").stdin(Stdio::piped()).stdout(Stdio::piped()).stderr(Stdio::null()).spawn() {
                Ok(mut proc) => {
                    let tx = proc.stdin.take()?;
                    let rx = BufReader::new(proc.stdout.take()?);
                    SPAWNED.fetch_add(1, Ordering::Relaxed);
                    return Some(Kid { proc, tx, rx });
                },
                Err(e) => {
                    if attempt == 4 {
                        machinery(format!("cannot spawn child process: {e}"));
                    }
                    std::thread::sleep(std::time::Duration::from_millis(50 << attempt));
                },
            }
        }
        None
    }
    fn get() -> Option<Kid> {
        let k = POOL.lock().unwrap().pop();
        k.or_else(Kid::spawn)
    }
}
#[derive(Clone)]
enum Resp {
    /// the child died while this case was in flight
    Dead { toobig: Option<u64>, status: String },
    Line { toobig: Option<u64>, line: String },
    /// no child could be started (machinery error already recorded)
    NoChild,
}
/// One case, one round trip; exactly one case is in flight per child, so a dead child is
/// attributed to that case.
fn ask(ty: usize, mode: usize, input: &[u8]) -> Resp {
    let Some(mut kid) = Kid::get() else { return Resp::NoChild };
    let line = format!("{ty} {mode} {}-\n", hex(input));
    let mut toobig = None;
    let wrote = kid.tx.write_all(line.as_bytes()).and_then(|_| kid.tx.flush()).is_ok();
    let mut resp = String::new();
    if wrote {
        loop {
            resp.clear();
            match kid.rx.read_line(&mut resp) {
                Ok(0) | Err(_) => {
                    resp.clear();
                    break;
                },
                Ok(_) => {
                    if let Some(n) = resp.strip_prefix("toobig ") {
                        toobig = n.trim().parse().ok();
                        continue;
                    }
                    break;
                },
            }
        }
    }
    if resp.is_empty() {
        let _ = kid.proc.kill();
        let status = kid.proc.wait().map(|s| format!("{s}")).unwrap_or_default();
        DIED.fetch_add(1, Ordering::Relaxed);
        SWEEP_DEATHS.fetch_add(1, Ordering::Relaxed);
        return Resp::Dead { toobig, status };
    }
    POOL.lock().unwrap().push(kid);
    Resp::Line { toobig, line: resp.trim_end().to_string() }
}

/// Pipelined batch: the 256 inputs `prefix ++ [x]`, x = 0..=255.  The child answers one line per input, in order,
/// flushing after every line, so when it dies the first unanswered input is the one that was in flight.
fn ask_batch(ty: usize, mode: usize, prefix: &[u8]) -> Vec<Resp> {
    let mut out: Vec<Resp> = Vec::with_capacity(256);
    while out.len() < 256 {
        let Some(mut kid) = Kid::get() else {
            out.resize(256, Resp::NoChild);
            return out;
        };
        let line = format!("B {ty} {mode} {}- {}\n", hex(prefix), out.len());
        let wrote = kid.tx.write_all(line.as_bytes()).and_then(|_| kid.tx.flush()).is_ok();
        let mut toobig = None;
        let mut alive = wrote;
        let mut resp = String::new();
        while alive && out.len() < 256 {
            resp.clear();
            match kid.rx.read_line(&mut resp) {
                Ok(0) | Err(_) => alive = false,
                Ok(_) => {
                    if let Some(n) = resp.strip_prefix("toobig ") {
                        toobig = n.trim().parse().ok();
                    } else {
                        out.push(Resp::Line { toobig: toobig.take(), line: resp.trim_end().to_string() });
                    }
                },
            }
        }
        if alive {
            POOL.lock().unwrap().push(kid);
        } else {
            let _ = kid.proc.kill();
            let status = kid.proc.wait().map(|s| format!("{s}")).unwrap_or_default();
            DIED.fetch_add(1, Ordering::Relaxed);
        SWEEP_DEATHS.fetch_add(1, Ordering::Relaxed);
            out.push(Resp::Dead { toobig, status });
        }
    }
    out
}
thread_local! {
    static BATCH: std::cell::RefCell<Option<(usize, usize, Vec<u8>, Vec<Resp>)>> = std::cell::RefCell::new(None);
}
/// response for a non-empty short input, through the per-thread batch cache
fn ask_cached(ty: usize, mode: usize, input: &[u8]) -> Resp {
    let (prefix, x) = (&input[..input.len() - 1], input[input.len() - 1] as usize);
    BATCH.with(|b| {
        let mut b = b.borrow_mut();
        let hit = matches!(&*b, Some((t, m, p, _)) if *t == ty && *m == mode && p == prefix);
        if !hit {
            *b = Some((ty, mode, prefix.to_vec(), ask_batch(ty, mode, prefix)));
        }
        b.as_ref().unwrap().3[x].clone()
    })
}

fn child_main() -> ! {
    let reg = registry(false, false);
    std::panic::set_hook(Box::new(|info| {
        let loc = info.location().map(|l| format!("{}:{}", l.file(), l.line())).unwrap_or_default();
        PANIC_INFO.with(|c| *c.borrow_mut() = loc);
    }));
    CHILD_MODE.store(true, Ordering::Relaxed);
    let stdin = std::io::stdin();
    let stdout = std::io::stdout();
    let mut line = String::new();
    loop {
        line.clear();
        match stdin.lock().read_line(&mut line) {
            Ok(0) | Err(_) => break,
            Ok(_) => {},
        }
        if let Some(rest) = line.trim_end().strip_prefix("B ") {
            let f: Vec<&str> = rest.split(' ').collect();
            let ty: usize = f[0].parse().unwrap_or(usize::MAX);
            let (c, v) = MODES[f[1].parse::<usize>().unwrap_or(0) % 4];
            let mut input = unhex(f[2].trim_end_matches('-'));
            let start: usize = f[3].parse().unwrap_or(0);
            input.push(0);
            for x in start..256 {
                *input.last_mut().unwrap() = x as u8;
                let resp = match reg.get(ty) {
                    Some(t) => (t.child)(&input, c, v),
                    None => "0 panic unknown type id".to_string(),
                };
                let mut out = stdout.lock();
                let _ = writeln!(out, "{resp}");
                let _ = out.flush();
            }
            continue;
        }
        let mut it = line.trim_end().split(' ');
        let ty: usize = it.next().and_then(|s| s.parse().ok()).unwrap_or(usize::MAX);
        let mode: usize = it.next().and_then(|s| s.parse().ok()).unwrap_or(0);
        let bytes = unhex(it.next().unwrap_or("-").trim_end_matches('-'));
        let resp = match reg.get(ty) {
            Some(t) => {
                let (c, v) = MODES[mode % 4];
                (t.child)(&bytes, c, v)
            },
            None => "0 panic unknown type id".to_string(),
        };
        let mut out = stdout.lock();
        let _ = writeln!(out, "{resp}");
        let _ = out.flush();
    }
    std::process::exit(0)
}

// ------------------------------------------------------------------------------------------
// malformed input: fault enumeration on the valid encodings + all short byte strings
// ------------------------------------------------------------------------------------------
const SUBST: [u8; 6] = [0x00, 0x01, 0x02, 0x7f, 0x80, 0xff];
const SUBST_THOROUGH: [u8; 12] = [0x00, 0x01, 0x02, 0x03, 0x08, 0x20, 0x40, 0x7f, 0x80, 0xc0, 0xfe, 0xff];

fn malformed_inputs(ty: &Ty, thorough: bool) -> Vec<Vec<u8>> {
    let big = ty.flags & BIG != 0;
    let limit = if big { if thorough { 320 } else { 200 } } else { 32 };
    let d2max = if thorough { 16 } else { 10 };
    let subst: &[u8] = if thorough { &SUBST_THOROUGH } else { &SUBST };
    let seeds: Vec<&Seed> = ty.seeds.iter().filter(|s| s.bytes.len() <= limit).collect();
    // types with curve elements: a spread of at most max_seeds encodings (always incl. the shortest and the longest)
    let max_seeds = if big { if thorough { 40 } else { 5 } } else { usize::MAX };
    let seeds: Vec<&Seed> = if seeds.len() > max_seeds { (0..max_seeds).map(|k| seeds[k * (seeds.len() - 1) / (max_seeds - 1)]).collect() } else { seeds };
    let prefix_values = |len: u64| -> Vec<u64> {
        let mut v = vec![len.wrapping_add(1), 1 << 16, 1 << 24, 1 << 32, 1 << 40, 1 << 63, u64::MAX];
        if thorough {
            v.extend([len.wrapping_add(2), 255, 256, 1 << 8, 1 << 20, 1 << 31, (1 << 32) - 1, 1 << 48, 1 << 56, (1 << 63) - 1, u64::MAX - 1, 0]);
        }
        v
    };
    let mut set: BTreeSet<Vec<u8>> = BTreeSet::new();
    for seed in seeds {
        let s = &seed.bytes;
        for k in 0..=s.len() {
            set.insert(s[..k].to_vec());
        }
        for i in 0..s.len() {
            for &b in subst {
                if s[i] != b {
                    let mut t = s.clone();
                    t[i] = b;
                    set.insert(t);
                }
            }
        }
        if s.len() <= d2max {
            for i in 0..s.len() {
                for j in i + 1..s.len() {
                    for &bi in subst {
                        for &bj in subst {
                            if s[i] != bi && s[j] != bj {
                                let mut t = s.clone();
                                t[i] = bi;
                                t[j] = bj;
                                set.insert(t);
                            }
                        }
                    }
                }
            }
        }
        for (off, len) in &seed.lens {
            for nl in prefix_values(*len) {
                let mut t = s.clone();
                t[*off..*off + 8].copy_from_slice(&nl.to_le_bytes());
                set.insert(t);
            }
        }
    }
    set.into_iter().collect()
}

fn short_string(i: u64) -> Vec<u8> {
    match i {
        0 => vec![],
        1..=256 => vec![(i - 1) as u8],
        _ => vec![((i - 257) >> 8) as u8, ((i - 257) & 0xff) as u8],
    }
}

fn malformed_case(ty: &Ty, idx: usize, input: &[u8], mode: usize, loc: &mut Loc, batched: bool) {
    if SWEEP_DEATHS.load(Ordering::Relaxed) >= DEATH_CAP {
        SKIPPED.fetch_add(1, Ordering::Relaxed);
        loc.class("skipped_after_abort_cap");
        return;
    }
    let (c, v) = MODES[mode];
    let site = ty.site;
    let m = (ty.model)(input, c, v);
    // panics / allocations are filed under the container whose length prefix is oversized (if any), else under the type
    let rsite = m.culprit.unwrap_or(site);
    let what = || format!("{} mode={} input={} ({} bytes)", ty.name, mode_str(c, v), hex(input), input.len());
    // classes: from the input bytes and the model decoder only
    match m.why {
        "bool" => loc.class("bool_invalid(2..255)"),
        "option_tag" => loc.class("option_tag_invalid"),
        "utf8" => loc.class("utf8_invalid"),
        "noncanonical_field" => loc.class("field_element>=modulus"),
        "invalid" => loc.class("checked_mode_invalid_point"),
        "truncated" => loc.class("truncated"),
        _ => {},
    }
    loc.class_if(m.inside, "truncated_inside_element");
    // a bool byte / option tag outside {0, 1} that belongs to an ELEMENT (sequences, arrays and options read their
    // elements with Validate::No and rely on the element decoder to refuse it) or to a field of a tuple / derived struct
    loc.class_if(matches!(m.why, "bool" | "option_tag") && (m.fail_depth > 0 || ty.site == "tuple" || ty.site.starts_with("derive")), "invalid_tag_inside_container");
    if ty.flags & LENP != 0 && input.len() >= 8 {
        let l = get_le(&input[..8]) as u64;
        loc.class_if(l == u64::MAX, "len_prefix=2^64-1");
        loc.class_if(l > (input.len() - 8) as u64, "len_prefix>remaining");
        loc.class_if(l == 0, "empty_container");
    }
    loc.class_if(ty.flags & NESTED != 0, "nested");
    loc.class_if(ty.flags & DNT != 0, "derive:nested_tuple");
    match &m.res {
        Ok(Some(_)) => loc.class("model:accept"),
        Ok(None) => loc.class("model:undecided(point outside alphabet)"),
        Err(()) => {},
    }
    // decodable, but not what serializing the decoded value gives back
    let noncanonical = matches!(&m.res, Ok(Some(w)) if w[..] != input[..m.consumed.min(input.len())]);
    loc.class_if(noncanonical, "model:decodable_but_not_canonical(unsorted/duplicate keys, non-minimal digits)");
    if loc.sampling() && sample_slot(2, 13, 36) {
        loc.sample(format!("{} model={}", what(), match &m.res { Ok(Some(b)) => format!("Ok -> {}", hex(b)), Ok(None) => "undecided".into(), Err(()) => format!("Err({})", m.why) }));
    }
    // "unbounded" = not bounded by a constant plus a multiple of the input: a constant up-front reservation of up
    // to 2 MiB (serde's cautious reservation uses 1 MiB) is a legitimate implementation choice
    let budget = (2usize << 20) + 1024 * input.len();
    let resp = if batched && !input.is_empty() { ask_cached(idx, mode, input) } else { ask(idx, mode, input) };
    let (toobig, line) = match resp {
        Resp::Dead { toobig, status } => {
            loc.fail_at(
                &format!("{rsite}_deserialize/alloc"),
                format!("unbounded allocation: {}: process aborted ({status}){}", what(), toobig.map(|n| format!(" after an allocation request of {n} bytes")).unwrap_or_default()),
            );
            return;
        },
        Resp::Line { toobig, line } => (toobig, line),
        Resp::NoChild => return,
    };
    let mut it = line.splitn(3, ' ');
    let peak: usize = it.next().and_then(|s| s.parse().ok()).unwrap_or(0);
    let kind = it.next().unwrap_or("");
    let rest = it.next().unwrap_or("");
    let peak = peak.max(toobig.unwrap_or(0) as usize);
    loc.check_at(&format!("{rsite}_deserialize/alloc"), peak <= budget, || format!("unbounded allocation: {}: single allocation request of {peak} bytes (budget 2 MiB + 1024 x input = {budget})", what()));
    match kind {
        "panic" => loc.fail_at(&format!("{rsite}_deserialize/panic"), format!("{}: panic: {rest}", what())),
        "err" => {
            loc.class("outcome:err");
            // an input that IS the serialization of the value it denotes must be accepted (round trip); an input the model
            // can decode but that no serializer would write (unsorted / duplicate map or set keys, BigUint digits with
            // trailing zeros) may be refused as well: "rejected or the model's value", never a panic or another value
            if noncanonical {
                loc.class("observed:decodable_noncanonical_input_rejected");
            } else {
                loc.check_at(&format!("{site}_deserialize/rejects_wellformed"), !matches!(m.res, Ok(Some(_))), || format!("{}: returned Err({rest}) but the input is the canonical encoding of a value", what()));
            }
        },
        "ok" => {
            loc.class("outcome:ok");
            loc.class_if(noncanonical, "observed:decodable_noncanonical_input_accepted");
            let f: Vec<&str> = rest.split(' ').collect();
            if f.len() != 5 {
                machinery(format!("bad child response {line:?}"));
                return;
            }
            let consumed: usize = f[0].parse().unwrap_or(usize::MAX);
            let reser = unhex(f[1].trim_end_matches('-'));
            let (chk, size_ok, stable) = (f[2] == "1", f[3] == "1", f[4] == "1");
            match &m.res {
                Err(()) => loc.fail_at(&format!("{site}_deserialize/accepts_malformed"), format!("{}: returned Ok (re-serializes to {}) but the format model rejects it ({})", what(), hex(&reser), m.why)),
                Ok(want) => {
                    if let Some(w) = want {
                        loc.check_at(&format!("{site}_deserialize/value"), &reser == w, || format!("{}: value re-serializes to {} want {}", what(), hex(&reser), hex(w)));
                    }
                    loc.check_at(&format!("{site}_deserialize/consumed"), consumed == m.consumed, || format!("{}: consumed {consumed} bytes want {}", what(), m.consumed));
                },
            }
            loc.check_at(&format!("{site}_deserialize/reserialize"), size_ok && stable, || format!("{}: accepted value: serialized_size==bytes written: {size_ok}, re-deserializes to itself: {stable}", what()));
            if (ty.eff_v)(v) {
                loc.check_at(&format!("{site}_deserialize/ok_but_invalid"), chk, || format!("{}: checked deserialization returned a value whose check() fails (re-serializes to {})", what(), hex(&reser)));
            }
        },
        _ => machinery(format!("bad child response {line:?}")),
    }
}

// ------------------------------------------------------------------------------------------
// serde: mode-pinning wrappers through serde_json; payload = base64(serialize_with_mode(pinned mode))
// ------------------------------------------------------------------------------------------
/// every way the harness knows to read a JSON value as a byte string: base64 (standard or URL-safe alphabet, padding
/// optional), hex, or an array of numbers 0..=255
fn json_byte_readings(v: &serde_json::Value) -> Vec<Vec<u8>> {
    let mut out = Vec::new();
    match v {
        serde_json::Value::String(t) => {
            let core = t.trim_end_matches('=');
            let std_alpha: String = core.chars().map(|c| match c { '-' => '+', '_' => '/', c => c }).collect();
            if let Some(b) = unb64(&std_alpha) {
                out.push(b);
            }
            if t.len() % 2 == 0 && t.bytes().all(|c| c.is_ascii_hexdigit()) {
                out.push(unhex(&t.to_ascii_lowercase()));
            }
        },
        serde_json::Value::Array(a) => {
            if let Some(b) = a.iter().map(|x| x.as_u64().filter(|n| *n < 256).map(|n| n as u8)).collect::<Option<Vec<u8>>>() {
                out.push(b);
            }
        },
        _ => {},
    }
    out
}
fn serde_wrapper_case<W, T>(wname: &str, wrap: fn(T) -> W, unwrap: fn(&W) -> &T, pc: bool, pv: bool, x: &T, loc: &mut Loc)
where
    T: Ser,
    W: serde::Serialize + serde::de::DeserializeOwned,
{
    let site = format!("serde_{wname}");
    let what = || trunc(format!("{wname}<{}> value={x:?}", std::any::type_name::<T>()));
    let m = model_bytes(x, pc).out;
    let want_json = format!("\"{}\"", b64(&m));
    let js = serde_json::to_string(&wrap(x.clone()));
    if loc.sampling() && sample_slot(1, 7, 6) {
        loc.sample(format!("{} json={:?}", what(), js.as_ref().ok()));
    }
    loc.class_if(!x.ok(), "value_invalid(out_of_subgroup)");
    // judged: the JSON the wrapper writes denotes - in some byte-string reading - exactly the canonical serialization in
    // the pinned compression mode, and it reads back (round trip through serde_json) to the same value whenever the
    // pinned validation mode admits the value.  The exact JSON TEXT (a string holding unpadded standard base64) is not
    // part of the property: it is recorded as a class, and the format-specific probes below run only when it holds.
    let Ok(js) = js else {
        loc.fail_at(&format!("{site}/payload"), format!("{}: serde_json::to_string failed", what()));
        return;
    };
    let text_is_model = js == want_json;
    loc.class_if(text_is_model, "observed:serde_json_text=string_of_unpadded_standard_base64");
    loc.class_if(!text_is_model, "observed:serde_json_text_differs_from_harness_format");
    let readings = serde_json::from_str::<serde_json::Value>(&js).map(|v| json_byte_readings(&v)).unwrap_or_default();
    loc.check_at(&format!("{site}/payload"), readings.iter().any(|b| *b == m), || format!("{}: JSON {js} does not denote the bytes {} (= the {} encoding) in any reading (base64 / hex / array of numbers)", what(), hex(&m), if pc { "compressed" } else { "uncompressed" }));
    let want_ok = x.ok() || !pv;
    match &serde_json::from_str::<W>(&js) {
        Ok(w) => {
            loc.check_at(&format!("{site}/validate"), want_ok, || format!("{}: {} wrapper accepted an out-of-subgroup point", what(), if pv { "Checked" } else { "Unchecked" }));
            loc.check_at(&format!("{site}/roundtrip"), unwrap(w) == x, || format!("{}: round trip returned {}", what(), trunc(format!("{:?}", unwrap(w)))));
        },
        Err(e) => {
            loc.check_at(&format!("{site}/validate"), !want_ok, || format!("{}: deserialization of its own output {js} failed: {e}", what()));
        },
    }
    if !text_is_model {
        return;
    }
    // payload in the other compression mode: decided by the model decoder (Err must be Err)
    let other = model_bytes(x, !pc).out;
    let mo = model_run::<T>(&other, pc, pv);
    let r = serde_json::from_str::<W>(&format!("\"{}\"", b64(&other)));
    match mo.res {
        Err(()) => {
            loc.class("serde:other_mode_payload_rejected");
            loc.check_at(&format!("{site}/pins_compress"), r.is_err(), || format!("{}: accepted the payload of the opposite compression mode", what()));
        },
        Ok(Some(_)) => {
            loc.check_at(&format!("{site}/pins_compress"), r.is_ok(), || format!("{}: mode-independent payload rejected", what()));
        },
        Ok(None) => {},
    }
    // not base64 / not a string / truncated payload
    for bad in ["\"!!!\"".to_string(), "5".to_string(), "null".to_string(), "[1,2]".to_string(), format!("\"{}", b64(&m))] {
        loc.check_at(&format!("{site}/malformed_json"), serde_json::from_str::<W>(&bad).is_err(), || format!("{}: accepted JSON {bad}", what()));
    }
    if !m.is_empty() {
        let t = format!("\"{}\"", b64(&m[..m.len() - 1]));
        let mt = model_run::<T>(&m[..m.len() - 1], pc, pv);
        if mt.res.is_err() {
            loc.class("truncated");
            loc.check_at(&format!("{site}/truncated"), serde_json::from_str::<W>(&t).is_err(), || format!("{}: accepted a payload truncated by one byte", what()));
        }
    }
}

macro_rules! vec_module_struct { ($S:ident, $m:expr) => {
    #[derive(serde::Serialize, serde::Deserialize)]
    struct $S {
        #[serde(with = $m)]
        v: Vec<G1Affine>,
    }
} }
vec_module_struct!(SvCC, "ark_serialize::vec_compressed_checked");
vec_module_struct!(SvCU, "ark_serialize::vec_compressed_unchecked");
vec_module_struct!(SvUC, "ark_serialize::vec_uncompressed_checked");
vec_module_struct!(SvUU, "ark_serialize::vec_uncompressed_unchecked");

fn serde_vec_module_case<S: serde::Serialize + serde::de::DeserializeOwned>(mname: &str, mk: fn(Vec<G1Affine>) -> S, get: fn(&S) -> &Vec<G1Affine>, pc: bool, pv: bool, x: &Vec<G1Affine>, loc: &mut Loc) {
    let site = format!("serde_{mname}");
    let what = || trunc(format!("#[serde(with = \"ark_serialize::{mname}\")] Vec<G1Affine> value={x:?}"));
    let elems: Vec<String> = x.iter().map(|p| format!("\"{}\"", b64(&g1_enc(p, pc)))).collect();
    let want_json = format!("{{\"v\":[{}]}}", elems.join(","));
    loc.class_if(x.is_empty(), "empty_container");
    loc.class_if(!x.ok(), "value_invalid(out_of_subgroup)");
    let js = serde_json::to_string(&mk(x.clone()));
    // judged: the field holds - element by element, or as one byte string - the canonical serialization in the compression
    // mode named by the module; the exact JSON text is recorded as a class only
    let text_is_model = js.as_ref().ok() == Some(&want_json);
    loc.class_if(text_is_model, "observed:serde_json_text=string_of_unpadded_standard_base64");
    loc.class_if(!text_is_model, "observed:serde_json_text_differs_from_harness_format");
    let denotes = js.as_ref().ok().and_then(|t| serde_json::from_str::<serde_json::Value>(t).ok()).map(|v| {
        let f = &v["v"];
        let per_element = f.as_array().map(|a| a.len() == x.len() && a.iter().zip(x.iter()).all(|(j, p)| json_byte_readings(j).iter().any(|b| *b == g1_enc(p, pc)))).unwrap_or(false);
        let whole = json_byte_readings(f).iter().any(|b| *b == model_bytes(x, pc).out);
        per_element || whole
    });
    loc.check_at(&format!("{site}/payload"), denotes == Some(true), || {
        format!("{}: JSON {:?} does not hold the elements in the {} encoding named by the module (harness format: {want_json})", what(), js.as_ref().ok(), if pc { "compressed" } else { "uncompressed" })
    });
    // own output must round-trip whenever the named validation mode accepts the value
    let want_ok = x.ok() || !pv;
    if let Ok(js) = &js {
        let back = serde_json::from_str::<S>(js);
        match &back {
            Ok(s) => {
                loc.check_at(&format!("{site}/validate"), want_ok, || format!("{}: checked module accepted an out-of-subgroup point", what()));
                loc.check_at(&format!("{site}/roundtrip"), get(s) == x, || format!("{}: round trip returned {}", what(), trunc(format!("{:?}", get(s)))));
            },
            Err(e) => {
                loc.check_at(&format!("{site}/validate"), !want_ok, || format!("{}: deserialization of its own output failed ({e}) although the module name says {}", what(), if pv { "checked" } else { "unchecked" }));
            },
        }
    }
}

// ------------------------------------------------------------------------------------------
fn main() {
    if std::env::args().any(|a| a == "--child") {
        child_main();
    }
    let mut ctx = Ctx::from_args("C18");
    let thorough = ctx.thorough();
    ctx.require(&[
        "empty_container",
        "nested",
        "bool_invalid(2..255)",
        "utf8_invalid",
        "option_tag_invalid",
        "len_prefix>remaining",
        "len_prefix=2^64-1",
        "derive:nested_tuple",
        "truncated_inside_element",
        "value_invalid(out_of_subgroup)",
        "large(>=256 bytes)",
        "checked_mode_invalid_point",
        "field_element>=modulus",
        "model:accept",
        "outcome:ok",
        "outcome:err",
        "mixed_batch:one_invalid_member",
        "mixed_batch:all_valid_twin",
        "len_beyond_preallocation_cap",
        "len_at_preallocation_cap",
        "invalid_tag_inside_container",
        "hash_ext",
        "serialize_to_vec:compressed_and_uncompressed_forms_differ",
        "serialize_to_vec:compressed_and_uncompressed_forms_coincide",
        "model:decodable_but_not_canonical(unsorted/duplicate keys, non-minimal digits)",
    ]);
    ctx.assume("oracle: byte-level format model and reference decoder written in the harness (Spec::enc / Spec::dec); curve points are decided by the model only for the alphabet {O, G, -2G, B (on curve, outside the subgroup)}, other point encodings are 'undecided' (generic checks only)");
    ctx.assume("64-bit target: usize/isize are encoded as 8 bytes");
    ctx.assume("containers of zero-sized elements are covered for valid values only (a huge length prefix over zero-sized elements is a long loop, not an allocation, and is outside the property)");
    ctx.assume("allocation budget per malformed input: largest single request <= 2 MiB + 1024 x input length bytes (a constant reservation is not \"unbounded\"); requests above 64 MiB are refused by the child's allocator (abort = violation)");
    ctx.bound("sequence_lengths", if thorough { "all lengths <= 4 over 3-value alphabets (points: 4-value alphabet incl. an out-of-subgroup point)" } else { "all lengths <= 3 over 3-value alphabets (points: 4-value alphabet incl. an out-of-subgroup point)" });
    ctx.bound("large_values", "Vec<u8> of 300 and 70000 bytes, Vec<u16>/VecDeque<u16> (wrapped ring buffer)/LinkedList<u16> of 500..1000 elements, Vec<G1Affine> of 33 points (one variant with a single out-of-subgroup point), 600-char String, full 256-key map/set, BigUint 2^5000");
    ctx.bound("modes", "2 x 2 (Compress x Validate) for every value and every malformed input");
    ctx.bound("derive_shapes", "named, tuple, nested-tuple fields, generic parameter with inline bounds (Named, Tup, Nest, Gen<T>, Small) + unit struct, empty named struct, tuple struct whose field is ((A, B), C), where-clause bounds, generic parameter used in PhantomData only (enums are not supported by the derive)");
    ctx.bound("public_helpers", "every valid value (once, compressed/checked case): CanonicalSerializeHashExt::hash / hash_uncompressed with SHA-256 against the digest of the model bytes; serialize_to_vec![x, x] against the compressed and the uncompressed concatenation (either accepted, which one is recorded)");
    ctx.assume("inputs that the format model can decode but that are not the serialization of the decoded value (unsorted or duplicate map / set keys, BigUint digits with trailing zeros) may be accepted with the model's value or rejected; serde helpers: the JSON must denote the canonical bytes (base64 / hex / number array readings) and round-trip - the exact text is a recorded class");
    ctx.bound("mixed_batches", "Vec<Option<G1Affine>>, Vec<Vec<G1Affine>>, Option<Vec<G1Affine>>, Vec<[G1Affine;2]>, Vec<Named>, (G1Affine,Vec<G1Affine>), BTreeMap<u8,G1Affine>: every shape with <= 3..4 point slots, the out-of-subgroup point in exactly one slot (every slot in turn; Vec<Named>: also the Edwards field) and the all-valid twin: checked modes fail, unchecked modes round-trip, check / batch_check agree with the model");
    ctx.bound("beyond_preallocation", "sequences around and beyond the 4096 bytes the deserializers reserve before reading: Vec<u8> 4095/4096/4097/5000/70000, Vec<u64> 511/512/513/600, String 4097 bytes, BigUint 4097 and 5000 bytes, VecDeque<u16> 2049 (contiguous and wrapped), Vec<[u8;32]> 127/128/129, Vec<G1Affine> 90 (all valid / last invalid), Vec<[u64;600]> 2 (one element alone exceeds the reservation), BTreeMap<u32,u64> 400: round trip, exact size, exactly the encoding consumed (sentinel bytes follow)");
    ctx.bound("faults", format!("per valid encoding (<= 32 bytes; <= 200 (thorough 320) bytes for types with curve elements, {} seeds): every truncation, every 1-byte substitution from {{00,01,02,7f,80,ff}} (thorough: 12 values), every 2-byte substitution for encodings <= {} bytes, every length prefix replaced by {{len+1, 2^16, 2^24, 2^32, 2^40, 2^63, 2^64-1{}}}", if thorough { 40 } else { 5 }, if thorough { 16 } else { 10 }, if thorough { ", len+2, 0, 255, 256, 2^20, 2^31, 2^32-1, 2^48, 2^56, 2^63-1, 2^64-2" } else { "" }));
    ctx.bound("short_strings", if thorough { "all byte strings of length <= 2 for every type in all 4 modes" } else { "all byte strings of length <= 2 for every type (compressed+checked); length <= 1 in all 4 modes" });
    build_tables(&mut ctx);
    let reg = registry(true, thorough);
    ctx.bound("types", reg.len() as u64);

    // 1. valid values
    // (the types added for mixed batches / long sequences / tags inside containers / extra derive shapes are explored
    // together, in one space per kind of sweep; index -> (type, case) by offsets)
    let grouped: Vec<usize> = (0..reg.len()).filter(|k| reg[*k].flags & NOSHORT != 0).collect();
    ctx.bound("grouped_types", grouped.iter().map(|k| reg[*k].name).collect::<Vec<_>>().join(", "));
    for t in &reg {
        if t.flags & NOSHORT != 0 {
            continue;
        }
        ctx.sweep(&format!("valid/{}", t.name), 4 * t.nvalues as u64, |i, loc| (t.valid)(i, loc));
    }
    {
        let mut offs = vec![0u64];
        for k in &grouped {
            offs.push(offs.last().unwrap() + 4 * reg[*k].nvalues as u64);
        }
        ctx.sweep("valid/grouped_types", *offs.last().unwrap(), |i, loc| {
            let g = offs.partition_point(|o| *o <= i) - 1;
            (reg[grouped[g]].valid)(i - offs[g], loc)
        });
    }
    // slices
    {
        let ml = if thorough { 4 } else { 3 };
        let a = seqs(&[0u16, 0x0102, 0xffff], ml);
        ctx.sweep("valid/slices_u16", 2 * a.len() as u64, |i, loc| slices_case("u16", &a[(i / 2) as usize], i % 2 == 0, loc));
        let g = seqs(&g1a(), 2);
        ctx.sweep("valid/slices_G1Affine", 2 * g.len() as u64, |i, loc| slices_case("G1Affine", &g[(i / 2) as usize], i % 2 == 0, loc));
        let n = nested_shapes(3);
        ctx.sweep("valid/slices_Vec<u16>", 2 * n.len() as u64, |i, loc| {
            loc.class("nested");
            slices_case("Vec<u16>", &n[(i / 2) as usize], i % 2 == 0, loc)
        });
    }
    // 2. serde_json round trip of the mode-pinning wrappers
    {
        let g = g1a();
        let gv = seqs(&g, 2);
        let nv: Vec<Named> = named_values().into_iter().step_by(3).collect();
        let fv = vec![Fr::zero(), Fr::one(), -Fr::one(), Fr::from(GENERIC64)];
        macro_rules! serde_w { ($W:ident, $name:expr, $c:expr, $v:expr) => {
            ctx.sweep(&format!("serde_json/{}<G1Affine>", $name), g.len() as u64, |i, loc| serde_wrapper_case::<$W<G1Affine>, G1Affine>($name, $W, |w| &w.0, $c, $v, &g[i as usize], loc));
            ctx.sweep(&format!("serde_json/{}<Vec<G1Affine>>", $name), gv.len() as u64, |i, loc| serde_wrapper_case::<$W<Vec<G1Affine>>, Vec<G1Affine>>($name, $W, |w| &w.0, $c, $v, &gv[i as usize], loc));
            ctx.sweep(&format!("serde_json/{}<Named>", $name), nv.len() as u64, |i, loc| serde_wrapper_case::<$W<Named>, Named>($name, $W, |w| &w.0, $c, $v, &nv[i as usize], loc));
            ctx.sweep(&format!("serde_json/{}<Fr>", $name), fv.len() as u64, |i, loc| serde_wrapper_case::<$W<Fr>, Fr>($name, $W, |w| &w.0, $c, $v, &fv[i as usize], loc));
        } }
        serde_w!(CompressedChecked, "compressed_checked", true, true);
        serde_w!(CompressedUnchecked, "compressed_unchecked", true, false);
        serde_w!(UncompressedChecked, "uncompressed_checked", false, true);
        serde_w!(UncompressedUnchecked, "uncompressed_unchecked", false, false);
        let gv3 = seqs(&g, 3);
        ctx.sweep("serde_json/vec_compressed_checked", gv3.len() as u64, |i, loc| serde_vec_module_case::<SvCC>("vec_compressed_checked", |v| SvCC { v }, |s| &s.v, true, true, &gv3[i as usize], loc));
        ctx.sweep("serde_json/vec_compressed_unchecked", gv3.len() as u64, |i, loc| serde_vec_module_case::<SvCU>("vec_compressed_unchecked", |v| SvCU { v }, |s| &s.v, true, false, &gv3[i as usize], loc));
        ctx.sweep("serde_json/vec_uncompressed_checked", gv3.len() as u64, |i, loc| serde_vec_module_case::<SvUC>("vec_uncompressed_checked", |v| SvUC { v }, |s| &s.v, false, true, &gv3[i as usize], loc));
        ctx.sweep("serde_json/vec_uncompressed_unchecked", gv3.len() as u64, |i, loc| serde_vec_module_case::<SvUU>("vec_uncompressed_unchecked", |v| SvUU { v }, |s| &s.v, false, false, &gv3[i as usize], loc));
    }
    // 3. malformed input in child processes
    let mut total_inputs = 0u64;
    for (idx, t) in reg.iter().enumerate() {
        if t.flags & (NOMAL | NOSHORT) != 0 {
            continue;
        }
        let inputs = malformed_inputs(t, thorough);
        total_inputs += inputs.len() as u64;
        SWEEP_DEATHS.store(0, Ordering::Relaxed);
        ctx.sweep(&format!("malformed/{}", t.name), 4 * inputs.len() as u64, |i, loc| malformed_case(t, idx, &inputs[(i / 4) as usize], (i % 4) as usize, loc, false));
    }
    {
        let per_type: Vec<Vec<Vec<u8>>> = grouped.iter().map(|k| if reg[*k].flags & NOMAL != 0 { Vec::new() } else { malformed_inputs(&reg[*k], thorough) }).collect();
        let mut offs = vec![0u64];
        for inputs in &per_type {
            total_inputs += inputs.len() as u64;
            offs.push(offs.last().unwrap() + 4 * inputs.len() as u64);
        }
        SWEEP_DEATHS.store(0, Ordering::Relaxed);
        ctx.sweep("malformed/grouped_types", *offs.last().unwrap(), |i, loc| {
            let g = offs.partition_point(|o| *o <= i) - 1;
            let j = i - offs[g];
            malformed_case(&reg[grouped[g]], grouped[g], &per_type[g][(j / 4) as usize], (j % 4) as usize, loc, false)
        });
    }
    ctx.bound("malformed_inputs_distinct", total_inputs);
    for (idx, t) in reg.iter().enumerate() {
        if t.flags & (NOMAL | NOSHORT) != 0 {
            continue;
        }
        // index = mode * 65793 + string (contiguous strings share a pipelined batch)
        let per_mode = 65793u64;
        let n = if thorough { 4 * per_mode } else { per_mode + 3 * 257 };
        SWEEP_DEATHS.store(0, Ordering::Relaxed);
        ctx.sweep(&format!("bytes_le2/{}", t.name), n, |i, loc| {
            let (mode, sidx) = if i < per_mode || thorough { ((i / per_mode) as usize, i % per_mode) } else { (1 + ((i - per_mode) / 257) as usize, (i - per_mode) % 257) };
            malformed_case(t, idx, &short_string(sidx), mode, loc, true)
        });
    }
    let skipped = SKIPPED.load(Ordering::Relaxed) as u64;
    if skipped > 0 {
        ctx.capped = true;
        ctx.bound("cases_skipped_after_abort_cap", skipped);
        ctx.bound("abort_cap_per_sweep", DEATH_CAP as u64);
    }
    ctx.bound("child_processes_spawned", SPAWNED.load(Ordering::Relaxed) as u64);
    ctx.bound("child_processes_aborted", DIED.load(Ordering::Relaxed) as u64);
    for k in POOL.lock().unwrap().drain(..) {
        let Kid { mut proc, tx, rx } = k;
        drop(tx);
        drop(rx);
        let _ = proc.wait();
    }
    for m in MACHINERY.lock().unwrap().drain(..) {
        ctx.machinery_error(m);
    }
    std::process::exit(ctx.finish());
}
