//! C15 - fixed-width big integers are integers mod 2^(64N) with exact flags;
//! signed-digit recodings reconstruct the value and obey their constraints.
use algebra_mc::core::*;
use algebra_mc::refmodel::zmod::*;
use ark_ff::biginteger::arithmetic::{find_naf, find_relaxed_naf};
use ark_ff::{signed_mod_reduction, BigInt, BigInteger, BitIteratorBE, BitIteratorLE};
use num_bigint::{BigInt as SBig, BigUint};
use num_traits::{One, Zero};
use std::str::FromStr;

fn values<const N: usize>(dev: usize) -> Vec<[u64; N]> {
    let mut out: Vec<Vec<u64>> = Vec::new();
    if N <= 3 {
        // all L10^N tuples
        let n = 10u64.pow(N as u32);
        for i in 0..n {
            let d = unrank_vec(i, &vec![10u64; N]);
            out.push(d.iter().map(|k| L10[*k as usize]).collect());
        }
    } else {
        for base in [0u64, u64::MAX] {
            out.extend(deviation_ball(&vec![base; N], &L10, dev));
        }
        if N == 4 {
            for i in 0..256u64 {
                let d = unrank_vec(i, &[4, 4, 4, 4]);
                out.push(d.iter().map(|k| L4[*k as usize]).collect());
            }
        }
        // a generic-looking value in every limb position
        for pos in 0..N {
            let mut v = vec![0u64; N];
            v[pos] = GENERIC64;
            out.push(v.clone());
            let mut w = vec![u64::MAX; N];
            w[pos] = GENERIC64;
            out.push(w);
        }
    }
    let out = dedup_sorted(out);
    out.into_iter()
        .map(|v| {
            let mut a = [0u64; N];
            a.copy_from_slice(&v);
            a
        })
        .collect()
}

fn big<const N: usize>(a: &[u64; N]) -> BigUint {
    from_limbs(a)
}

fn binary_ops<const N: usize>(ctx: &mut Ctx, lhs: &[[u64; N]], rhs: &[[u64; N]], tag: &str) {
    let modulus = pow2(64 * N);
    let nl = lhs.len() as u64;
    let nr = rhs.len() as u64;
    ctx.sweep(&format!("binary_ops/N={N}/{tag}"), nl * nr, |i, loc| {
        let [ia, ib] = unrank(i, [nl, nr]);
        let (a, b) = (lhs[ia as usize], rhs[ib as usize]);
        let (ba, bb) = (big(&a), big(&b));
        if loc.sampling() {
            loc.sample(format!("N={N} a={a:x?} b={b:x?}"));
        }
        // add_with_carry
        let mut x = BigInt::<N>(a);
        let c = x.add_with_carry(&BigInt(b));
        let s = &ba + &bb;
        let want_c = s >= modulus;
        loc.class_if(want_c, "carry_out");
        // carry crossing a limb boundary: some low part overflowed
        for k in 1..N {
            let m = pow2(64 * k);
            if (&ba % &m) + (&bb % &m) >= m {
                loc.class("limb_boundary_carry");
                break;
            }
        }
        loc.check(big(&x.0) == &s % &modulus && c == want_c, || {
            format!("add_with_carry N={N} a={a:x?} b={b:x?} got={:x?},carry={c}", x.0)
        });
        // sub_with_borrow
        let mut x = BigInt::<N>(a);
        let br = x.sub_with_borrow(&BigInt(b));
        let want_b = ba < bb;
        loc.class_if(want_b, "borrow_out");
        let want = if want_b { &modulus + &ba - &bb } else { &ba - &bb };
        loc.check(big(&x.0) == want && br == want_b, || {
            format!("sub_with_borrow N={N} a={a:x?} b={b:x?} got={:x?},borrow={br}", x.0)
        });
        // mul
        let p = &ba * &bb;
        let (lo, hi) = BigInt::<N>(a).mul(&BigInt(b));
        let want_lo = &p % &modulus;
        let want_hi = &p >> (64 * N);
        loc.class_if(!want_hi.is_zero(), "hi_product_nonzero");
        loc.check(big(&lo.0) == want_lo && big(&hi.0) == want_hi, || {
            format!("mul N={N} a={a:x?} b={b:x?} got lo={:x?} hi={:x?}", lo.0, hi.0)
        });
        let ml = BigInt::<N>(a).mul_low(&BigInt(b));
        loc.check(big(&ml.0) == want_lo, || format!("mul_low N={N} a={a:x?} b={b:x?} got={:x?}", ml.0));
        let mh = BigInt::<N>(a).mul_high(&BigInt(b));
        loc.check(big(&mh.0) == want_hi, || format!("mul_high N={N} a={a:x?} b={b:x?} got={:x?}", mh.0));
        // order and equality
        let (xa, xb) = (BigInt::<N>(a), BigInt::<N>(b));
        loc.check(xa.cmp(&xb) == ba.cmp(&bb) && xa.partial_cmp(&xb) == Some(ba.cmp(&bb)), || {
            format!("cmp N={N} a={a:x?} b={b:x?} got={:?}", xa.cmp(&xb))
        });
        loc.check((xa == xb) == (ba == bb) && (xa < xb) == (ba < bb) && (xa >= xb) == (ba >= bb), || {
            format!("eq/lt/ge N={N} a={a:x?} b={b:x?}")
        });
        // bitwise
        let and = xa & xb;
        let or = xa | xb;
        let xor = xa ^ xb;
        let mut ok = true;
        for k in 0..N {
            ok &= and.0[k] == a[k] & b[k] && or.0[k] == a[k] | b[k] && xor.0[k] == a[k] ^ b[k];
        }
        let mut t = xa;
        t &= xb;
        ok &= t == and;
        let mut t = xa;
        t |= xb;
        ok &= t == or;
        let mut t = xa;
        t ^= xb;
        ok &= t == xor;
        loc.check(ok, || format!("bitwise N={N} a={a:x?} b={b:x?}"));
    });
}

fn unary_ops<const N: usize>(ctx: &mut Ctx, vals: &[[u64; N]]) {
    let modulus = pow2(64 * N);
    ctx.sweep(&format!("unary_ops/N={N}"), vals.len() as u64, |i, loc| {
        let a = vals[i as usize];
        let ba = big(&a);
        let x = BigInt::<N>(a);
        if loc.sampling() {
            loc.sample(format!("N={N} a={a:x?}"));
        }
        let mut d = x;
        let c = d.mul2();
        let want = &ba << 1usize;
        loc.class_if(want >= modulus, "carry_out");
        loc.check(big(&d.0) == &want % &modulus && c == (want >= modulus), || format!("mul2 N={N} a={a:x?} got={:x?} c={c}", d.0));
        let mut h = x;
        h.div2();
        loc.check(big(&h.0) == &ba >> 1usize, || format!("div2 N={N} a={a:x?} got={:x?}", h.0));
        loc.check(x.const_shr() == h, || format!("const_shr N={N} a={a:x?}"));
        let odd = (&ba % 2u32).is_one();
        loc.check(
            x.is_odd() == odd && x.is_even() == !odd && x.is_zero() == ba.is_zero() && x.const_is_odd() == odd && x.const_is_even() == !odd,
            || format!("parity/zero N={N} a={a:x?}"),
        );
        loc.check(x.mod_4() as u32 == (&ba % 4u32).to_u32_digits().first().copied().unwrap_or(0), || format!("mod_4 N={N} a={a:x?}"));
        loc.check(x.num_bits() as u64 == ba.bits(), || format!("num_bits N={N} a={a:x?} got={}", x.num_bits()));
        // const_num_bits is documented as "the number of bits in the binary decomposition of self": the bit length
        if a[N - 1] != 0 {
            loc.check(x.const_num_bits() as u64 == ba.bits(), || format!("const_num_bits(top limb nonzero) N={N} a={a:x?}"));
        } else {
            loc.class("num_bits:zero_top_limb");
            loc.check_at("const_num_bits_zero_top_limb", x.const_num_bits() as u64 == ba.bits(), || {
                format!("BigInt::<{N}>({a:x?}).const_num_bits() = {} but the value has {} bits", x.const_num_bits(), ba.bits())
            });
        }
        let dr = x.divide_by_2_round_down();
        loc.check(big(&dr.0) == &ba >> 1usize, || format!("divide_by_2_round_down N={N} a={a:x?}"));
        if odd && !(&ba - 1u32).is_zero() {
            // (value 1 is excluded: 1 - 1 = 0 has no 2-adic valuation; the helpers are only meaningful for odd m >= 3)
            let v = x.two_adic_valuation();
            let t = x.two_adic_coefficient();
            let m1 = &ba - 1u32;
            let want_v = m1.trailing_zeros().unwrap_or(0);
            loc.check(v as u64 == want_v && big(&t.0) == &m1 >> (want_v as usize), || format!("two_adic N={N} a={a:x?} got v={v} t={:x?}", t.0));
        }
        // bits
        let be = x.to_bits_be();
        let le = x.to_bits_le();
        let mut ok = be.len() == 64 * N && le.len() == 64 * N;
        for k in 0..64 * N {
            let bit = ba.bit(k as u64);
            ok &= le[k] == bit && be[64 * N - 1 - k] == bit && x.get_bit(k) == bit;
        }
        ok &= !x.get_bit(64 * N) && !x.get_bit(64 * N + 1);
        loc.check(ok, || format!("to_bits/get_bit N={N} a={a:x?}"));
        loc.check(BigInt::<N>::from_bits_be(&be) == x && BigInt::<N>::from_bits_le(&le) == x, || format!("from_bits roundtrip N={N} a={a:x?}"));
        let ible: Vec<bool> = BitIteratorLE::new(&a[..]).collect();
        let ibbe: Vec<bool> = BitIteratorBE::new(&a[..]).collect();
        loc.check(ible == le && ibbe == be, || format!("BitIterator N={N} a={a:x?}"));
        let nb = ba.bits() as usize;
        let wl: Vec<bool> = BitIteratorBE::without_leading_zeros(&a[..]).collect();
        let wt: Vec<bool> = BitIteratorLE::without_trailing_zeros(&a[..]).collect();
        loc.check(wl == be[64 * N - nb..].to_vec() && wt == le[..nb].to_vec(), || format!("BitIterator without zeros N={N} a={a:x?}"));
        // bytes
        let bl = x.to_bytes_le();
        let bb = x.to_bytes_be();
        let mut want_le = ba.to_bytes_le();
        want_le.resize(8 * N, 0);
        let mut want_be = want_le.clone();
        want_be.reverse();
        loc.check(bl == want_le && bb == want_be, || format!("to_bytes N={N} a={a:x?}"));
        // not
        let n = !x;
        loc.check(big(&n.0) == &modulus - 1u32 - &ba, || format!("not N={N} a={a:x?}"));
        // strings
        let s = format!("{x}");
        loc.check(s == ba.to_str_radix(10), || format!("Display N={N} a={a:x?} got={s}"));
        loc.check(BigInt::<N>::from_str(&s) == Ok(x), || format!("FromStr(Display) N={N} a={a:x?}"));
        // UpperHex: the hexadecimal numeral denotes the value (padding / width are presentation, not claimed)
        let hx = format!("{x:X}");
        loc.check(!hx.is_empty() && BigUint::parse_bytes(hx.as_bytes(), 16).as_ref() == Some(&ba), || format!("UpperHex N={N} a={a:x?} got={hx}"));
        // BigUint conversions
        let back: BigUint = x.into();
        loc.check(back == ba, || format!("Into<BigUint> N={N} a={a:x?}"));
        loc.check(BigInt::<N>::try_from(ba.clone()) == Ok(x), || format!("TryFrom<BigUint> N={N} a={a:x?}"));
        let sb: SBig = x.into();
        loc.check(sb == SBig::from(ba.clone()), || format!("Into<num BigInt> N={N} a={a:x?}"));
        // too large => Err
        let too = &ba + &modulus;
        loc.check(BigInt::<N>::try_from(too.clone()).is_err() && BigInt::<N>::from_str(&too.to_str_radix(10)).is_err(), || {
            format!("TryFrom too large N={N} a={a:x?}")
        });
        // montgomery constants for odd moduli > 1
        if odd && ba > BigUint::one() {
            let r = x.montgomery_r();
            let r2 = x.montgomery_r2();
            loc.check(big(&r.0) == &modulus % &ba && big(&r2.0) == (&modulus * &modulus) % &ba, || {
                format!("montgomery_r/r2 N={N} m={a:x?} got r={:x?} r2={:x?}", r.0, r2.0)
            });
        }
    });
}

fn shift_ops<const N: usize>(ctx: &mut Ctx, vals: &[[u64; N]]) {
    let modulus = pow2(64 * N);
    let mut shifts: Vec<u32> = (0..=(64 * N as u32 + 2)).collect();
    shifts.push(1 << 31);
    shifts.push(u32::MAX);
    let ns = shifts.len() as u64;
    ctx.sweep(&format!("shift_ops/N={N}"), vals.len() as u64 * ns, |i, loc| {
        let [is, ia] = unrank(i, [ns, vals.len() as u64]);
        let a = vals[ia as usize];
        let n = shifts[is as usize];
        let ba = big(&a);
        let x = BigInt::<N>(a);
        if loc.sampling() {
            loc.sample(format!("N={N} a={a:x?} shift={n}"));
        }
        match n {
            0 => loc.class("shift=0"),
            63 => loc.class("shift=63"),
            64 => loc.class("shift=64"),
            65 => loc.class("shift=65"),
            _ => {}
        }
        loc.class_if(n as usize == 64 * N - 1, "shift=64N-1");
        loc.class_if(n as usize >= 64 * N, "shift>=64N");
        let (wl, wr) = if n as usize >= 64 * N { (BigUint::zero(), BigUint::zero()) } else { ((&ba << n as usize) % &modulus, &ba >> n as usize) };
        let mut m = x;
        m.muln(n);
        let mut d = x;
        d.divn(n);
        loc.check(big(&m.0) == wl, || format!("muln N={N} a={a:x?} n={n} got={:x?}", m.0));
        loc.check(big(&d.0) == wr, || format!("divn N={N} a={a:x?} n={n} got={:x?}", d.0));
        let mut l = x;
        l <<= n;
        let mut r = x;
        r >>= n;
        loc.check(big(&l.0) == wl && big(&(x << n).0) == wl, || format!("shl N={N} a={a:x?} n={n} got={:x?}", l.0));
        loc.check(big(&r.0) == wr && big(&(x >> n).0) == wr, || format!("shr N={N} a={a:x?} n={n} got={:x?}", r.0));
    });
}

fn from_bits<const N: usize>(ctx: &mut Ctx) {
    // all bit vectors of length 0..=max with <= 2 set bits (longer-than-capacity included)
    let maxlen = (64 * N + 3).min(200);
    let mut cases: Vec<(usize, Vec<usize>)> = Vec::new();
    for len in 0..=maxlen {
        cases.push((len, vec![]));
        for i in 0..len {
            cases.push((len, vec![i]));
            // second bit: restrict to a boundary set to keep the space small
            for j in [0usize, 1, 63, 64, 65, len.saturating_sub(1), len / 2] {
                if j < len && j > i {
                    cases.push((len, vec![i, j]));
                }
            }
        }
    }
    let modulus = pow2(64 * N);
    ctx.sweep(&format!("from_bits/N={N}"), cases.len() as u64, |i, loc| {
        let (len, set) = &cases[i as usize];
        let mut le = vec![false; *len];
        for s in set {
            le[*s] = true;
        }
        let mut val = BigUint::zero();
        for s in set {
            val += pow2(*s);
        }
        let overlong = *len > 64 * N;
        loc.class_if(overlong, "bits_longer_than_capacity");
        // within the capacity: the value.  Longer than the capacity (the rustdoc is silent): the value mod 2^(64N) or
        // a rejection (panic) - never another value
        let mut be = le.clone();
        be.reverse();
        for (what, r) in [
            ("from_bits_le", std::panic::catch_unwind(|| BigInt::<N>::from_bits_le(&le))),
            ("from_bits_be", std::panic::catch_unwind(|| BigInt::<N>::from_bits_be(&be))),
        ] {
            match r {
                Ok(got) => {
                    loc.check(big(&got.0) == &val % &modulus, || format!("{what} N={N} len={len} set={set:?} got={:x?}", got.0));
                }
                Err(_) => {
                    loc.class("observed:from_bits_overlong_rejected");
                    loc.check(overlong, || format!("{what} N={N} len={len} set={set:?} panics although the bits fit the capacity"));
                }
            }
        }
        if loc.sampling() {
            loc.sample(format!("N={N} bits len={len} set={set:?}"));
        }
    });
}

fn from_prims(ctx: &mut Ctx) {
    ctx.sweep("from_primitives", 1, |_, loc| {
        macro_rules! go {
            ($N:expr) => {{
                for v in [0u64, 1, 255, 256, 65535, 65536, u32::MAX as u64, 1 << 32, u64::MAX] {
                    let x = BigInt::<$N>::from(v);
                    loc.check(from_limbs(&x.0) == BigUint::from(v), || format!("From<u64> N={} v={v}", $N));
                }
                for v in [0u32, 1, u32::MAX] {
                    loc.check(from_limbs(&BigInt::<$N>::from(v).0) == BigUint::from(v), || format!("From<u32> v={v}"));
                }
                for v in [0u16, 1, u16::MAX] {
                    loc.check(from_limbs(&BigInt::<$N>::from(v).0) == BigUint::from(v), || format!("From<u16> v={v}"));
                }
                for v in [0u8, 1, u8::MAX] {
                    loc.check(from_limbs(&BigInt::<$N>::from(v).0) == BigUint::from(v), || format!("From<u8> v={v}"));
                }
                loc.check(BigInt::<$N>::one().0[0] == 1 && BigInt::<$N>::zero().is_zero() && BigInt::<$N>::default().is_zero(), || "one/zero".into());
            }};
        }
        go!(1);
        go!(2);
        go!(4);
        go!(13);
    });
}

/// value of a digit string sum d_i 2^i
fn digits_value(d: &[i64]) -> SBig {
    let mut acc = SBig::zero();
    for (i, x) in d.iter().enumerate() {
        acc += SBig::from(*x) << i;
    }
    acc
}

fn recoding_values(nl: usize, quick: bool) -> Vec<Vec<u64>> {
    let mut out: Vec<Vec<u64>> = Vec::new();
    // all small integers
    let small = if quick { 1024 } else { 4096 };
    for v in 0..=small {
        let mut l = vec![0u64; nl];
        l[0] = v;
        out.push(l);
    }
    if nl <= 2 {
        let n = 10u64.pow(nl as u32);
        for i in 0..n {
            out.push(unrank_vec(i, &vec![10u64; nl]).iter().map(|k| L10[*k as usize]).collect());
        }
    } else {
        for base in [0u64, u64::MAX] {
            out.extend(deviation_ball(&vec![base; nl], &L10, 2));
        }
    }
    // every value within 40 of each 2^(64k) boundary (incl. the top: 2^(64 nl) - d)
    for k in 1..=nl {
        for d in 1..=40u64 {
            // 2^(64k) - d
            let mut l = vec![0u64; nl];
            for j in 0..k {
                l[j] = u64::MAX;
            }
            l[0] = u64::MAX - (d - 1);
            out.push(l);
            if k < nl {
                let mut l = vec![0u64; nl];
                l[k] = 1;
                l[0] = d - 1;
                out.push(l);
            }
        }
    }
    dedup_sorted(out)
}

/// digit constraints of a (strict) NAF: digits in {-1, 0, 1}, no two adjacent non-zero digits
fn naf_constraints(d: &[i8]) -> (bool, bool) {
    (d.iter().all(|x| (-1..=1).contains(x)), d.windows(2).all(|w| w[0] == 0 || w[1] == 0))
}

fn naf_case(loc: &mut Loc, v: &[u64]) {
    let nl = v.len();
    let bv = SBig::from(from_limbs(v));
    if loc.sampling() {
        loc.sample(format!("naf of {v:x?}"));
    }
    // near the top: value + correction digit carries out of the top limb (2^(64 nl) - 1) or comes within 2 of doing so
    let near_top = nl > 0 && v.iter().skip(1).all(|x| *x == u64::MAX) && v[0] >= u64::MAX - 2;
    loc.class_if(near_top, "naf:value_near_2^64N");
    loc.class_if(nl == 0, "naf:empty_slice");
    let naf = find_naf(v);
    let d: Vec<i64> = naf.iter().map(|x| *x as i64).collect();
    let (ok_digits, non_adj) = naf_constraints(&naf);
    // (a recoding padded with most-significant zero digits is a legitimate NAF: no claim about the length)
    loc.check_at("find_naf", digits_value(&d) == bv && ok_digits && non_adj, || {
        format!("find_naf({v:x?}) = {naf:?}: value {} (want {bv}), digits_ok={ok_digits} non_adjacent={non_adj}", digits_value(&d))
    });
    // relaxed NAF: the model's own NAF has fewer than 3 digits when the value is < 3
    loc.class_if(bv < SBig::from(3), "relaxed:len<3");
    let r = std::panic::catch_unwind(|| find_relaxed_naf(v));
    match r {
        Err(_) => loc.fail_at("find_relaxed_naf", format!("find_relaxed_naf({v:x?}) panics (naf length {})", naf.len())),
        Ok(rn) => {
            let d: Vec<i64> = rn.iter().map(|x| *x as i64).collect();
            let digits_ok = rn.iter().all(|x| (-1..=1).contains(x));
            // non-adjacent everywhere except possibly the two most significant (non-zero) digits
            let sig = rn.len() - rn.iter().rev().take_while(|x| **x == 0).count();
            let body = if sig >= 2 { &rn[..sig - 1] } else { &rn[..sig] };
            let non_adj = body.windows(2).all(|w| w[0] == 0 || w[1] == 0);
            loc.check_at("find_relaxed_naf", digits_value(&d) == bv && digits_ok && non_adj, || {
                format!("find_relaxed_naf({v:x?}) = {rn:?}: value {} want {bv}; digits_ok={digits_ok} non_adjacent_below_top={non_adj}", digits_value(&d))
            });
        }
    }
}

fn naf_checks(ctx: &mut Ctx) {
    ctx.sweep("find_naf/limbs=0", 1, |_, loc| naf_case(loc, &[]));
    for nl in [1usize, 2, 3, 4, 6] {
        let vals = recoding_values(nl, ctx.quick());
        ctx.sweep(&format!("find_naf/limbs={nl}"), vals.len() as u64, |i, loc| naf_case(loc, &vals[i as usize]));
    }
}

/// the values on which the wNAF correction interacts with the capacity: all-ones based patterns, everything within `lim`
/// of 2^(64N), 2^(64N) - 2^(w-1) +- 1 for every window, limb boundaries, plus a deviation<=1 ball (wide N, where
/// the full `recoding_values` product is too expensive)
fn wnaf_edge_values(n: usize, lim: u64) -> Vec<Vec<u64>> {
    let mut vals: Vec<Vec<u64>> = Vec::new();
    for base in [0u64, u64::MAX] {
        vals.extend(deviation_ball(&vec![base; n], &L10, 1));
    }
    for v in 0..=64u64 {
        let mut l = vec![0u64; n];
        l[0] = v;
        vals.push(l);
    }
    for k in 1..n {
        for d in 1..=3u64 {
            let mut l = vec![0u64; n];
            for j in 0..k {
                l[j] = u64::MAX;
            }
            l[0] = u64::MAX - (d - 1);
            vals.push(l);
            let mut l = vec![0u64; n];
            l[k] = 1;
            l[0] = d - 1;
            vals.push(l);
        }
    }
    let mut g = vec![GENERIC64; n];
    vals.push(g.clone());
    g[n - 1] = u64::MAX;
    vals.push(g);
    wnaf_top_values(&mut vals, n, lim);
    dedup_sorted(vals)
}

/// 2^(64N) - d for d <= lim, and 2^(64N) - 2^(w-1) +- 1 for every window size
fn wnaf_top_values(vals: &mut Vec<Vec<u64>>, n: usize, lim: u64) {
    for d in 1..=lim {
        let mut l = vec![u64::MAX; n];
        l[0] = u64::MAX - (d - 1);
        vals.push(l);
    }
    for w in 2..64usize {
        for delta in [-1i64, 0, 1] {
            let mut l = vec![u64::MAX; n];
            l[0] = (0u64.wrapping_sub(1u64 << (w - 1))).wrapping_add(delta as u64);
            vals.push(l);
        }
    }
}

fn wnaf_checks<const N: usize>(ctx: &mut Ctx, edge_only: bool) {
    // within 2^(w-1)+1 of 2^(64N) for every w up to 12 exhaustively (F2 region): top - d for d <= 2049
    let vals = if edge_only {
        wnaf_edge_values(N, if ctx.quick() { 130 } else { 2050 })
    } else {
        let mut vals = recoding_values(N, ctx.quick());
        wnaf_top_values(&mut vals, N, if ctx.quick() { 300 } else { 2050 });
        dedup_sorted(vals)
    };
    let ws: Vec<usize> = (0..=66).collect();
    let nw = ws.len() as u64;
    ctx.sweep(&format!("find_wnaf/N={N}{}", if edge_only { "/edge" } else { "" }), vals.len() as u64 * nw, |i, loc| {
        let [iw, iv] = unrank(i, [nw, vals.len() as u64]);
        let w = ws[iw as usize];
        let v = &vals[iv as usize];
        let mut a = [0u64; N];
        a.copy_from_slice(v);
        let x = BigInt::<N>(a);
        let bv = SBig::from(from_limbs(v));
        if loc.sampling() {
            loc.sample(format!("wnaf N={N} w={w} v={v:x?}"));
        }
        let r = x.find_wnaf(w);
        let valid_w = (2..64).contains(&w);
        if valid_w {
            loc.class_if(w >= 32, "wnaf:w>=32");
            // would the first correction overflow 2^(64N)?
            let modulus = SBig::from(pow2(64 * N));
            let half = SBig::one() << (w - 1);
            loc.class_if(&bv + &half > modulus, "wnaf:value_near_2^64N");
        } else {
            // a window outside 2..64 has no wNAF with i64 digits: None, or (never a panic) a recoding that is right
            loc.class("wnaf:window_outside_2..64");
        }
        let Some(d) = r else {
            loc.check(!valid_w, || format!("find_wnaf(w={w}) returned None for valid w"));
            return;
        };
        let val = digits_value(&d);
        // digits are zero or odd with |digit| < 2^(w-1)
        // (w = 0 has no digit set at all; w > 64: every odd i64 is below 2^(w-1))
        let digits_ok = w == 0 || d.iter().all(|x| *x == 0 || (x % 2 != 0 && (w > 64 || (x.unsigned_abs() as u128) < (1u128 << (w - 1)))));
        // any w consecutive digits contain at most one non-zero
        let mut spaced = true;
        let mut last_nz: Option<usize> = None;
        for (k, x) in d.iter().enumerate() {
            if *x != 0 {
                if let Some(p) = last_nz {
                    if k - p < w {
                        spaced = false;
                    }
                }
                last_nz = Some(k);
            }
        }
        loc.check_at("find_wnaf", val == bv && digits_ok && spaced, || {
            format!("BigInt<{N}>({v:x?}).find_wnaf({w}): value {val} want {bv}; digits_ok={digits_ok} spaced={spaced} len={}", d.len())
        });
    });
}

/// the public limb primitives of biginteger::arithmetic against u128 arithmetic, on the whole product of a boundary alphabet
fn limb_primitive_checks(ctx: &mut Ctx) {
    use ark_ff::biginteger::arithmetic as fa;
    const A8: [u64; 8] = [0, 1, 2, (1 << 32) - 1, 1 << 32, 1 << 63, u64::MAX - 1, u64::MAX];
    ctx.sweep("limb_primitives", 8 * 8 * 8 * 8, |i, loc| {
        let [ia, ib, ic, id] = unrank(i, [8, 8, 8, 8]);
        let (a, b, c, carry) = (A8[ia as usize], A8[ib as usize], A8[ic as usize], A8[id as usize]);
        let s = || format!("a={a:#x} b={b:#x} c={c:#x} carry={carry:#x}");
        if loc.sampling() {
            loc.sample(s());
        }
        let two64 = BigUint::one() << 64usize;
        let lo = |v: &BigUint| -> u64 { (v % &two64).to_u64_digits().first().copied().unwrap_or(0) };
        let hi = |v: &BigUint| -> BigUint { v >> 64usize };
        // adc: a + b + carry (any u64 carry)
        let sum = BigUint::from(a) + BigUint::from(b) + BigUint::from(carry);
        loc.class_if(sum >= two64, "limb_primitives:carry_out");
        let mut x = a;
        let co = fa::adc(&mut x, b, carry);
        loc.check_at("adc", x == lo(&sum) && BigUint::from(co) == hi(&sum), || format!("adc {} -> a={x:#x} carry={co}", s()));
        // adc_no_carry: documented for sums that do not carry out
        if sum < two64 {
            let r = fa::adc_no_carry(a, b, &carry);
            loc.check_at("adc_no_carry", r == lo(&sum), || format!("adc_no_carry {} -> {r:#x}", s()));
        }
        // mac / mac_discard: a + b*c;  mac_with_carry: a + b*c + carry
        let m = BigUint::from(a) + BigUint::from(b) * BigUint::from(c);
        let mut cy = carry;
        let r = fa::mac(a, b, c, &mut cy);
        loc.check_at("mac", r == lo(&m) && BigUint::from(cy) == hi(&m), || format!("mac {} -> {r:#x} carry={cy:#x}", s()));
        let mut cy = carry;
        fa::mac_discard(a, b, c, &mut cy);
        loc.check_at("mac_discard", BigUint::from(cy) == hi(&m), || format!("mac_discard {} -> carry={cy:#x}", s()));
        let mc = &m + BigUint::from(carry);
        let mut cy = carry;
        let r = fa::mac_with_carry(a, b, c, &mut cy);
        loc.check_at("mac_with_carry", r == lo(&mc) && BigUint::from(cy) == hi(&mc), || format!("mac_with_carry {} -> {r:#x} carry={cy:#x}", s()));
        loc.check_at("widening_mul", BigUint::from(fa::widening_mul(b, c)) == BigUint::from(b) * BigUint::from(c), || format!("widening_mul {}", s()));
        // flag-carry forms: the incoming carry / borrow is a flag (0 or 1)
        if carry <= 1 {
            let mut x = a;
            let co = fa::adc_for_add_with_carry(&mut x, b, carry as u8);
            loc.check_at("adc_for_add_with_carry", x == lo(&sum) && BigUint::from(co) == hi(&sum), || format!("adc_for_add_with_carry {} -> a={x:#x} carry={co}", s()));
            let sub = BigUint::from(b) + BigUint::from(carry);
            let borrow = BigUint::from(a) < sub;
            loc.class_if(borrow, "limb_primitives:borrow_out");
            let want = lo(&(&two64 + BigUint::from(a) - &sub));
            let mut x = a;
            let bo = fa::sbb_for_sub_with_borrow(&mut x, b, carry as u8);
            loc.check_at("sbb_for_sub_with_borrow", x == want && bo == borrow as u8, || format!("sbb_for_sub_with_borrow {} -> a={x:#x} borrow={bo}", s()));
            let mut bw = carry;
            let r = ark_ff::sbb!(a, b, &mut bw);
            loc.check_at("sbb!", r == want && bw == borrow as u64, || format!("sbb! {} -> {r:#x} borrow={bw}", s()));
        }
    });
}

/// FromStr on strings that are not Display outputs: a syntactic variant is rejected or denotes its value, a numeral
/// outside 0..2^(64N) and a non-numeral are rejected; never another value, never a panic
fn from_str_syntax<const N: usize>(ctx: &mut Ctx) {
    let modulus = pow2(64 * N);
    let max = &modulus - 1u32;
    // (string, the value it may denote, must be accepted)
    let mut cases: Vec<(String, Option<BigUint>, bool)> = vec![
        ("".into(), None, false),
        ("+5".into(), Some(BigUint::from(5u32)), false),
        ("-1".into(), None, false),
        ("007".into(), Some(BigUint::from(7u32)), false),
        (" 5".into(), Some(BigUint::from(5u32)), false),
        ("5 ".into(), Some(BigUint::from(5u32)), false),
        ("0x5".into(), Some(BigUint::from(5u32)), false),
        ("abc".into(), None, false),
        ("5".into(), Some(BigUint::from(5u32)), true),
        (max.to_str_radix(10), Some(max.clone()), true),
        (format!("0{}", max.to_str_radix(10)), Some(max.clone()), false),
        (modulus.to_str_radix(10), None, false),
        ((&modulus + 1u32).to_str_radix(10), None, false),
        ((&modulus * &modulus).to_str_radix(10), None, false),
        (format!("-{}", modulus.to_str_radix(10)), None, false),
    ];
    cases.dedup_by(|a, b| a.0 == b.0);
    ctx.sweep(&format!("from_str_syntax/N={N}"), cases.len() as u64, |i, loc| {
        let (st, val, must) = &cases[i as usize];
        if loc.sampling() {
            loc.sample(format!("N={N} FromStr({st:?})"));
        }
        loc.class_if(val.is_none() && st.len() > 4, "from_str:out_of_range");
        let r = BigInt::<N>::from_str(st);
        let ok = match (&r, val) {
            (Ok(x), Some(v)) => big(&x.0) == *v,
            (Ok(_), None) => false,
            (Err(_), _) => !*must,
        };
        loc.check_at("from_str", ok, || format!("BigInt::<{N}>::from_str({st:?}) = {:?}; allowed: {}{}", r.as_ref().map(|x| big(&x.0)), if *must { "" } else { "Err" }, val.as_ref().map(|v| format!(" {v}")).unwrap_or_default()));
    });
}

fn smr_checks(ctx: &mut Ctx) {
    // signed_mod_reduction on all n mod 2^w for w<=12, and boundary n for all w<=63
    let mut cases: Vec<(u64, u32)> = Vec::new();
    for w in 1..=12u32 {
        for n in 0..(1u64 << w) {
            cases.push((n, w));
            cases.push((n + (1 << w), w));
        }
    }
    for w in 1..=63u32 {
        let m = 1u64 << w;
        for n in [0, 1, m / 2 - 1, m / 2, m / 2 + 1, m - 1, m, m + 1, u64::MAX, u64::MAX - 1, 1 << 63] {
            cases.push((n, w));
        }
    }
    ctx.sweep("signed_mod_reduction", cases.len() as u64, |i, loc| {
        let (n, w) = cases[i as usize];
        let m = 1u64 << w;
        let got = signed_mod_reduction(n, m);
        let t = (n % m) as i128;
        let want = if t >= (m / 2) as i128 { t - m as i128 } else { t };
        loc.check(got as i128 == want, || format!("signed_mod_reduction({n}, 2^{w}) = {got} want {want}"));
    });
}

fn bit_iter_slices(ctx: &mut Ctx) {
    // slices of 0..3 limbs incl. all-zero
    let mut cases: Vec<Vec<u64>> = vec![vec![]];
    for nl in 1..=3usize {
        let n = 4u64.pow(nl as u32);
        for i in 0..n {
            cases.push(unrank_vec(i, &vec![4u64; nl]).iter().map(|k| [0u64, 1, 1 << 63, GENERIC64][*k as usize]).collect());
        }
    }
    ctx.sweep("bit_iterators_on_slices", cases.len() as u64, |i, loc| {
        let s = &cases[i as usize];
        let v = from_limbs(s);
        let total = 64 * s.len();
        let le: Vec<bool> = BitIteratorLE::new(&s[..]).collect();
        let be: Vec<bool> = BitIteratorBE::new(&s[..]).collect();
        let want_le: Vec<bool> = (0..total).map(|k| v.bit(k as u64)).collect();
        let mut want_be = want_le.clone();
        want_be.reverse();
        loc.check(le == want_le && be == want_be, || format!("BitIterator on {s:x?}"));
        let nb = v.bits() as usize;
        let wl: Vec<bool> = BitIteratorBE::without_leading_zeros(&s[..]).collect();
        let wt: Vec<bool> = BitIteratorLE::without_trailing_zeros(&s[..]).collect();
        loc.class_if(v.is_zero(), "all_zero_slice");
        loc.check(wl == want_be[total - nb..].to_vec(), || format!("BitIteratorBE::without_leading_zeros on {s:x?}: {} bits want {nb}", wl.len()));
        loc.check(wt == want_le[..nb].to_vec(), || format!("BitIteratorLE::without_trailing_zeros on {s:x?}: {} bits want {nb}", wt.len()));
    });
}

fn per_n<const N: usize>(ctx: &mut Ctx) {
    let quick = ctx.quick();
    let full = values::<N>(2);
    let small = values::<N>(1);
    unary_ops::<N>(ctx, &full);
    if N <= 3 {
        binary_ops::<N>(ctx, &full, &full, "all_pairs");
    } else if quick {
        binary_ops::<N>(ctx, &small, &small, "dev1_pairs");
    } else {
        binary_ops::<N>(ctx, &full, &small, "dev2xdev1");
        binary_ops::<N>(ctx, &small, &full, "dev1xdev2");
    }
    let sv = if N <= 2 { full.clone() } else { small.clone() };
    shift_ops::<N>(ctx, if quick { &sv } else { &full });
    from_bits::<N>(ctx);
    from_str_syntax::<N>(ctx);
}

fn main() {
    let mut ctx = Ctx::from_args("C15");
    ctx.require(&[
        "carry_out",
        "borrow_out",
        "shift=0",
        "shift=63",
        "shift=64",
        "shift=65",
        "shift=64N-1",
        "shift>=64N",
        "limb_boundary_carry",
        "hi_product_nonzero",
        "naf:value_near_2^64N",
        "wnaf:value_near_2^64N",
        "naf:empty_slice",
        "num_bits:zero_top_limb",
        "limb_primitives:carry_out",
        "limb_primitives:borrow_out",
        "from_str:out_of_range",
        "relaxed:len<3",
        "wnaf:w>=32",
        "bits_longer_than_capacity",
    ]);
    ctx.assume("oracle: num_bigint::BigUint/BigInt arithmetic");
    ctx.bound("limb_counts", "1..=13");
    ctx.bound("values", "N<=3: all L10^N tuples; N=4: L4^4 + dev<=2(L10); N>=5: dev<=2 over {0..0, f..f} with L10");
    ctx.bound("pairs", if ctx.quick() { "N<=3 all ordered pairs; N>=4 dev<=1 x dev<=1" } else { "N<=3 all ordered pairs; N>=4 dev<=2 x dev<=1 both orders" });
    ctx.bound("shifts", "every n in 0..=64N+2 plus 2^31, u32::MAX");
    ctx.bound("wnaf_windows", "every w in 0..=66");
    ctx.bound("wnaf_values", "N=1,2,4,6 (thorough: 13): small integers, L10 products / dev<=2, limb boundaries, 2^(64N)-d (d<=300 quick / 2050), 2^(64N)-2^(w-1)+-1; N=13: edge set (dev<=1 over {0..0,f..f}, small, limb boundaries, 2^(64N)-d for d<=130 quick / 2050, 2^(64N)-2^(w-1)+-1)");
    ctx.bound("naf_slices", "0, 1, 2, 3, 4 and 6 limbs");
    ctx.bound("limb_primitives", "(a,b,c,carry) in {0,1,2,2^32-1,2^32,2^63,2^64-2,2^64-1}^4; flag-carry forms with carry in {0,1}");
    per_n::<1>(&mut ctx);
    per_n::<2>(&mut ctx);
    per_n::<3>(&mut ctx);
    per_n::<4>(&mut ctx);
    per_n::<5>(&mut ctx);
    per_n::<6>(&mut ctx);
    per_n::<7>(&mut ctx);
    per_n::<8>(&mut ctx);
    per_n::<9>(&mut ctx);
    per_n::<10>(&mut ctx);
    per_n::<11>(&mut ctx);
    per_n::<12>(&mut ctx);
    per_n::<13>(&mut ctx);
    from_prims(&mut ctx);
    limb_primitive_checks(&mut ctx);
    naf_checks(&mut ctx);
    wnaf_checks::<1>(&mut ctx, false);
    wnaf_checks::<2>(&mut ctx, false);
    wnaf_checks::<4>(&mut ctx, false);
    wnaf_checks::<6>(&mut ctx, false);
    wnaf_checks::<13>(&mut ctx, true);
    if ctx.thorough() {
        wnaf_checks::<13>(&mut ctx, false);
    }
    smr_checks(&mut ctx);
    bit_iter_slices(&mut ctx);
    std::process::exit(ctx.finish());
}
